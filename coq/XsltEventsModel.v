(* C01, mechanism (a): proofs about the pending-start-tag machine (XsltEventsDefs.v) *)
From Coq Require Import List NArith Bool Lia.
Require Import XV.XsltEventsDefs.
Import ListNotations.

Lemma str_eqb_refl : forall a, str_eqb a a = true.
Proof. induction a; simpl; auto. rewrite N.eqb_refl, IHa. reflexivity. Qed.

Lemma str_eqb_eq : forall a b, str_eqb a b = true <-> a = b.
Proof.
  induction a; destruct b; simpl; split; intros H; try discriminate; auto.
  - apply andb_true_iff in H. destruct H as [H1 H2]. apply N.eqb_eq in H1. apply IHa in H2. subst. reflexivity.
  - inversion H; subst. rewrite N.eqb_refl. simpl. apply str_eqb_refl.
Qed.

Lemma str_eqb_sym : forall a b, str_eqb a b = str_eqb b a.
Proof. induction a; destruct b; simpl; auto. rewrite N.eqb_sym, IHa. reflexivity. Qed.

(* ---- induction principles for the nested types ---- *)
Section RnodeInd.
  Variable P : rnode -> Prop.
  Hypothesis HE : forall n a ch, Forall P ch -> P (RElem n a ch).
  Hypothesis HT : forall s, P (RText s).
  Hypothesis HC : forall s, P (RComment s).
  Hypothesis HP : forall t d, P (RPI t d).
  Fixpoint rnode_ind' (n : rnode) : P n :=
    match n with
    | RElem nm a ch => HE nm a ch ((fix go (l : list rnode) : Forall P l :=
                                     match l with [] => Forall_nil P | x :: r => Forall_cons x (rnode_ind' x) (go r) end) ch)
    | RText s => HT s
    | RComment s => HC s
    | RPI t d => HP t d
    end.
End RnodeInd.

Section ItemInd.
  Variable P : item -> Prop.
  Hypothesis HE : forall n pre body, Forall P body -> P (GElem n pre body).
  Hypothesis HA : forall n v, P (GAttr n v).
  Hypothesis HCA : forall n v, P (GCopyAttr n v).
  Hypothesis HT : forall s, P (GText s).
  Hypothesis HC : forall s, P (GComment s).
  Hypothesis HP : forall t d, P (GPI t d).
  Fixpoint item_ind' (i : item) : P i :=
    match i with
    | GElem n pre body => HE n pre body ((fix go (l : list item) : Forall P l :=
                                            match l with [] => Forall_nil P | x :: r => Forall_cons x (item_ind' x) (go r) end) body)
    | GAttr n v => HA n v
    | GCopyAttr n v => HCA n v
    | GText s => HT s
    | GComment s => HC s
    | GPI t d => HP t d
    end.
End ItemInd.

(* ---- serialisation of a tree to events and the parser round trip ---- *)
Fixpoint sax_of (n : rnode) : list sax :=
  match n with
  | RElem nm a ch => SaxStart nm a :: flat_map sax_of ch ++ [SaxEnd nm]
  | RText s => [SaxChars s]
  | RComment s => [SaxComment s]
  | RPI t d => [SaxPI t d]
  end.

Lemma build_go_list : forall l,
  Forall (fun n => forall rest stk cur, build_go (sax_of n ++ rest) stk cur = build_go rest stk (n :: cur)) l ->
  forall rest stk cur, build_go (flat_map sax_of l ++ rest) stk cur = build_go rest stk (rev l ++ cur).
Proof.
  induction 1; intros; simpl; auto.
  rewrite <- app_assoc. rewrite H. rewrite IHForall. rewrite <- app_assoc. reflexivity.
Qed.

Lemma build_go_sax_of : forall n rest stk cur,
  build_go (sax_of n ++ rest) stk cur = build_go rest stk (n :: cur).
Proof.
  induction n using rnode_ind'; intros; simpl; auto.
  rewrite <- app_assoc. rewrite (build_go_list ch H). simpl.
  rewrite str_eqb_refl. rewrite app_nil_r. rewrite rev_involutive. reflexivity.
Qed.

Lemma build_sax_of_list : forall t, build (flat_map sax_of t) = Some t.
Proof.
  intros. unfold build. rewrite <- (app_nil_r (flat_map sax_of t)).
  rewrite build_go_list.
  - simpl. rewrite app_nil_r, rev_involutive. reflexivity.
  - apply Forall_forall. intros. apply build_go_sax_of.
Qed.

(* ---- the accumulator of the specification ---- *)
Lemma spec_item_ch : forall strict i o a ch,
  spec_item strict i (o, a, ch) =
  match spec_item strict i (o, a, []) with (o', a', n) => (o', a', n ++ ch) end.
Proof.
  intros. destruct i; simpl.
  - destruct (fold_left _ body _) as [[? ?] ?]. reflexivity.
  - destruct o; reflexivity.
  - destruct o; reflexivity.
  - destruct (strict && negb (nonempty s)); reflexivity.
  - reflexivity.
  - reflexivity.
Qed.

Lemma spec_fold_ch : forall strict l o a ch,
  spec_fold strict l (o, a, ch) =
  match spec_fold strict l (o, a, []) with (o', a', n) => (o', a', n ++ ch) end.
Proof.
  unfold spec_fold. induction l; intros; simpl.
  - reflexivity.
  - rewrite (spec_item_ch strict a o a0 ch).
    destruct (spec_item strict a (o, a0, [])) as [[o1 a1] n1].
    rewrite (IHl o1 a1 (n1 ++ ch)). rewrite (IHl o1 a1 n1).
    destruct (fold_left (fun a j => spec_item strict j a) l (o1, a1, @nil rnode)) as [[o2 a2] n2]. rewrite app_assoc. reflexivity.
Qed.

Lemma spec_item_closed2 : forall strict i a ch, exists ch', spec_item strict i (false, a, ch) = (false, a, ch').
Proof.
  intros. destruct i; simpl; eauto.
  - destruct (fold_left _ body _) as [[? ?] ?]. eauto.
  - destruct (strict && negb (nonempty s)); eauto.
Qed.

Lemma spec_fold_closed2 : forall strict l a ch, exists ch', spec_fold strict l (false, a, ch) = (false, a, ch').
Proof.
  unfold spec_fold. induction l; intros; simpl; eauto.
  destruct (spec_item_closed2 strict a a0 ch) as [c1 E]. rewrite E. apply IHl.
Qed.

Lemma spec_item_closed : forall strict i a ch,
  spec_item strict i (false, a, ch) =
  match spec_item strict i (false, [], ch) with (_, _, ch') => (false, a, ch') end.
Proof.
  intros. destruct i; simpl; try reflexivity.
  - destruct (fold_left _ body _) as [[? ?] ?]. reflexivity.
  - destruct (strict && negb (nonempty s)); reflexivity.
Qed.

Lemma spec_fold_closed : forall strict l a ch,
  spec_fold strict l (false, a, ch) =
  match spec_fold strict l (false, [], ch) with (_, _, ch') => (false, a, ch') end.
Proof.
  unfold spec_fold. induction l; intros; simpl.
  - reflexivity.
  - rewrite (spec_item_closed strict a a0 ch).
    destruct (spec_item_closed2 strict a [] ch) as [c1 E].
    unfold acc, attrs in *. rewrite E.
    rewrite (IHl a0 c1). reflexivity.
Qed.

(* ---- running the machine ---- *)
Lemma run_ops_app : forall a b s, run_ops (a ++ b) s = run_ops b (run_ops a s).
Proof. intros. unfold run_ops. apply fold_left_app. Qed.

Lemma run_pre_attrs : forall pre n a o, nonempty n = true ->
  run_ops (map (fun p => IAttr (fst p) (snd p)) pre) (mkE n a o) =
  mkE n (fold_left (fun a p => add_attr (fst p) (snd p) a) pre a) o.
Proof.
  induction pre; intros; simpl; auto.
  unfold pending. simpl. rewrite H. unfold eng_add_attr. simpl. apply IHpre. auto.
Qed.

Definition item_prop (i : item) : Prop :=
  names_ok i = true -> forall s, inv s ->
  match spec_item false i (pending s, pattrs s, []) with
  | (o', a', new) =>
      if o' then pending s = true /\ new = [] /\ run_ops (ops_of_item i) s = mkE (pname s) a' (out s)
      else run_ops (ops_of_item i) s =
           mkE [] [] (rev (flat_map sax_of (rev new)) ++ out (eng_flush (mkE (pname s) a' (out s))))
  end.

Definition body_prop (l : list item) : Prop :=
  forallb names_ok l = true -> forall s, inv s ->
  match spec_fold false l (pending s, pattrs s, []) with
  | (o', a', new) =>
      if o' then pending s = true /\ new = [] /\ run_ops (ops_of l) s = mkE (pname s) a' (out s)
      else run_ops (ops_of l) s =
           mkE [] [] (rev (flat_map sax_of (rev new)) ++ out (eng_flush (mkE (pname s) a' (out s))))
  end.

Lemma flush_not_pending : forall a o, eng_flush (mkE [] a o) = mkE [] a o.
Proof. reflexivity. Qed.

Lemma eng_end_pending : forall m n a o, nonempty n = true ->
  eng_end m (mkE n a o) = mkE [] [] (SaxEnd m :: SaxStart n a :: o).
Proof. intros. unfold eng_end, eng_flush, pending. simpl. rewrite H. reflexivity. Qed.

Lemma eng_end_notpending : forall m a o, eng_end m (mkE [] a o) = mkE [] a (SaxEnd m :: o).
Proof. reflexivity. Qed.

Lemma eng_flush_pending : forall n a o, nonempty n = true -> eng_flush (mkE n a o) = mkE [] [] (SaxStart n a :: o).
Proof. intros. unfold eng_flush, pending. simpl. rewrite H. reflexivity. Qed.

Lemma body_from_items : forall l, Forall item_prop l -> body_prop l.
Proof.
  induction 1 as [|i l Hi Hl IH]; unfold body_prop; intros Hn s Hinv.
  - simpl. destruct s as [pn pa o]. unfold pending; simpl. destruct (nonempty pn) eqn:E.
    + auto.
    + destruct pn; try discriminate. unfold inv in Hinv. simpl in Hinv. rewrite Hinv by reflexivity. reflexivity.
  - simpl in Hn. apply andb_true_iff in Hn. destruct Hn as [Hn1 Hn2].
    unfold ops_of. simpl. rewrite run_ops_app. fold (ops_of l).
    unfold spec_fold. simpl. fold (spec_fold false l).
    specialize (Hi Hn1 s Hinv).
    destruct (spec_item false i (pending s, pattrs s, [])) as [[o1 a1] n1].
    destruct o1.
    + destruct Hi as [Hp [Hnew Hrun]]. subst n1. rewrite Hrun.
      assert (Hinv1 : inv (mkE (pname s) a1 (out s))).
      { unfold inv; simpl. intros E. unfold pending in Hp. rewrite E in Hp. discriminate. }
      specialize (IH Hn2 _ Hinv1). unfold pending in IH |- *. simpl in IH.
      unfold pending in Hp. rewrite Hp in IH.
      unfold spec_fold in *. rewrite Hp.
      destruct (fold_left (fun a j => spec_item false j a) l (true, a1, @nil rnode)) as [[o2 a2] n2]. exact IH.
    + rewrite Hi.
      set (s1 := mkE [] [] (rev (flat_map sax_of (rev n1)) ++ out (eng_flush (mkE (pname s) a1 (out s))))).
      assert (Hinv1 : inv s1) by (unfold inv; reflexivity).
      specialize (IH Hn2 s1 Hinv1).
      unfold pending, s1 in IH. cbn [pname pattrs out nonempty] in IH. fold s1 in IH.
      change (fold_left (fun (a : acc) (j : item) => spec_item false j a) l (false, a1, n1)) with (spec_fold false l (false, a1, n1)).
      rewrite (spec_fold_ch false l false a1 n1).
      rewrite (spec_fold_closed false l a1 []).
      destruct (spec_fold_closed2 false l [] []) as [c E3].
      unfold acc, attrs in *. rewrite E3 in IH. rewrite E3. cbv iota beta.
      rewrite IH. rewrite flush_not_pending. cbn [out].
      rewrite rev_app_distr. rewrite flat_map_app. rewrite rev_app_distr. rewrite <- app_assoc. reflexivity.
Qed.

Lemma item_lemma : forall i, item_prop i.
Proof.
  induction i as [n pre body H|n v|n v|tx|tx|tg dt] using item_ind'; unfold item_prop; intros Hn s Hinv.
  - (* element *)
    simpl in Hn. apply andb_true_iff in Hn. destruct Hn as [Hnn Hnb].
    pose proof (body_from_items body H) as HB.
    cbn [spec_item ops_of_item].
    change (IStart n :: map (fun p => IAttr (fst p) (snd p)) pre ++ flat_map ops_of_item body ++ [IEnd n])
      with ([IStart n] ++ map (fun p => IAttr (fst p) (snd p)) pre ++ ops_of body ++ [IEnd n]).
    rewrite !run_ops_app.
    assert (Hs0 : run_ops [IStart n] s = mkE n [] (out (eng_flush s))).
    { simpl. unfold eng_start. f_equal. unfold eng_flush. destruct (pending s) eqn:E; simpl; auto.
      apply Hinv. unfold pending in E. destruct (pname s); auto; discriminate. }
    rewrite Hs0. rewrite run_pre_attrs by assumption.
    set (a0 := fold_left (fun a p => add_attr (fst p) (snd p) a) pre []).
    set (s1 := mkE n a0 (out (eng_flush s))).
    assert (Hinv1 : inv s1). { unfold inv, s1; simpl. intros E. rewrite E in Hnn. discriminate. }
    specialize (HB Hnb s1 Hinv1). unfold pending in HB; simpl in HB. rewrite Hnn in HB.
    fold (spec_fold false body (true, a0, [])).
    destruct (spec_fold false body (true, a0, [])) as [[o' a'] n'].
    assert (Hfl : out (eng_flush (mkE (pname s) (pattrs s) (out s))) = out (eng_flush s)) by (destruct s; reflexivity).
    destruct o'.
    + destruct HB as [_ [Hn' Hrun]]. subst n'. rewrite Hrun.
      cbn [run_ops fold_left step]. rewrite eng_end_pending by assumption.
      rewrite Hfl. reflexivity.
    + rewrite HB. cbn [run_ops fold_left step]. rewrite eng_end_notpending.
      rewrite eng_flush_pending by assumption. cbn [out].
      rewrite Hfl. cbn [rev flat_map sax_of app]. rewrite app_nil_r. rewrite rev_app_distr. cbn [rev app].
      rewrite <- app_assoc. reflexivity.
  - (* xsl:attribute *)
    simpl. destruct (pending s) eqn:E.
    + split; auto.
    + unfold pending in E. destruct s as [pn pa o]; simpl in *. destruct pn; try discriminate.
      unfold inv in Hinv; simpl in Hinv. rewrite Hinv by reflexivity. reflexivity.
  - simpl. destruct (pending s) eqn:E.
    + split; auto.
    + unfold pending in E. destruct s as [pn pa o]; simpl in *. destruct pn; try discriminate.
      unfold inv in Hinv; simpl in Hinv. rewrite Hinv by reflexivity. reflexivity.
  - simpl. unfold eng_chars. destruct s as [pn pa o]; unfold eng_flush, pending; simpl. destruct pn; simpl.
    + unfold inv in Hinv; simpl in Hinv. rewrite Hinv by reflexivity. reflexivity.
    + reflexivity.
  - simpl. unfold eng_comment. destruct s as [pn pa o]; unfold eng_flush, pending; simpl. destruct pn; simpl.
    + unfold inv in Hinv; simpl in Hinv. rewrite Hinv by reflexivity. reflexivity.
    + reflexivity.
  - simpl. unfold eng_pi. destruct s as [pn pa o]; unfold eng_flush, pending; simpl. destruct pn; simpl.
    + unfold inv in Hinv; simpl in Hinv. rewrite Hinv by reflexivity. reflexivity.
    + reflexivity.
Qed.

Lemma body_lemma : forall l, body_prop l.
Proof. intros. apply body_from_items. apply Forall_forall. intros. apply item_lemma. Qed.

Lemma events_of_spec : forall l, forallb names_ok l = true ->
  events_of (ops_of l) = flat_map sax_of (spec_tree false l).
Proof.
  intros l Hn. pose proof (body_lemma l Hn e_init) as H.
  assert (Hi : inv e_init) by (unfold inv; reflexivity). specialize (H Hi).
  unfold pending in H; cbn [pname pattrs out e_init nonempty] in H. unfold spec_tree.
  destruct (spec_fold_closed2 false l [] []) as [c E3].
  unfold acc, attrs in *. rewrite E3 in H. rewrite E3. cbv iota beta in H.
  unfold events_of. rewrite H. unfold eng_finish. rewrite flush_not_pending. cbn [out].
  rewrite app_nil_r. rewrite rev_involutive. reflexivity.
Qed.

(* 1. the tree built through the pending machine = direct construction (as coded: any characters
      event closes the start tag), for every item tree: late, top-level and duplicate attributes included *)
Theorem pending_machine_builds_tree_thm : forall l, forallb names_ok l = true ->
  machine_tree (ops_of l) = Some (spec_tree false l).
Proof.
  intros. unfold machine_tree. rewrite events_of_spec by assumption. apply build_sax_of_list.
Qed.

(* 2. the Recommendation's reading *)
Lemma spec_strict_eq : forall i, no_empty_text i = true -> forall st, spec_item true i st = spec_item false i st.
Proof.
  induction i using item_ind'; intros Hne st; destruct st as [[o a] ch]; simpl in *; try reflexivity.
  - assert (forall st0, fold_left (fun a j => spec_item true j a) body st0 = fold_left (fun a j => spec_item false j a) body st0).
    { clear -H Hne. induction H; intros; simpl; auto. simpl in Hne. apply andb_true_iff in Hne. destruct Hne.
      rewrite H by assumption. apply IHForall. assumption. }
    rewrite H0. reflexivity.
  - rewrite Hne. reflexivity.
Qed.

Lemma spec_tree_strict_eq : forall l, forallb no_empty_text l = true -> spec_tree true l = spec_tree false l.
Proof.
  intros. unfold spec_tree, spec_fold.
  assert (forall st0, fold_left (fun a j => spec_item true j a) l st0 = fold_left (fun a j => spec_item false j a) l st0).
  { induction l; intros; simpl; auto. simpl in H. apply andb_true_iff in H. destruct H.
    rewrite spec_strict_eq by assumption. apply IHl. assumption. }
  rewrite H0. reflexivity.
Qed.

Theorem pending_machine_builds_tree_rec_partial_thm : forall l,
  forallb names_ok l = true -> forallb no_empty_text l = true ->
  option_map canon_list (machine_tree (ops_of l)) = Some (canon_list (spec_tree true l)).
Proof.
  intros. rewrite pending_machine_builds_tree_thm by assumption. simpl.
  rewrite spec_tree_strict_eq by assumption. reflexivity.
Qed.

Definition rec_witness : list item := [GElem [114%N] [] [GText []; GAttr [108%N] [118%N]]].

Theorem pending_machine_builds_tree_rec_refuted_thm :
  forallb names_ok rec_witness = true /\
  option_map canon_list (machine_tree (ops_of rec_witness)) <> Some (canon_list (spec_tree true rec_witness)).
Proof. split; [reflexivity | vm_compute; discriminate]. Qed.

(* 3. the guard of the instruction layer is what keeps attributes on their own element *)
Lemma step_inv : forall o s, no_raw o = true -> inv s -> inv (step o s).
Proof.
  intros o s Hr Hi. destruct o; simpl in *; try discriminate; unfold inv in *; simpl.
  - unfold eng_start, eng_flush. destruct (pending s) eqn:E; simpl; intros; auto.
    apply Hi. unfold pending in E. destruct (pname s); auto; discriminate.
  - destruct (pending s) eqn:E; simpl; auto. intros E2. unfold pending in E. rewrite E2 in E. discriminate.
  - destruct (pending s) eqn:E; simpl; auto. intros E2. unfold pending in E. rewrite E2 in E. discriminate.
  - unfold eng_chars, eng_flush. destruct (pending s); simpl; auto.
  - unfold eng_comment, eng_flush. destruct (pending s); simpl; auto.
  - unfold eng_pi, eng_flush. destruct (pending s); simpl; auto.
  - unfold eng_end, eng_flush. destruct (pending s); simpl; auto.
Qed.

Theorem guarded_ops_keep_inv_thm : forall ops, forallb no_raw ops = true -> inv (run_ops ops e_init).
Proof.
  intros ops. unfold run_ops.
  assert (forall s, inv s -> forallb no_raw ops = true -> inv (fold_left (fun s o => step o s) ops s)).
  { induction ops; intros; simpl; auto. simpl in H0. apply andb_true_iff in H0. destruct H0.
    apply IHops; auto. apply step_inv; auto. }
  intros. apply H; auto. unfold inv; reflexivity.
Qed.

Definition raw_witness : list iop :=
  [IStart [97%N]; IChars [116%N]; IRawAttr [108%N] [118%N]; IStart [98%N]; IEnd [98%N]; IEnd [97%N]].

Theorem raw_attribute_leaks_refuted_thm :
  machine_tree raw_witness = Some [RElem [97%N] [] [RText [116%N]; RElem [98%N] [([108%N], [118%N])] []]].
Proof. vm_compute. reflexivity. Qed.

(* 4. text is never lost or reordered, for every op sequence (ill-nested ones included) *)
Lemma chars_flush : forall s, chars_of_sax (rev (out (eng_flush s))) = chars_of_sax (rev (out s)).
Proof.
  intros. unfold eng_flush. destruct (pending s); simpl; auto.
  assert (forall l x, (forall t, x <> SaxChars t) -> chars_of_sax (l ++ [x]) = chars_of_sax l).
  { induction l; intros; simpl. destruct x; auto. exfalso. eapply H; reflexivity.
    destruct a; rewrite IHl; auto. }
  apply H. intros t E; discriminate.
Qed.

Lemma chars_snoc : forall l t, chars_of_sax (l ++ [SaxChars t]) = chars_of_sax l ++ t.
Proof.
  induction l; intros; simpl. apply app_nil_r. destruct a; rewrite IHl; auto. rewrite app_assoc. reflexivity.
Qed.

Lemma chars_snoc_other : forall l x, (forall t, x <> SaxChars t) -> chars_of_sax (l ++ [x]) = chars_of_sax l.
Proof.
  induction l; intros; simpl. destruct x; auto. exfalso. eapply H; reflexivity.
  destruct a; rewrite IHl; auto.
Qed.

Lemma chars_step : forall o s,
  chars_of_sax (rev (out (step o s))) = chars_of_sax (rev (out s)) ++ chars_of_ops [o].
Proof.
  intros. destruct o; simpl; rewrite ?app_nil_r.
  - unfold eng_start. simpl. apply chars_flush.
  - destruct (pending s); reflexivity.
  - destruct (pending s); reflexivity.
  - reflexivity.
  - unfold eng_chars. simpl. rewrite chars_snoc. rewrite chars_flush. reflexivity.
  - unfold eng_comment. simpl. rewrite chars_snoc_other by (intros t E; discriminate). apply chars_flush.
  - unfold eng_pi. simpl. rewrite chars_snoc_other by (intros t0 E; discriminate). apply chars_flush.
  - unfold eng_end. simpl. rewrite chars_snoc_other by (intros t E; discriminate). apply chars_flush.
Qed.

Lemma chars_of_ops_app : forall a b, chars_of_ops (a ++ b) = chars_of_ops a ++ chars_of_ops b.
Proof. induction a; intros; simpl; auto. destruct a; rewrite IHa; auto. rewrite app_assoc. reflexivity. Qed.

Theorem text_never_lost_or_reordered_thm : forall ops, chars_of_sax (events_of ops) = chars_of_ops ops.
Proof.
  intros. unfold events_of, eng_finish. rewrite chars_flush.
  assert (forall s, chars_of_sax (rev (out (run_ops ops s))) = chars_of_sax (rev (out s)) ++ chars_of_ops ops).
  { unfold run_ops. induction ops; intros; simpl. rewrite app_nil_r; auto.
    rewrite IHops. rewrite chars_step. rewrite <- app_assoc. f_equal.
    destruct a; simpl; rewrite ?app_nil_r; auto. }
  rewrite H. reflexivity.
Qed.

(* 5. duplicate attribute names: last value wins, first position is kept *)
Lemma last_val_app : forall n l1 l2 d, last_val n (l1 ++ l2) d = last_val n l2 (last_val n l1 d).
Proof. induction l1; intros; simpl; auto. destruct a. apply IHl1. Qed.

Lemma first_names_snoc : forall l seen n v,
  first_names (l ++ [(n, v)]) seen =
  if mem_name n seen || mem_name n (first_names l seen) then first_names l seen else first_names l seen ++ [n].
Proof.
  induction l; intros; simpl.
  - destruct (mem_name n seen); reflexivity.
  - destruct a as [n0 v0]. destruct (mem_name n0 seen) eqn:E.
    + apply IHl.
    + rewrite IHl. simpl.
      destruct (str_eqb n0 n); destruct (mem_name n seen); destruct (mem_name n (first_names l (n0 :: seen))); reflexivity.
Qed.

Lemma add_attr_spec : forall names n v (f : str -> str), NoDup names ->
  add_attr n v (map (fun x => (x, f x)) names) =
  if mem_name n names then map (fun x => (x, if str_eqb x n then v else f x)) names
  else map (fun x => (x, f x)) names ++ [(n, v)].
Proof.
  induction names; intros; simpl; auto.
  inversion H; subst. destruct (str_eqb a n) eqn:E; simpl.
  - f_equal. apply str_eqb_eq in E. subst.
    assert (forall l, ~ In n l -> map (fun x => (x, f x)) l = map (fun x => (x, if str_eqb x n then v else f x)) l).
    { induction l; intros; simpl; auto. rewrite IHl by (intros X; apply H0; right; auto).
      destruct (str_eqb a n) eqn:E3; auto. apply str_eqb_eq in E3. subst. exfalso. apply H0. left; auto. }
    apply H0. assumption.
  - rewrite IHnames by assumption. destruct (mem_name n names); reflexivity.
Qed.

Lemma mem_name_in : forall n l, mem_name n l = true <-> In n l.
Proof.
  induction l; simpl; split; intros; try discriminate; try contradiction.
  - apply orb_true_iff in H. destruct H. left. apply str_eqb_eq; auto. right. apply IHl; auto.
  - apply orb_true_iff. destruct H. left. subst. apply str_eqb_refl. right. apply IHl; auto.
Qed.

Lemma first_names_nodup : forall l seen, NoDup (first_names l seen) /\ (forall x, In x (first_names l seen) -> ~ In x seen).
Proof.
  induction l; intros; simpl.
  - split. constructor. intros; contradiction.
  - destruct a as [n v]. destruct (mem_name n seen) eqn:E.
    + apply IHl.
    + destruct (IHl (n :: seen)) as [H1 H2]. split.
      * constructor; auto. intros X. apply H2 in X. apply X. left; auto.
      * intros x [Hx | Hx].
        -- subst. intros X. apply mem_name_in in X. rewrite X in E. discriminate.
        -- apply H2 in Hx. intros X. apply Hx. right; auto.
Qed.

Theorem duplicate_attribute_last_wins_thm : forall l,
  fold_left (fun a p => add_attr (fst p) (snd p) a) l [] = dedup_last_keep_pos l.
Proof.
  intros l. pattern l. apply rev_ind; clear l.
  - reflexivity.
  - intros [n v] l IH. rewrite fold_left_app. simpl. rewrite IH. unfold dedup_last_keep_pos.
    destruct (first_names_nodup l []) as [Hnd _].
    rewrite add_attr_spec by assumption.
    rewrite first_names_snoc. simpl.
    destruct (mem_name n (first_names l [])) eqn:E.
    + apply map_ext. intros x. rewrite last_val_app. simpl. rewrite (str_eqb_sym n x). reflexivity.
    + rewrite map_app. simpl. f_equal.
      * apply map_ext_in. intros x Hx. rewrite last_val_app. simpl.
        destruct (str_eqb n x) eqn:E2; auto. apply str_eqb_eq in E2. subst.
        apply mem_name_in in Hx. rewrite Hx in E. discriminate.
      * rewrite last_val_app. simpl. rewrite str_eqb_refl. reflexivity.
Qed.

(* the delivered attribute list of an element whose attributes are all added while its start tag is pending *)
Theorem pending_attributes_delivered_thm : forall n l, nonempty n = true ->
  events_of (IStart n :: map (fun p => IAttr (fst p) (snd p)) l ++ [IEnd n]) =
  [SaxStart n (dedup_last_keep_pos l); SaxEnd n].
Proof.
  intros. unfold events_of.
  change (IStart n :: map (fun p => IAttr (fst p) (snd p)) l ++ [IEnd n])
    with ([IStart n] ++ map (fun p => IAttr (fst p) (snd p)) l ++ [IEnd n]).
  rewrite !run_ops_app. simpl run_ops at 3. unfold eng_start. simpl.
  rewrite run_pre_attrs by assumption. rewrite duplicate_attribute_last_wins_thm.
  cbn [run_ops fold_left step]. rewrite eng_end_pending by assumption. reflexivity.
Qed.
