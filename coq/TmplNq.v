(* TmplNq.v — C10: the conflict-reporting ("non-quiet") path of findTemplate (scan by table
   priority, same-template skip, conflict array) against the quiet path. *)
From Coq Require Import List Bool ZArith NArith Lia Sorting.Sorted.
From Coq Require Import ZifyBool ZifyNat ZifyN.
Require Import XV.TmplDefs XV.TmplModel XV.TmplSelect.
Import ListNotations.
Local Open Scope Z_scope.

(* the decidable equalities are equalities *)
Lemma score_eqb_eq : forall a b, score_eqb a b = true -> a = b.
Proof. destruct a, b; cbn; intro H; try discriminate; reflexivity. Qed.

Lemma tname_eqb_eq : forall a b, tname_eqb a b = true -> a = b.
Proof.
  destruct a, b; cbn; intro H; try discriminate; try reflexivity.
  apply N.eqb_eq in H. subst. reflexivity.
Qed.

Lemma ttype_eqb_eq : forall a b, ttype_eqb a b = true -> a = b.
Proof. destruct a, b; cbn; intro H; try discriminate; reflexivity. Qed.

Lemma alt_eqb_eq : forall a b, alt_eqb a b = true -> a = b.
Proof.
  intros [p1 [n1 t1] s1] [p2 [n2 t2] s2]. unfold alt_eqb. cbn. intro H.
  apply andb_true_iff in H. destruct H as [H Hs].
  apply andb_true_iff in H. destruct H as [H Ht].
  apply andb_true_iff in H. destruct H as [Hp Hn].
  apply N.eqb_eq in Hp. apply tname_eqb_eq in Hn. apply ttype_eqb_eq in Ht. apply score_eqb_eq in Hs.
  subst. reflexivity.
Qed.

Lemma alts_eqb_eq : forall l1 l2, alts_eqb l1 l2 = true -> l1 = l2.
Proof.
  induction l1 as [|a r IH]; destruct l2 as [|b r2]; cbn; intro H; try discriminate; [reflexivity|].
  apply andb_true_iff in H. destruct H as [Ha Hr].
  apply alt_eqb_eq in Ha. apply IH in Hr. subst. reflexivity.
Qed.

Lemma mode_eqb_eq : forall a b, mode_eqb a b = true -> a = b.
Proof. destruct a, b; cbn; intro H; try discriminate; try reflexivity. apply N.eqb_eq in H. subst. reflexivity. Qed.

Lemma opt_z_eqb_eq : forall a b, opt_z_eqb a b = true -> a = b.
Proof. destruct a, b; cbn; intro H; try discriminate; try reflexivity. f_equal; lia. Qed.

Lemma template_eqb_eq : forall t1 t2, template_eqb t1 t2 = true -> t1 = t2.
Proof.
  intros [i1 m1 p1 a1] [i2 m2 p2 a2]. unfold template_eqb. cbn. intro H.
  apply andb_true_iff in H. destruct H as [H Ha].
  apply andb_true_iff in H. destruct H as [H Hp].
  apply andb_true_iff in H. destruct H as [Hi Hm].
  apply N.eqb_eq in Hi. apply mode_eqb_eq in Hm. apply opt_z_eqb_eq in Hp. apply alts_eqb_eq in Ha.
  subst. reflexivity.
Qed.

Section Nq.
  Variable node : Type.
  Variable pmatch : N -> node -> bool.
  Variable pa : bool.

  Notation ematch := (ematch node pmatch pa).
  Notation ok := (ok node pmatch pa).
  Notation nq_step := (nq_step node pmatch pa).

  Fixpoint first_ok (mode : option N) (n : node) (l : list entry) : option entry :=
    match l with
    | [] => None
    | e :: r => if ok mode n e then Some e else first_ok mode n r
    end.

  Lemma find_in_list_first_ok : forall l mode n,
    find_in_list node pmatch pa l mode n = option_map e_tmpl (first_ok mode n l).
  Proof.
    induction l as [|e r IH]; intros; cbn [TmplDefs.find_in_list first_ok]; [reflexivity|].
    unfold TmplSelect.ok. destruct (mode_eqb mode (t_mode (e_tmpl e)) && ematch e n); [reflexivity | apply IH].
  Qed.

  Lemma first_ok_app : forall mode n l e,
    first_ok mode n (l ++ [e]) =
    match first_ok mode n l with Some f => Some f | None => if ok mode n e then Some e else None end.
  Proof.
    induction l as [|x r IH]; intros; cbn [app first_ok]; [reflexivity|].
    destruct (ok mode n x); [reflexivity | apply IH].
  Qed.

  Lemma first_ok_in : forall mode n l f, first_ok mode n l = Some f -> In f l /\ ok mode n f = true.
  Proof.
    induction l as [|x r IH]; intros f H; cbn [first_ok] in H; [discriminate|].
    destruct (ok mode n x) eqn:E.
    - inversion H; subst. split; [left; reflexivity | exact E].
    - destruct (IH f H). split; [right; assumption | assumption].
  Qed.

  Lemma first_ok_none : forall mode n l p, first_ok mode n l = None -> In p l -> ok mode n p = false.
  Proof.
    induction l as [|x r IH]; intros p Ef Hp; [destruct Hp|].
    cbn [first_ok] in Ef. destruct (ok mode n x) eqn:Ex; [discriminate|].
    destruct Hp as [<-|Hr]; [exact Ex | apply IH; assumption].
  Qed.

  Definition nq_inv (mode : option N) (n : node) (st : nq_state) (pre : list entry) : Prop :=
    match first_ok mode n pre with
    | None => nq_best st = None /\ nq_conf st = []
    | Some f => exists b, nq_best st = Some (b, prio_or_default f) /\
                          match nq_conf st with [] => b = f | c :: _ => c = f end
    end /\
    (forall p m, nq_prev st = Some (p, m) ->
       In p pre /\ mode_eqb mode (t_mode (e_tmpl p)) = true /\ (m = true -> ok mode n p = true)).

  Definition skip_test (st : nq_state) (e : entry) : bool :=
    match nq_prev st with
    | Some (p, m) => template_eqb (e_tmpl p) (e_tmpl e) && (negb pa || m)
    | None => false
    end.

  Definition nq_exam (n : node) (st : nq_state) (e : entry) : nq_state :=
    if ematch e n then
        let pr := prio_or_default e in
        match nq_best st with
        | None => {| nq_best := Some (e, pr); nq_conf := []; nq_prev := Some (e, true) |}
        | Some (b, pb) =>
            if pb <? pr then {| nq_best := Some (e, pr); nq_conf := []; nq_prev := Some (e, true) |}
            else if pr =? pb then
              {| nq_best := Some (e, pr);
                 nq_conf := conf_add_if_absent (nq_conf st) b ++ [e];
                 nq_prev := Some (e, true) |}
            else {| nq_best := nq_best st; nq_conf := nq_conf st; nq_prev := Some (e, true) |}
        end
    else {| nq_best := nq_best st; nq_conf := nq_conf st; nq_prev := Some (e, false) |}.

  Lemma nq_step_unfold : forall mode n st e,
    nq_step mode n st e =
    if negb (mode_eqb mode (t_mode (e_tmpl e))) then st
    else if skip_test st e then st else nq_exam n st e.
  Proof. reflexivity. Qed.

  Lemma nq_exam_inv : forall mode n st pre e,
    nq_inv mode n st pre ->
    (forall x, In x pre -> ge_entry x e) ->
    mode_eqb mode (t_mode (e_tmpl e)) = true ->
    nq_inv mode n (nq_exam n st e) (pre ++ [e]).
  Proof.
    intros mode n st pre e [Hb Hp] Hge Em. unfold nq_inv. rewrite first_ok_app.
    assert (He : In e (pre ++ [e])) by (apply in_app_iff; right; left; reflexivity).
    assert (Hoke : ok mode n e = ematch e n) by (unfold TmplSelect.ok; rewrite Em; reflexivity).
    unfold nq_exam. rewrite Hoke.
    destruct (ematch e n) eqn:Ea.
    2:{ cbn [nq_best nq_conf nq_prev]. split.
      - destruct (first_ok mode n pre); exact Hb.
      - intros p m Hpp. inversion Hpp; subst. split; [exact He|]. split; [exact Em | discriminate]. }
    cbv zeta.
    assert (Hprev : forall p m, Some (e, true) = Some (p, m) ->
              In p (pre ++ [e]) /\ mode_eqb mode (t_mode (e_tmpl p)) = true /\ (m = true -> ok mode n p = true)).
    { intros p m Hpp. inversion Hpp; subst. split; [exact He|]. split; [exact Em|]. intros _. rewrite Hoke. reflexivity. }
    destruct (first_ok mode n pre) as [f|] eqn:Ef.
    - destruct Hb as [b [Hbest Hconf]]. rewrite Hbest.
      destruct (first_ok_in _ _ _ _ Ef) as [Hfin _].
      pose proof (Hge f Hfin) as Hfe. unfold ge_entry in Hfe.
      destruct (prio_or_default f <? prio_or_default e) eqn:E1; [lia|].
      destruct (prio_or_default e =? prio_or_default f) eqn:E2.
      + cbn [nq_best nq_conf nq_prev]. split; [|exact Hprev].
        exists e. split; [f_equal; f_equal; lia|].
        unfold conf_add_if_absent. destruct (nq_conf st) as [|c r] eqn:Ec.
        * cbn. subst b. reflexivity.
        * destruct (existsb (fun x => (e_pos x =? e_pos b)%N) (c :: r)); cbn; exact Hconf.
      + cbn [nq_best nq_conf nq_prev]. split; [|exact Hprev].
        exists b. split; [reflexivity | exact Hconf].
    - destruct Hb as [Hbest Hconf]. rewrite Hbest. cbn [nq_best nq_conf nq_prev]. split; [|exact Hprev].
      exists e. split; reflexivity.
  Qed.

  Lemma nq_step_inv : forall mode n st pre e,
    nq_inv mode n st pre ->
    (forall x, In x pre -> ge_entry x e) ->
    nq_inv mode n (nq_step mode n st e) (pre ++ [e]).
  Proof.
    intros mode n st pre e Hi Hge. rewrite nq_step_unfold.
    assert (Hin : forall x, In x pre -> In x (pre ++ [e])) by (intros; apply in_app_iff; left; assumption).
    destruct (mode_eqb mode (t_mode (e_tmpl e))) eqn:Em; cbn [negb].
    2:{ destruct Hi as [Hb Hp]. unfold nq_inv. rewrite first_ok_app.
      assert (Hok : ok mode n e = false) by (unfold TmplSelect.ok; rewrite Em; reflexivity).
      rewrite Hok. split.
      - destruct (first_ok mode n pre); exact Hb.
      - intros p m Hpp. destruct (Hp p m Hpp) as (h1 & h2 & h3). auto. }
    destruct (skip_test st e) eqn:Es; [|apply nq_exam_inv; assumption].
    (* skipped: the previously examined entry belongs to the same template *)
    destruct Hi as [Hb Hp]. unfold nq_inv. rewrite first_ok_app.
    unfold skip_test in Es. destruct (nq_prev st) as [[p m]|] eqn:Ep; [|discriminate].
    apply andb_true_iff in Es. destruct Es as [Et Ev].
    apply template_eqb_eq in Et.
    destruct (Hp p m eq_refl) as (Hpin & Hpm & Hpok).
    split.
    - destruct (first_ok mode n pre) eqn:Ef; [exact Hb|].
      pose proof (first_ok_none _ _ _ _ Ef Hpin) as Hokp.
      destruct pa eqn:Epa.
      + (* per-alternative: the previous entry matched, so there is a first hit already *)
        cbn in Ev. subst m. rewrite (Hpok eq_refl) in Hokp. discriminate.
      + (* whole pattern: the same test again *)
        unfold TmplSelect.ok, TmplDefs.ematch in Hokp |- *. rewrite Et in Hokp. rewrite Hokp. exact Hb.
    - intros q mq Hq. destruct (Hp q mq Hq) as (h1 & h2 & h3). auto.
  Qed.

  Lemma nq_fold_inv : forall mode n l pre st,
    nq_inv mode n st pre -> StronglySorted ge_entry (pre ++ l) ->
    nq_inv mode n (fold_left (nq_step mode n) l st) (pre ++ l).
  Proof.
    induction l as [|e r IH]; intros pre st Hi Hs; cbn [fold_left].
    - rewrite app_nil_r. exact Hi.
    - replace (pre ++ e :: r) with ((pre ++ [e]) ++ r) in * by (rewrite <- app_assoc; reflexivity).
      apply IH; [|exact Hs].
      apply nq_step_inv; [exact Hi|].
      intros x Hx. clear - Hs Hx.
      induction pre as [|y q IHq]; [destruct Hx|].
      cbn [app] in Hs. inversion Hs as [|? ? Hq Hall]; subst.
      destruct Hx as [->|Hx]; [|apply IHq; assumption].
      rewrite Forall_forall in Hall. apply Hall. rewrite <- app_assoc. apply in_app_iff. right. apply in_app_iff. left. left. reflexivity.
  Qed.

  (* on a sorted list the conflict-reporting scan returns what the quiet scan returns *)
  Lemma nq_eq_quiet_list : forall l mode n,
    StronglySorted ge_entry l ->
    find_in_list_nq node pmatch pa l mode n = find_in_list node pmatch pa l mode n.
  Proof.
    intros l mode n Hs. rewrite find_in_list_first_ok. unfold TmplDefs.find_in_list_nq.
    pose proof (nq_fold_inv mode n l [] {| nq_best := None; nq_conf := []; nq_prev := None |}) as H.
    cbn [app] in H. destruct H as [H _]; [|exact Hs|].
    - split; [cbn; split; reflexivity | intros p m Hp; discriminate].
    - destruct (first_ok mode n l) as [f|].
      + destruct H as [b [Hb Hc]]. rewrite Hb.
        destruct (nq_conf _) as [|c r]; cbn; congruence.
      + destruct H as [Hb Hc]. rewrite Hb, Hc. reflexivity.
  Qed.

End Nq.
