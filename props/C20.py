"""C20 — Xalan's own containers and string class behave like their standard models."""
import os
from vlib import core

LEVEL = "proof"
FAMILY = "cont"

# kinds with an extracted Coq model (correspondence leg); every kind has the lock-step std:: oracle
MODELLED = {"vi", "vs", "m", "s", "d", "st", "l"}

LF = [(3, 4), (3, 4), (1, 2), (1, 1), (2, 1), (3, 2), (1, 4)]      # dyadic load factors: exact as doubles


# ---------------------------------------------------------------------------------------------
# generators (every choice from ctx.rng). A case = (kind, params, [op tokens], class)

def lst(xs):
    return "[" + ",".join(str(x) for x in xs)


def vec_random_op(r, n, cap_hint):
    """one op for a vector currently holding n elements (n is an estimate; wrong guesses are skipped as '!')"""
    c = r.random()
    v = r.randrange(1, 60)
    if c < 0.22:
        return "pb:%d" % v
    if c < 0.30:
        return "pop"
    if c < 0.40:
        return "ins1:%d:%d" % (r.randrange(0, n + 1), v)
    if c < 0.52:
        return "insn:%d:%d:%d" % (r.randrange(0, n + 1), r.choice([0, 1, 1, 2, 3, 5, 8]), v)
    if c < 0.60:
        k = r.choice([0, 1, 2, 3, 4, 7])
        return "insr:%d:%s" % (r.randrange(0, n + 1), lst([r.randrange(1, 60) for _ in range(k)]))
    if c < 0.67:
        return "er:%d" % r.randrange(0, max(1, n))
    if c < 0.73:
        a = r.randrange(0, n + 1)
        return "err:%d:%d" % (a, r.randrange(a, n + 1))
    if c < 0.78:
        return r.choice(["rsz:%d:%d" % (r.randrange(0, n + 6), v), "rsz0:%d" % r.randrange(0, n + 6)])
    if c < 0.82:
        return "rsv:%d" % r.randrange(0, n + 12)
    if c < 0.84:
        return "clr"
    if c < 0.87:
        return "asgr:" + lst([r.randrange(1, 60) for _ in range(r.choice([0, 1, 3, 6, 10]))])
    if c < 0.92:
        return r.choice(["at:%d" % r.randrange(0, n + 2), "idx:%d" % r.randrange(0, max(1, n)), "front", "back", "riter",
                         "setidx:%d:%d" % (r.randrange(0, max(1, n)), v)])
    if c < 0.95:
        return r.choice(["cpy:0", "cpy:%d" % r.randrange(0, n + 9), "asg", "selfasg", "swap", "sel:0", "sel:1"])
    if c < 0.985:     # value arguments that are references to the vector's own elements, and assign(n, x)
        i = r.randrange(0, max(1, n))
        return r.choice(["insa:%d:%d:%d" % (r.randrange(0, n + 1), r.choice([0, 1, 1, 2, 3, 5]), i), "insa:%d:1:%d" % (n, i),
                         "rsza:%d:%d" % (r.randrange(0, n + 8), i), "pba:%d" % i, "asgn:%d:%d" % (r.randrange(0, 7), v)])
    return r.choice(["new:0", "new:%d" % r.randrange(1, 12), "newn:%d:%d" % (r.randrange(0, 9), v),
                     "newr:" + lst([r.randrange(1, 60) for _ in range(r.randrange(0, 6))])])


def track_len(n, op):
    """rough size tracking for the generator only"""
    t = op.split(":")
    if t[0] == "pb" or t[0] == "ins1":
        return n + 1
    if t[0] == "pop" or t[0] == "er":
        return max(0, n - 1)
    if t[0] in ("insn", "insa"):
        return n + int(t[2])
    if t[0] == "pba":
        return n + 1
    if t[0] in ("rsza", "asgn"):
        return int(t[1])
    if t[0] == "insr":
        return n + len([x for x in t[2][1:].split(",") if x])
    if t[0] == "err":
        return max(0, n - (int(t[2]) - int(t[1])))
    if t[0] in ("rsz", "rsz0"):
        return int(t[1])
    if t[0] in ("clr", "new"):
        return 0
    if t[0] in ("asgr", "newr"):
        return len([x for x in t[1][1:].split(",") if x])
    if t[0] == "newn":
        return int(t[1])
    return n


def gen_vec(ctx, n_cases):
    r = ctx.rng
    out = []
    # boundary stream: capacity exactly full / one short / one over, right part =, <, > inserted count
    for _ in range(n_cases // 3):
        cap = r.choice([4, 5, 8, 9, 13])
        size = r.randrange(1, cap + 1)
        ops = ["rsv:%d" % cap] + ["pb:%d" % (i + 1) for i in range(size)]
        for _ in range(r.randrange(1, 4)):
            n = track_n = size
            pos = r.randrange(0, size + 1)
            room = cap - size
            k = max(0, r.choice([room, room, room - 1, room + 1, size - pos, size - pos - 1, size - pos + 1, 1]))
            kind = r.random()
            if kind < 0.3:
                ops.append("insn:%d:%d:%d" % (pos, k, 50 + k))
            elif kind < 0.5:
                ops.append("insa:%d:%d:%d" % (pos, k, r.randrange(0, size)))
            elif kind < 0.8:
                ops.append("insr:%d:%s" % (pos, lst([60 + i for i in range(k)])))
            else:
                ops.append("ins1:%d:77" % pos)
                k = 1
            size += k
            if size > cap:
                cap = size
            if r.random() < 0.4 and size:
                a = r.randrange(0, size)
                b = r.randrange(a, size + 1)
                ops.append("err:%d:%d" % (a, b))
                size -= b - a
            if size == 0:
                break
        out.append(("vi", "-", ops, "vec-boundary"))
    # growth stream
    for _ in range(max(2, n_cases // 12)):
        ops = []
        n = 0
        for i in range(r.choice([14, 22, 35, 56, 90])):
            ops.append("pb:%d" % (i % 50 + 1))
            n += 1
            if r.random() < 0.15:
                op = r.choice(["ins1:%d:99" % r.randrange(0, n + 1), "insn:%d:1:98" % r.randrange(0, n + 1), "er:%d" % r.randrange(0, n),
                               "cpy:0", "swap", "pop", "pba:%d" % r.randrange(0, n), "insa:%d:1:%d" % (n, r.randrange(0, n))])
                ops.append(op)
                n = track_len(n, op) if op not in ("swap",) else n
        out.append(("vi", "-", ops, "vec-growth"))
    # random mixes, int and string elements
    for i in range(n_cases - len(out)):
        ops = []
        n = 0
        for _ in range(r.choice([8, 15, 25, 40])):
            op = vec_random_op(r, n, 0)
            ops.append(op)
            n = track_len(n, op)
            if op in ("swap", "asg", "sel:0", "sel:1"):
                n = r.randrange(0, 8)
        out.append(("vs" if i % 4 == 0 else "vi", "-", ops, "vec-random"))
    return out


def map_params(r):
    def one():
        c = r.random()
        if c < 0.25:
            return (3, 4, 29, 50)
        lf = r.choice(LF)
        return (lf[0], lf[1], r.choice([1, 2, 3, 5, 7, 29]), r.choice([1, 2, 3, 4, 5, 8, 50]))
    a = one()
    b = a if r.random() < 0.5 else one()
    return a + b


def gen_map(ctx, n_cases, kind="m"):
    r = ctx.rng
    out = []
    for ci in range(n_cases):
        p = map_params(r) if kind == "m" else None
        stride = r.choice([1, 1, 3, 5, 7, 29, 29, 46, 64, 139])
        if kind == "m" and p[2] not in (29,) and r.random() < 0.7:
            stride = r.choice([1, p[2], p[2], 2 * p[2]])
        pool = [1 + stride * i for i in range(r.choice([4, 8, 16, 48, 100]))]
        live = []
        ops = []
        style = r.choice(["mix", "mix", "fill-erase", "threshold", "rehash"])
        thr = p[3] if kind == "m" else 50
        steps = r.choice([15, 30, 60]) if style == "mix" else 0

        def ins(k):
            v = r.randrange(1, 500)
            if kind == "m":
                ops.append(r.choice(["ins:%d:%d", "ins:%d:%d", "insp:%d:%d", "set:%d:%d"]) % (k, v) if r.random() < 0.9 else "get:%d" % k)
            else:
                ops.append("ins:%d" % k)
            if k not in live:
                live.append(k)

        def er(k):
            ops.append(r.choice(["er:%d", "er:%d", "erit:%d"]) % k if kind == "m" else "er:%d" % k)
            if k in live:
                live.remove(k)

        if style == "mix":
            for _ in range(steps):
                c = r.random()
                k = r.choice(pool)
                if c < 0.45:
                    ins(k)
                elif c < 0.70:
                    er(r.choice(live) if live and r.random() < 0.8 else k)
                elif c < 0.85:
                    ops.append(r.choice(["find:%d", "find:%d", "cnt:%d"] if kind != "m" else ["find:%d"]) % k)
                elif c < 0.88:
                    ops.append("clr")
                    live[:] = []
                else:
                    op = r.choice(["cpy", "asg", "selfasg", "swap", "sel:0", "sel:1"] if kind == "m" else ["cpy", "sel:0", "sel:1"])
                    ops.append(op)
                    if op in ("asg", "swap", "sel:0", "sel:1"):
                        live[:] = []        # unknown: the estimate restarts (only steers the choices)
        elif style == "fill-erase":
            for k in pool[:r.randrange(3, len(pool) + 1)]:
                ins(k)
            for k in list(live):
                if r.random() < 0.6:
                    er(k)
            for k in pool:
                ops.append("find:%d" % k)
            for k in pool[:len(pool) // 2]:
                ins(k)
            ops.append("cpy")
            ops.append("sel:1")
            for k in pool[:6]:
                ops.append("find:%d" % k)
        elif style == "threshold":
            # exactly thr-1, thr, thr+1 erasures followed by lookups and re-insertions
            m = min(max(thr + 2, 4), 70)
            keys = [1 + stride * i for i in range(m + 3)]
            for k in keys:
                ins(k)
            ne = r.choice([thr - 1, thr, thr, thr + 1, 2 * thr])
            ne = max(1, min(ne, len(keys)))
            victims = list(keys)
            r.shuffle(victims)
            for k in victims[:ne]:
                er(k)
                if r.random() < 0.3:
                    ops.append("find:%d" % r.choice(keys))
            for k in keys:
                ops.append("find:%d" % k)
            for k in victims[:ne // 2 + 1]:
                ins(k)
            for k in keys[:8]:
                ops.append("find:%d" % k)
        else:   # rehash: grow across the load-factor boundaries with colliding keys, checking all keys after each boundary
            total = r.choice([12, 45, 45, 95]) if (kind != "m" or p[2] >= 29) else r.choice([6, 12, 30])
            keys = [1 + stride * i for i in range(total)]
            for i, k in enumerate(keys):
                ins(k)
                if r.random() < 0.12 and live:
                    er(r.choice(live))
                if i in (2, 3, 6, 7, 39, 40, 41, 86, 87, 88) or r.random() < 0.05:
                    for q in keys[max(0, i - 4):i + 2]:
                        ops.append("find:%d" % q)
        if kind == "m":
            out.append(("m", ",".join(str(x) for x in p), ops, "map-" + style))
        else:
            out.append(("st", "-", ops, "set-" + style))
    return out


def gen_list(ctx, n_cases):
    r = ctx.rng
    out = []
    for _ in range(n_cases):
        ops = []
        n = 0
        for _ in range(r.choice([8, 20, 40])):
            c = r.random()
            v = r.randrange(1, 90)
            if c < 0.2:
                op = "pb:%d" % v; n += 1
            elif c < 0.35:
                op = "pf:%d" % v; n += 1
            elif c < 0.45:
                op = "popb"; n = max(0, n - 1)
            elif c < 0.55:
                op = "popf"; n = max(0, n - 1)
            elif c < 0.68:
                op = "ins:%d:%d" % (r.randrange(0, n + 1), v); n += 1
            elif c < 0.78:
                op = "er:%d" % r.randrange(0, max(1, n)); n = max(0, n - 1)
            elif c < 0.86:
                op = r.choice(["front", "back", "riter"])
            elif c < 0.89:
                op = "clr"; n = 0
            elif c < 0.95:
                op = r.choice(["swap", "sel:0", "sel:1"]); n = r.randrange(0, 6)
            else:
                op = r.choice(["spl1:%d:%d" % (r.randrange(0, n + 1), r.randrange(0, 5)),
                               "spln:%d:%d:%d" % (r.randrange(0, n + 1), r.randrange(0, 3), r.randrange(3, 6)),
                               "splself:%d:%d" % (r.randrange(0, n + 1), r.randrange(0, max(1, n)))])
            ops.append(op)
        out.append(("l", "-", ops, "list-random"))
    return out


def gen_deque(ctx, n_cases):
    r = ctx.rng
    out = []
    for ci in range(n_cases):
        bs = r.choice([1, 2, 3, 4, 10, 10])
        ops = []
        n = 0
        style = r.choice(["random", "random", "boundary"])
        if style == "boundary":
            # sit on a block boundary and push / pop / resize across it
            k = r.choice([1, 2, 3]) * bs
            ops += ["pb:%d" % (i + 1) for i in range(k)]
            n = k
            for _ in range(r.randrange(3, 12)):
                op = r.choice(["pb:7", "pop", "pop", "back", "rsz:%d" % max(0, n + r.choice([-bs - 1, -bs, -1, 1, bs, bs + 1])),
                               "idx:%d" % max(0, n - 1), "idx:0", "cpy", "riter"])
                ops.append(op)
                if op.startswith("pb"):
                    n += 1
                elif op == "pop":
                    n = max(0, n - 1)
                elif op.startswith("rsz"):
                    n = int(op[4:])
        else:
            for _ in range(r.choice([10, 25, 50])):
                c = r.random()
                if c < 0.4:
                    op = "pb:%d" % r.randrange(1, 90); n += 1
                elif c < 0.6:
                    op = "pop"; n = max(0, n - 1)
                elif c < 0.7:
                    nn = r.randrange(0, n + 2 * bs + 2)
                    op = "rsz:%d" % nn; n = nn
                elif c < 0.82:
                    op = r.choice(["back", "idx:%d" % r.randrange(0, max(1, n)), "setidx:%d:%d" % (r.randrange(0, max(1, n)), r.randrange(1, 90)), "riter", "iter"])
                elif c < 0.85:
                    op = "clr"; n = 0
                else:
                    op = r.choice(["cpy", "asg", "selfasg", "swap", "sel:0", "sel:1", "new:%d" % r.randrange(0, 2 * bs + 2)])
                    if op not in ("cpy", "selfasg"):
                        n = r.randrange(0, 5)
                ops.append(op)
        out.append(("d", "%d,%d" % (bs, r.choice([bs, 1, 2, 3, 4, 7, 10])), ops, "deque-" + style))
    return out


def gen_string(ctx, n_cases):
    r = ctx.rng
    out = []

    def word(k=None):
        k = r.choice([0, 1, 2, 3, 5, 9]) if k is None else k
        return lst([r.randrange(97, 123) for _ in range(k)])
    for _ in range(n_cases):
        ops = []
        n = 0
        for _ in range(r.choice([6, 14, 30])):
            c = r.random()
            if c < 0.16:
                w = word(); op = "app:" + w; n += len([x for x in w[1:].split(",") if x])
            elif c < 0.24:
                k = r.choice([0, 1, 2, 5]); op = "appn:%d:%d" % (k, r.randrange(97, 123)); n += k
            elif c < 0.30:
                op = "pb:%d" % r.randrange(97, 123); n += 1
            elif c < 0.40:
                w = word(); op = "ins:%d:%s" % (r.randrange(0, n + 1), w); n += len([x for x in w[1:].split(",") if x])
            elif c < 0.46:
                k = r.choice([0, 1, 3]); op = "insn:%d:%d:%d" % (r.randrange(0, n + 1), k, r.randrange(97, 123)); n += k
            elif c < 0.50:
                op = "insit:%d:%d" % (r.randrange(0, n + 1), r.randrange(97, 123)); n += 1
            elif c < 0.60:
                a = r.randrange(0, n + 1)
                k = r.randrange(0, n - a + 1)
                op = "er:%d:%d" % (a, k); n -= k
            elif c < 0.64:
                a = r.randrange(0, n + 1)
                op = "ernpos:%d" % a; n = a
            elif c < 0.69:
                a = r.randrange(0, n + 1)
                b = r.randrange(a, n + 1)
                op = "erit:%d:%d" % (a, b); n -= b - a
            elif c < 0.72:
                op = "erit1:%d" % r.randrange(0, max(1, n)); n = max(0, n - 1)
            elif c < 0.77:
                k = r.randrange(0, n + 5)
                op = r.choice(["rsz:%d:%d" % (k, r.randrange(97, 123)), "rsz0:%d" % k]); n = k
            elif c < 0.80:
                op = "rsv:%d" % r.randrange(0, n + 10)
            elif c < 0.83:
                op = r.choice(["clr", "asgw:" + word(), "asgn:%d:%d" % (r.randrange(0, 5), r.randrange(97, 123))]); n = 0 if op == "clr" else n
                if op != "clr":
                    n = r.randrange(0, 6)
            elif c < 0.90:
                a = r.randrange(0, max(1, n))
                op = r.choice(["substr:%d:%d" % (a, r.randrange(0, max(1, n - a + 1))), "cmp", "cmpw:" + word(), "idx:%d" % a, "cstr", "riter",
                               "substrnpos:%d" % a, "appsubnpos:%d" % r.randrange(0, 4), "erit:0:0",
                               "selfsub:%d:%d" % (a, r.randrange(0, max(1, n - a + 1))), "appsub:%d:%d" % (a, r.randrange(0, max(1, n - a + 1)))])
            else:
                op = r.choice(["cpy", "asg", "selfasg", "swap", "sel:0", "sel:1", "appo"])
                if op in ("asg", "swap", "sel:0", "sel:1"):
                    n = r.randrange(0, 6)
            ops.append(op)
        out.append(("s", "-", ops, "string-random"))
    return out


# ---------------------------------------------------------------------------------------------

def case_line(cid, c):
    return "%s %s %s %s" % (cid, c[0], c[1], " ".join(c[2]))


def run_impl(impl, lines, env=None):
    """run the harness (it forks per case: a crash is reported as '<id>.o CRASH ...' for exactly that case)"""
    rc, res, raw = core.run_lines_parallel(impl, lines, env=env)
    crashed = {}
    for l in lines:
        cid = l.split(" ", 1)[0]
        r = res.get(cid + ".o")
        if r is not None and r.startswith("CRASH"):
            crashed[cid] = r
    return res, crashed


def known_class(c, what):
    """no known-finding class is left for C20: K-C20-1..6 are repaired (fix: commits) and their op forms are generated"""
    return None


def evaluate(ctx, cases, impl, model, tag="c", env=None, do_model=True):
    ids = ["%s%d" % (tag, i) for i in range(len(cases))]
    lines = [case_line(i, c) for i, c in zip(ids, cases)]
    res_i, crashed = run_impl(impl, lines, env)
    res_m = {}
    if model and do_model:
        rc_m, res_m, raw_m = core.run_lines_parallel(model, lines)
    corr, orc = [], []
    seen = set()
    for cid, c, line in zip(ids, cases, lines):
        ctx.cov["evaluations"] += 1
        ctx.count(c[3])
        key = (c[0], c[1], tuple(c[2]))
        if key not in seen and len(c[2]) >= 3:
            seen.add(key)
        if cid in crashed:
            orc.append({"case": c, "line": line, "what": "the driver died on this case: " + crashed[cid], "known": known_class(c, "")})
            continue
        ri, ro = res_i.get(cid), res_i.get(cid + ".o")
        if ro is None:
            orc.append({"case": c, "line": line, "what": "no result from the implementation", "known": known_class(c, "")})
            continue
        if ro != "OK":
            orc.append({"case": c, "line": line, "what": ro, "known": known_class(c, ro)})
        if model and do_model and c[0] in MODELLED:
            ctx.cov["traces_validated_against_impl"] += 1
            rm = res_m.get(cid)
            if rm != ri and not known_class(c, ""):
                a, b = (ri or "").split("|"), (rm or "").split("|")
                k = next((j for j in range(min(len(a), len(b))) if a[j] != b[j]), min(len(a), len(b)))
                corr.append({"case": line[:600], "first_diff_op": k, "op": c[2][k] if k < len(c[2]) else "?",
                             "impl": (a[k] if k < len(a) else "")[:300], "model": (b[k] if k < len(b) else "")[:300]})
    ctx.cov["distinct_nontrivial"] += len(seen)
    return corr, orc


def shrink(ctx, impl, o, env=None, budget_s=25):
    import time
    c = o["case"]
    t0 = time.time()

    def fails(ops):
        if time.time() - t0 > budget_s:      # out of shrinking budget: keep what we have
            return False
        res, crashed = run_impl(impl, [case_line("z", (c[0], c[1], ops, c[3]))], env)
        return bool(crashed) or res.get("z.o", "OK") != "OK"
    if not fails(c[2]):
        return c[2], o["what"]
    ops = core.shrink_list(c[2], fails, max_steps=300)
    res, crashed = run_impl(impl, [case_line("z", (c[0], c[1], ops, c[3]))], env)
    if not (crashed or res.get("z.o", "OK") != "OK"):
        return c[2], o["what"]
    return ops, (crashed.get("z") or res.get("z.o"))


def load_corpus():
    out = []
    d = os.path.join(core.VERIF, "corpus", "C20")
    for f in sorted(os.listdir(d)) if os.path.isdir(d) else []:
        if not f.endswith(".txt"):
            continue
        for line in open(os.path.join(d, f)):
            t = line.split()
            if len(t) >= 4 and not t[0].startswith("#"):
                out.append((t[1], t[2], t[3:], "corpus-" + f.split(".")[0]))
    return out


def make_cases(ctx, scale):
    cases = []
    cases += gen_vec(ctx, 60 * scale)
    cases += gen_map(ctx, 60 * scale, "m")
    cases += gen_map(ctx, 12 * scale, "st")
    cases += gen_list(ctx, 20 * scale)
    cases += gen_deque(ctx, 30 * scale)
    cases += gen_string(ctx, 40 * scale)
    return cases


def run(ctx):
    ctx.notes["rule"] = "distinct = different (kind, parameters, op sequence); non-trivial = at least 3 ops"
    ctx.assumptions += [
        "size_type(m_size * 1.6 + 0.5), size_type(1.6 * size()) and size_type(m_loadFactor * size()) are modelled by exact rational arithmetic (true for the sizes used: the products are never within rounding distance of an integer from below; load factors driven are dyadic)",
        "operations are driven inside their documented (assert) preconditions: positions within range, ranges not taken from the container itself (value arguments MAY alias the container's own elements), minBuckets >= 1",
        "std::copy / std::copy_backward / std::fill behave as specified by the C++ standard (modelled by blit)",
        "memory safety is the model's totality inside bounds plus the ASan/UBSan run of the same sequences in the thorough tier",
    ]
    ok_lib, liblog = core.build_lib("plain")
    if not ok_lib:
        ctx.broken.append("library does not build from the working tree: " + liblog[-500:])
        return ctx.finish(LEVEL)
    proved = ctx.prove(["Properties_C20.v"], ["GenCont"])
    model, ok_m, mlog = core.build_model(FAMILY)
    if not ok_m:
        ctx.broken.append("model extraction/build failed: " + mlog[-500:])
        model = None
    impl, ok_h, hlog = core.build_harness("cont", "plain")
    if not ok_h:
        ctx.broken.append("harness does not compile against the working tree: " + hlog[-800:])
        return ctx.finish(LEVEL)

    known = {k["key"]: k for k in ctx.known.for_property("C20")}
    corpus = load_corpus()
    cases = corpus + make_cases(ctx, 6 if not ctx.thorough else 40)
    ctx.cov["samples"] = [case_line("s%d" % i, c)[:200] for i, c in enumerate(cases[:3] + cases[len(cases) // 2: len(cases) // 2 + 3])]
    corr, orc = evaluate(ctx, cases, impl, model)
    new = [o for o in orc if not (o["known"] and o["known"] in known)]
    if (corr or not proved or not model) and not new and not ctx.thorough:
        ctx.escalated = True
        more = make_cases(ctx, 30)
        c2, o2 = evaluate(ctx, more, impl, model, tag="e")
        corr += c2
        orc += o2
    if ctx.tier == "thorough":
        # the same sequences under AddressSanitizer / UBSan ("no operation touches memory outside the container")
        os.environ.setdefault("ASAN_OPTIONS", "detect_leaks=0")     # the build runs its own (leaky) message-catalogue tool
        ok_a, alog = core.build_lib("asan")
        impl_a, ok_ha, hlog_a = core.build_harness("cont", "asan") if ok_a else (None, False, alog)
        if not ok_ha:
            ctx.broken.append("ASan build of the harness failed: " + (hlog_a or "")[-500:])
        else:
            env = {"ASAN_OPTIONS": "detect_leaks=1:abort_on_error=0:exitcode=97", "UBSAN_OPTIONS": "halt_on_error=1:exitcode=98"}
            safe = [c for c in cases if not known_class(c, "")]
            c3, o3 = evaluate(ctx, safe, impl_a, None, tag="a", env=env, do_model=False)
            for o in o3:
                o["asan"] = True
            orc += o3
            ctx.notes["asan_cases"] = len(safe)
    reported = set()
    for o in orc:
        if o["known"] and o["known"] in known:
            reported.add(o["known"])
    for k in sorted(reported):
        ctx.known_finding("%s %s" % (k, known[k]["what"]))
    ctx.notes["known_class_hits"] = {k: sum(1 for o in orc if o["known"] == k) for k in reported}
    new = [o for o in orc if not (o["known"] and o["known"] in known)]
    if corr:
        ctx.broken.append("correspondence cont: %d of %d traces differ between the extracted model and the library, e.g. %s" % (
            len(corr), ctx.cov["traces_validated_against_impl"], corr[0]))
        ctx.notes["correspondence_mismatches"] = corr[:20]
    if new:
        new.sort(key=lambda o: len(o["line"]))
        txt = "# C20 oracle failures: Xalan container vs std:: container in lock-step (replay: python3 check.py C20 --replay <this file>)\n"
        for o in new[:6]:
            env = {"ASAN_OPTIONS": "exitcode=97"} if o.get("asan") else None
            exe = impl if not o.get("asan") else os.path.join(core.BUILD, "cont_asan")
            ops, what = shrink(ctx, exe, o, env)
            c = o["case"]
            txt += "%s\n#   %s\n" % (case_line("r%d" % new.index(o), (c[0], c[1], ops, c[3])), (what or o["what"])[:700])
        ctx.violation("oracle", txt)
    ctx.notes["oracle_failures"] = len(new)
    # the pool allocator against a set of live objects (props/C20_arena.py; test leg, added after seed C20_g)
    from props import C20_arena
    C20_arena.run_part(ctx)
    return ctx.finish(LEVEL, explanation="refinement theorems over Gallina models of XalanVector/XalanMap (+ the other containers) with constants regenerated from the headers + correspondence of the extracted models with the real templates (internal observables included) + std:: containers in lock-step as the oracle")


def replay(ctx, path):
    core.build_lib("plain")
    impl, ok_h, hlog = core.build_harness("cont", "plain")
    lines = [l for l in open(path) if l.strip() and not l.startswith("#")]
    rc, out = core.sh([impl], input="".join(lines))
    print(out)
    return 1 if ("DIFF" in out or "CRASH" in out or rc != 0) else 0
