// Correspondence + oracle driver for C20: Xalan's containers in lock-step with their std:: models.
//
// Input : one case per line   "<id> <kind> <params> op op op ..."      (params: comma separated or "-")
// Output: "<id> obs|obs|..."   one observation of the Xalan container per op (model correspondence)
//         "<id>.o OK"  or  "<id>.o DIFF <opindex> <op> xalan=<obs> std=<obs>"   (lock-step oracle)
//
// kinds:  vi  XalanVector<int>            vs  XalanVector<XalanDOMString>   (same op language, same model)
//         m   XalanMap<int,int,identity hash>      (params lfnum,lfden,minBuckets,eraseThreshold)
//         st  XalanSet<int>  l XalanList<int>  d XalanDeque<int> (params blockSize)  s XalanDOMString
// Two registers (0/1) per case; ops act on the current register ("sel:r" switches).
// An op whose C++ precondition (assert / std:: requirement) does not hold is skipped and observed as "!".
#include "common.hpp"
#include <xalanc/Include/XalanVector.hpp>
#include <xalanc/Include/XalanList.hpp>
#include <xalanc/Include/XalanDeque.hpp>
#include <xalanc/Include/XalanMap.hpp>
#include <xalanc/Include/XalanSet.hpp>
#include <deque>
#include <list>
#include <set>
#include <map>
#include <unordered_map>
#include <algorithm>
#include <unistd.h>
#include <sys/wait.h>

using namespace xalanc;
using namespace verif;

#if defined(__SANITIZE_ADDRESS__)
extern "C" int __lsan_do_recoverable_leak_check();
#endif

static MemoryManager& MM() { return XalanMemMgrs::getDefaultXercesMemMgr(); }

typedef std::vector<long> Args;

struct Op { std::string name; Args a; std::vector<long> list; std::string text; };

static Op parse_op(const std::string& t)
{
    Op o; o.text = t;
    std::vector<std::string> parts; size_t i = 0;
    while (true) { size_t j = t.find(':', i); if (j == std::string::npos) { parts.push_back(t.substr(i)); break; } parts.push_back(t.substr(i, j - i)); i = j + 1; }
    o.name = parts[0];
    for (size_t k = 1; k < parts.size(); ++k) {
        const std::string& p = parts[k];
        if (p.find(',') != std::string::npos || p.empty() || p[0] == '[') {
            std::string q = p; if (!q.empty() && q[0] == '[') q = q.substr(1);
            size_t a = 0;
            while (a < q.size()) { size_t b = q.find(',', a); if (b == std::string::npos) b = q.size(); if (b > a) o.list.push_back(std::strtol(q.substr(a, b - a).c_str(), 0, 10)); a = b + 1; }
        } else o.a.push_back(std::strtol(p.c_str(), 0, 10));
    }
    return o;
}

static std::string num(long v) { char b[32]; std::snprintf(b, sizeof b, "%ld", v); return b; }

template <class It> static std::string join(It b, It e)
{
    std::string r = "["; bool first = true;
    for (; b != e; ++b) { if (!first) r += ","; r += num(*b); first = false; }
    return r + "]";
}

// ------------------------------------------------------------------------------------------------
// value adapters: int, and XalanDOMString holding the decimal text of the int (exercises construct/destroy)
struct IntAd {
    typedef int T;
    static T mk(long v) { return (int) v; }
    static long un(const T& t) { return t; }
};
struct StrAd {
    typedef XalanDOMString T;
    static T mk(long v) { std::string s = num(v); XalanDOMString r(MM()); for (size_t i = 0; i < s.size(); ++i) r.append(1, (XalanDOMChar) s[i]); return r; }
    static long un(const T& t) { std::string s; for (XalanDOMString::size_type i = 0; i < t.length(); ++i) s += (char) t[i]; return s.empty() ? 0 : std::strtol(s.c_str(), 0, 10); }
};

// ------------------------------------------------------------------------------------------------
// vector
template <class Ad>
struct VecRun {
    typedef typename Ad::T T;
    typedef XalanVector<T> XV;
    typedef std::vector<long> SV;
    XV* x[2]; SV s[2]; int cur;
    VecRun() : cur(0) { x[0] = new XV(MM()); x[1] = new XV(MM()); }
    ~VecRun() { delete x[0]; delete x[1]; }
    std::string xs(const std::string& ret) {
        XV& v = *x[cur]; std::vector<long> e; for (typename XV::const_iterator i = v.begin(); i != v.end(); ++i) e.push_back(Ad::un(*i));
        return ret + "/" + num((long) v.size()) + "/" + num((long) v.capacity()) + "/" + join(e.begin(), e.end());
    }
    std::string ss(const std::string& ret) { SV& v = s[cur]; return ret + "/" + num((long) v.size()) + "/" + join(v.begin(), v.end()); }
    static std::string strip_cap(const std::string& o) {   // "ret/size/cap/[..]" -> "ret/size/[..]"
        size_t a = o.find('/'); size_t b = o.find('/', a + 1); size_t c = o.find('/', b + 1);
        return o.substr(0, b) + o.substr(c);
    }
    // returns false when the precondition fails
    bool step(const Op& o, std::string& rx, std::string& rs) {
        XV& v = *x[cur]; SV& w = s[cur]; const Args& a = o.a; const size_t n = w.size();
        rx = rs = "-";
        if (o.name == "pb") { v.push_back(Ad::mk(a[0])); w.push_back(a[0]); }
        else if (o.name == "pop") { if (n == 0) return false; v.pop_back(); w.pop_back(); }
        else if (o.name == "ins1") { if ((size_t) a[0] > n) return false;
            typename XV::iterator r = v.insert(v.begin() + a[0], Ad::mk(a[1])); rx = num(r - v.begin());
            SV::iterator q = w.insert(w.begin() + a[0], a[1]); rs = num(q - w.begin()); }
        else if (o.name == "insn") { if ((size_t) a[0] > n) return false;
            v.insert(v.begin() + a[0], (size_t) a[1], Ad::mk(a[2])); w.insert(w.begin() + a[0], (size_t) a[1], a[2]); }
        else if (o.name == "insa") {   // value aliases element a[2] of the vector itself (std::vector handles this)
            if ((size_t) a[0] > n || (size_t) a[2] >= n) return false;
            v.insert(v.begin() + a[0], (size_t) a[1], v[a[2]]); w.insert(w.begin() + a[0], (size_t) a[1], w[a[2]]); }
        else if (o.name == "insr") { if ((size_t) a[0] > n) return false;
            std::vector<T> src; for (size_t i = 0; i < o.list.size(); ++i) src.push_back(Ad::mk(o.list[i]));
            const T* p = src.empty() ? (const T*) 0 : &src[0];
            v.insert(v.begin() + a[0], p, p + src.size());
            w.insert(w.begin() + a[0], o.list.begin(), o.list.end()); }
        else if (o.name == "er") { if ((size_t) a[0] >= n) return false;
            typename XV::iterator r = v.erase(v.begin() + a[0]); rx = num(r - v.begin());
            SV::iterator q = w.erase(w.begin() + a[0]); rs = num(q - w.begin()); }
        else if (o.name == "err") { if (!(a[0] <= a[1] && (size_t) a[1] <= n)) return false;
            typename XV::iterator r = v.erase(v.begin() + a[0], v.begin() + a[1]); rx = num(r - v.begin());
            SV::iterator q = w.erase(w.begin() + a[0], w.begin() + a[1]); rs = num(q - w.begin()); }
        else if (o.name == "rsz") { v.resize((size_t) a[0], Ad::mk(a[1])); w.resize((size_t) a[0], a[1]); }
        else if (o.name == "rsza") { if ((size_t) a[1] >= n) return false; v.resize((size_t) a[0], v[a[1]]); w.resize((size_t) a[0], SV(w)[a[1]]); }
        else if (o.name == "pba") { if ((size_t) a[0] >= n) return false; v.push_back(v[a[0]]); w.push_back(SV(w)[a[0]]); }
        else if (o.name == "asgn") { v.assign((size_t) a[0], Ad::mk(a[1])); w.assign((size_t) a[0], a[1]); }
        else if (o.name == "rsz0") { v.resize((size_t) a[0]); w.resize((size_t) a[0]); }
        else if (o.name == "rsv") { v.reserve((size_t) a[0]); w.reserve((size_t) a[0]); }
        else if (o.name == "clr") { v.clear(); w.clear(); }
        else if (o.name == "asgr") {
            std::vector<T> src; for (size_t i = 0; i < o.list.size(); ++i) src.push_back(Ad::mk(o.list[i]));
            const T* p = src.empty() ? (const T*) 0 : &src[0];
            v.assign(p, p + src.size()); w.assign(o.list.begin(), o.list.end()); }
        else if (o.name == "at") { try { rx = num(Ad::un(v.at((size_t) a[0]))); } catch (const std::out_of_range&) { rx = "oor"; }
            try { rs = num(w.at((size_t) a[0])); } catch (const std::out_of_range&) { rs = "oor"; } }
        else if (o.name == "idx") { if ((size_t) a[0] >= n) return false; rx = num(Ad::un(v[(size_t) a[0]])); rs = num(w[(size_t) a[0]]); }
        else if (o.name == "setidx") { if ((size_t) a[0] >= n) return false; v[(size_t) a[0]] = Ad::mk(a[1]); w[(size_t) a[0]] = a[1]; }
        else if (o.name == "front") { if (n == 0) return false; rx = num(Ad::un(v.front())); rs = num(w.front()); }
        else if (o.name == "back") { if (n == 0) return false; rx = num(Ad::un(v.back())); rs = num(w.back()); }
        else if (o.name == "riter") { std::vector<long> e; for (typename XV::reverse_iterator i = v.rbegin(); i != v.rend(); ++i) e.push_back(Ad::un(*i));
            rx = join(e.begin(), e.end()); rs = join(w.rbegin(), w.rend()); }
        else if (o.name == "cpy") { delete x[1 - cur]; x[1 - cur] = new XV(v, MM(), (size_t) a[0]); s[1 - cur] = w; }
        else if (o.name == "asg") { v = *x[1 - cur]; w = s[1 - cur]; }
        else if (o.name == "selfasg") { v = *x[cur]; SV& w2 = w; w = w2; }
        else if (o.name == "swap") { v.swap(*x[1 - cur]); w.swap(s[1 - cur]); }
        else if (o.name == "sel") { cur = a[0] ? 1 : 0; }
        else if (o.name == "new") { delete x[cur]; x[cur] = new XV(MM(), (size_t) a[0]); w.clear(); }
        else if (o.name == "newn") { delete x[cur]; x[cur] = new XV((size_t) a[0], Ad::mk(a[1]), MM()); w.assign((size_t) a[0], a[1]); }
        else if (o.name == "newr") {
            std::vector<T> src; for (size_t i = 0; i < o.list.size(); ++i) src.push_back(Ad::mk(o.list[i]));
            const T* p = src.empty() ? (const T*) 0 : &src[0];
            delete x[cur]; x[cur] = new XV(p, p + src.size(), MM()); w.assign(o.list.begin(), o.list.end()); }
        else return false;
        return true;
    }
    void run(const std::string& id, const std::vector<Op>& ops) {
        std::string out, diff;
        for (size_t k = 0; k < ops.size(); ++k) {
            std::string rx, rs, ox, os;
            if (!step(ops[k], rx, rs)) { ox = "!"; }
            else { ox = xs(rx); os = ss(rs);
                if (diff.empty() && strip_cap(ox) != os) diff = num((long) k) + " " + ops[k].text + " xalan=" + strip_cap(ox) + " std=" + os;
                if (diff.empty() && x[cur]->capacity() < x[cur]->size()) diff = num((long) k) + " " + ops[k].text + " capacity<size"; }
            if (k) out += "|"; out += ox;
        }
        std::cout << id << ' ' << out << '\n' << id << ".o " << (diff.empty() ? "OK" : "DIFF " + diff) << '\n';
    }
};

// ------------------------------------------------------------------------------------------------
// map with an identity hash (collisions = keys congruent modulo the bucket count)
struct IdHash { size_t operator()(const int& k) const { return (size_t) k; } };
struct IdTraits { typedef IdHash Hasher; typedef std::equal_to<int> Comparator; };

struct ProbeMap : public XalanMap<int, int, IdTraits>
{
    typedef XalanMap<int, int, IdTraits> Base;
    ProbeMap(double lf, size_t minb, size_t thr) : Base(MM(), lf, minb, thr) {}
    ProbeMap(const ProbeMap& o) : Base(o, MM()) {}
    ProbeMap& operator=(const ProbeMap& o) { Base::operator=(o); return *this; }
    std::string internals()
    {
        std::map<const void*, std::string> label; long i = 0;
        for (EntryListIterator e = m_entries.begin(); e != m_entries.end(); ++e) label[&*e] = "L" + num(i++);
        long nfree = 0;
        for (EntryListIterator e = m_freeEntries.begin(); e != m_freeEntries.end(); ++e) label[&*e] = "F" + num(nfree++);
        std::string r = num((long) m_buckets.size()) + "/" + num((long) m_eraseCount) + "/" + num(nfree) + "/";
        bool first = true;
        for (size_t b = 0; b < m_buckets.size(); ++b) {
            BucketType& bk = m_buckets[b];
            if (bk.capacity() == 0) continue;
            if (!first) r += ";"; first = false;
            r += num((long) b) + "(" + num((long) bk.capacity()) + "):";
            for (BucketIterator j = bk.begin(); j != bk.end(); ++j) {
                std::map<const void*, std::string>::iterator f = label.find(&**j);
                const bool fl = (*j)->erased;
                std::string l = f == label.end() ? std::string("?") : f->second;
                if (f != label.end() && ((l[0] == 'F') != fl)) l += fl ? "e" : "n";   // flag disagrees with the list the node is on
                if (j != bk.begin()) r += ","; r += l;
            }
        }
        return r;
    }
};

struct StdMap {   // std::unordered_map + insertion order of the live keys
    std::unordered_map<int, int> m; std::vector<int> order;
    void add(int k, int v) { m[k] = v; order.push_back(k); }
    void del(int k) { m.erase(k); order.erase(std::find(order.begin(), order.end(), k)); }
    void clear() { m.clear(); order.clear(); }
};

struct MapRun {
    ProbeMap* x[2]; StdMap s[2]; int cur;
    double lf[2]; size_t minb[2], thr[2];
    MapRun(const std::vector<long>& p) : cur(0) {
        for (int r = 0; r < 2; ++r) { lf[r] = double(p[4 * r]) / double(p[4 * r + 1]); minb[r] = p[4 * r + 2]; thr[r] = p[4 * r + 3]; x[r] = new ProbeMap(lf[r], minb[r], thr[r]); }
    }
    ~MapRun() { delete x[0]; delete x[1]; }
    std::string contents_x() { std::string r = "["; bool f = true; for (ProbeMap::iterator i = x[cur]->begin(); i != x[cur]->end(); ++i) { if (!f) r += ","; f = false; r += num(i->first) + "=" + num(i->second); } return r + "]"; }
    std::string contents_s() { std::string r = "["; bool f = true; StdMap& w = s[cur]; for (size_t i = 0; i < w.order.size(); ++i) { if (!f) r += ","; f = false; r += num(w.order[i]) + "=" + num(w.m[w.order[i]]); } return r + "]"; }
    bool step(const Op& o, std::string& rx, std::string& rs) {
        ProbeMap& m = *x[cur]; StdMap& w = s[cur]; const Args& a = o.a; rx = rs = "-";
        if (o.name == "ins") { m.insert((int) a[0], (int) a[1]); if (!w.m.count((int) a[0])) w.add((int) a[0], (int) a[1]); }
        else if (o.name == "insp") { m.insert(ProbeMap::value_type((int) a[0], (int) a[1])); if (!w.m.count((int) a[0])) w.add((int) a[0], (int) a[1]); }
        else if (o.name == "set") { m[(int) a[0]] = (int) a[1]; if (!w.m.count((int) a[0])) w.add((int) a[0], (int) a[1]); else w.m[(int) a[0]] = (int) a[1]; }
        else if (o.name == "get") { rx = num(m[(int) a[0]]); if (!w.m.count((int) a[0])) w.add((int) a[0], 0); rs = num(w.m[(int) a[0]]); }
        else if (o.name == "find") { ProbeMap::iterator i = m.find((int) a[0]); rx = i == m.end() ? "end" : num(i->first) + "=" + num(i->second);
            std::unordered_map<int, int>::iterator j = w.m.find((int) a[0]); rs = j == w.m.end() ? "end" : num(j->first) + "=" + num(j->second); }
        else if (o.name == "er") { rx = num((long) m.erase((int) a[0])); long c = (long) w.m.count((int) a[0]); if (c) w.del((int) a[0]); rs = num(c); }
        else if (o.name == "erit") { m.erase(m.find((int) a[0])); if (w.m.count((int) a[0])) w.del((int) a[0]); }
        else if (o.name == "clr") { m.clear(); w.clear(); }
        else if (o.name == "cpy") { delete x[1 - cur]; x[1 - cur] = new ProbeMap(m); s[1 - cur] = w; lf[1 - cur] = lf[cur]; minb[1 - cur] = minb[cur]; thr[1 - cur] = thr[cur]; }
        else if (o.name == "asg") { m = *x[1 - cur]; w = s[1 - cur]; }
        else if (o.name == "selfasg") { m = *x[cur]; }
        else if (o.name == "swap") { m.swap(*x[1 - cur]); std::swap(s[0], s[1]); }
        else if (o.name == "sel") { cur = a[0] ? 1 : 0; }
        else if (o.name == "new") { delete x[cur]; lf[cur] = double(a[0]) / double(a[1]); minb[cur] = a[2]; thr[cur] = a[3]; x[cur] = new ProbeMap(lf[cur], minb[cur], thr[cur]); w.clear(); }
        else return false;
        return true;
    }
    void run(const std::string& id, const std::vector<Op>& ops) {
        std::string out, diff;
        for (size_t k = 0; k < ops.size(); ++k) {
            std::string rx, rs;
            if (!step(ops[k], rx, rs)) { if (k) out += "|"; out += "!"; continue; }
            std::string ox = rx + "/" + num((long) x[cur]->size()) + (x[cur]->empty() ? "e" : "") + "/" + contents_x();
            std::string os = rs + "/" + num((long) s[cur].m.size()) + (s[cur].m.empty() ? "e" : "") + "/" + contents_s();
            if (diff.empty() && ox != os) diff = num((long) k) + " " + ops[k].text + " xalan=" + ox + " std=" + os;
            if (k) out += "|"; out += ox + "/" + x[cur]->internals();
        }
        std::cout << id << ' ' << out << '\n' << id << ".o " << (diff.empty() ? "OK" : "DIFF " + diff) << '\n';
    }
};

// ------------------------------------------------------------------------------------------------
// set (XalanMap<int,bool> inside; internals are private: public observables only)
struct SetRun {
    XalanSet<int>* x[2]; std::set<int> s[2]; std::vector<int> order[2]; int cur;
    SetRun() : cur(0) { x[0] = new XalanSet<int>(MM()); x[1] = new XalanSet<int>(MM()); }
    ~SetRun() { delete x[0]; delete x[1]; }
    void run(const std::string& id, const std::vector<Op>& ops) {
        std::string out, diff;
        for (size_t k = 0; k < ops.size(); ++k) {
            const Op& o = ops[k]; std::string rx = "-", rs = "-"; bool ok = true;
            XalanSet<int>& m = *x[cur]; std::set<int>& w = s[cur]; std::vector<int>& ord = order[cur];
            const int key = o.a.empty() ? 0 : (int) o.a[0];
            if (o.name == "ins") { m.insert(key); if (w.insert(key).second) ord.push_back(key); }
            else if (o.name == "er") { rx = num((long) m.erase(key)); long c = (long) w.erase(key); rs = num(c); if (c) ord.erase(std::find(ord.begin(), ord.end(), key)); }
            else if (o.name == "find") { XalanSet<int>::const_iterator i = m.find(key); rx = i == m.end() ? "end" : num(*i); std::set<int>::iterator j = w.find(key); rs = j == w.end() ? "end" : num(*j); }
            else if (o.name == "cnt") { rx = num((long) m.count(key)); rs = num((long) w.count(key)); }
            else if (o.name == "clr") { m.clear(); w.clear(); ord.clear(); }
            else if (o.name == "cpy") { delete x[1 - cur]; x[1 - cur] = new XalanSet<int>(m, MM()); s[1 - cur] = w; order[1 - cur] = ord; }
            else if (o.name == "sel") { cur = o.a[0] ? 1 : 0; }
            else ok = false;
            if (k) out += "|";
            if (!ok) { out += "!"; continue; }
            std::vector<long> e; for (XalanSet<int>::const_iterator i = x[cur]->begin(); i != x[cur]->end(); ++i) e.push_back(*i);
            std::string ox = rx + "/" + num((long) x[cur]->size()) + "/" + join(e.begin(), e.end());
            std::string os = rs + "/" + num((long) s[cur].size()) + "/" + join(order[cur].begin(), order[cur].end());
            if (diff.empty() && ox != os) diff = num((long) k) + " " + o.text + " xalan=" + ox + " std=" + os;
            out += ox;
        }
        std::cout << id << ' ' << out << '\n' << id << ".o " << (diff.empty() ? "OK" : "DIFF " + diff) << '\n';
    }
};

// ------------------------------------------------------------------------------------------------
// list: node addresses are labelled in order of first appearance (nodes are recycled through the
// per-list free chain, never returned to the allocator before destruction)
struct ProbeList : public XalanList<int>
{
    ProbeList() : XalanList<int>(MM()) {}
    long freeCount() const { long n = 0; for (Node* p = m_freeListHeadPtr; p != 0; p = p->next) ++n; return n; }
};

struct ListRun {
    ProbeList* x[2]; std::list<long> s[2]; int cur;
    std::map<const void*, long> label;
    ListRun() : cur(0) { x[0] = new ProbeList; x[1] = new ProbeList; }
    ~ListRun() { delete x[0]; delete x[1]; }
    long lab(const void* p) { std::map<const void*, long>::iterator f = label.find(p); if (f != label.end()) return f->second; long n = (long) label.size(); label[p] = n; return n; }
    static ProbeList::iterator at(ProbeList& l, long p) { ProbeList::iterator i = l.begin(); while (p-- > 0) ++i; return i; }
    static std::list<long>::iterator at(std::list<long>& l, long p) { std::list<long>::iterator i = l.begin(); std::advance(i, p); return i; }
    void run(const std::string& id, const std::vector<Op>& ops) {
        std::string out, diff;
        for (size_t k = 0; k < ops.size(); ++k) {
            const Op& o = ops[k]; const Args& a = o.a; std::string rx = "-", rs = "-"; bool ok = true;
            ProbeList& l = *x[cur]; std::list<long>& w = s[cur]; ProbeList& lo = *x[1 - cur]; std::list<long>& wo = s[1 - cur];
            const long n = (long) w.size(), no = (long) wo.size();
            if (o.name == "pb") { l.push_back((int) a[0]); w.push_back(a[0]); }
            else if (o.name == "pf") { l.push_front((int) a[0]); w.push_front(a[0]); }
            else if (o.name == "popb") { if (!n) ok = false; else { l.pop_back(); w.pop_back(); } }
            else if (o.name == "popf") { if (!n) ok = false; else { l.pop_front(); w.pop_front(); } }
            else if (o.name == "ins") { if (a[0] > n) ok = false; else { ProbeList::iterator r = l.insert(at(l, a[0]), (int) a[1]); rx = num(*r); rs = num(*w.insert(at(w, a[0]), a[1])); } }
            else if (o.name == "er") { if (a[0] >= n) ok = false; else { l.erase(at(l, a[0])); w.erase(at(w, a[0])); } }
            else if (o.name == "front") { if (!n) ok = false; else { rx = num(l.front()); rs = num(w.front()); } }
            else if (o.name == "back") { if (!n) ok = false; else { rx = num(l.back()); rs = num(w.back()); } }
            else if (o.name == "riter") { std::vector<long> e; for (ProbeList::reverse_iterator i = l.rbegin(); i != l.rend(); ++i) e.push_back(*i); rx = join(e.begin(), e.end()); rs = join(w.rbegin(), w.rend()); }
            else if (o.name == "clr") { l.clear(); w.clear(); }
            else if (o.name == "swap") { l.swap(lo); w.swap(wo); }
            else if (o.name == "sel") { cur = a[0] ? 1 : 0; }
            else if (o.name == "spl1") { if (a[0] > n || a[1] >= no) ok = false; else { l.splice(at(l, a[0]), lo, at(lo, a[1])); w.splice(at(w, a[0]), wo, at(wo, a[1])); } }
            else if (o.name == "spln") { if (a[0] > n || !(a[1] <= a[2] && a[2] <= no)) ok = false; else { l.splice(at(l, a[0]), lo, at(lo, a[1]), at(lo, a[2])); w.splice(at(w, a[0]), wo, at(wo, a[1]), at(wo, a[2])); } }
            else if (o.name == "splself") { if (a[0] > n || a[1] >= n) ok = false; else { l.splice(at(l, a[0]), l, at(l, a[1])); w.splice(at(w, a[0]), w, at(w, a[1])); } }
            else ok = false;
            if (k) out += "|";
            if (!ok) { out += "!"; continue; }
            ProbeList& c = *x[cur]; std::vector<long> e, labs;
            for (ProbeList::iterator i = c.begin(); i != c.end(); ++i) { e.push_back(*i); labs.push_back(lab(&*i)); }
            std::string ox = rx + "/" + num((long) c.size()) + (c.empty() ? "e" : "") + "/" + join(e.begin(), e.end());
            std::string os = rs + "/" + num((long) s[cur].size()) + (s[cur].empty() ? "e" : "") + "/" + join(s[cur].begin(), s[cur].end());
            if (diff.empty() && ox != os) diff = num((long) k) + " " + o.text + " xalan=" + ox + " std=" + os;
            out += ox + "/" + join(labs.begin(), labs.end()) + "/" + num(c.freeCount());
        }
        std::cout << id << ' ' << out << '\n' << id << ".o " << (diff.empty() ? "OK" : "DIFF " + diff) << '\n';
    }
};

// ------------------------------------------------------------------------------------------------
// deque (block index and free block vector are private: public observables only)
struct DequeRun {
    typedef XalanDeque<int> XD;
    XD* x[2]; std::deque<long> s[2]; size_t bs[2]; int cur;
    DequeRun(const std::vector<long>& p) : cur(0) { for (int r = 0; r < 2; ++r) { bs[r] = (size_t) p[r]; x[r] = new XD(MM(), 0, bs[r]); } }
    ~DequeRun() { delete x[0]; delete x[1]; }
    void run(const std::string& id, const std::vector<Op>& ops) {
        std::string out, diff;
        for (size_t k = 0; k < ops.size(); ++k) {
            const Op& o = ops[k]; const Args& a = o.a; std::string rx = "-", rs = "-"; bool ok = true;
            XD& d = *x[cur]; std::deque<long>& w = s[cur]; const size_t n = w.size();
            if (o.name == "pb") { d.push_back((int) a[0]); w.push_back(a[0]); }
            else if (o.name == "pop") { if (!n) ok = false; else { d.pop_back(); w.pop_back(); } }
            else if (o.name == "back") { if (!n) ok = false; else { rx = num(d.back()); rs = num(w.back()); } }
            else if (o.name == "idx") { if ((size_t) a[0] >= n) ok = false; else { rx = num(d[(size_t) a[0]]); rs = num(w[(size_t) a[0]]); } }
            else if (o.name == "setidx") { if ((size_t) a[0] >= n) ok = false; else { d[(size_t) a[0]] = (int) a[1]; w[(size_t) a[0]] = a[1]; } }
            else if (o.name == "rsz") { d.resize((size_t) a[0]); w.resize((size_t) a[0]); }
            else if (o.name == "clr") { d.clear(); w.clear(); }
            else if (o.name == "iter") { const XD& cd = d; std::vector<long> e; for (XD::const_iterator i = cd.begin(); i != cd.end(); ++i) e.push_back(*i); rx = join(e.begin(), e.end()); rs = join(w.begin(), w.end()); }
            else if (o.name == "riter") { const XD& cd = d; std::vector<long> e; for (XD::const_reverse_iterator i = cd.rbegin(); i != cd.rend(); ++i) e.push_back(*i); rx = join(e.begin(), e.end()); rs = join(w.rbegin(), w.rend()); }
            else if (o.name == "cpy") { delete x[1 - cur]; x[1 - cur] = new XD(d, MM()); s[1 - cur] = w; bs[1 - cur] = bs[cur]; }
            else if (o.name == "asg") { d = *x[1 - cur]; w = s[1 - cur]; }
            else if (o.name == "selfasg") { d = *x[cur]; }
            else if (o.name == "swap") { d.swap(*x[1 - cur]); w.swap(s[1 - cur]); std::swap(bs[0], bs[1]); }     // the block size travels with the blocks
            else if (o.name == "sel") { cur = a[0] ? 1 : 0; }
            else if (o.name == "new") { delete x[cur]; x[cur] = new XD(MM(), (size_t) a[0], bs[cur]); w.assign((size_t) a[0], 0); }
            else ok = false;
            if (k) out += "|";
            if (!ok) { out += "!"; continue; }
            XD& c = *x[cur]; std::vector<long> e; const size_t sz = c.size();
            for (size_t i = 0; i < sz && i < 100000; ++i) e.push_back(c[i]);
            std::string ox = rx + "/" + num((long) sz) + (c.empty() ? "e" : "") + "/" + join(e.begin(), e.end());
            std::string os = rs + "/" + num((long) s[cur].size()) + (s[cur].empty() ? "e" : "") + "/" + join(s[cur].begin(), s[cur].end());
            if (diff.empty() && ox != os) diff = num((long) k) + " " + o.text + " xalan=" + ox + " std=" + os;
            out += ox;
        }
        std::cout << id << ' ' << out << '\n' << id << ".o " << (diff.empty() ? "OK" : "DIFF " + diff) << '\n';
    }
};

// ------------------------------------------------------------------------------------------------
// string
struct StrRun {
    XalanDOMString* x[2]; std::u16string s[2]; int cur;
    StrRun() : cur(0) { x[0] = new XalanDOMString(MM()); x[1] = new XalanDOMString(MM()); }
    ~StrRun() { delete x[0]; delete x[1]; }
    static std::vector<XalanDOMChar> word(const Op& o) { std::vector<XalanDOMChar> w; for (size_t i = 0; i < o.list.size(); ++i) w.push_back((XalanDOMChar) o.list[i]); w.push_back(0); return w; }
    static std::string show(const XalanDOMString& t) { std::vector<long> e; for (XalanDOMString::size_type i = 0; i < t.length() && i < 100000; ++i) e.push_back(t[i]); return join(e.begin(), e.end()); }
    static std::string show(const std::u16string& t) { std::vector<long> e; for (size_t i = 0; i < t.size(); ++i) e.push_back(t[i]); return join(e.begin(), e.end()); }
    static long sign(long v) { return v < 0 ? -1 : v > 0 ? 1 : 0; }
    // true when m_data holds nothing, not even a terminator (default-constructed or cleared string)
    static bool bufempty(const XalanDOMString& t) { return t.c_str() != t.begin(); }
    void run(const std::string& id, const std::vector<Op>& ops) {
        std::string out, diff;
        for (size_t k = 0; k < ops.size(); ++k) {
            const Op& o = ops[k]; const Args& a = o.a; std::string rx = "-", rs = "-"; bool ok = true;
            XalanDOMString& t = *x[cur]; std::u16string& w = s[cur]; XalanDOMString& to = *x[1 - cur]; std::u16string& wo = s[1 - cur];
            const size_t n = w.size(), no = wo.size();
            std::vector<XalanDOMChar> wd = word(o); const XalanDOMChar* wp = &wd[0]; const size_t wl = wd.size() - 1;
            const std::u16string ws(wd.begin(), wd.end() - 1);
            if (o.name == "app") { t.append(wp, (XalanDOMString::size_type) wl); w.append(ws); }
            else if (o.name == "appz") { t.append(wp); w.append(ws); }
            else if (o.name == "appn") { t.append((XalanDOMString::size_type) a[0], (XalanDOMChar) a[1]); w.append((size_t) a[0], (char16_t) a[1]); }
            else if (o.name == "pb") { t.push_back((XalanDOMChar) a[0]); w.push_back((char16_t) a[0]); }
            else if (o.name == "ins") { if ((size_t) a[0] > n) ok = false; else { t.insert((XalanDOMString::size_type) a[0], wp, (XalanDOMString::size_type) wl); w.insert((size_t) a[0], ws); } }
            else if (o.name == "insn") { if ((size_t) a[0] > n) ok = false; else { t.insert((XalanDOMString::size_type) a[0], (XalanDOMString::size_type) a[1], (XalanDOMChar) a[2]); w.insert((size_t) a[0], (size_t) a[1], (char16_t) a[2]); } }
            else if (o.name == "insit") { if ((size_t) a[0] > n) ok = false; else { XalanDOMString::iterator r = t.insert(t.begin() + a[0], (XalanDOMChar) a[1]); rx = num(r - t.begin()); std::u16string::iterator q = w.insert(w.begin() + a[0], (char16_t) a[1]); rs = num(q - w.begin()); } }
            else if (o.name == "insitn") { if ((size_t) a[0] > n) ok = false; else { t.insert(t.begin() + a[0], (XalanDOMString::size_type) a[1], (XalanDOMChar) a[2]); w.insert(w.begin() + a[0], (size_t) a[1], (char16_t) a[2]); } }
            else if (o.name == "inso") { if ((size_t) a[0] > n) ok = false; else { t.insert((XalanDOMString::size_type) a[0], to); w.insert((size_t) a[0], wo); } }
            else if (o.name == "er") { if ((size_t) (a[0] + a[1]) > n) ok = false; else { t.erase((XalanDOMString::size_type) a[0], (XalanDOMString::size_type) a[1]); w.erase((size_t) a[0], (size_t) a[1]); } }
            else if (o.name == "ernpos") { if ((size_t) a[0] > n) ok = false; else { t.erase((XalanDOMString::size_type) a[0]); w.erase((size_t) a[0]); } }
            else if (o.name == "erit") { if (!(a[0] <= a[1] && (size_t) a[1] <= n)) ok = false; else { XalanDOMString::iterator r = t.erase(t.begin() + a[0], t.begin() + a[1]); rx = num(r - t.begin()); std::u16string::iterator q = w.erase(w.begin() + a[0], w.begin() + a[1]); rs = num(q - w.begin()); } }
            else if (o.name == "eritempty") { if (!bufempty(t)) ok = false; else { XalanDOMString::iterator r = t.erase(t.begin(), t.end()); rx = num(r - t.begin()); std::u16string::iterator q = w.erase(w.begin(), w.end()); rs = num(q - w.begin()); } }
            else if (o.name == "erit1") { if ((size_t) a[0] >= n) ok = false; else { XalanDOMString::iterator r = t.erase(t.begin() + a[0]); rx = num(r - t.begin()); std::u16string::iterator q = w.erase(w.begin() + a[0]); rs = num(q - w.begin()); } }
            // rsz0 growing would create NUL code units (outside the driven domain)
            else if (o.name == "rsz") { { t.resize((XalanDOMString::size_type) a[0], (XalanDOMChar) a[1]); w.resize((size_t) a[0], (char16_t) a[1]); } }
            else if (o.name == "rszgrow") { t.resize((XalanDOMString::size_type) a[0], (XalanDOMChar) a[1]); w.resize((size_t) a[0], (char16_t) a[1]); }
            else if (o.name == "rsz0") { if ((size_t) a[0] > n) ok = false; else { t.resize((XalanDOMString::size_type) a[0]); w.resize((size_t) a[0]); } }
            else if (o.name == "rsv") { t.reserve((XalanDOMString::size_type) a[0]); w.reserve((size_t) a[0]); }
            else if (o.name == "clr") { t.clear(); w.clear(); }
            else if (o.name == "asgw") { t.assign(wp, (XalanDOMString::size_type) wl); w.assign(ws); }
            else if (o.name == "asgn") { t.assign((XalanDOMString::size_type) a[0], (XalanDOMChar) a[1]); w.assign((size_t) a[0], (char16_t) a[1]); }
            else if (o.name == "asgit") { if (!(a[0] <= a[1] && (size_t) a[1] <= no)) ok = false; else { t.assign(to.begin() + a[0], to.begin() + a[1]); w.assign(wo.begin() + a[0], wo.begin() + a[1]); } }
            else if (o.name == "substr") { if (!((size_t) a[0] < n && (size_t) (a[0] + a[1]) <= n)) ok = false; else { XalanDOMString tmp(MM()); t.substr(tmp, (XalanDOMString::size_type) a[0], (XalanDOMString::size_type) a[1]); rx = show(tmp); rs = show(w.substr((size_t) a[0], (size_t) a[1])); } }
            else if (o.name == "substrnpos") { if (!((size_t) a[0] < n)) ok = false; else { XalanDOMString tmp(MM()); t.substr(tmp, (XalanDOMString::size_type) a[0]); rx = show(tmp); rs = show(w.substr((size_t) a[0])); } }
            else if (o.name == "selfsub") { if (!((size_t) a[0] < n && (size_t) (a[0] + a[1]) <= n)) ok = false; else { t.assign(t, (XalanDOMString::size_type) a[0], (XalanDOMString::size_type) a[1]); w.assign(std::u16string(w), (size_t) a[0], (size_t) a[1]); } }
            else if (o.name == "asgsub") { if (!((size_t) a[0] < no && (size_t) (a[0] + a[1]) <= no)) ok = false; else { t.assign(to, (XalanDOMString::size_type) a[0], (XalanDOMString::size_type) a[1]); w.assign(wo, (size_t) a[0], (size_t) a[1]); } }
            else if (o.name == "appsub") { if (!((size_t) a[0] < no && (size_t) (a[0] + a[1]) <= no)) ok = false; else { t.append(to, (XalanDOMString::size_type) a[0], (XalanDOMString::size_type) a[1]); w.append(wo, (size_t) a[0], (size_t) a[1]); } }
            else if (o.name == "appsubnpos") { if (!((size_t) a[0] < no)) ok = false; else { t.append(to, (XalanDOMString::size_type) a[0], XalanDOMString::npos); w.append(wo, (size_t) a[0], std::u16string::npos); } }
            else if (o.name == "appo") { t.append(to); w.append(wo); }
            else if (o.name == "cmp") { rx = num(sign(t.compare(to))); rs = num(sign(w.compare(wo))); }
            else if (o.name == "cmpw") { rx = num(sign(t.compare(wp))); rs = num(sign(w.compare(ws))); }
            else if (o.name == "eq") { rx = num(XalanDOMString::equals(t, to) ? 1 : 0); rs = num(w == wo ? 1 : 0); }
            else if (o.name == "idx") { if ((size_t) a[0] >= n) ok = false; else { rx = num(t[(XalanDOMString::size_type) a[0]]); rs = num(w[(size_t) a[0]]); } }
            else if (o.name == "cstr") { const XalanDOMChar* p = t.c_str(); std::vector<long> e; size_t i = 0; for (; p[i] != 0 && i < 100000; ++i) e.push_back(p[i]); rx = join(e.begin(), e.end()); rs = show(std::u16string(w.c_str())); }
            else if (o.name == "riter") { std::vector<long> e; for (XalanDOMString::reverse_iterator i = t.rbegin(); i != t.rend(); ++i) e.push_back(*i); rx = join(e.begin(), e.end()); std::vector<long> f(w.rbegin(), w.rend()); rs = join(f.begin(), f.end()); }
            else if (o.name == "cpy") { delete x[1 - cur]; x[1 - cur] = new XalanDOMString(t, MM()); s[1 - cur] = w; }
            else if (o.name == "cpysub") { if (!((size_t) a[0] < n && (size_t) (a[0] + a[1]) <= n)) ok = false; else { delete x[1 - cur]; x[1 - cur] = new XalanDOMString(t, MM(), (XalanDOMString::size_type) a[0], (XalanDOMString::size_type) a[1]); s[1 - cur] = std::u16string(w, (size_t) a[0], (size_t) a[1]); } }
            else if (o.name == "asg") { t = to; w = wo; }
            else if (o.name == "selfasg") { t = *x[cur]; }
            else if (o.name == "swap") { t.swap(to); w.swap(wo); }
            else if (o.name == "sel") { cur = a[0] ? 1 : 0; }
            else if (o.name == "newn") { delete x[cur]; x[cur] = new XalanDOMString((XalanDOMString::size_type) a[0], (XalanDOMChar) a[1], MM()); w.assign((size_t) a[0], (char16_t) a[1]); }
            else ok = false;
            if (k) out += "|";
            if (!ok) { out += "!"; continue; }
            XalanDOMString& c = *x[cur];
            const bool term = c.length() < 100000 && c.c_str()[c.length()] == 0;
            std::string ox = rx + "/" + num((long) c.length()) + (c.empty() ? "e" : "") + "/" + show(c) + "/" + (term ? "z" : "N");
            std::string os = rs + "/" + num((long) s[cur].size()) + (s[cur].empty() ? "e" : "") + "/" + show(s[cur]) + "/z";
            if (diff.empty() && ox != os) diff = num((long) k) + " " + o.text + " xalan=" + ox + " std=" + os;
            out += ox + "/" + num((long) c.capacity());
        }
        std::cout << id << ' ' << out << '\n' << id << ".o " << (diff.empty() ? "OK" : "DIFF " + diff) << '\n';
    }
};

static void run_more(const std::string& id, const std::string& kind, const std::vector<long>& params, const std::vector<Op>& ops)
{
    if (kind == "st") { SetRun r; r.run(id, ops); }
    else if (kind == "l") { ListRun r; r.run(id, ops); }
    else if (kind == "d") { if (params.size() < 2 || params[0] < 1 || params[1] < 1) return; DequeRun r(params); r.run(id, ops); }
    else if (kind == "s") { StrRun r; r.run(id, ops); }
}

int main(int argc, char** argv)
{
    Init init;
    std::istream* in = &std::cin;
    std::ifstream f;
    if (argc > 1) { f.open(argv[1]); in = &f; }
    std::string line;
    while (std::getline(*in, line)) {
        std::vector<std::string> t = split(line);
        if (t.size() < 3 || t[0][0] == '#') continue;
        const std::string& id = t[0]; const std::string& kind = t[1];
        std::vector<long> params; { Op p = parse_op("p:[" + t[2]); params = p.list; }
        std::vector<Op> ops; for (size_t i = 3; i < t.size(); ++i) ops.push_back(parse_op(t[i]));
        // every case runs in a forked child so that a crash (signal, failed assert, sanitizer abort) is
        // pinned to its case and does not take the following cases with it
        std::cout.flush();
        const pid_t pid = fork();
        if (pid == 0) {
#if defined(__SANITIZE_ADDRESS__)
            alarm(20);
#else
            alarm(3);       // a case that does not terminate (e.g. a corrupted list ring) dies with SIGALRM
#endif
            if (kind == "vi") { VecRun<IntAd> r; r.run(id, ops); }
            else if (kind == "vs") { VecRun<StrAd> r; r.run(id, ops); }
            else if (kind == "m") { if (params.size() >= 8 && params[2] >= 1 && params[6] >= 1) { MapRun r(params); r.run(id, ops); } }
            else run_more(id, kind, params, ops);
            std::cout.flush();
#if defined(__SANITIZE_ADDRESS__)
            if (__lsan_do_recoverable_leak_check()) _exit(96);      // the containers of this case leaked
#endif
            _exit(0);
        }
        int status = 0;
        waitpid(pid, &status, 0);
        if (!(WIFEXITED(status) && WEXITSTATUS(status) == 0))
            std::cout << id << ".o CRASH " << (WIFSIGNALED(status) ? "signal " + num(WTERMSIG(status)) : "exit status " + num(WEXITSTATUS(status))) << '\n';
        std::cout.flush();
    }
    return 0;
}
