(* C07 (thr family) — lemmas and proofs. *)
From Coq Require Import String List Bool Arith ZArith Lia.
Require Import XV.GenThr XV.ThrDefs.
Import ListNotations.
Open Scope string_scope.

(* ------------------------------------------------------------------------------------------ *)
(* Part A *)

Lemma census_equals_audit_l :
  mutable_residue = map (fun a => fst (fst a)) mutable_audit /\
  constcast_residue = map (fun a => fst (fst a)) constcast_audit /\
  static_residue = map (fun a => fst (fst a)) static_audit /\
  census_localstatic = map (fun a => fst (fst a)) localstatic_audit /\
  census_owner = map facility_home all_facilities /\
  census_constlookup = map (fun a => fst (fst a)) constlookup_audit.
Proof. vm_compute. repeat split; reflexivity. Qed.

Lemma audit_check_true : audit_check = true.
Proof. vm_compute. reflexivity. Qed.
Lemma verdicts_check_true : verdicts_check = true.
Proof. vm_compute. reflexivity. Qed.
Lemma owners_perthread_true : owners_perthread_check = true.
Proof. vm_compute. reflexivity. Qed.

Lemma verdict_ok_neq : forall v, verdict_ok v = true -> v <> SharedWrite.
Proof. intros v H E. subst. discriminate. Qed.

Lemma class_audit_ok : forall c v j, In (c, v, j) class_audit -> v <> SharedWrite.
Proof.
  intros c v j H. apply verdict_ok_neq.
  assert (F : forallb (fun a => verdict_ok (snd (fst a))) class_audit = true) by (vm_compute; reflexivity).
  rewrite forallb_forall in F. apply (F _ H).
Qed.

Lemma class_listed_in : forall c, class_listed c = true -> exists v j, In (c, v, j) class_audit /\ v <> SharedWrite.
Proof.
  intros c H. unfold class_listed, class_verdict in H.
  destruct (find (fun e => String.eqb c (fst (fst e))) class_audit) as [[[c' v] j]|] eqn:E; [|discriminate].
  apply find_some in E. destruct E as [Hin Heq]. cbn in Heq. apply String.eqb_eq in Heq. subst c'.
  exists v, j. split; [exact Hin | eapply class_audit_ok; exact Hin].
Qed.

Definition mutable_justified (e : string * string * string) : Prop :=
  (exists v j, In (mutable_class e, v, j) class_audit /\ v <> SharedWrite) \/
  (exists v j, In (e, v, j) mutable_audit /\ v <> SharedWrite).

Lemma mutable_allowlisted : forall e, In e census_mutable -> mutable_justified e.
Proof.
  intros e H. destruct (class_listed (mutable_class e)) eqn:C.
  - left. apply class_listed_in. exact C.
  - right. assert (R : In e mutable_residue) by (apply filter_In; split; [exact H | rewrite C; reflexivity]).
    destruct census_equals_audit_l as [E _]. rewrite E in R. apply in_map_iff in R.
    destruct R as [[[k v] j] [Hk Hin]]. cbn in Hk. subst k. exists v, j. split; [exact Hin|].
    apply verdict_ok_neq.
    assert (F : forallb (fun a => verdict_ok (snd (fst a))) mutable_audit = true) by (vm_compute; reflexivity).
    rewrite forallb_forall in F. apply (F _ Hin).
Qed.

Definition constcast_justified (e : string * string * string * string * nat) : Prop :=
  (exists v j, In (cast_class e, v, j) class_audit /\ v <> SharedWrite) \/
  (exists v j, In (e, v, j) constcast_audit /\ (v <> SharedWrite \/ In (cast_fn e) known_shared_writes)).

Lemma str_in_In : forall s l, str_in s l = true -> In s l.
Proof.
  intros s l H. unfold str_in in H. apply existsb_exists in H. destruct H as [x [Hx E]].
  apply String.eqb_eq in E. subst. exact Hx.
Qed.

Lemma constcast_allowlisted : forall e, In e census_constcast -> constcast_justified e.
Proof.
  intros e H. destruct (class_listed (cast_class e)) eqn:C.
  - left. apply class_listed_in. exact C.
  - right. assert (R : In e constcast_residue) by (apply filter_In; split; [exact H | rewrite C; reflexivity]).
    destruct census_equals_audit_l as [_ [E _]]. rewrite E in R. apply in_map_iff in R.
    destruct R as [[[k v] j] [Hk Hin]]. cbn in Hk. subst k. exists v, j. split; [exact Hin|].
    assert (F : forallb (fun a => (verdict_ok (snd (fst a)) || str_in (cast_fn (fst (fst a))) known_shared_writes)%bool) constcast_audit = true)
      by (vm_compute; reflexivity).
    rewrite forallb_forall in F. specialize (F _ Hin). cbn in F. apply orb_true_iff in F.
    destruct F as [F|F]; [left; apply verdict_ok_neq; exact F | right; apply str_in_In; exact F].
Qed.

Lemma constcast_no_shared_write : forall k v j, In (k, v, j) constcast_audit -> v <> SharedWrite.
Proof.
  intros k v j Hin. apply verdict_ok_neq.
  assert (F : forallb (fun a => verdict_ok (snd (fst a))) constcast_audit = true) by (vm_compute; reflexivity).
  rewrite forallb_forall in F. apply (F _ Hin).
Qed.

Lemma constlookup_allowlisted : forall e, In e census_constlookup -> exists v j, In (e, v, j) constlookup_audit /\ v <> SharedWrite.
Proof.
  intros e H. destruct census_equals_audit_l as [_ [_ [_ [_ [_ E]]]]]. rewrite E in H. apply in_map_iff in H.
  destruct H as [[[k v] j] [Hk Hin]]. cbn in Hk. subst k. exists v, j. split; [exact Hin|].
  apply verdict_ok_neq.
  assert (F : forallb (fun a => verdict_ok (snd (fst a))) constlookup_audit = true) by (vm_compute; reflexivity).
  rewrite forallb_forall in F. apply (F _ Hin).
Qed.

(* on the classes of shared objects every const container lookup is guarded, primed or compile-time only *)
Lemma lazy_head_sites_covered : forall e v j, In (e, v, j) constlookup_audit ->
  v = PerThread \/ v = ConstructionOnly \/ v = InitOnly \/ v = ConfigAPI \/ v = ReadOnly.
Proof.
  intros e v j Hin.
  assert (F : forallb (fun a => match snd (fst a) with PerThread | ConstructionOnly | InitOnly | ConfigAPI | ReadOnly => true | _ => false end) constlookup_audit = true)
    by (vm_compute; reflexivity).
  rewrite forallb_forall in F. specialize (F _ Hin). cbn in F. destruct v; try discriminate; tauto.
Qed.

Lemma lazy_guard_facts :
  In ("XalanSourceTreeDocument", "m_elementsByID", "Map", "XalanSourceTreeDocument::getElementById const", "end,find", "guarded", "FunctionID::execute;XercesDocumentWrapper::getElementById;getDoc") census_constlookup /\
  In ("XalanSourceTreeDocument", "m_unparsedEntityURIs", "Map", "XalanSourceTreeDocument::getUnparsedEntityURI const", "end,find", "guarded", "many(5)") census_constlookup.
Proof.
  split; unfold census_constlookup; repeat (first [left; reflexivity | right]).
Qed.

Definition static_justified (e : string * string * string * list (string * string)) : Prop :=
  (forall u, In u (snd e) -> In (fst u) init_functions) \/
  (exists v j, In (e, v, j) static_audit /\ v <> SharedWrite).

Lemma static_allowlisted : forall e, In e census_static -> static_justified e.
Proof.
  intros e H. destruct (static_init_only e) eqn:C.
  - left. intros u Hu. unfold static_init_only in C. rewrite forallb_forall in C. apply str_in_In. apply C. exact Hu.
  - right. assert (R : In e static_residue) by (apply filter_In; split; [exact H | rewrite C; reflexivity]).
    destruct census_equals_audit_l as [_ [_ [E _]]]. rewrite E in R. apply in_map_iff in R.
    destruct R as [[[k v] j] [Hk Hin]]. cbn in Hk. subst k. exists v, j. split; [exact Hin|].
    apply verdict_ok_neq.
    assert (F : forallb (fun a => verdict_ok (snd (fst a))) static_audit = true) by (vm_compute; reflexivity).
    rewrite forallb_forall in F. apply (F _ Hin).
Qed.

Lemma localstatic_allowlisted : forall e, In e census_localstatic -> exists v j, In (e, v, j) localstatic_audit /\ v <> SharedWrite.
Proof.
  intros e H. destruct census_equals_audit_l as [_ [_ [_ [E _]]]]. rewrite E in H. apply in_map_iff in H.
  destruct H as [[[k v] j] [Hk Hin]]. cbn in Hk. subst k. exists v, j. split; [exact Hin|].
  apply verdict_ok_neq.
  assert (F : forallb (fun a => verdict_ok (snd (fst a))) localstatic_audit = true) by (vm_compute; reflexivity).
  rewrite forallb_forall in F. apply (F _ Hin).
Qed.

Lemma facility_state_per_thread : forall f, In (facility_home f) census_owner /\
  ((exists j, In (snd (facility_home f), PerThread, j) class_audit) \/ In (snd (facility_home f)) (map fst extra_perthread_classes)).
Proof.
  intros f. split.
  - destruct census_equals_audit_l as [_ [_ [_ [_ [E _]]]]]. rewrite E. apply in_map. destruct f; cbn; tauto.
  - destruct f; cbn; try (left; eexists; tauto); right; tauto.
Qed.

(* ------------------------------------------------------------------------------------------ *)
(* Part B *)

Section Interleaving.
  Context {Sh Lo : Type}.
  Variable g : gstep_t Sh Lo.
  Hypothesis Hframe : frame g.

  Lemma gsteps_shared_unchanged : forall s c tr s' c', gsteps g s c tr s' c' -> s' = s.
  Proof.
    intros s c tr s' c' H. induction H; [reflexivity|]. rewrite IHgsteps. apply Hframe.
  Qed.

  Lemma interleaving_independent_gen : forall s c tr s' c', gsteps g s c tr s' c' ->
    forall t, c' t = seq_local g s (steps_of t tr) (c t) /\ out_of t tr = seq_out g s (steps_of t tr) (c t).
  Proof.
    intros s c tr s' c' H. induction H as [s c | s c u tr s' c' H IH]; intros t.
    - cbn. split; reflexivity.
    - specialize (IH t). rewrite (Hframe s (c u)) in IH. cbn [steps_of out_of]. unfold upd in IH.
      destruct (Nat.eqb_spec u t) as [E|N].
      + subst u. rewrite Nat.eqb_refl in IH. cbn [Nat.add seq_local seq_out]. destruct IH as [I1 I2]. split; [exact I1|].
        rewrite I2. reflexivity.
      + assert (Nat.eqb t u = false) as Ntu by (apply Nat.eqb_neq; congruence). rewrite Ntu in IH.
        cbn [Nat.add app]. exact IH.
  Qed.
End Interleaving.

Lemma frame_lift : forall {Sh Lo} (f : Sh -> Lo -> Lo * out), frame (lift f).
Proof. intros Sh Lo f s l. reflexivity. Qed.

Lemma gsteps_run_sched : forall {Sh Lo} (g : gstep_t Sh Lo) sched s c,
  gsteps g s c (snd (run_sched g s c sched)) (fst (fst (run_sched g s c sched))) (snd (fst (run_sched g s c sched))).
Proof.
  intros Sh Lo g sched. induction sched as [|t r IH]; intros s c; cbn.
  - constructor.
  - apply gsteps_cons. apply IH.
Qed.

Lemma step_finished : forall s l, finished s l -> step s l = (l, []).
Proof. intros s l H. unfold finished in H. unfold step. rewrite H. reflexivity. Qed.

Lemma seq_finished : forall s n l, finished s l ->
  seq_local (lift step) s n l = l /\ seq_out (lift step) s n l = [].
Proof.
  intros s n. induction n as [|n IH]; intros l H; cbn; [split; reflexivity|].
  unfold lift. cbn. rewrite (step_finished s l H). cbn. apply (IH l H).
Qed.

Lemma seq_split : forall {Sh Lo} (g : gstep_t Sh Lo) s n m l,
  seq_local g s (n + m) l = seq_local g s m (seq_local g s n l) /\
  seq_out g s (n + m) l = (seq_out g s n l ++ seq_out g s m (seq_local g s n l))%list.
Proof.
  intros Sh Lo g s n. induction n as [|n IH]; intros m l; cbn; [split; reflexivity|].
  destruct (IH m (snd (fst (g s l)))) as [I1 I2]. split; [exact I1|]. rewrite I2. rewrite app_assoc. reflexivity.
Qed.

Lemma interleaving_complete_l : forall s c tr s' c', gsteps (lift step) s c tr s' c' ->
  forall t, finished s (c' t) -> forall n, steps_of t tr <= n ->
  seq_out (lift step) s n (c t) = out_of t tr /\ seq_local (lift step) s n (c t) = c' t.
Proof.
  intros s c tr s' c' H t F n Hn.
  destruct (interleaving_independent_gen (lift step) (frame_lift step) _ _ _ _ _ H t) as [I1 I2].
  replace n with (steps_of t tr + (n - steps_of t tr)) by lia.
  destruct (seq_split (lift step) s (steps_of t tr) (n - steps_of t tr) (c t)) as [S1 S2].
  rewrite S1, S2, <- I1, <- I2.
  destruct (seq_finished s (n - steps_of t tr) (c' t) F) as [F1 F2]. rewrite F1, F2, app_nil_r. split; reflexivity.
Qed.

Lemma racy_not_frame : ~ frame racy.
Proof. intros H. specialize (H 0 0). cbn in H. discriminate. Qed.

Lemma racy_interleaving_dependent :
  exists tr1 tr2 s1 c1 s2 c2,
    gsteps racy 0 (fun _ => 0) tr1 s1 c1 /\ gsteps racy 0 (fun _ => 0) tr2 s2 c2 /\
    steps_of 0 tr1 = steps_of 0 tr2 /\ out_of 0 tr1 <> out_of 0 tr2.
Proof.
  pose (r1 := run_sched racy 0 (fun _ => 0) [0; 1]). pose (r2 := run_sched racy 0 (fun _ => 0) [1; 0]).
  exists (snd r1), (snd r2), (fst (fst r1)), (snd (fst r1)), (fst (fst r2)), (snd (fst r2)).
  split; [apply gsteps_run_sched|]. split; [apply gsteps_run_sched|].
  split; [reflexivity|]. vm_compute. discriminate.
Qed.

(* ------------------------------------------------------------------------------------------ *)
(* Part C *)

Lemma str_in_false_notin : forall s l, str_in s l = false -> ~ In s l.
Proof.
  intros s l H Hin. assert (str_in s l = true); [|congruence].
  unfold str_in. apply existsb_exists. exists s. split; [exact Hin | apply String.eqb_refl].
Qed.

Lemma intern_nodup : forall p s, NoDup p -> NoDup (intern p s).
Proof.
  intros p s H. unfold intern. destruct (str_in s p) eqn:E; [exact H|].
  constructor; [apply str_in_false_notin; exact E | exact H].
Qed.

Lemma intern_in : forall p s, In s (intern p s) /\ forall x, In x p -> In x (intern p s).
Proof.
  intros p s. unfold intern. destruct (str_in s p) eqn:E.
  - split; [apply str_in_In; exact E | auto].
  - split; [left; reflexivity | intros x Hx; right; exact Hx].
Qed.

Lemma pool_locked_nodup_l : forall reqs p, NoDup p -> NoDup (run_locked reqs p).
Proof.
  intros reqs. induction reqs as [|s r IH]; intros p H; cbn; [exact H|]. apply IH. apply intern_nodup. exact H.
Qed.

Lemma run_locked_keeps : forall reqs p x, In x p -> In x (run_locked reqs p).
Proof.
  intros reqs. induction reqs as [|s r IH]; intros p x H; cbn; [exact H|]. apply IH. exact (proj2 (intern_in p s) x H).
Qed.

Lemma pool_locked_complete_l : forall reqs p s, In s reqs -> In s (run_locked reqs p).
Proof.
  intros reqs. induction reqs as [|a r IH]; intros p s H; [destruct H|]. cbn. destruct H as [H|H].
  - subst a. apply run_locked_keeps. exact (proj1 (intern_in p s)).
  - apply IH. exact H.
Qed.

Lemma pool_unlocked_nodup_refuted_l :
  exists sched, wf_thread 0 (acts_of 0 sched) = true /\ wf_thread 1 (acts_of 1 sched) = true /\
                ~ NoDup (run_unlocked sched []).
Proof.
  exists [Probe 0 "item"; Probe 1 "item"; Insert 0 "item"; Insert 1 "item"].
  split; [reflexivity|]. split; [reflexivity|].
  vm_compute. intros H. inversion H as [|x l N _]. apply N. left. reflexivity.
Qed.
