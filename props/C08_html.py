"""C08, part "html" — the HTML output method inside the model.

proof          coq/Properties_C08h.v over HtmlDefs.v: FormatterToHTML as coded (indent off) and a reader written from
               HTML 4.01; facts regenerated from /repo: GenHtml.v (entity table, character maps, constants, strings,
               variant of processingInstruction) and GenOutopt.v (element/attribute property table)
correspondence extracted model (.build/html_model) vs the rebuilt library (.build/outopt_plain, H lines =
               FormatterToHTML::create driven event by event; Z lines = XalanTransformer with method="html"), byte-exact,
               over: every element of the table (and unknown names) in three shapes, every boolean-attribute pair and
               every URL-attribute pair of the table (and pairs outside it), every character class in text / attribute /
               SCRIPT / STYLE / comment / PI position, both escapeURLs settings, omitMETATag on/off, DOCTYPE variants,
               UTF-8 / ISO-8859-1 / US-ASCII, generated trees
oracle         (no model) props/C08.h_verdict: Python's html.parser on the library's bytes against the tree, HTML 4.01's
               own lists of void / CDATA / boolean / URI attributes — on the cases of these streams inside its domain
"""
import os
from vlib import core
from props import C04 as S4

u16, tok, untok = S4.u16, S4.tok, S4.untok
ENCS = ["UTF-8", "ISO-8859-1", "US-ASCII"]
PY = {"UTF-8": "utf-8", "ISO-8859-1": "latin-1", "US-ASCII": "ascii"}
MAXC = {"UTF-8": 0xFFFF, "ISO-8859-1": 0xFF, "US-ASCII": 0x7F}

# character classes (UTF-16 units); `oracle` = inside the domain of the html.parser oracle (HTML document characters)
CLASSES = {
    "plain": ([ord(c) for c in "abcXYZ 019.,;:-_/()[]=+*%$#@!?~^`{}|\\"], True),
    "markup": ([60, 62, 38, 34, 39], True),
    "ampbrace": ([38, 123], True),
    "tab": ([9], True), "lf": ([10], True), "cr": ([13], False), "crlf": ([13, 10], False),
    "del": ([0x7F], False), "c1": ([0x80, 0x85, 0x9F], False), "c0": ([1, 8, 0x1F], False),
    "nbsp": ([0xA0], True), "latin1": ([0xA1, 0xE9, 0xFE, 0xFF], True),
    "entity": ([0x152, 0x2022, 0x20AC, 0x2665, 0x3A9], True), "bmp": ([0x100, 0x3B1, 0x3042, 0xD7FF, 0xE000, 0xFFFD], True),
    "astral": ([0xD83D, 0xDE00, 0xD800, 0xDC00, 0xDBFF, 0xDFFD], True),
}


def evs_of(tree):
    """tree = ("el", name, [(an, av)], [kids]) | ("t", units) | ("m", units) | ("p", target, data) -> C08 event list"""
    out = []

    def go(n):
        if n[0] == "el":
            out.append(("S", u16(n[1]), [(u16(a), v if isinstance(v, list) else u16(v)) for a, v in n[2]]))
            for k in n[3]:
                go(k)
            out.append(("E", u16(n[1])))
        elif n[0] == "t":
            out.append(("T", n[1]))
        elif n[0] == "m":
            out.append(("M", n[1]))
        else:
            out.append(("P", u16(n[1]), n[2]))
    for t in tree:
        go(t)
    return out


def rstr(r, n, classes):
    out = []
    while len(out) < n:
        k = r.choice(classes)
        us = CLASSES[k][0]
        if k == "astral":
            i = 2 * r.randrange(len(us) // 2)
            out += us[i:i + 2]
        elif k in ("crlf", "ampbrace"):
            out += us
        else:
            out.append(r.choice(us))
    return out


def in_oracle_domain(classes):
    return all(CLASSES[k][1] for k in classes)


def table_cases(C08, names, bools, urls):
    """deterministic streams over the regenerated table; (cls, enc, esc, ometa, dtsys, dtpub, tree, oracle_ok)"""
    cs = []
    for nm in sorted(set(n.lower() for n in names) | {"foo", "x-y", "blink", "main"}):
        raw = nm in ("script", "style")
        for shape, kids in (("empty", []), ("text", [("t", u16("a<b &c"))]), ("elem", [("el", "b", [], [("t", u16("x"))])])):
            for variant in (nm, nm.upper()):
                void = nm in C08.HTML4_VOID
                orc = not (void and kids) and not (raw and shape == "elem")
                cs.append(("table:" + shape, "UTF-8", 1, 1, "-", "-", [("el", variant, [], kids)], orc))
    pairs = sorted(set(bools) | {("p", "checked"), ("div", "disabled"), ("input", "value"), ("foo", "selected")})
    for el, an in pairs:
        for v in ("", an, an.upper(), an.capitalize(), "x", an + "x"):
            # an empty value is minimised too (<td nowrap=""> -> <td nowrap>): presence is all a boolean attribute says; the
            # html.parser oracle accepts a minimised attribute only for the value = name, so these stay correspondence-only
            orc = ((el, an) in C08.HTML4_BOOLEAN and v != "") or (v != "" and v.lower() != an) or (v == "" and (el, an) not in bools)
            cs.append(("boolattr", "UTF-8", 1, 1, "-", "-", [("el", el, [(an, v)], [])], orc))
        cs.append(("boolattr", "UTF-8", 1, 1, "-", "-", [("el", el.upper(), [(an.upper(), an)], [])], (el, an) in C08.HTML4_BOOLEAN))
    return cs


URL_VALUES = [("plain", u16("http://h/a?b=1&c=2#f")), ("space", u16("a b")), ("quote", u16('a"b')), ("lt", u16("a<b>c")), ("pct", u16("%41%zz%")),
              ("latin", u16("caféÿ")), ("bmp", u16("Ā߿ࠀあ�")), ("astral", [0xD83D, 0xDE00, 0x61, 0xD800, 0xDC00, 0xDBFF, 0xDFFD]),
              ("ctl", [9, 10, 0x61]), ("del", [0x7E, 0x7F, 0x80]), ("ampbrace", u16("&{x};&")), ("ampname", u16("a?x=1&lt;=2&copy;3")), ("empty", [])]


def url_cases(C08, r, urls, quick):
    cs = []
    pairs = sorted(set(urls) | set(C08.HTML4_URI) | {("p", "href"), ("a", "title"), ("foo", "src")})
    for el, an in pairs:
        for vn, v in (URL_VALUES if (el, an) in (("a", "href"), ("img", "src")) or not quick else r.sample(URL_VALUES, 4)):
            for esc in (0, 1):
                for enc in (ENCS if (el, an) == ("a", "href") or not quick else [r.choice(ENCS)]):
                    in_table = (el, an) in urls
                    changed = in_table and esc == 1 and any(u < 33 and u != 32 or u > 126 or u == 34 for u in v)
                    # the oracle knows HTML 4.01's URI attributes
                    # (the oracle compares an escaped value by unquoting it: a value that already holds a '%' is outside that comparison)
                    orc = vn not in ("ctl", "del") and (not changed or ((el, an) in C08.HTML4_URI and 37 not in v))
                    cs.append(("urlattr:" + vn, enc, esc, 1, "-", "-", [("el", el, [(an, v)], [])], orc))
    return cs


def text_cases():
    cs = []
    for k in sorted(CLASSES):
        for enc in ENCS:
            s = CLASSES[k][0]
            body = u16("a") + s + u16("z")
            orc = CLASSES[k][1]
            rep = all(u <= MAXC[enc] for u in s)
            cs.append(("text:" + k, enc, 1, 1, "-", "-", [("el", "p", [], [("t", body)])], orc))
            cs.append(("attr:" + k, enc, 1, 1, "-", "-", [("el", "p", [("title", body)], [])], orc))
            cs.append(("script:" + k, enc, 1, 1, "-", "-", [("el", "script", [], [("t", body)])], orc and rep))
            cs.append(("style:" + k, enc, 1, 1, "-", "-", [("el", "style", [], [("t", body)])], orc and rep))
            cs.append(("title:" + k, enc, 1, 0, "-", "-", [("el", "head", [], [("el", "title", [], [("t", body)])])], orc))
            if k in ("plain", "tab", "lf", "latin1", "bmp", "entity", "nbsp"):
                cs.append(("comment:" + k, enc, 1, 1, "-", "-", [("el", "p", [], [("m", S4.clean_comment(list(body)))])], orc and rep))
            cs.append(("pi:" + k, enc, 1, 1, "-", "-", [("p", "t", [u for u in body if u != 62]), ("el", "p", [], [("p", "x-y", [u for u in s if u != 62])])], False))
    for ds, dp in (("sys.dtd", "-"), ("-", "-//W3C//DTD HTML 4.01//EN"), ("http://www.w3.org/TR/html4/strict.dtd", "-//W3C//DTD HTML 4.01//EN")):
        for om in (0, 1):
            # the line end after the DOCTYPE is white space outside the document element: html.parser reports it as text, so these are correspondence-only
            cs.append(("doctype", "UTF-8", 1, om, ds, dp, [("el", "html", [], [("el", "head", [], []), ("el", "body", [], [("t", u16("x"))])])], False))
    cs.append(("nested-script", "UTF-8", 1, 1, "-", "-", [("el", "script", [], [("el", "b", [], [("t", u16("a<b"))]), ("t", u16("c&d"))])], False))
    cs.append(("head-in-body", "US-ASCII", 1, 0, "-", "-", [("el", "body", [], [("el", "HEAD", [], [])])], True))
    cs.append(("empty-text", "UTF-8", 1, 1, "-", "-", [("el", "p", [], [("t", [])]), ("el", "br", [], [("t", [])])], True))
    return cs


SNOW, EACUTE = 0x2603, 0xE9


def ns_cases(r, n_random):
    """prefixed element names (bound / unbound prefix), a default namespace on html elements, followed by what is written as a
    numeric reference (U+2603 under the narrow encodings, a supplementary character everywhere, TAB/CR in an attribute) or as
    %HH (non-ASCII in a URL attribute): the scratch string m_stringBuffer is shared by doPushHasNamespace,
    writeNumberedEntityReference and accumHexNumber.  (cls, enc, esc, ometa, ds, dp, tree, oracle_ok); HN lines."""
    cs = []
    astral = [0xD83D, 0xDE00]
    refs = [("snow", [SNOW]), ("astral", astral), ("latin", [EACUTE, 0xFF]), ("mix", u16("a") + [SNOW] + astral + [EACUTE])]
    for enc in ENCS:
        for esc in (0, 1):
            for rn, rs in refs:
                svg = ("el", "svg:svg", [], [("el", "svg:g", [("id", u16("g") + rs)], [("t", rs)])])
                after = [("el", "p", [("title", rs + [9])], [("t", rs)]), ("el", "a", [("href", u16("http://h/") + rs)], [("t", u16("x"))])]
                # bound prefix, declared on the root / on the element itself / unbound (HTML path, name with a colon)
                cs.append(("ns:root-decl:" + rn, enc, esc, 1, "-", "-", [("el", "html", [("xmlns:svg", "http://www.w3.org/2000/svg")], [("el", "body", [], [svg] + after)])], True))
                cs.append(("ns:self-decl:" + rn, enc, esc, 1, "-", "-", [("el", "div", [], [("el", "m:math", [("xmlns:m", "urn:m"), ("title", rs)], []), ("el", "a", [("href", rs)], [])])], True))
                cs.append(("ns:unbound:" + rn, enc, esc, 1, "-", "-", [("el", "div", [], [("el", "x:y", [("title", rs)], [("t", rs)]), ("el", "a", [("href", rs)], [("t", rs)])])], True))
                cs.append(("ns:empty-uri:" + rn, enc, esc, 1, "-", "-", [("el", "div", [("xmlns:e", "")], [("el", "e:f", [], [("t", rs)]), ("el", "img", [("src", rs)], [])])], True))
                # default namespace on html elements: everything is written the XML way (<br/>, escaped SCRIPT text): correspondence only
                cs.append(("ns:default:" + rn, enc, esc, 0, "-", "-", [("el", "html", [("xmlns", "http://www.w3.org/1999/xhtml")],
                           [("el", "head", [], []), ("el", "body", [], [("el", "br", [], []), ("el", "a", [("href", rs)], [("t", rs)]), ("el", "script", [], [("t", u16("a<b") + rs)])])])], False))
                # a processing instruction and a comment between the prefixed start tag and the reference
                cs.append(("ns:pi-between:" + rn, enc, esc, 1, "-", "-", [("el", "div", [("xmlns:q", "urn:q")], [("el", "q:r", [], [("p", "t", u16("d")), ("m", u16("c"))]), ("t", rs)])], False))
            cs.append(("ns:xhtml-doctype", enc, esc, 1, "-", "-//W3C//DTD XHTML 1.0 Strict//EN", [("el", "html", [("xmlns:s", "urn:s")], [("el", "s:e", [], []), ("el", "p", [], [("t", [SNOW])])])], False))
    names = ["svg:svg", "svg:g", "m:mi", "x:y", "p", "span", "a", "div", "b"]
    for i in range(n_random):
        enc = ENCS[i % 3]
        bound = r.sample(["svg", "m"], r.choice([1, 2]))
        pool = ["plain", "latin1", "entity", "bmp", "astral", "tab", "markup"]

        def el(depth):
            nm = r.choice(names)
            at = []
            if r.random() < 0.4:
                at.append(("title", rstr(r, r.choice([1, 3]), pool)))
            if nm == "a" or r.random() < 0.2:
                at.append(("href", u16("http://h/") + rstr(r, r.choice([1, 3]), ["plain", "latin1", "bmp", "astral"])))
            kids = []
            for _ in range(r.choice([0, 1, 2, 3]) if depth < 4 else 0):
                if r.random() < 0.4 and not (kids and kids[-1][0] == "t"):
                    kids.append(("t", rstr(r, r.choice([1, 2, 4]), pool)))
                else:
                    kids.append(el(depth + 1))
            return ("el", nm, at, kids)
        root = ("el", "html", [("xmlns:" + p_, "urn:" + p_) for p_ in bound], [("el", "body", [], [el(1) for _ in range(r.choice([1, 2, 3]))])])
        flat = evs_of([root])
        orc = not any(37 in v and s_(a) == "href" for e in flat if e[0] == "S" for a, v in e[2])
        cs.append(("ns:tree", enc, r.choice([0, 1]), 1, "-", "-", [root], orc))
    return cs


def prefixes_declared(evs):
    """every prefix of an element name is declared by an xmlns:p attribute of an open element (a stylesheet can write the tree)"""
    stack = []
    for e in evs:
        if e[0] == "S":
            stack.append({s_(a)[6:] for a, _ in e[2] if s_(a).startswith("xmlns:")})
            nm = s_(e[1])
            if ":" in nm and not any(nm.split(":")[0] in f for f in stack):
                return False
        elif e[0] == "E":
            stack.pop()
    return True


def s_(units):
    return "".join(map(chr, units))


BLOCK = ["div", "p", "ul", "li", "table", "tr", "td", "h1", "form", "blockquote", "select", "option", "pre", "textarea"]
INLINE = ["span", "b", "i", "a", "em", "q", "button", "label", "foo", "X-Y"]
VOIDS = ["br", "hr", "img", "input", "BR", "Img"]


def gen_tree(C08, r, enc, bools, urls, with_pi):
    """a random document; returns (tree, oracle_ok)"""
    mix = r.choice([["plain"], ["plain", "markup"], ["plain", "latin1", "markup", "nbsp"], ["plain", "bmp", "entity"], ["plain", "astral", "markup"],
                    ["plain", "tab", "lf", "markup", "ampbrace"], ["plain", "astral", "latin1", "entity", "lf"]])
    orc = [True]

    def attrs_for(name):
        low = name.lower()
        at = []
        for (el, an) in bools:
            if el == low and r.random() < 0.5:
                v = r.choice([an, an.upper(), ""])
                if (el, an) not in C08.HTML4_BOOLEAN or v == "":
                    orc[0] = False
                at.append((r.choice([an, an.upper()]), v))
        for (el, an) in urls:
            if el == low and r.random() < 0.5:
                v = u16("http://h/") + rstr(r, r.choice([1, 3, 6]), r.choice([["plain"], ["plain", "latin1"], ["bmp", "astral"], ["markup", "plain", "astral"]]))
                if (el, an) not in C08.HTML4_URI or 37 in v:
                    orc[0] = False
                at.append((an, v))
        if r.random() < 0.4:
            at.append(("class", rstr(r, r.choice([1, 4]), mix)))
        if r.random() < 0.2:
            at.append(("title", rstr(r, r.choice([0, 1, 3, 5]), mix)))
        return at

    def el(name, depth):
        low = name.lower()
        kids = []
        if low in C08.HTML4_VOID:
            pass
        elif low in ("script", "style"):
            if r.random() < 0.85:
                s = rstr(r, r.choice([1, 4, 9]), ["plain", "markup", "lf"] + (["bmp", "latin1"] if enc == "UTF-8" else [])) + u16(" a<b && c>d ")
                kids.append(("t", s))
        else:
            last_text = False
            for _ in range(r.choice([0, 1, 2, 3]) if depth < 4 else 0):
                k = r.random()
                if k < 0.35 and not last_text:
                    kids.append(("t", rstr(r, r.choice([1, 3, 7]), mix)))
                    last_text = True
                    continue
                last_text = False
                if k < 0.5:
                    kids.append(el(r.choice(VOIDS), depth + 1))
                elif k < 0.58:
                    kids.append(el(r.choice(["script", "style", "SCRIPT"]), depth + 1))
                elif k < 0.65:
                    kids.append(("m", S4.clean_comment(rstr(r, 3, ["plain"]))))
                elif k < 0.7 and with_pi:
                    kids.append(("p", r.choice(["pi", "x-pi"]), [u for u in rstr(r, r.choice([0, 2, 4]), ["plain"]) if u != 62]))
                    orc[0] = False
                else:
                    kids.append(el(r.choice(BLOCK + INLINE), depth + 1))
        return ("el", name, attrs_for(name), kids)
    root = r.choice(["html", "HTML", "Html"])
    top = []
    if r.random() < 0.6:
        hk = []
        if r.random() < 0.5:
            hk.append(("el", "title", [], [("t", rstr(r, 4, mix))]))
        if r.random() < 0.3:
            hk.append(el("style", 2))
        top.append(("el", r.choice(["head", "HEAD"]), [], hk))
    top.append(("el", "body", [], [el(r.choice(BLOCK + INLINE + VOIDS + ["script"]), 1) for _ in range(r.choice([1, 2, 3, 4]))]))
    doc = [("el", root, [], top)]
    if with_pi and r.random() < 0.3:
        doc.insert(0, ("p", "top", u16("d")))
        orc[0] = False
    return doc, orc[0]


def run_cases(ctx, C08, cases, impl, model, tag):
    """H lines to both sides; returns (correspondence mismatches, oracle failures)"""
    lines, meta = [], {}
    n0 = ctx.cov["evaluations"]
    for i, (cls, enc, esc, ometa, ds, dp, tree, orc) in enumerate(cases):
        cid = "hh%s%d" % (tag, n0 + i)
        evs = evs_of(tree)
        line = C08.h_line(cid, enc, -1, esc, ometa, evs)
        if cls.startswith("ns"):
            line = "HN" + line[1:]          # a prefix resolver is set: elements in a namespace go to FormatterToXML's code
        if ds != "-" or dp != "-":
            f = lambda x: "-" if x == "-" else tok(u16(x))
            line = line.replace("%s %s -1 %d %d - -" % (cid, enc, esc, ometa), "%s %s -1 %d %d %s %s" % (cid, enc, esc, ometa, f(ds), f(dp)), 1)
        lines.append(line)
        meta[cid] = (cls, enc, esc, ometa, evs, orc, line)
    rc_i, res_i, raw_i = core.run_lines_parallel(impl, lines)
    rc_m, res_m, raw_m = core.run_lines_parallel(model, lines) if model else (0, {}, "")
    corr, orc_fail = [], []
    if model and rc_m != 0:
        corr.append({"case": "(process)", "impl": "", "model": "model driver exited with status %d: %s" % (rc_m, raw_m[-300:])})
    for cid, (cls, enc, esc, ometa, evs, orc, line) in meta.items():
        ctx.cov["evaluations"] += 1
        ctx.count("html:" + cls.split(":")[0])
        ctx.count("html:enc:" + enc)
        ri = res_i.get(cid)
        if ri is None:
            orc_fail.append({"case": line, "what": "the driver died on this script"})
            continue
        if model:
            ctx.cov["traces_validated_against_impl"] += 1
            rm = res_m.get(cid, "no result")
            t = rm.split()
            if t and t[0] == "ok" and len(t) == 4:
                try:
                    mb = b"".join(u.to_bytes(2, "little") for u in untok(t[1])).decode("utf-16-le").encode(PY[enc])
                except UnicodeError as ex:
                    mb = None
                if mb is None or ri != "ok:" + mb.hex():
                    corr.append({"case": line, "impl": ri[:240], "model": "ok:" + (mb.hex()[:240] if mb is not None else "(units the encoding cannot carry)")})
                if "+dirty" in t[3]:
                    corr.append({"case": line, "impl": "", "model": "the scratch string is not empty after the document (scratch_buffer_empty_between_events says it is)"})
                if "+noteq" in t[3]:
                    corr.append({"case": line, "impl": "", "model": "no namespace declaration, but the model with the scratch string differs from the model of the theorems (serialize_html_b_is_serialize_html says it cannot)"})
                t[3] = t[3].split("+")[0]
                if t[2] == "guard":
                    ctx.cov["distinct_nontrivial"] += 1
                    ctx.count("html:guard")
                    if t[3] != "same":
                        corr.append({"case": line, "impl": "", "model": "html_ok holds but the model reader returns '%s' on the model's own output (html_roundtrip says it cannot)" % t[3]})
            elif t and t[0] == "err":
                if not ri.startswith("err:"):
                    corr.append({"case": line, "impl": ri[:160], "model": rm})
            else:
                corr.append({"case": line, "impl": ri[:160], "model": rm})
        if orc:
            if not ri.startswith("ok:"):
                orc_fail.append({"case": line, "what": "html serialization failed: %s" % ri[:120]})
                continue
            txt = bytes.fromhex(ri[3:]).decode(PY[enc], "replace")
            try:
                what = C08.h_verdict(evs, txt, -1, esc, ometa)
            except Exception as ex:
                what = "html.parser failed: %s" % ex
            ctx.count("html:oracle")
            if what:
                orc_fail.append({"case": line, "what": what + "\n#     output: " + txt[:400].replace("\n", "\\n")})
    return corr, orc_fail


def run_z(ctx, C08, r, n, impl, model, bools, urls, ns_z=None):
    """whole transformations (method="html" indent="no"), library bytes vs the model's units for the same tree"""
    zl, hl, meta = [], [], {}
    for i in range(n):
        enc = r.choice(ENCS)
        tree, orc = gen_tree(C08, r, enc, bools, urls, False)
        evs = evs_of(tree)
        # literal result elements: attribute values keep their characters through body_of's escaping
        if any(u in (9, 10, 13) for e in evs if e[0] == "S" for _, v in e[2] for u in v):
            continue
        esc, om = r.choice([0, 1]), r.choice([0, 1])
        cid = "zhh%d" % i
        outs = [[("method", "html"), ("indent", "no"), ("encoding", enc)]]
        zl.append(C08.z_line(cid, C08.sheet_of(outs, C08.body_of(evs), exclude="xalan p"), ("-", "-", str(om), str(esc))))
        hl.append("HN" + C08.h_line(cid, enc, -1, esc, om, evs)[1:])      # the XSLT engine is the formatter's prefix resolver
        meta[cid] = (enc, esc, om, evs, orc, zl[-1])
    for j, (cls, enc, esc, om, ds, dp, tree, orc) in enumerate(ns_z or []):
        evs = evs_of(tree)
        cid = "zhn%d" % j
        outs = [[("method", "html"), ("indent", "no"), ("encoding", enc)]]
        zl.append(C08.z_line(cid, C08.sheet_of(outs, C08.body_of(evs), exclude="xalan p"), ("-", "-", str(om), str(esc))))
        hl.append("HN" + C08.h_line(cid, enc, -1, esc, om, evs)[1:])
        meta[cid] = (enc, esc, om, evs, orc, zl[-1])
    res = core.run_lines_parallel(impl, zl)[1]
    mod = core.run_lines_parallel(model, hl)[1] if model else {}
    corr, orc_fail = [], []
    for cid, (enc, esc, om, evs, orc, line) in meta.items():
        ctx.cov["evaluations"] += 1
        ctx.count("html:transform:" + enc)
        ri = res.get(cid, "")
        if model:
            ctx.cov["traces_validated_against_impl"] += 1
            t = mod.get(cid, "").split()
            mb = None
            if t and t[0] == "ok":
                try:
                    mb = b"".join(u.to_bytes(2, "little") for u in untok(t[1])).decode("utf-16-le").encode(PY[enc])
                except UnicodeError:
                    mb = None
            if mb is None or ri != "ok:" + mb.hex():
                corr.append({"case": line[:300], "impl": ri[:240], "model": "ok:" + mb.hex()[:240] if mb is not None else " ".join(t)[:100]})
        if orc and ri.startswith("ok:"):
            txt = bytes.fromhex(ri[3:]).decode(PY[enc], "replace")
            what = C08.h_verdict(evs, txt, -1, esc, om)
            if what:
                orc_fail.append({"case": line, "what": what + "\n#     output: " + txt[:400].replace("\n", "\\n")})
        elif orc:
            orc_fail.append({"case": line, "what": "html transformation failed: %s" % ri[:160]})
    return corr, orc_fail


def pi_verdict(evs, txt):
    """SGML processing instruction: '<?' target ' ' data '>' with the data as it is (no references are read inside a PI)"""
    for e in evs:
        if e[0] == "P":
            want = "<?" + "".join(map(chr, e[1])) + (" " + "".join(map(chr, e[2])) if e[2] else "") + ">"
            if want not in txt:
                return "processing instruction %r is not in the output as %r" % ("".join(map(chr, e[2])), want)
    return None


CORPUS_EXPECT = {"k_aname_1.txt": 'name="caf&eacute; 1"', "k_pi_1.txt": "<?t a&b<c>"}


def run_corpus(ctx, C08, impl, known):
    """stored replays (former findings K-C08h-1 / K-C08h-2, repaired in /repo): regression seeds; a failure is an oracle failure"""
    cdir = os.path.join(core.VERIF, "corpus", "C08h")
    hits, fails = {}, []
    if not os.path.isdir(cdir):
        return hits, fails
    for fn in sorted(os.listdir(cdir)):
        if not fn.endswith(".txt"):
            continue
        for l in open(os.path.join(cdir, fn)):
            l = l.rstrip("\n")
            if not l.strip() or l.startswith("#"):
                continue
            t = l.split()
            res = core.run_lines(impl, l + "\n", timeout=300)[1]
            r_ = res.get(t[1])
            evs = S4.parse_script(t[8:])
            txt = bytes.fromhex(r_[3:]).decode(PY.get(t[2], "utf-8"), "replace") if r_ and r_.startswith("ok:") else None
            what = "html serialization failed" if txt is None else (pi_verdict(evs, txt) if fn.startswith("k_pi") else C08.h_verdict(evs, txt, int(t[3]), int(t[4]), int(t[5])))
            if what is None and fn in CORPUS_EXPECT and CORPUS_EXPECT[fn] not in txt:
                what = "%s is not in the output %r" % (CORPUS_EXPECT[fn], txt[:200])
            ctx.cov["evaluations"] += 1
            ctx.count("html:corpus:" + fn)
            if what:
                fails.append({"case": l, "what": what + "  (stored replay corpus/C08h/%s)" % fn})
    return hits, fails


def run_part(ctx):
    import sys
    C08 = sys.modules.get("props.C08")
    if C08 is None:
        from props import C08
    ctx.assumptions += [
        "html: FormatterToHTML is modelled with indenting off (m_doIndent false: indent(), m_ispreserve, m_isprevtext, m_inBlockElem write nothing); the indent automaton is C08's other model",
        "html: outside the model: m_nextIsRaw (the PI pair xslt-next-is-raw that switches escaping off), m_inCData / cdata() (cdata-section-elements), entityReference(), the 512-unit staging buffer and the transcoder below accumContent (UTF-8 encoding of units, unit n -> byte n for ISO-8859-1 / US-ASCII)",
        "html: the prefix resolver is modelled as the xmlns / xmlns:p attributes of the open elements, innermost first (what the XSLT engine's result namespace stack and the harness's HN resolver answer); NumberToDOMString / NumberToHexDOMString append to the scratch string (correspondence-checked through the seeded change C08_d only)",
        "html: the model reader is HTML 4.01's: explicit nesting only (no implied start/end tags, so the tree must already obey the content model), no RCDATA mode for TITLE/TEXTAREA, no line-end normalisation of the input, a minimised attribute reads as name = value (folded), a comment ends at the first '--' followed by '>'",
        "html: strings are XML character strings of well-formed UTF-16 (lone surrogates = C04's K7 class, not generated)",
    ]
    rule = ("html: a case = (tree, encoding, escapeURLs, omitMETATag, DOCTYPE); distinct_nontrivial counts the cases on which html_ok "
            "(the guard of html_roundtrip) holds, as decided by the extracted guard itself")
    ctx.notes["rule"] = (ctx.notes.get("rule", "") + " | " + rule) if ctx.notes.get("rule") else rule
    ok_lib, liblog = core.build_lib("plain")
    if not ok_lib:
        ctx.broken.append("html: library does not build from the working tree: " + liblog[-500:])
        return
    proved = ctx.prove(["Properties_C08h.v"], ["GenHtml", "GenOutopt"])
    model, ok_m, mlog = core.build_model("html")
    if not ok_m:
        ctx.broken.append("html: model extraction/build failed: " + mlog[-500:])
        model = None
    impl, ok_h, hlog = core.build_harness("outopt", "plain")
    if not ok_h:
        ctx.broken.append("html: harness does not compile against the working tree: " + hlog[-500:])
        return
    bools, urls, names = [], [], []
    try:
        import gen_outopt
        rows, ee, ea = gen_outopt.html_table()
        s = lambda u: "".join(map(chr, u)).lower()
        names = [s(r_[0]) for r_ in rows if r_[0]]
        urls = sorted((s(r_[0]), s(a)) for r_ in rows if r_[0] for a, f in r_[2] if f & ea["ATTRURL"])
        bools = sorted((s(r_[0]), s(a)) for r_ in rows if r_[0] for a, f in r_[2] if f & ea["ATTREMPTY"])
        import gen_html
        ctx.notes["html_repo_variant"] = gen_html.gen_html()[1]
    except Exception as ex:
        ctx.broken.append("html: translator: %s" % ex)
    known = {k["key"]: k for k in ctx.known.findings if k["property"] == "C08"}
    r = ctx.rng
    quick = not ctx.thorough
    corr, fails = [], []
    hits, cf = run_corpus(ctx, C08, impl, known)
    fails += cf

    def stage(n_trees, n_z, fixed=True):
        cases = []
        if fixed:
            cases += table_cases(C08, names, bools, urls) + url_cases(C08, r, urls, quick) + text_cases()
        for i in range(n_trees):
            enc = ENCS[i % 3]
            tree, orc = gen_tree(C08, r, enc, bools, urls, i % 4 == 3)
            dp = r.choice(["-", "-", "-", "-//W3C//DTD HTML 4.01//EN"])
            cases.append(("tree", enc, r.choice([0, 1]), r.choice([0, 1]), "-", dp, tree, orc and dp == "-"))
        nsc = ns_cases(r, max(30, n_trees // 4))
        cases += nsc
        c1, f1 = run_cases(ctx, C08, cases, impl, model, "s%d" % len(corr))
        # through XalanTransformer: what a stylesheet can produce (no unbound prefix, no TAB in a literal attribute, no PI/comment shortcut needed)
        nz = [x for x in nsc if x[0].split(":")[1] in ("root-decl", "self-decl", "default", "tree", "xhtml-doctype") and x[5] == "-"
              and not any(u in (9, 10, 13) for e in evs_of(x[6]) if e[0] == "S" for _, v in e[2] for u in v) and prefixes_declared(evs_of(x[6]))]
        c2, f2 = run_z(ctx, C08, r, n_z, impl, model, bools, urls, ns_z=r.sample(nz, min(len(nz), max(20, n_z // 2))))
        return c1 + c2, f1 + f2
    c, f = stage(400 if quick else 6000, 40 if quick else 600)
    corr += c
    fails += f
    if (corr or not proved or not model) and not fails and quick:
        ctx.escalated = True
        c, f = stage(3000, 200, fixed=False)
        corr += c
        fails += f
    for k in sorted(hits):
        ctx.known_finding("%s %s" % (k, known[k]["what"]))
    ctx.notes["html_known_class_hits"] = hits
    if corr:
        ctx.broken.append("correspondence html: %d cases differ between the extracted model of FormatterToHTML and the library, e.g. %s" % (len(corr), str(corr[0])[:700]))
        ctx.notes["html_correspondence_mismatches"] = [dict(c_, case=c_["case"][:400]) for c_ in corr[:10]]
    if fails:
        # whole transformations first (check.py --replay judges Z lines with ids zh... by the html.parser verdict), then the shortest scripts
        zf = sorted([x for x in fails if x["case"].startswith("Z zh")], key=lambda x: len(x["case"]))
        hf = sorted([x for x in fails if not x["case"].startswith("Z zh")], key=lambda x: len(x["case"]))
        fails = zf[:10] + hf
        txt = "\n".join("%s\n#   %s" % (x["case"], x["what"]) for x in fails[:30])
        ctx.violation("oracle_html", "# C08 (html part) oracle failures. Replay: python3 check.py C08 --replay <this file>  (H / Z lines of .build/outopt_plain)\n" + txt)
    ctx.notes["html_oracle_failures"] = len(fails)
