// C03 driver: every public entry point is fed arbitrary bytes; what is observed is the status, whether
// the message is non-empty, whether an exception escaped, and (after every failing call) whether the
// same long-lived transformer / evaluator still produces the right answer for a fixed known-good job.
// Built against the plain and the ASan+UBSan library variants.
//
// One case per line, fields separated by '|':
//   <id>|E:<entry>|S:<hex stylesheet bytes>|D:<hex source bytes>|P:name=<hex expr>;...|X:<hex XPath bytes (UTF-8, lenient)>[|O:full]
//   O:full  print the whole output in hex instead of its first 96 bytes (serializer buffer-boundary sweep)
//   O:msg   append one more field: the error message (getLastError / XalanGetLastError) in hex, first 600 bytes
//           (erroneous-input part, props/C03_errors.py); options combine as O:full,msg
// entry:  T  XalanTransformer::transform(stream, stream, ostream)
//         C  compileStylesheet + parseSource + transform(parsed, compiled) + destroy both
//         A  C API: XalanCompileStylesheetFromStream + XalanParseSourceFromStream + XalanTransformToDataPrebuilt
//         X  XPathEvaluator::evaluate(X) on the parsed D, result converted with str()
//         Q  XPath C API: XalanCreateXPath + XalanEvaluateXPathAsBoolean(D)
//         N  number <-> string conversions of the platform layer on the double whose bits are X (16 hex digits)
// Output: <id>|<status>|<m: 1 message non-empty, 0 empty>|<post: ok | na | bad:...>|<hex of the first 96 output bytes>|<output length>
//         <id>|exc|<what escaped>|<post>||0        when a C++ exception left the entry point
#include "common.hpp"
#include <xercesc/framework/MemBufInputSource.hpp>
#include <xercesc/sax/SAXException.hpp>
#include <xercesc/sax/SAXParseException.hpp>
#include <xercesc/util/XMLException.hpp>
#include <xercesc/util/OutOfMemoryException.hpp>
#include <xalanc/XSLT/XSLTInputSource.hpp>
#include <xalanc/XSLT/XSLTResultTarget.hpp>
#include <xalanc/XalanDOM/XalanDOMException.hpp>
#include <xalanc/XalanDOM/XalanDocument.hpp>
#include <xalanc/PlatformSupport/XSLException.hpp>
#include <xalanc/PlatformSupport/DOMStringHelper.hpp>
#include <xalanc/PlatformSupport/DoubleSupport.hpp>
#include <xalanc/XPath/XObject.hpp>
#include <xalanc/XPath/XPathEvaluator.hpp>
#include <xalanc/XalanSourceTree/XalanSourceTreeDOMSupport.hpp>
#include <xalanc/XalanSourceTree/XalanSourceTreeParserLiaison.hpp>
#include <xalanc/XalanTransformer/XalanCAPI.h>
#include <xalanc/XPathCAPI/XPathCAPI.h>

using namespace xalanc;
using namespace verif;

static std::string unhex(const std::string& h)
{
    std::string r;
    for (size_t i = 0; i + 1 < h.size(); i += 2) r += (char) std::strtoul(h.substr(i, 2).c_str(), 0, 16);
    return r;
}

static std::string hex(const std::string& s, size_t max = std::string::npos)
{
    static const char* d = "0123456789abcdef";
    std::string r;
    for (size_t i = 0; i < s.size() && i < max; ++i) { r += d[(unsigned char) s[i] >> 4]; r += d[(unsigned char) s[i] & 15]; }
    return r;
}

// lenient UTF-8 -> UTF-16: surrogates encoded as 3-byte sequences stay lone surrogates; an invalid byte
// becomes the code unit with the same value
static XalanDOMString u16(const std::string& s)
{
    XalanDOMString r;
    size_t i = 0, n = s.size();
    while (i < n) {
        unsigned c = (unsigned char) s[i];
        unsigned cp = c; size_t len = 1;
        if (c >= 0xF0 && c < 0xF8 && i + 3 < n) { cp = ((c & 7) << 18) | ((s[i+1] & 0x3F) << 12) | ((s[i+2] & 0x3F) << 6) | (s[i+3] & 0x3F); len = 4; }
        else if (c >= 0xE0 && c < 0xF0 && i + 2 < n) { cp = ((c & 15) << 12) | ((s[i+1] & 0x3F) << 6) | (s[i+2] & 0x3F); len = 3; }
        else if (c >= 0xC0 && c < 0xE0 && i + 1 < n) { cp = ((c & 31) << 6) | (s[i+1] & 0x3F); len = 2; }
        for (size_t k = 1; k < len; ++k) if ((((unsigned char) s[i + k]) & 0xC0) != 0x80) { cp = c; len = 1; break; }
        if (cp >= 0x10000 && cp <= 0x10FFFF) { cp -= 0x10000; r.append(1, (XalanDOMChar) (0xD800 + (cp >> 10))); r.append(1, (XalanDOMChar) (0xDC00 + (cp & 0x3FF))); }
        else if (cp == 0) r.append(1, (XalanDOMChar) 0xFFFD);     // a NUL would end the C string
        else r.append(1, (XalanDOMChar) (cp & 0xFFFF));
        i += len;
    }
    return r;
}

static std::string narrowMsg(const XalanDOMString& s)
{
    std::string r;
    for (XalanDOMString::size_type i = 0; i < s.length(); ++i) r += s[i] < 128 ? (char) s[i] : '?';
    return r;
}

static const char* const GOOD_XSL =
    "<xsl:stylesheet version='1.0' xmlns:xsl='http://www.w3.org/1999/XSL/Transform'><xsl:output method='text'/>"
    "<xsl:param name='p' select='7'/><xsl:template match='/'><xsl:value-of select='count(//b)'/>:<xsl:value-of select='$p'/>:"
    "<xsl:for-each select='a/b'><xsl:sort select='.' order='descending'/><xsl:number value='position()' format='i'/><xsl:value-of select='.'/></xsl:for-each>"
    "</xsl:template></xsl:stylesheet>";
static const char* const GOOD_XML = "<a><b>x</b><b>y</b><b>z</b></a>";
static const char* const GOOD_OUT = "3:7:iziiyiiix";

static std::string postTransformer(XalanTransformer& t)
{
    try {
        t.clearStylesheetParams();
        std::istringstream ss(GOOD_XSL), ds(GOOD_XML);
        XSLTInputSource sin(&ss), din(&ds);
        std::ostringstream os;
        XSLTResultTarget out(os);
        int rc = t.transform(din, sin, out);
        if (rc != 0) return std::string("bad:status ") + std::to_string(rc) + " " + t.getLastError();
        if (os.str() != GOOD_OUT) return "bad:output " + os.str();
        return "ok";
    } catch (...) { return "bad:exception"; }
}

struct XPathSide
{
    XalanSourceTreeDOMSupport     dom;
    XalanSourceTreeParserLiaison  liaison;
    XPathEvaluator                eval;
    XPathSide() : dom(), liaison(dom), eval() { dom.setParserLiaison(&liaison); }
    XalanDocument* parse(const std::string& src)
    {
        xercesc::MemBufInputSource in((const XMLByte*) src.data(), src.size(), "file:///vmem/x.xml", false);
        return liaison.parseXMLStream(in);
    }
};

static std::string postEvaluator(XPathSide& x)
{
    try {
        XalanDocument* d = x.parse(GOOD_XML);
        XObjectPtr r = x.eval.evaluate(x.dom, d, XalanDOMString("concat(count(/a/b), a/b[2], 1 div 4)").c_str());
        std::string s = narrowMsg(r->str(x.eval.getExecutionContext()));
        x.liaison.reset(); x.dom.reset();
        return s == "3y0.25" ? "ok" : "bad:value " + s;
    } catch (...) { return "bad:exception"; }
}

int main(int argc, char** argv)
{
    Init init;
    std::istream* in = &std::cin;
    std::ifstream f;
    if (argc > 1) { f.open(argv[1]); in = &f; }
    std::string line;
    {
    XalanTransformer t;
    t.setWarningStream(0);
    XPathSide* xs = new XPathSide;
    XalanHandle ch = 0;
    XalanXPathEvaluatorHandle qh = 0;
    bool qinit = false;
    while (std::getline(*in, line)) {
        if (line.empty() || line[0] == '#') continue;
        std::vector<std::string> fs;
        { size_t i = 0; while (true) { size_t j = line.find('|', i); fs.push_back(line.substr(i, j == std::string::npos ? j : j - i)); if (j == std::string::npos) break; i = j + 1; } }
        std::string id = fs[0], entry = "T", sheet, src, xp, opts;
        std::vector<std::pair<std::string, std::string> > params;
        for (size_t k = 1; k < fs.size(); ++k) {
            const std::string& x = fs[k];
            if (x.compare(0, 2, "E:") == 0) entry = x.substr(2);
            else if (x.compare(0, 2, "S:") == 0) sheet = unhex(x.substr(2));
            else if (x.compare(0, 2, "D:") == 0) src = unhex(x.substr(2));
            else if (x.compare(0, 2, "X:") == 0) xp = unhex(x.substr(2));
            else if (x.compare(0, 2, "O:") == 0) opts = x.substr(2);
            else if (x.compare(0, 2, "P:") == 0) {
                std::string body = x.substr(2); size_t i = 0;
                while (i < body.size()) {
                    size_t j = body.find(';', i); if (j == std::string::npos) j = body.size();
                    std::string kv = body.substr(i, j - i); size_t e = kv.find('=');
                    if (e != std::string::npos) params.push_back(std::make_pair(kv.substr(0, e), unhex(kv.substr(e + 1))));
                    i = j + 1;
                }
            }
        }
        std::cout << "#begin " << id << "\n"; std::cout.flush();
        int rc = -99; std::string msg, out, esc, post = "na";
        bool xside = entry == "X" || entry == "Q";
        try {
            if (entry == "T" || entry == "C") {
                t.clearStylesheetParams();
                for (size_t k = 0; k < params.size(); ++k) t.setStylesheetParam(u16(params[k].first), u16(params[k].second));
                std::istringstream ss(sheet), ds(src);
                XSLTInputSource sin(&ss), din(&ds);
                sin.setSystemId(XalanDOMString("file:///vmem/main.xsl").c_str());
                din.setSystemId(XalanDOMString("file:///vmem/main.xml").c_str());
                std::ostringstream os;
                XSLTResultTarget target(os);
                if (entry == "T") rc = t.transform(din, sin, target);
                else {
                    const XalanCompiledStylesheet* cs = 0; const XalanParsedSource* ps = 0;
                    rc = t.compileStylesheet(sin, cs);
                    if (rc != 0) msg = t.getLastError();
                    if (rc == 0) { rc = t.parseSource(din, ps); if (rc != 0) msg = t.getLastError(); }
                    if (rc == 0) rc = t.transform(*ps, cs, target);
                    if (rc != 0 && msg.empty()) msg = t.getLastError();
                    if (ps) t.destroyParsedSource(ps);
                    if (cs) t.destroyStylesheet(cs);
                }
                if (rc != 0 && msg.empty()) msg = t.getLastError();
                out = os.str();
            } else if (entry == "A") {
                if (!ch) ch = CreateXalanTransformer();
                XalanClearStylesheetParams(ch);
                for (size_t k = 0; k < params.size(); ++k) XalanSetStylesheetParam(params[k].first.c_str(), params[k].second.c_str(), ch);
                XalanCSSHandle cs = 0; XalanPSHandle ps = 0; char* data = 0;
                rc = XalanCompileStylesheetFromStream(sheet.data(), sheet.size(), ch, &cs);
                if (rc == 0) rc = XalanParseSourceFromStream(src.data(), src.size(), ch, &ps);
                if (rc == 0) rc = XalanTransformToDataPrebuilt(ps, cs, &data, ch);
                if (rc != 0) { const char* m = XalanGetLastError(ch); msg = m ? m : ""; }
                if (data) { out = data; XalanFreeData(data); }
                if (ps) XalanDestroyParsedSource(ps, ch);
                if (cs) XalanDestroyCompiledStylesheet(cs, ch);
            } else if (entry == "X") {
                XalanDocument* d = xs->parse(src);
                XalanDOMString e = u16(xp);
                XObjectPtr r = xs->eval.evaluate(xs->dom, d, e.c_str());
                XalanDOMString s = r->str(xs->eval.getExecutionContext());
                for (XalanDOMString::size_type i = 0; i < s.length(); ++i) { out += (char) (s[i] >> 8); out += (char) (s[i] & 255); }
                rc = 0;
                xs->liaison.reset(); xs->dom.reset();
            } else if (entry == "Q") {
                if (!qinit) { XalanXPathAPIInitialize(); qinit = true; }
                if (!qh) XalanCreateXPathEvaluator(&qh);
                XalanXPathHandle h = 0; int res = 0;
                rc = XalanCreateXPath(qh, xp.c_str(), "UTF-8", &h);
                if (rc == 0) {
                    rc = XalanEvaluateXPathAsBoolean(qh, h, src.c_str(), &res);
                    XalanDestroyXPath(qh, h);
                }
                out = res ? "1" : "0";
                msg = rc ? "code" : "";       // the XPath C API reports a code only
            } else if (entry == "N") {
                double dv = dbl_of_bits(hex64(xp));
                XalanDOMString s1; NumberToDOMString(dv, s1);
                out = narrowMsg(s1);
                double back = DoubleSupport::toDouble(s1, XalanMemMgrs::getDefaultXercesMemMgr());
                out += " " + show_dbl(back);
                XalanDOMString s2; NumberToDOMString((XMLInt64) (long long) hex64(xp), s2); out += " " + narrowMsg(s2);
                XalanDOMString s3; NumberToDOMString((XMLUInt64) hex64(xp), s3); out += " " + narrowMsg(s3);
                XalanDOMString s4; NumberToHexDOMString((XMLUInt64) hex64(xp), s4); out += " " + narrowMsg(s4);
                rc = 0;
            } else { rc = -90; msg = "unknown entry"; }
        }
        catch (const XSLException& e) {
            if (xside) { rc = -1; XalanDOMString b; e.defaultFormat(b); msg = narrowMsg(b); } else esc = "XSLException";
        }
        catch (const xercesc::SAXException& e) { if (xside) { rc = -2; msg = narrowMsg(XalanDOMString(e.getMessage())); } else esc = "SAXException"; }
        catch (const xercesc::XMLException& e) { if (xside) { rc = -3; msg = narrowMsg(XalanDOMString(e.getMessage())); } else esc = "XMLException"; }
        catch (const XalanDOMException& e) { if (xside) { rc = -4; msg = "XalanDOMException " + std::to_string((int) e.getExceptionCode()); } else esc = "XalanDOMException"; }
        catch (const xercesc::OutOfMemoryException&) { esc = "xercesc::OutOfMemoryException"; }
        catch (const std::exception& e) { esc = std::string("std::exception ") + e.what(); }
        catch (...) { esc = "unknown"; }
        if (xside && (rc != 0 || !esc.empty())) {
            if (entry == "X") {
                try { xs->liaison.reset(); xs->dom.reset(); } catch (...) {}
                post = postEvaluator(*xs);
            } else post = postTransformer(t);
        } else if (rc != 0 || !esc.empty()) post = postTransformer(t);
        if (!esc.empty()) std::cout << id << "|exc|" << esc << "|" << post << "||0\n";
        else std::cout << id << "|" << rc << "|" << (msg.empty() ? 0 : 1) << "|" << post << "|" << hex(out, opts.find("full") != std::string::npos ? std::string::npos : 96) << "|" << out.size()
                       << (opts.find("msg") != std::string::npos ? "|" + hex(msg, 600) : std::string()) << "\n";
        std::cout.flush();
    }
    delete xs;
    if (qh) XalanDestroyXPathEvaluator(qh);
    if (qinit) XalanXPathAPITerminate();
    if (ch) DeleteXalanTransformer(ch);
    }
    return 0;
}
