// Symbolised call-stack signatures for the C19 harnesses (same code as in harness/mem_sweep.cpp): the innermost
// frames above the manager, demangled, template arguments / parameters / return types / versioned namespaces
// stripped; no addresses, no line numbers.
#ifndef VERIF_MEM_SYM_HPP
#define VERIF_MEM_SYM_HPP
#include <cstring>
#include <cstdlib>
#include <string>
#include <vector>
#include <unordered_map>
#include <execinfo.h>
#include <dlfcn.h>
#include <cxxabi.h>
static std::unordered_map<void*, std::string>* g_symCache = 0;

static std::string stripName(const std::string& dem)
{
    std::string s = dem;
    // anonymous namespace
    for (;;) {
        std::string::size_type p = s.find("(anonymous namespace)");
        if (p == std::string::npos) break;
        s.replace(p, 21, "anon");
    }
    // 1. remove template argument lists (operator<, operator<<, operator>, operator->, operator<= ... kept)
    std::string t;
    int depth = 0;
    for (std::string::size_type i = 0; i < s.size(); ++i) {
        const char c = s[i];
        if (c == '<') {
            bool isOp = false;
            if (depth == 0) {
                const std::string::size_type n = t.size();
                if ((n >= 8 && t.compare(n - 8, 8, "operator") == 0) ||
                    (n >= 9 && t.compare(n - 9, 9, "operator<") == 0))
                    isOp = true;
            }
            if (isOp) t += c; else ++depth;
        }
        else if (c == '>') {
            if (depth > 0) {
                // "->" inside template args does not occur in practice; "operator>" handled below
                --depth;
            }
            else t += c;
        }
        else if (depth == 0) t += c;
    }
    s.swap(t);
    // 2. cut the parameter list: first '(' that is not the "()" of operator()
    {
        std::string::size_type i = 0;
        for (; i < s.size(); ++i) {
            if (s[i] == '(') {
                if (i >= 8 && s.compare(i - 8, 8, "operator") == 0) { ++i; continue; }
                break;
            }
        }
        s.erase(i);
    }
    while (!s.empty() && s[s.size() - 1] == ' ') s.erase(s.size() - 1);
    // 3. return type: keep what follows the last blank, unless it belongs to "operator xyz"
    {
        std::string::size_type op = s.find("operator");
        std::string::size_type lim = (op == std::string::npos) ? s.size() : op;
        std::string::size_type sp = s.rfind(' ', lim);
        if (sp != std::string::npos && sp < lim) s.erase(0, sp + 1);
    }
    // 4. versioned namespaces
    {
        std::string out;
        std::string::size_type i = 0;
        while (i < s.size()) {
            bool done = false;
            const char* const pre[2] = { "xalanc_", "xercesc_" };
            for (int w = 0; w < 2 && !done; ++w) {
                const std::string::size_type L = std::strlen(pre[w]);
                if (s.compare(i, L, pre[w]) == 0 && (i == 0 || !(isalnum((unsigned char)s[i - 1]) || s[i - 1] == '_'))) {
                    std::string::size_type j = i + L;
                    while (j < s.size() && (isdigit((unsigned char)s[j]) || s[j] == '_')) ++j;
                    if (s.compare(j, 2, "::") == 0) {
                        if (w == 1) out += "xercesc::";
                        i = j + 2;
                        done = true;
                    }
                }
            }
            if (!done) out += s[i++];
        }
        s.swap(out);
    }
    for (std::string::size_type i = 0; i < s.size(); ++i)
        if (s[i] == ' ' || s[i] == '\t' || s[i] == ';' || s[i] == '=') s[i] = '_';
    return s;
}

static const std::string& symbolOf(void* addr)
{
    if (g_symCache == 0) g_symCache = new std::unordered_map<void*, std::string>();
    std::unordered_map<void*, std::string>::iterator it = g_symCache->find(addr);
    if (it != g_symCache->end()) return it->second;
    std::string name;
    Dl_info info;
    // addr is a return address: look up addr-1 so that a call in the last instruction of a function
    // is not attributed to the next symbol
    if (dladdr(static_cast<char*>(addr) - 1, &info) != 0 && info.dli_sname != 0) {
        int st = 0;
        char* d = abi::__cxa_demangle(info.dli_sname, 0, 0, &st);
        name = stripName(st == 0 && d != 0 ? std::string(d) : std::string(info.dli_sname));
        std::free(d);
    }
    return (*g_symCache)[addr] = name;
}

enum { MAXFRAMES = 40, SIGFRAMES = 5, DTORWINDOW = 12 };

// frames above the manager: names of the symbolised ones, innermost first
static void stackNames(void* retAddr, std::vector<std::string>& names, unsigned limit)
{
    void* buf[MAXFRAMES];
    const int n = backtrace(buf, MAXFRAMES);
    int start = 0;
    for (int i = 0; i < n; ++i) if (buf[i] == retAddr) { start = i; break; }
    names.clear();
    for (int i = start; i < n && names.size() < limit; ++i) {
        const std::string& s = symbolOf(buf[i]);
        if (s.compare(0, 12, "__libc_start") == 0 || s == "_start" || s == "main") break;   // left the libraries
        if (!s.empty()) names.push_back(s);
    }
}

static std::string joinNames(const std::vector<std::string>& names, std::string::size_type count)
{
    std::string r;
    for (std::string::size_type i = 0; i < names.size() && i < count; ++i) {
        if (i) r += '<';
        r += names[i];
    }
    return r.empty() ? std::string("?") : r;
}
#endif
