(* C05, part "targets": the tree-building result targets FormatterToXercesDOM and FormatterToSourceTree.
   Statements only; proofs in Targets*Model.v.  Model and specification: TargetsDefs.v; facts read from the source:
   GenTargets.v (translator/gen_targets.py). *)
From Coq Require Import List NArith Bool.
Import ListNotations.
From Coq Require Import Sorted.
Require Import XV.GenTargets XV.TargetsDefs XV.TargetsModel XV.TargetsSpecModel XV.TargetsAgreeModel XV.TargetsWitnessModel XV.TargetsIndexModel.

(* Every well-nested event sequence (the flat image of an item tree between startDocument and endDocument), any
   chunking of its character data, with or without a prefix resolver, document or fragment mode: the builder ends in
   the tree the sequence denotes for that target - children in event order, adjacent characters events one text node,
   empty text no node.  top_ok: in document mode only what a document node accepts stands outside the document element. *)
Theorem xerces_dom_target_builds_denoted_tree : forall m res items,
  top_ok XDOM m items = true ->
  run_target XDOM m res (script items) = Some (den_t XDOM m res items).
Proof. exact (builds_den_t XDOM). Qed.
Print Assumptions xerces_dom_target_builds_denoted_tree.

Theorem source_tree_target_builds_denoted_tree_doc : forall res items,
  top_ok STREE MDoc items = true ->
  run_target STREE MDoc res (script items) = Some (den_t STREE MDoc res items).
Proof. exact (builds_den_t STREE MDoc). Qed.
Print Assumptions source_tree_target_builds_denoted_tree_doc.

(* fragment mode (result tree fragments): no side condition at all *)
Theorem source_tree_target_builds_denoted_tree_frag : forall res items,
  run_target STREE MFrag res (script items) = Some (den_t STREE MFrag res items).
Proof. exact (builds_frag STREE). Qed.
Print Assumptions source_tree_target_builds_denoted_tree_frag.

Theorem xerces_dom_target_builds_denoted_tree_frag : forall res items,
  run_target XDOM MFrag res (script items) = Some (den_t XDOM MFrag res items).
Proof. exact (builds_frag XDOM). Qed.
Print Assumptions xerces_dom_target_builds_denoted_tree_frag.

(* the machine on the events of one item, from ANY state, is the big-step reading of the item (the stack discipline) *)
Theorem item_events_are_one_big_step : forall t m res i rest s,
  run_from t m res (flat i ++ rest) s =
  match proc t m res (top_of s) i (lvl_of s) with
  | Some l => run_from t m res rest (with_lvl s l)
  | None => None
  end.
Proof. exact run_item. Qed.
Print Assumptions item_events_are_one_big_step.

(* On scripts of elements, characters, comments and processing instructions with distinct attribute names, no prefix
   resolver (in document mode: no characters outside the document element, at most one element there): both targets
   build the tree of the XPath data model - den, defined without reference to either builder: the tree obtained by
   parsing what a serializer writes - the source tree with its namespace declarations before the other attributes. *)
Theorem targets_agree_partial : forall m items,
  forallb plain items = true -> forallb attrs_distinct items = true -> top_plain m items = true ->
  top_ok XDOM m items = true ->
  run_target XDOM m None (script items) = Some (den m None items) /\
  run_target STREE m None (script items) = Some (map norm_attrs (den m None items)).
Proof. exact agree. Qed.
Print Assumptions targets_agree_partial.

(* the same on the level of the specifications, any script of the class *)
Theorem denoted_trees_agree : forall m items,
  forallb plain items = true -> forallb attrs_distinct items = true -> top_plain m items = true ->
  map norm_attrs (den_t XDOM m None items) = den_t STREE m None items /\ den_t XDOM m None items = den m None items.
Proof. exact den_agree_both. Qed.
Print Assumptions denoted_trees_agree.

(* where the unguarded statement fails *)
(* K-C05t-1: FormatterToSourceTree::cdata() is a no-op - the text is lost (holds while the no-op is in the tree) *)
Theorem source_tree_target_cdata_refuted : s_cdata_is_characters = false ->
  run_target STREE MFrag None (script w_cdata) <> Some (den MFrag None w_cdata).
Proof. exact source_tree_cdata_refuted. Qed.
Print Assumptions source_tree_target_cdata_refuted.

(* ... and with cdata() = characters() the same script gives the denoted tree *)
Theorem source_tree_target_cdata_repaired : s_cdata_is_characters = true ->
  run_target STREE MFrag None (script w_cdata) = Some (den MFrag None w_cdata).
Proof. exact source_tree_cdata_repaired. Qed.
Print Assumptions source_tree_target_cdata_repaired.

(* a CDATA section is a node of its own in the Xerces DOM (same text) *)
Theorem xerces_dom_target_cdata_refuted : run_target XDOM MFrag None (script w_cdata) <> Some (den MFrag None w_cdata).
Proof. exact xerces_cdata_refuted. Qed.
Print Assumptions xerces_dom_target_cdata_refuted.

(* white space outside the document element: a text child of the DOMDocument, no node in the source tree *)
Theorem xerces_dom_target_top_whitespace_refuted :
  run_target XDOM MDoc None (script w_topws) = Some [TText s_sp; TElem s_a [] [] []] /\
  run_target STREE MDoc None (script w_topws) = Some (den MDoc None w_topws) /\
  den MDoc None w_topws = [TElem s_a [] [] []].
Proof. exact xerces_top_ws_refuted. Qed.
Print Assumptions xerces_dom_target_top_whitespace_refuted.

(* namespace-aware creation: the namespace URI of an attribute called xmlns differs between the targets *)
Theorem targets_agree_xmlns_attribute_refuted :
  run_target XDOM MFrag (Some []) (script w_xmlns) = Some [TElem s_a [] [(xmlns_name, xmlns_uri, s_x)] []] /\
  run_target STREE MFrag (Some []) (script w_xmlns) = Some [TElem s_a [] [(xmlns_name, [], s_x)] []].
Proof. exact xmlns_attr_refuted. Qed.
Print Assumptions targets_agree_xmlns_attribute_refuted.

(* two entries of one name in the AttributeList (AttributeListImpl never delivers that) *)
Theorem targets_agree_duplicate_attribute_refuted :
  run_target XDOM MFrag None (script w_dup) = Some [TElem s_a [] [(s_k, [], s_y)] []] /\
  run_target STREE MFrag None (script w_dup) = Some [TElem s_a [] [(s_k, [], s_x); (s_k, [], s_y)] []].
Proof. exact dup_attr_refuted. Qed.
Print Assumptions targets_agree_duplicate_attribute_refuted.

(* any re-chunking of the characters events - splitting, joining, empty chunks - from any state, any event list (not
   only well-nested ones): the same final state, hence the same tree *)
Theorem text_chunking_irrelevant : forall t m res e1 e2,
  chunk_eq e1 e2 -> forall s, run_from t m res e1 s = run_from t m res e2 s.
Proof. exact chunking. Qed.
Print Assumptions text_chunking_irrelevant.

Theorem text_chunking_irrelevant_tree : forall t m res e1 e2,
  chunk_eq e1 e2 -> run_target t m res e1 = run_target t m res e2.
Proof. exact chunking_target. Qed.
Print Assumptions text_chunking_irrelevant_tree.

(* the invariant that makes it work: an event that attaches a node or moves the current parent acts, in every state,
   as if the accumulated text had been flushed first; and the regenerated flush table has a flush for each of them *)
Theorem flush_before_every_structural_event : forall t m res e s,
  structural t m (top_of s) (kind_of e) = true ->
  step t m res e s = bind (flush t m s) (step t m res e).
Proof. exact flush_first. Qed.
Print Assumptions flush_before_every_structural_event.

Theorem flush_table_covers_structural_events : forall t m top k,
  structural t m top k = true -> gen_flush_tbl t m k = true.
Proof. exact structural_flushes. Qed.
Print Assumptions flush_table_covers_structural_events.

(* The document-order indexes of the source-tree target (XalanSourceTreeDocument::m_nextIndexValue; what
   DOMServices::isNodeAfter and the node-list sorting compare): for EVERY event sequence - well nested or not, any
   chunking of the characters - fed to a builder whose document counter stands at a, the tree component is the tree of
   run_target, and reading the built tree in document order (element, its attribute nodes, its children) gives exactly
   a, a+1, a+2, ...: strictly increasing.  The proof uses that startElement() creates the element AFTER the flush
   (GenTargets.s_element_created_after_flush, read from the source); everywhere else creation and linking are adjacent.
   FormatterToXercesDOM stores no index: document order in a Xerces DOM is structural (XercesDocumentWrapper numbers
   the finished tree: wrap_is_preorder in Properties_C05.v). *)
Theorem source_tree_target_indexes_are_preorder : forall m res a evs t ix,
  run_indexes m res a evs = Some (t, ix) ->
  run_target STREE m res evs = Some t /\
  (exists n, flat_map ix_pre ix = nseq a n) /\
  StronglySorted N.lt (flat_map ix_pre ix).
Proof. exact indexes_all. Qed.
Print Assumptions source_tree_target_indexes_are_preorder.

Example indexes_computed :
  match run_indexes MDoc None st_first_index (script w_ix) with Some (_, ix) => Some ix | None => None end =
  Some [IxN 2 1 [IxN 4 0 []; IxN 5 0 []; IxN 6 0 []]].
Proof. exact ex_ix. Qed.

(* tie: the flush table the model was written against = the one regenerated from the two .cpp files *)
Theorem targets_as_modelled : forall t m k, flush_tbl t m k = gen_flush_tbl t m k.
Proof. exact table_as_modelled. Qed.
Print Assumptions targets_as_modelled.

(* hypotheses are satisfiable; a flush site computed through *)
Example guards_satisfiable :
  top_ok XDOM MDoc w_pi = true /\ top_ok STREE MDoc w_pi = true /\ forallb plain w_pi = true /\
  forallb attrs_distinct w_pi = true /\ top_plain MDoc w_pi = true /\
  top_ok XDOM MDoc w_topws = true /\ top_ok STREE MDoc w_cdata = true.
Proof. exact ex_guards. Qed.

Example text_before_processing_instruction :
  run_target XDOM MDoc None (script w_pi) = Some [TElem s_a [] [] [TText s_x; TPI s_k s_y; TText s_z]] /\
  run_target STREE MDoc None (script w_pi) = Some [TElem s_a [] [] [TText s_x; TPI s_k s_y; TText s_z]].
Proof. exact ex_pi_tree. Qed.

Example rechunking_exists :
  chunk_eq [EvStartDoc; EvChars (s_x ++ s_y); EvEndDoc] [EvStartDoc; EvChars s_x; EvChars []; EvChars s_y; EvEndDoc].
Proof. exact ex_chunk. Qed.

Example structural_nonvacuous : structural XDOM MDoc true KPI = true /\ structural STREE MFrag true KIws = true /\
  structural STREE MDoc true KIws = false.
Proof. exact ex_structural. Qed.
