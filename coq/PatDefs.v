(* PatDefs.v — C09: the XSLT match-pattern matcher of xalan-c as coded (XPath.cpp: doGetMatchScore,
   locationPathPattern, stepPattern, doStepPredicate, handleFoundIndex, NodeTester) together with the
   pattern compiler's choice of MATCH_* op codes (XPathProcessorImpl.cpp: LocationPathPattern,
   AbbreviatedNodeTestStep, PredicateExpr), over a small node-table model of the source tree; and,
   independently, the declarative meaning of the same pattern read as an XPath expression.
   Definitions only (extraction must survive a broken proof).

   Nodes are indices into a table (document node 0, pre-order; an element is followed by its
   attribute nodes, then its children — the numbering of harness/pat.cpp).  A parent link is only
   honoured when it points to a smaller index, so every walk towards the root terminates.

   The matcher works right to left; an any-ancestor step looks for the nearest ancestor that satisfies
   it and, when the step to its left must match that ancestor's parent exactly, from whose parent the steps
   to the left match (stepPattern re-enters itself on the steps to the left).  Repaired in /repo and
   modelled as repaired: f650494, cb2fe18, 335a1a5, 60b686c (K14) and the K15 repair (fixes/C09/01-K15). *)
From Coq Require Import List Bool Arith.
Import ListNotations.

(** * the tree *)
Inductive kind := KRoot | KElem (n : nat) | KAttr (n : nat) | KNs | KText | KComment | KPI (n : nat).
Record nrec := mkN { nkind : kind; npar : option nat }.
Definition doc := list nrec.

Definition kind_of (D : doc) (n : nat) : kind :=
  match nth_error D n with Some r => nkind r | None => KNs end.

Definition parent (D : doc) (n : nat) : option nat :=
  match nth_error D n with
  | Some r => match npar r with Some p => if p <? n then Some p else None | None => None end
  | None => None
  end.

Definition is_attr (k : kind) : bool := match k with KAttr _ | KNs => true | _ => false end.
Definition is_root (k : kind) : bool := match k with KRoot => true | _ => false end.
Definition is_container (k : kind) : bool := match k with KRoot | KElem _ => true | _ => false end.
Definition is_elem (k : kind) : bool := match k with KElem _ => true | _ => false end.
Definition opt_is (o : option nat) (p : nat) : bool := match o with Some q => q =? p | None => false end.
Definition nodes (D : doc) : list nat := seq 0 (length D).
Definition mem (x : nat) (l : list nat) : bool := existsb (Nat.eqb x) l.

Definition children (D : doc) (p : nat) : list nat :=
  filter (fun m => opt_is (parent D m) p && negb (is_attr (kind_of D m))) (nodes D).
Definition attributes (D : doc) (p : nat) : list nat :=
  filter (fun m => opt_is (parent D m) p && is_attr (kind_of D m)) (nodes D).

(* ancestor-or-self, nearest first; fuel S n is always enough because parents have smaller indices *)
Fixpoint aos_f (f : nat) (D : doc) (n : nat) : list nat :=
  match f with
  | 0 => []
  | S f' => n :: match parent D n with Some p => aos_f f' D p | None => [] end
  end.
Definition aos (D : doc) (n : nat) : list nat := aos_f (S n) D n.
Definition root_of (D : doc) (n : nat) : nat := last (aos D n) n.

(* what a parsed document always satisfies: exactly the parentless nodes are document nodes, parents
   are the document node or elements, attributes hang off elements *)
Definition wf_node (D : doc) (n : nat) : bool :=
  match parent D n with
  | None => is_root (kind_of D n)
  | Some p => negb (is_root (kind_of D n)) && is_container (kind_of D p)
              && (negb (is_attr (kind_of D n)) || is_elem (kind_of D p))
  end.
Definition wf_doc (D : doc) : bool := forallb (wf_node D) (nodes D).

(** * node tests and predicates *)
(* an expanded name is the pair (namespace id, local-name id) coded as 16 * namespace + local, namespace 0
   being "no namespace"; TName is prefix:local or local, TNsWild is prefix:* *)
Definition ns_of (name : nat) : nat := name / 16.
Inductive ntest := TName (n : nat) | TNsWild (ns : nat) | TWild | TNode | TText | TComment | TPI | TPIName (n : nat).

(* a predicate evaluated at (node, context position, context size): a boolean or a number *)
Inductive pval := PB (b : bool) | PN (k : nat).
(* pfl: the compile-time PREDICATE_WITH_POSITION flag; pnum: the expression is number-typed *)
Record predi := mkP { pfl : bool; pnum : bool; pfn : nat -> nat -> nat -> pval }.

Definition holds (v : pval) (pos : nat) : bool := match v with PB b => b | PN k => k =? pos end.

(* XPath::predicates — filter a node list by one predicate, positions counted in the current list *)
Fixpoint keep_from (p : predi) (size i : nat) (l : list nat) : list nat :=
  match l with
  | [] => []
  | x :: r => if holds (pfn p x i size) i then x :: keep_from p size (S i) r else keep_from p size (S i) r
  end.
Definition keep (p : predi) (l : list nat) : list nat := keep_from p (length l) 1 l.
Definition apply_preds (ps : list predi) (l : list nat) : list nat := fold_left (fun l p => keep p l) ps l.

(* NodeTester for the child-like step types (FROM_CHILDREN, MATCH_IMMEDIATE_ANCESTOR, MATCH_ANY_ANCESTOR
   and variants) *)
Definition child_test (t : ntest) (k : kind) : bool :=
  match t, k with
  | TName n, KElem m => n =? m
  | TNsWild s, KElem m => ns_of m =? s
  | TWild, KElem _ => true
  | TNode, _ => true                                   (* testNode: any node type *)
  | TText, KText => true
  | TComment, KComment => true
  | TPI, KPI _ => true
  | TPIName n, KPI m => n =? m
  | _, _ => false
  end.

(* NodeTester for FROM_ATTRIBUTES / MATCH_ATTRIBUTE applied to a node of type ATTRIBUTE_NODE
   (namespace declarations, KNs, are attribute nodes that no test accepts) *)
Definition attr_test (t : ntest) (k : kind) : bool :=
  match t, k with
  | TName n, KAttr m => n =? m
  | TNsWild s, KAttr m => ns_of m =? s
  | TWild, KAttr _ => true
  | TNode, KAttr _ => true
  | _, _ => false
  end.

(** * the pattern, surface syntax *)
Inductive sep := SChild | SDesc.                       (* '/' or '//' in front of a step *)
Record sstep := mkS { s_attr : bool; s_test : ntest; s_preds : list predi }.
Inductive head := HRel | HAbs | HFunc (fs : nat -> bool).   (* relative; leading '/' or '//'; id()/key() *)
(* HRel: the first separator is not written (must be SChild).  HAbs with no steps is "/".
   HFunc fs: fs is the node-set of the id()/key() call (it does not depend on the context node). *)
Record path := mkPath { p_head : head; p_steps : list (sep * sstep) }.
Definition pattern := list path.                       (* union *)

(** * the specification: the pattern read as an expression *)
Definition spec_step (D : doc) (st : sstep) (c : nat) : list nat :=
  apply_preds (s_preds st)
    (if s_attr st
     then filter (fun m => attr_test (s_test st) (kind_of D m)) (attributes D c)
     else filter (fun m => child_test (s_test st) (kind_of D m)) (children D c)).

(* descendant-or-self::node() *)
Definition dos (D : doc) (c : nat) : list nat :=
  filter (fun m => (m =? c) || (negb (is_attr (kind_of D m)) && mem c (aos D m))) (nodes D).

Definition sel_steps (D : doc) (ctxs : list nat) (steps : list (sep * sstep)) : list nat :=
  fold_left (fun cs (s : sep * sstep) =>
               flat_map (spec_step D (snd s))
                        (match fst s with SChild => cs | SDesc => flat_map (dos D) cs end))
            steps ctxs.

Definition sel_path (D : doc) (p : path) (a : nat) : list nat :=
  sel_steps D (match p_head p with
               | HRel => [a]
               | HAbs => [root_of D a]
               | HFunc fs => filter fs (nodes D)
               end) (p_steps p).

(* "N has an ancestor-or-self A such that evaluating P with A as context selects N" *)
Definition selects (D : doc) (P : pattern) (n : nat) : Prop :=
  exists p a, In p P /\ In a (aos D n) /\ In n (sel_path D p a).
Definition selectsb (D : doc) (P : pattern) (n : nat) : bool :=
  existsb (fun p => existsb (fun a => mem n (sel_path D p a)) (aos D n)) P.

(** * the compiled pattern: MATCH_* steps in op-map order (leftmost step first) *)
Inductive mstep :=
  | MFunc (fs : nat -> bool)                           (* OP_FUNCTION: id()/key() *)
  | MAnyFn                                             (* MATCH_ANY_ANCESTOR_WITH_FUNCTION_CALL *)
  | MRoot                                              (* FROM_ROOT *)
  | MAttr (t : ntest) (ps : list predi)                (* MATCH_ATTRIBUTE *)
  | MAnyWP                                             (* MATCH_ANY_ANCESTOR_WITH_PREDICATE + node(): leading '//' *)
  | MAny (t : ntest) (ps : list predi) (lc : option (nat -> bool))
                                                       (* MATCH_ANY_ANCESTOR; lc: the check of the steps to the
                                                          left, made when the step to the left is exact *)
  | MImm (t : ntest) (ps : list predi).                (* MATCH_IMMEDIATE_ANCESTOR *)

Definition next_is_desc (r : list (sep * sstep)) : bool :=
  match r with (SDesc, _) :: _ => true | _ => false end.

(** * the matcher *)
(* XPath::step for a MATCH_* op: one forward step from the parent, all predicates applied *)
Definition rerun_step (D : doc) (attr : bool) (t : ntest) (ps : list predi) (p : nat) : list nat :=
  apply_preds ps
    (if attr
     then filter (fun m => attr_test t (kind_of D m)) (attributes D p)
     else filter (fun m => child_test t (kind_of D m)) (children D p)).

(* handleFoundIndex *)
Definition found_index (D : doc) (attr : bool) (t : ntest) (ps : list predi) (c : nat) : bool :=
  match parent D c with
  | None => false
  | Some p => mem c (rerun_step D attr t ps p)
  end.

(* doStepPredicate: fi is the value handleFoundIndex would return for this step.  A flagged predicate,
   or an unflagged one whose value is a number, replaces the score by fi and the loop goes on; an
   unflagged boolean false ends the loop with "no match".  (handleFoundIndexPositional is dead code:
   a predicate whose first op is NUMBERLIT is never flagged.) *)
Fixpoint do_preds (fi : bool) (ps : list predi) (c : nat) (score : bool) : bool :=
  match ps with
  | [] => score
  | p :: r =>
      if pfl p then do_preds fi r c fi
      else match pfn p c 0 0 with
           | PN _ => do_preds fi r c fi
           | PB false => false
           | PB true => do_preds fi r c score
           end
  end.

Definition is_anyfn (s : mstep) : bool := match s with MAnyFn => true | _ => false end.
Definition is_any (s : mstep) : bool := match s with MAny _ _ _ | MAnyWP => true | _ => false end.
(* the step types that can match any ancestor (leftStepType in stepPattern) *)
Definition any_like (s : mstep) : bool := match s with MAny _ _ _ | MAnyWP | MAnyFn => true | _ => false end.
Definition head_is_any (l : list mstep) : bool := match l with s :: _ => is_any s | [] => false end.
Definition head_is_anyfn (l : list mstep) : bool := match l with s :: _ => is_anyfn s | [] => false end.

(* one step tested at context c (the switch of stepPattern followed by the predicate loop);
   returns (context handed to the caller, score <> eMatchScoreNone) *)
Definition step_ok (D : doc) (attr : bool) (t : ntest) (ps : list predi) (c : nat) : bool :=
  (if attr then attr_test t (kind_of D c)                  (* only tried on ATTRIBUTE_NODE; attr_test is false elsewhere *)
   else negb (is_attr (kind_of D c)) && negb (is_root (kind_of D c)) && child_test t (kind_of D c))
  && do_preds (found_index D attr t ps c) ps c true.

(* fCheckLeft: an ancestor is only accepted if the steps to the left match from its parent *)
Definition left_ok (D : doc) (lc : option (nat -> bool)) (a : nat) : bool :=
  match lc with
  | None => true
  | Some f => match parent D a with Some p => f p | None => false end
  end.

Definition body (D : doc) (st : mstep) (rest : list mstep) (c : nat) : option nat * bool :=
  match st with
  | MAnyFn => (Some c, negb (match rest with [] => true | _ => false end))   (* score = scoreHolder *)
  | MFunc fs =>
      if head_is_anyfn rest
      then match find fs (aos D c) with              (* the loop steps to the parent once more after a hit *)
           | Some a => (parent D a, true)
           | None => (None, false)
           end
      else (Some c, fs c)
  | MRoot => (Some c, is_root (kind_of D c))
  | MAnyWP =>                                          (* node() on the context itself: always the first hit *)
      if is_attr (kind_of D c) then (Some c, false) else (Some c, true)
  | MAttr t ps => (Some c, step_ok D true t ps c)
  | MImm t ps => (Some c, step_ok D false t ps c)
  | MAny t ps lc =>
      if is_attr (kind_of D c) then (Some c, false)
      else match find (fun a => negb (is_root (kind_of D a)) && child_test t (kind_of D a)
                                && do_preds (found_index D false t ps a) ps a true
                                && left_ok D lc a) (aos D c) with
           | Some a => (Some a, true)                  (* nearest ancestor-or-self satisfying the step from *)
           | None => (None, false)                     (* whose parent the steps to the left match *)
           end
  end.

(* XPath::stepPattern.  Result: (returned context, scoreHolder <> eMatchScoreNone).
   The recursion first matches the steps to the right, then moves to the parent. *)
Fixpoint step_pattern (D : doc) (steps : list mstep) (ctx : nat) : option nat * bool :=
  match steps with
  | [] => (None, false)
  | st :: rest =>
      match (match rest with
             | [] => inl ctx
             | nxt :: _ =>
                 match step_pattern D rest ctx with
                 | (Some c, true) =>
                     match (if is_anyfn nxt then Some c else parent D c) with
                     | Some c' => inl c'
                     | None => inr (None, false)       (* no node left for this step *)
                     end
                 | _ => inr (None, false)
                 end
             end) with
      | inr r => r
      | inl c => let (c', s) := body D st rest c in ((if s then c' else None), s)
      end
  end.

(* The pattern compiler (AbbreviatedNodeTestStep: attribute steps stay MATCH_ATTRIBUTE, a child step followed
   by '//' is rewritten to MATCH_ANY_ANCESTOR; LocationPathPattern for the head), together with what an
   any-ancestor step finds out at run time about the steps to its left: acc are the compiled steps to the
   left (stepPattern re-enters itself on them, from firstPos up to stopPos = this step), left the step
   immediately to the left. *)
Definition left_check (D : doc) (acc : list mstep) (left : option mstep) : option (nat -> bool) :=
  match left with
  | None => None
  | Some l => if any_like l then None else Some (fun p => snd (step_pattern D acc p))
  end.

Fixpoint compile_steps (D : doc) (acc : list mstep) (left : option mstep) (steps : list (sep * sstep))
  : list mstep :=
  match steps with
  | [] => []
  | (_, st) :: r =>
      let m := if s_attr st then MAttr (s_test st) (s_preds st)
               else if next_is_desc r then MAny (s_test st) (s_preds st) (left_check D acc left)
               else MImm (s_test st) (s_preds st) in
      m :: compile_steps D (acc ++ [m]) (Some m) r
  end.

Definition head_steps (h : head) (steps : list (sep * sstep)) : list mstep :=
  match h with
  | HRel => []
  | HAbs => if next_is_desc steps then [MAnyWP] else [MRoot]
  | HFunc fs => if next_is_desc steps then [MFunc fs; MAnyFn] else [MFunc fs]
  end.
Definition last_step (l : list mstep) : option mstep :=
  match rev l with [] => None | m :: _ => Some m end.

Definition compile (D : doc) (p : path) : list mstep :=
  let h := head_steps (p_head p) (p_steps p) in
  h ++ compile_steps D h (last_step h) (p_steps p).

(* locationPathPattern / doGetMatchScore: the first alternative with a score wins; only match / no
   match is modelled *)
Definition match_path (D : doc) (p : path) (n : nat) : bool := snd (step_pattern D (compile D p) n).
Definition matches (D : doc) (P : pattern) (n : nat) : bool := existsb (fun p => match_path D p n) P.

(* syntactic well-formedness: at least one step unless the head stands alone; a relative path starts
   with a plain step *)
Definition wf_path_shape (p : path) : bool :=
  match p_head p, p_steps p with
  | HRel, [] => false
  | HRel, (SDesc, _) :: _ => false
  | _, _ => true
  end.

(** * a concrete predicate language (what the generator writes), compiled to predi *)
Inductive cmp := CEq | CNe | CLt | CLe | CGt | CGe.
Definition cmpb (o : cmp) (a b : nat) : bool :=
  match o with
  | CEq => a =? b | CNe => negb (a =? b) | CLt => a <? b | CLe => a <=? b
  | CGt => b <? a | CGe => b <=? a
  end.

Inductive cpred :=
  | CPos (o : cmp) (k : nat)          (* position() o k *)
  | CPosLast                          (* position() = last() *)
  | CLast (o : cmp) (k : nat)         (* last() o k *)
  | CNum (k : nat)                    (* k            — a number: true at position k *)
  | CLastNum                          (* last()       — a number *)
  | CPosMod (m r : nat)               (* position() mod m = r *)
  | CHasAttr (a : nat)                (* @a *)
  | CHasChild (t : ntest)             (* child::t *)
  | CCount (t : ntest)                (* count(child::t) — a number, not flagged *)
  | CParent (t : ntest)               (* parent::t *)
  | CTrue
  | CNot (p : cpred)
  | CAnd (p q : cpred)
  | COr (p q : cpred).

(* the flag set by FunctionPosition / FunctionLast on the innermost enclosing predicate *)
Fixpoint cflag (p : cpred) : bool :=
  match p with
  | CPos _ _ | CPosLast | CLast _ _ | CLastNum | CPosMod _ _ => true
  | CNum _ | CHasAttr _ | CHasChild _ | CCount _ | CParent _ | CTrue => false
  | CNot p => cflag p
  | CAnd p q | COr p q => cflag p || cflag q
  end.
Definition cnum (p : cpred) : bool :=
  match p with CNum _ | CLastNum | CCount _ => true | _ => false end.

Definition to_bool (v : pval) : bool := match v with PB b => b | PN k => negb (k =? 0) end.

Fixpoint ceval (D : doc) (p : cpred) (n pos size : nat) : pval :=
  match p with
  | CPos o k => PB (cmpb o pos k)
  | CPosLast => PB (pos =? size)
  | CLast o k => PB (cmpb o size k)
  | CNum k => PN k
  | CLastNum => PN size
  | CPosMod m r => PB (match m with 0 => false | _ => (pos mod m) =? r end)
  | CHasAttr a => PB (existsb (fun m => attr_test (TName a) (kind_of D m)) (attributes D n))
  | CHasChild t => PB (existsb (fun m => child_test t (kind_of D m)) (children D n))
  | CCount t => PN (length (filter (fun m => child_test t (kind_of D m)) (children D n)))
  | CParent t => PB (match parent D n with Some p => child_test t (kind_of D p) | None => false end)
  | CTrue => PB true
  | CNot p => PB (negb (to_bool (ceval D p n pos size)))
  | CAnd p q => PB (to_bool (ceval D p n pos size) && to_bool (ceval D q n pos size))
  | COr p q => PB (to_bool (ceval D p n pos size) || to_bool (ceval D q n pos size))
  end.

Definition cpred_compile (D : doc) (p : cpred) : predi :=
  mkP (cflag p) (cnum p) (ceval D p).

(* surface syntax with concrete predicates, for the correspondence driver *)
Record cstep := mkCS { cs_attr : bool; cs_test : ntest; cs_preds : list cpred }.
Inductive chead := CHRel | CHAbs | CHFunc (ids : list nat).
Record cpath := mkCP { cp_head : chead; cp_steps : list (sep * cstep) }.

Definition path_of (D : doc) (p : cpath) : path :=
  mkPath (match cp_head p with
          | CHRel => HRel | CHAbs => HAbs
          | CHFunc ids => HFunc (fun n => mem n ids)
          end)
         (map (fun s => (fst s, mkS (cs_attr (snd s)) (cs_test (snd s))
                                    (map (cpred_compile D) (cs_preds (snd s))))) (cp_steps p)).

Definition c_match (D : doc) (P : list cpath) (n : nat) : bool := matches D (map (path_of D) P) n.
Definition c_select (D : doc) (P : list cpath) (n : nat) : bool := selectsb D (map (path_of D) P) n.
Definition c_shape (D : doc) (P : list cpath) : bool := forallb wf_path_shape (map (path_of D) P).
