"""C15 — key() returns exactly the nodes its xsl:key declaration defines.

Legs
  proof          coq/Properties_C15.v over coq/KeyDefs.v (construction walk of KeyTable, the table,
                 FunctionKey, the per-document cache of StylesheetRoot::getNodeSetByKey).
  correspondence generated stylesheets (1-3 xsl:key, same name twice, declarations in imported
                 stylesheets, prefixed names) over generated documents (main source + document()
                 loads); pass 1 (a stylesheet WITHOUT xsl:key) asks the library, per node, whether
                 it matches each declaration's pattern (template modes) and what the use values
                 are; the extracted Coq model then predicts every key() probe of pass 2.
  oracle         (no Coq model) key(k, v) against the brute-force expression in the same run:
                 identities in document order, count(A|B) = count(A) = count(B), answers equal
                 under a different probe order and for repeated probes, only nodes of the context
                 node's document.
  class nsctx    (both legs) declarations whose match / use expand a QName when evaluated (format-number,
                 function-available, element-available, system-property) with the prefix bound for the
                 xsl:key element only (on it or on its module) and bound differently / not at all where
                 key() is called; generated from a random stream of its own after the other classes.
"""
import os, json, random
from vlib import core, xsltrun

LEVEL = "proof"
FAMILY = "key"
XSL = 'xmlns:xsl="http://www.w3.org/1999/XSL/Transform"'
NSDECL = 'xmlns:p="urn:c15" xmlns:q="urn:c15"'
CORPUS = os.path.join(core.VERIF, "corpus", "C15")
DISTINCT = set()
PREFIX = {}      # job id -> the jobs run before it (and itself) in the same process, for jobs sharing a transformer


# ---------------------------------------------------------------------------------------------
# documents

class Nd:
    __slots__ = ("kind", "name", "attrs", "kids", "text", "path", "parent", "idx", "eid")

    def __init__(self, kind, name="", attrs=None, kids=None, text=""):
        self.kind, self.name, self.attrs, self.kids, self.text = kind, name, attrs or [], kids or [], text
        self.path, self.parent, self.idx, self.eid = (), None, 0, ""


ATTR_POOL = ["1", "2", "3", "v", "w", "1 2", "x1"]
TEXT_POOL = ["1", "2", "3", "v", "w", "ab"]


def gen_doc(r, prefix, p_empty, sorted_attrs, big):
    counter = [0]

    def new_elem(depth, name=None):
        e = Nd("e", name or r.choice("abc"))
        e.eid = "%s%d" % (prefix, counter[0])
        counter[0] += 1
        attrs = [("id", e.eid)]
        for an in "xyz":
            if r.random() < 0.45:
                attrs.append((an, "" if r.random() < p_empty else r.choice(ATTR_POOL)))
        if not sorted_attrs:
            r.shuffle(attrs)
        e.attrs = attrs
        if depth < (4 if big else 3):
            n = r.choice([0, 1, 2, 3, 3, 4] if depth < 2 else [0, 0, 1, 2, 3])
            last_text = False
            for _ in range(n):
                if counter[0] > (16 if big else 9):
                    break
                k = r.random()
                if k < 0.58:
                    e.kids.append(new_elem(depth + 1)); last_text = False
                elif k < 0.84:
                    if not last_text:
                        e.kids.append(Nd("t", text=r.choice(TEXT_POOL))); last_text = True
                elif k < 0.92:
                    e.kids.append(Nd("c", text=r.choice(TEXT_POOL))); last_text = False
                else:
                    e.kids.append(Nd("p", name=r.choice(["pa", "pb"]), text=r.choice(TEXT_POOL))); last_text = False
        return e
    root = Nd("d")
    if r.random() < 0.2:
        root.kids.append(Nd("c", text="top"))
    root.kids.append(new_elem(0, "r"))
    if r.random() < 0.15:
        root.kids.append(Nd("p", name="pa", text="end"))
    number(root)
    return root


def number(root):
    """paths, parents and the document-order index (element, its attributes, its children)"""
    i = [0]

    def go(n, path, parent):
        n.path, n.parent, n.idx = path, parent, i[0]
        i[0] += 1
        if n.kind == "e":
            i[0] += len(n.attrs)
        for k, c in enumerate(n.kids):
            go(c, path + (k,), n)
    go(root, (), None)


def serialize(n):
    if n.kind == "d":
        return "".join(serialize(c) for c in n.kids)
    if n.kind == "e":
        a = "".join(' %s="%s"' % (k, v) for k, v in n.attrs)
        if not n.kids:
            return "<%s%s/>" % (n.name, a)
        return "<%s%s>%s</%s>" % (n.name, a, "".join(serialize(c) for c in n.kids), n.name)
    if n.kind == "t":
        return n.text
    if n.kind == "c":
        return "<!--%s-->" % n.text
    return "<?%s %s?>" % (n.name, n.text)


def tree_token(n):
    na = len(n.attrs) if n.kind == "e" else 0
    return "%s%d(%s)" % (n.kind, na, "".join(tree_token(c) for c in n.kids))


def all_elems(n):
    out = [n] if n.kind == "e" else []
    for c in n.kids:
        out += all_elems(c)
    return out


def doc_elem_id(root):
    return [c for c in root.kids if c.kind == "e"][0].eid


def node_maps(root):
    """descriptor -> (model token, document-order index)"""
    pre = doc_elem_id(root) + ":"
    m = {}

    def tok(n):
        return "p" + ".".join(str(i) for i in n.path)

    def go(n):
        pid = n.parent.eid if n.parent is not None else ""
        if n.kind == "d":
            m[pre + "R"] = (tok(n), n.idx)
        elif n.kind == "e":
            m[pre + "E" + n.eid] = (tok(n), n.idx)
            for j, (an, _) in enumerate(n.attrs):
                m[pre + "A" + n.eid + "." + an] = (tok(n) + "@%d" % j, n.idx + 1 + j)
        else:
            m[pre + "C" + pid + "." + str(n.path[-1])] = (tok(n), n.idx)
        for c in n.kids:
            go(c)
    go(root)
    return m


# the descriptor of the current node, computed without key(), generate-id() or document order
DESC_TEMPLATE = (
    '<xsl:template name="d"><xsl:value-of select="/*/@id"/><xsl:text>:</xsl:text><xsl:choose>'
    '<xsl:when test="not(..)">R</xsl:when>'
    '<xsl:when test="self::*">E<xsl:value-of select="@id"/></xsl:when>'
    '<xsl:when test="count(.|../@*)=count(../@*)">A<xsl:value-of select="../@id"/>.<xsl:value-of select="name()"/></xsl:when>'
    '<xsl:otherwise>C<xsl:value-of select="../@id"/>.<xsl:value-of select="count(preceding-sibling::node())"/></xsl:otherwise>'
    '</xsl:choose></xsl:template>')


# ---------------------------------------------------------------------------------------------
# key declarations: (match pattern, equivalent select expression for the brute force)

STEP_PATTERNS = [
    ("a", "//a"), ("b", "//b"), ("c", "//c"), ("*", "//*"), ("r", "//r"),
    ("a/b", "//a/b"), ("a//b", "//a//b"), ("*/a", "//*/a"), ("r/*", "//r/*"), ("b/c", "//b/c"), ("*/*/*", "//*/*/*"),
    ("@x", "//@x"), ("@y", "//@y"), ("@*", "//@*"), ("a/@x", "//a/@x"), ("*/@y", "//*/@y"), ("b/@*", "//b/@*"), ("@z", "//@z"),
    ("text()", "//text()"), ("a/text()", "//a/text()"), ("comment()", "//comment()"),
    ("processing-instruction()", "//processing-instruction()"), ("node()", "//node()"),
    ("a[@x]", "//a[@x]"), ("*[@y='1']", "//*[@y='1']"), ("a[b]", "//a[b]"), ("b[not(@x)]", "//b[not(@x)]"),
    ("*[@x][@y]", "//*[@x][@y]"), ("@x[.='1']", "//@x[.='1']"), ("text()[.='v']", "//text()[.='v']"),
    ("*[text()]", "//*[text()]"), ("a[1]", "//a[1]"), ("*[last()]", "//*[last()]"), ("*[2]", "//*[2]"),
    ("b[@x='2']/c", "//b[@x='2']/c"), ("*[@z]/@*", "//*[@z]/@*"), ("c[.='1']", "//c[.='1']"),
    ("/", "/"), ("/*", "/*"), ("/r/a", "/r/a"), ("//b", "//b"), ("/r//c", "/r//c"), ("//a/@y", "//a/@y"),
    ("/comment()", "/comment()"),
]

# use expressions with their static type
USE_NODESET = ["@x", "@y", "@z", "@*", ".", "text()", "b", "*", "*/@x", "..", "../@x", "b|c", ".//text()", "@x|@y",
               "a/b", "*/text()", "../@*", "comment()", "following-sibling::*[1]/@x", "ancestor::*/@y"]
USE_STRING = ["string(@x)", "concat(@x,'-',@y)", "name()", "substring(.,1,1)", "'k'", "normalize-space(.)",
              "local-name(..)", "substring-before(concat(@x,' '),' ')",
              # use expressions that resolve a QName of their own while the key table is being built (the repaired
              # defect 99f37c8: the name of the key being looked up was held in a scratch QName these overwrite)
              "format-number(count(*),'0','p:df')", "format-number(string-length(@x),'00','q:df')",
              "concat(@x,function-available('p:nofn'))", "concat(name(),element-available('q:none'))"]
USE_OTHER = ["count(*)", "string-length(@x)", "count(@*)", "boolean(@x)", "@x='1'", "number(@x)", "count(ancestor::*)"]
# use expressions that read the context position/size: (expression, the same with position() = last() = 1 as XSLT 12.2
# defines it, for the brute force).  Former finding K-C15-2 (empty context node list) is repaired.
USE_POSLAST = [("position()", "1"), ("last()", "1"), ("concat(@x,position(),last())", "concat(@x,1,1)"),
               ("substring('vw',position(),last())", "substring('vw',1,1)"), ("count(*) + last()", "count(*) + 1"),
               ("concat(position(),' ',last() + 1)", "concat(1,' ',1 + 1)"), ("string(position() = last())", "string(1 = 1)")]
POSLAST = [False]

KEY_NAMES = [("k1", "k1", "k1"), ("k2", "k2", "k2"), ("p:k3", "q:k3", "{urn:c15}k3"), ("k4", "k4", "k4")]   # declared as, called as, expanded


def gen_decl(r, names):
    n = r.choice(names)
    if r.random() < 0.22:
        alts = r.sample(STEP_PATTERNS, 2)
        pat = alts[0][0] + "|" + alts[1][0]
        bf = "(" + alts[0][1] + "|" + alts[1][1] + ")"
    else:
        pat, bf = r.choice(STEP_PATTERNS)
    k = r.random()
    if k < 0.6:
        use, typ = r.choice(USE_NODESET), "N"
    elif k < 0.85:
        use, typ = r.choice(USE_STRING), "S"
    else:
        use, typ = r.choice(USE_OTHER), "S"
    bfuse = use
    if POSLAST[0] and r.random() < 0.15:
        (use, bfuse), typ = r.choice(USE_POSLAST), "S"
    return {"name": n, "match": pat, "bf": bf, "use": use, "bfuse": bfuse, "type": typ}


def key_elem(d):
    own = (" " + NS_KEY_DECL) if d.get("nsown") else ""
    return '<xsl:key%s name="%s" match="%s" use="%s"/>' % (own, d["name"][0], xa(d["match"]), xa(d["use"]))


def xa(s):
    return s.replace("&", "&amp;").replace("<", "&lt;").replace('"', "&quot;")


ARG_NODESET = ["//@x", "//@y", "//b", "//a/@y", "//text()", ".//@x", ".//text()", "../@*", "/..", "(//@x)[1]", "//c/@z",
               "//*[@x]/@y", "(//@*)[position() < 4]", "//b/text()", "//a", "@*", "*", "//c", "//@z|//@y", "preceding::*/@x",
               "//comment()", "(//text())[last()]", "ancestor-or-self::*/@x"]
ARG_STRING = ["'1'", "'2'", "'3'", "'v'", "'w'", "'1 2'", "'x1'", "''", "'ab'", "'k'", "'a'", "'b'", "'1-2'", "'-'", "'true'",
              "'false'", "'NaN'", "'0'", "'r'", "1", "2", "0", "1+1", "true()", "string(//@x)", "name()", "concat('1',' 2')",
              "'12'", "'1v'", "'zz'"]


# ---------------------------------------------------------------------------------------------
# class 'nsctx': the namespace context of a declaration is the one of ITS xsl:key element (XSLT 1.0 2.4 / XPath 1.0
# section 1: the namespace declarations in scope for the element the expression occurs on), also for the QNames that
# an expression only expands when it is evaluated (the format name of format-number(), the arguments of
# function-available() / element-available() / system-property()).  The prefixes p, f and e are bound for the xsl:key
# element (on the element itself or on the xsl:stylesheet element of its module) and bound to ANOTHER namespace, or
# not bound at all, where key() is called.  q, ff and xsl mean the same in every module: the brute force, which is
# evaluated where key() is called, uses those.
NS_KEY_DECL = 'xmlns:p="urn:c15" xmlns:f="http://exslt.org/math" xmlns:e="http://www.w3.org/1999/XSL/Transform"'
NS_OTHER_DECL = 'xmlns:p="urn:c15x" xmlns:f="urn:c15x" xmlns:e="urn:c15x"'
NS_COMMON = 'xmlns:q="urn:c15" xmlns:ff="http://exslt.org/math"'
NS_USE = ["format-number(-1 - count(*),'0','p:df')", "format-number(-1 - string-length(@x),'00','p:df')",
          "concat(@x,function-available('f:abs'))", "concat(name(),element-available('e:if'))",
          "concat(@y,system-property('e:version'))", "string(function-available('f:max'))",
          "concat(format-number(-2,'0','p:df'),@x,element-available('e:nosuch'))"]
NS_MATCH = [("a[function-available('f:abs')]", "//a[function-available('f:abs')]"),
            ("*[element-available('e:if')][@x]", "//*[element-available('e:if')][@x]"),
            ("b[format-number(-1,'0','p:df')='M1']", "//b[format-number(-1,'0','p:df')='M1']"),
            ("@x[system-property('e:version')=1]", "//@x[system-property('e:version')=1]"),
            ("*[function-available('f:abs')]/@y", "//*[function-available('f:abs')]/@y")]
NS_CALLERS = ["template", "module-other", "module-unbound"]


def ns_rename(x):
    """the same expression for a place where p, f, e are not what they are for the xsl:key element"""
    return x.replace("'p:", "'q:").replace("'f:", "'ff:").replace("'e:", "'xsl:")


def gen_ns_case(ctx, cid):
    r = ctx.rng
    c = gen_case(ctx, cid, "plain")
    c["cls"] = "nsctx"
    decls = c["decls"]
    forced = r.randrange(len(decls))
    for k, d in enumerate(decls):
        if k == forced or r.random() < 0.5:
            d["use"], d["type"] = r.choice(NS_USE), "S"
            d["bfuse"] = d["use"]
        if r.random() < 0.3:
            d["match"], d["bf"] = r.choice(NS_MATCH)
    caller = r.choice(NS_CALLERS)
    # module-level bindings of p, f, e per sheet: "key" (those of the declarations), "other" or "unbound"
    mods = ["key" if caller == "template" else caller.split("-")[1]]
    mods += [r.choice(["key", "key", "other", "unbound"]) for _ in range(2)]
    for d in decls:
        d["nsown"] = mods[d["sheet"]] != "key" or r.random() < 0.4
        d["bfuse"], d["bf"] = ns_rename(d["bfuse"]), ns_rename(d["bf"])
    c["ns"] = {"caller": caller, "mods": mods}
    return c


def nsdecl_of(c, sheet):
    """the namespace declarations on the xsl:stylesheet element of module `sheet` (0 = main)"""
    if not c.get("ns"):
        return NSDECL
    return NS_COMMON + {"key": " " + NS_KEY_DECL, "other": " " + NS_OTHER_DECL, "unbound": ""}[c["ns"]["mods"][sheet]]


def gen_case(ctx, cid, cls):
    r = ctx.rng
    xerces = cls == "xercesdom"
    p_empty = 0.35 if cls == "emptyvals" else 0.06
    ndocs = r.choice([1, 2, 2, 2, 3]) if cls != "rtfdoc" else r.choice([2, 2, 3])
    big = cls == "deep"
    docs = [gen_doc(r, "mno"[i], p_empty, xerces, big) for i in range(ndocs)]
    names = r.sample(KEY_NAMES, r.choice([1, 2, 2, 3]))
    ndecl = r.choice([1, 2, 2, 3, 3, 4])
    decls = [gen_decl(r, names) for _ in range(ndecl)]
    if cls == "samename":
        for d in decls:
            d["name"] = names[0]
    if cls == "attrs":
        for d in decls:
            if r.random() < 0.7:
                d["match"], d["bf"] = r.choice([p for p in STEP_PATTERNS if "@" in p[0].split("[")[0]])
    # distribution over the import tree: sheet 0 = main, 1 = imp1 (imported by main), 2 = imp2 (imported by imp1 or main)
    shape = r.choice(["flat", "one", "chain", "two"])
    nsheets = {"flat": 1, "one": 2, "chain": 3, "two": 3}[shape]
    for d in decls:
        d["sheet"] = r.randrange(nsheets)
    return {"id": cid, "cls": cls, "docs": docs, "decls": decls, "shape": shape, "probes": None,
            "orders": None, "xerces": xerces}


def untok(t):
    body = t[1:]
    return "" if not body else "".join(chr(int(h, 16)) for h in body.split("_"))


def values_of(u):
    return [untok(u[1:])] if u[0] == "s" else [untok(x) for x in u[1:].split("/") if x]


def value_nodes(c):
    """{string: [select expression of an attribute / text node with that string-value]}"""
    out = {}
    for j, doc in enumerate(c["docs"]):
        for e in all_elems(doc):
            for an, av in e.attrs:
                if an != "id":
                    out.setdefault(av, []).append("$d%d//*[@id='%s']/@%s" % (j, e.eid, an))
            tn = 0
            for k in e.kids:
                if k.kind == "t":
                    tn += 1
                    out.setdefault(k.text, []).append("$d%d//*[@id='%s']/text()[%d]" % (j, e.eid, tn))
    return out


def gen_probes(ctx, c, tables):
    """probes aimed at the values the declarations really have (tables = pass 1 of the library)"""
    r = ctx.rng
    docs, decls, ndocs = c["docs"], c["decls"], len(c["docs"])
    probes = []
    declared = sorted({d["name"] for d in decls})
    vnodes = value_nodes(c)
    nprobe = r.choice([3, 4, 5, 6, 8])
    for _ in range(nprobe):
        name = r.choice(declared)
        entries = [(j, u) for d, tb in zip(decls, tables) if d["name"] == name for (j, _, u) in tb if values_of(u)]
        j = r.randrange(ndocs)
        target = None
        if entries and r.random() < 0.8:
            tj, u = r.choice(entries)
            target = r.choice(values_of(u))
            if r.random() < 0.75:
                j = tj
        doc = docs[j]
        k = r.random()
        if k < 0.3:
            cx = "$d%d" % j
        else:
            e = r.choice(all_elems(doc))
            cx = "$d%d//*[@id='%s']" % (j, e.eid)
            if k > 0.85 and len(e.attrs) > 1:
                cx += "/@" + r.choice([a for a, _ in e.attrs])
            elif k > 0.75 and any(x.kind == "t" for x in e.kids):
                cx += "/text()[1]"
        k = r.random()
        if k < 0.4:
            if target is not None and "'" not in target:
                arg, typ = "'%s'" % target, "S"
            else:
                arg, typ = r.choice(ARG_STRING), "S"
        elif k < 0.7 and entries:
            # a union of particular attribute / text nodes carrying values the key really has (+ a stray one)
            want = [r.choice(values_of(r.choice(entries)[1])) for _ in range(r.choice([1, 2, 2, 3, 4]))]
            if target is not None:
                want.append(target)
            if r.random() < 0.4:
                want.append(r.choice(ATTR_POOL))
            sel = [r.choice(vnodes[v]) for v in want if v in vnodes]
            r.shuffle(sel)
            arg, typ = (" | ".join(sel), "N") if sel else (r.choice(ARG_NODESET), "N")
        else:
            arg, typ = r.choice(ARG_NODESET), "N"
            if r.random() < 0.3 and ndocs > 1:
                arg = "$d%d%s" % (r.randrange(ndocs), r.choice(["//@x", "//b", "//@y", "//text()", "//a/@*"]))
        pr = {"doc": j, "ctx": cx, "name": name, "arg": arg, "type": typ, "cur": None}
        if ndocs > 1 and r.random() < 0.35:
            # key() evaluated inside a predicate over the nodes of document j while the XSLT current node is in
            # ANOTHER document i: the table to consult is the one of the XPath context node (j), not of the current node
            i = r.choice([x for x in range(ndocs) if x != j])
            if r.random() < 0.4:
                pr["cur"] = "$d%d" % i
            else:
                e = r.choice(all_elems(docs[i]))
                pr["cur"] = "$d%d//*[@id='%s']" % (i, e.eid)
                if r.random() < 0.2 and len(e.attrs) > 1:
                    pr["cur"] += "/@" + r.choice([a for a, _ in e.attrs])
            pr["ctx"] = "every node of $d%d in turn (predicate), current node %s" % (j, pr["cur"])
        probes.append(pr)
    # repeated probes (history independence)
    for _ in range(r.choice([1, 2, 3])):
        probes.append(dict(r.choice(probes)))
    if c["cls"] == "unknown":
        bad = {"doc": 0, "ctx": "$d0", "name": ("nokey", "nokey", "nokey"),
               "arg": r.choice(["'1'", "/..", "//@x"]), "type": "S"}
        if bad["arg"] != "'1'":
            bad["type"] = "N"
        probes.insert(r.randrange(len(probes) + 1), bad)
    order_a = list(range(len(probes)))
    order_b = list(order_a)
    r.shuffle(order_a)
    r.shuffle(order_b)
    c["probes"], c["orders"] = probes, [order_a, order_b]


# ---------------------------------------------------------------------------------------------
# stylesheets

def doc_vars(c):
    s = '<xsl:decimal-format name="p:df" NaN="nan"/><xsl:variable name="d0" select="/"/>'
    if c.get("ns"):
        # {urn:c15}df and {urn:c15x}df differ in the minus sign
        s = ('<xsl:decimal-format name="q:df" NaN="nan" minus-sign="M"/><xsl:decimal-format xmlns:o="urn:c15x" name="o:df" minus-sign="X"/>'
             '<xsl:variable name="d0" select="/"/>')
    for i in range(1, len(c["docs"])):
        if c.get("cls") == "rtfdoc":
            s += ('<xsl:variable name="f%d"><xsl:copy-of select="document(\'doc%d.xml\')/node()"/></xsl:variable>'
                  '<xsl:variable name="d%d" xmlns:exsl="http://exslt.org/common" select="exsl:node-set($f%d)"/>') % (i, i, i, i)
        else:
            s += '<xsl:variable name="d%d" select="document(\'doc%d.xml\')"/>' % (i, i)
    return s


def files_of(c, with_imports):
    f = {}
    for i in range(1, len(c["docs"])):
        f["doc%d.xml" % i] = serialize(c["docs"][i])
    if with_imports:
        for k, body in import_sheets(c).items():
            f[k] = body
    return f


def import_sheets(c):
    def keys(i):
        return "".join(key_elem(d) for d in c["decls"] if d["sheet"] == i)
    out = {}
    if c["shape"] in ("one", "chain", "two"):
        inner = '<xsl:import href="imp2.xsl"/>' if c["shape"] == "chain" else ""
        out["imp1.xsl"] = '<xsl:stylesheet version="1.0" %s %s>%s%s</xsl:stylesheet>' % (XSL, nsdecl_of(c, 1), inner, keys(1))
    if c["shape"] in ("chain", "two"):
        out["imp2.xsl"] = '<xsl:stylesheet version="1.0" %s %s>%s</xsl:stylesheet>' % (XSL, nsdecl_of(c, 2), keys(2))
    return out


def pass1_sheet(c):
    """no xsl:key here: per node and declaration, does the pattern match (template mode) and what are the use values"""
    t = ""
    for i, d in enumerate(c["decls"]):
        if d["type"] == "N":
            body = 'N|<xsl:for-each select="%s"><xsl:value-of select="."/><xsl:text>&#9;</xsl:text></xsl:for-each>' % xa(d["use"])
        else:
            body = 'S|<xsl:value-of select="string(%s)"/>' % xa(d["use"])
        t += ('<xsl:template match="%s" mode="m%d" priority="9"><xsl:text>M|%d|</xsl:text><xsl:call-template name="d"/>'
              '<xsl:text>|</xsl:text>%s<xsl:text>&#10;</xsl:text></xsl:template>'
              '<xsl:template match="node()|@*|/" mode="m%d" priority="-9"/>') % (xa(d["match"]), i, i, body, i)
    apply = "".join('<xsl:apply-templates select="." mode="m%d"/>' % i for i in range(len(c["decls"])))
    drv = ""
    for j in range(len(c["docs"])):
        drv += '<xsl:for-each select="$d%d"><xsl:for-each select=".|.//node()|.//@*">%s</xsl:for-each></xsl:for-each>' % (j, apply)
    return ('<xsl:stylesheet version="1.0" %s %s><xsl:output method="text"/>%s%s%s<xsl:template match="/">%s</xsl:template></xsl:stylesheet>'
            % (XSL, (NS_COMMON + " " + NS_KEY_DECL) if c.get("ns") else NSDECL, doc_vars(c), DESC_TEMPLATE, t, drv))


def bf_expr(c, p):
    parts = []
    for d in c["decls"]:
        if d["name"] != p["name"]:
            continue
        if d["type"] == "N":
            parts.append("(%s)[%s = $a]" % (d["bf"], d["bfuse"]))
        else:
            parts.append("(%s)[string(%s) = $a]" % (d["bf"], d["bfuse"]))
    return " | ".join(parts)


def probe_xml(c, pi, p):
    called = p["name"][1]
    if p["type"] == "N":
        var = '<xsl:variable name="a" select="%s"/>' % xa(p["arg"])
        vals = 'N|<xsl:for-each select="$a"><xsl:value-of select="."/><xsl:text>&#9;</xsl:text></xsl:for-each>'
        kexpr = "key('%s',$a)" % called
    else:
        var = '<xsl:variable name="a" select="string(%s)"/>' % xa(p["arg"])
        vals = 'S|<xsl:value-of select="$a"/>'
        kexpr = "key('%s',%s)" % (called, p["arg"])
    bf = bf_expr(c, p)
    if p.get("cur"):
        # the argument is bound at the current node (document i); key() and the brute force are evaluated in the
        # same place: a predicate whose context node runs over every node of document j
        alln = "($d%d | $d%d//node() | $d%d//@*)" % (p["doc"], p["doc"], p["doc"])
        kin = "key('%s',$a)" % called
        kexpr = "%s[count(. | %s) = count(%s)]" % (alln, kin, kin)
        if bf:
            bf = "%s[count(. | %s) = count(%s)]" % (alln, bf, bf)
        s = '<xsl:for-each select="%s">%s<xsl:text>P|%d|V|</xsl:text>%s' % (xa(p["cur"]), var, pi, vals)
    else:
        s = '<xsl:for-each select="%s">%s<xsl:text>P|%d|V|</xsl:text>%s' % (xa(p["ctx"]), var, pi, vals)
    s += '<xsl:text>&#10;P|%d|K|</xsl:text><xsl:for-each select="%s"><xsl:call-template name="d"/><xsl:text>,</xsl:text></xsl:for-each>' % (pi, xa(kexpr))
    if bf:
        s += '<xsl:text>&#10;P|%d|B|</xsl:text><xsl:for-each select="%s"><xsl:call-template name="d"/><xsl:text>,</xsl:text></xsl:for-each>' % (pi, xa(bf))
        s += ('<xsl:text>&#10;P|%d|C|</xsl:text><xsl:value-of select="count(%s | %s)"/>,<xsl:value-of select="count(%s)"/>,<xsl:value-of select="count(%s)"/>'
              % (pi, xa(kexpr), xa(bf), xa(kexpr), xa(bf)))
    s += '<xsl:text>&#10;</xsl:text></xsl:for-each>'
    return s


def pass2_sheet(c, order):
    imps = ""
    if c["shape"] in ("one", "chain"):
        imps = '<xsl:import href="imp1.xsl"/>'
    elif c["shape"] == "two":
        imps = '<xsl:import href="imp1.xsl"/><xsl:import href="imp2.xsl"/>'
    keys = "".join(key_elem(d) for d in c["decls"] if d["sheet"] == 0)
    body = "".join(probe_xml(c, pi, c["probes"][pi]) for pi in order)
    # class 'nsctx', caller 'template': the main module binds p, f, e as the declarations do, the calling template rebinds them
    tns = (" " + NS_OTHER_DECL) if c.get("ns") and c["ns"]["caller"] == "template" else ""
    return ('<xsl:stylesheet version="1.0" %s %s>%s<xsl:output method="text"/>%s%s%s<xsl:template match="/"%s>%s</xsl:template></xsl:stylesheet>'
            % (XSL, nsdecl_of(c, 0), imps, keys, doc_vars(c), DESC_TEMPLATE, tns, body))


# ---------------------------------------------------------------------------------------------
# model input

def stok(s):
    return "u" + "_".join("%x" % ord(ch) for ch in s)


def parse_pass1(c, text, maps):
    """-> per declaration: list of (doc, model node token, uval token)"""
    tables = [[] for _ in c["decls"]]
    prefix = {doc_elem_id(d) + ":": j for j, d in enumerate(c["docs"])}
    for line in text.split("\n"):
        if not line.startswith("M|"):
            continue
        f = line.split("|")
        if len(f) < 5:
            raise ValueError("bad pass-1 line %r" % line)
        i, desc, typ, val = int(f[1]), f[2], f[3], "|".join(f[4:])
        j = prefix[desc.split(":")[0] + ":"]
        tokn = maps[j][desc][0]
        if typ == "S":
            u = "s" + stok(val)
        else:
            vs = val.split("\t")[:-1]
            u = "n" + "/".join(stok(v) for v in vs)
        tables[i].append((j, tokn, u))
    return tables


def sheet_token(c, tables):
    def decls(i):
        out = []
        for k, d in enumerate(c["decls"]):
            if d["sheet"] == i:
                out.append(stok(d["name"][2]) + ":" + ",".join("%d%s=%s" % e for e in tables[k]))
        return "{" + "|".join(out) + "}"
    sh = c["shape"]
    if sh == "flat":
        return decls(0) + "<>"
    if sh == "one":
        return decls(0) + "<" + decls(1) + "<>" + ">"
    if sh == "chain":
        return decls(0) + "<" + decls(1) + "<" + decls(2) + "<>>" + ">"
    return decls(0) + "<" + decls(1) + "<>" + decls(2) + "<>" + ">"


def parse_pass2(text):
    """-> {probe index: {"V": (typ, [values]) , "K": [desc], "B": [desc] or None, "C": (u, k, b) or None}}"""
    out = {}
    for line in text.split("\n"):
        if not line.startswith("P|"):
            continue
        f = line.split("|")
        pi, tag, rest = int(f[1]), f[2], "|".join(f[3:])
        e = out.setdefault(pi, {"V": None, "K": None, "B": None, "C": None, "n": 0})
        if tag == "V":
            e["n"] += 1
            typ, val = rest.split("|", 1)
            e["V"] = (typ, [val] if typ == "S" else val.split("\t")[:-1])
        elif tag in ("K", "B"):
            e[tag] = [x for x in rest.split(",") if x]
        elif tag == "C":
            e["C"] = tuple(int(x) for x in rest.split(","))
    return out


def many_with_empty(v):
    """node-set argument with more than one node, one of them with an empty string-value: the class of the
    former finding K-C15-1 (repaired by /repo commit 2389026); counted, a failure in it is a VIOLATION"""
    typ, vals = v
    return typ == "N" and len(vals) > 1 and "" in vals


# ---------------------------------------------------------------------------------------------

def run_jobs(jobs, exe, chunk=30):
    """run the transformations in batches (one driver process per batch; jobs with the option
    'reuse' share one XalanTransformer with the jobs before them in the batch).  A crash loses the
    rest of its batch: the lost jobs are rerun one per process.  Returns (results, sequences):
    sequences = batches whose first lost job does not crash alone (history-dependent crash)."""
    from concurrent.futures import ThreadPoolExecutor
    chunks = [jobs[i:i + chunk] for i in range(0, len(jobs), chunk)]

    def run_chunk(ch):
        rc, res, raw = core.run_lines(exe, "\n".join(xsltrun.line_of(j) for j in ch) + "\n", sep="|")
        return res

    def decode(r):
        if r is None:
            return ("crash",)
        f = r.split("|")
        if f[0] == "ok":
            return ("ok", bytes.fromhex(f[1]) if len(f) > 1 else b"")
        return ("err", int(f[1]), bytes.fromhex(f[2]).decode("utf-8", "replace") if len(f) > 2 else "")
    res, seqs = {}, []
    for ch in chunks:
        for k, j in enumerate(ch):
            if "reuse" in j.get("opts", ""):
                PREFIX[j["id"]] = ch[:k + 1]
    with ThreadPoolExecutor(core.NPROC) as ex:
        outs = list(ex.map(run_chunk, chunks))
        lost, firsts = [], []
        for ch, o in zip(chunks, outs):
            missing = [j for j in ch if j["id"] not in o]
            if missing:
                firsts.append((ch[:ch.index(missing[0]) + 1], missing[0]))
                lost += missing
            for j in ch:
                res[j["id"]] = decode(o.get(j["id"]))
        alone = list(ex.map(lambda j: run_chunk([j]), lost))
    for j, o in zip(lost, alone):
        res[j["id"]] = decode(o.get(j["id"]))
    for seq, first in firsts:
        if res[first["id"]][0] != "crash":
            seqs.append(seq)
    return res, seqs


def replay_text(c, job, what):
    d = {"what": what, "case": c["id"], "class": c["cls"], "sheet": job["sheet"], "source": job["source"],
         "files": job.get("files", {}), "opts": job.get("opts", "")}
    if job["id"] in PREFIX and len(PREFIX[job["id"]]) > 1:
        d["what"] += " (transformer shared with the %d transformations before it: replayed as a sequence)" % (len(PREFIX[job["id"]]) - 1)
        d["sequence"] = PREFIX[job["id"]]
    return json.dumps(d, indent=1)


def evaluate(ctx, cases, exe, model):
    """returns (correspondence mismatches, oracle failures [dict(what, known, replay)])"""
    corr, orc = [], []
    jobs = []
    for c in cases:
        c["opts"] = "xercesdom" if c["xerces"] else ("reuse" if c["cls"] == "reuse" else "")
        c["src"] = serialize(c["docs"][0])
        c["jobs"] = {"p1": {"id": c["id"] + ".1", "sheet": pass1_sheet(c), "source": c["src"], "files": files_of(c, False), "opts": c["opts"]}}
        jobs.append(c["jobs"]["p1"])
    res, crashed = run_jobs(jobs, exe)
    jobs = []
    for c in cases:
        c["maps"] = [node_maps(d) for d in c["docs"]]
        c["tables"] = None
        r1 = res[c["jobs"]["p1"]["id"]]
        if r1[0] != "ok":
            orc.append({"what": "pass 1 (no keys involved) failed: %r" % (r1,), "known": None, "replay": replay_text(c, c["jobs"]["p1"], "pass 1 failed"), "harness": True})
            continue
        try:
            c["tables"] = parse_pass1(c, r1[1].decode("utf-8"), c["maps"])
        except (ValueError, KeyError) as ex:
            orc.append({"what": "pass 1 output not understood: %r" % (ex,), "known": None, "replay": replay_text(c, c["jobs"]["p1"], "pass 1"), "harness": True})
            continue
        if c["probes"] is None:
            gen_probes(ctx, c, c["tables"])
        for oi, order in enumerate(c["orders"]):
            c["jobs"]["o%d" % oi] = {"id": c["id"] + ".o%d" % oi, "sheet": pass2_sheet(c, order), "source": c["src"],
                                     "files": files_of(c, True), "opts": c["opts"]}
            jobs.append(c["jobs"]["o%d" % oi])
    res2, crashed2 = run_jobs(jobs, exe)
    res.update(res2)
    for seq in (crashed + crashed2)[:3]:
        orc.append({"what": "the driver process crashed at transformation %s although that transformation alone does not crash: the crash depends on the %d transformations run before it in the same process (key tables kept across transformations?)" % (seq[-1]["id"], len(seq) - 1),
                    "known": None, "replay": json.dumps({"what": "crash after a sequence of transformations", "sequence": seq}, indent=1)})
    lines, expect = [], {}
    for c in cases:
        if c["tables"] is None:
            continue
        ctx.count("class:" + c["cls"])
        ctx.count("docs:%d" % len(c["docs"]))
        ctx.count("imports:" + c["shape"])
        if any((ns_rename(d["use"]) if c.get("ns") else d["use"]) != d["bfuse"] for d in c["decls"]):
            ctx.count("decl-use:position-or-last")
        if c.get("ns"):
            ctx.count("nsctx:caller-%s" % c["ns"]["caller"])
            for d in c["decls"]:
                ctx.count("nsctx:bindings-on-%s" % ("xsl:key" if d["nsown"] else "xsl:stylesheet"))
                if ns_rename(d["use"]) != d["use"]:
                    ctx.count("nsctx:use-resolves-prefix-of-declaration")
                if ns_rename(d["match"]) != d["match"]:
                    ctx.count("nsctx:match-resolves-prefix-of-declaration")
        maps, tables = c["maps"], c["tables"]
        allmap = {}
        for m in maps:
            allmap.update(m)
        has_unknown = any(p["name"][0] == "nokey" for p in c["probes"])
        for d, tb in zip(c["decls"], tables):
            ctx.count("decl-matches:%s" % ("0" if not tb else "1-3" if len(tb) < 4 else ">3"))
            if any(u.startswith("n") and u.count("/") >= 1 for _, _, u in tb):
                ctx.count("decl-use:multi-valued")
            if any(u.startswith("n") and len(set(u[1:].split("/"))) < len(u[1:].split("/")) for _, _, u in tb):
                ctx.count("decl-use:repeated-value")
        world = ";".join(tree_token(d) for d in c["docs"])
        shtok = sheet_token(c, tables)
        per_order = []
        for oi, order in enumerate(c["orders"]):
            job = c["jobs"]["o%d" % oi]
            r2 = res[job["id"]]
            ctx.cov["evaluations"] += 1
            if has_unknown:
                # the model decides whether the unknown name is an error (string argument / non-empty
                # node-set) or an empty result (empty node-set: FunctionKey never asks the table)
                p2 = parse_pass2(r2[1].decode("utf-8")) if r2[0] == "ok" else None
                per_order.append((order, job, r2, p2))
                continue
            if r2[0] != "ok":
                orc.append({"what": "the transformation failed: %r" % (r2,), "known": None, "replay": replay_text(c, job, "transformation failed")})
                per_order.append(None)
                continue
            p2 = parse_pass2(r2[1].decode("utf-8"))
            per_order.append((order, job, r2, p2))
        # ---- model prediction per order (needs the V values; for an erroring run take them from the other run)
        vals = {}
        for po in per_order:
            if po and po[3]:
                for pi, e in po[3].items():
                    if e["V"] is not None and e["n"] == 1:
                        vals.setdefault(pi, e["V"])
        for oi, po in enumerate(per_order):
            if not po:
                continue
            order, job, r2, p2 = po
            usable = [pi for pi in order if pi in vals]
            if has_unknown:
                # a probe whose context node does not exist prints nothing; unknown-key probes use $d0
                usable = [pi for pi in order if pi in vals or c["probes"][pi]["name"][0] == "nokey"]
            ptoks = []
            for pi in usable:
                p = c["probes"][pi]
                if pi in vals:
                    typ, vs = vals[pi]
                elif p["type"] == "S":
                    typ, vs = "S", ["1"]
                else:
                    typ, vs = "N", (["?"] if p["arg"] != "/.." else [])   # only emptiness matters for an unknown name
                    if p["arg"] == "//@x":
                        xs = [v for e in all_elems(c["docs"][0]) for a, v in e.attrs if a == "x"]
                        vs = xs
                arg = ("s" + stok(vs[0])) if typ == "S" else ("n" + "/".join(stok(v) for v in vs))
                ptoks.append("%d:%s:%s" % (p["doc"], stok(p["name"][2]), arg))
            if not ptoks:
                continue
            lid = "%s.o%d" % (c["id"], oi)
            lines.append("%s %s %s %s" % (lid, world, shtok, ";".join(ptoks)))
            expect[lid] = (c, job, r2, p2, usable, allmap)
        # ---- oracle on the library's outputs only
        if has_unknown:
            continue
        seen_k = {}
        for oi, po in enumerate(per_order):
            if not po:
                continue
            order, job, r2, p2 = po
            for pi in order:
                p = c["probes"][pi]
                e = p2.get(pi)
                if e is None:
                    ctx.count("probe:context-missing")
                    continue
                if e["n"] != 1 or e["K"] is None:
                    orc.append({"what": "probe %d printed %d times / incompletely" % (pi, e["n"]), "known": None, "replay": replay_text(c, job, "harness"), "harness": True})
                    continue
                K, B, C, V = e["K"], e["B"], e["C"], e["V"]
                ctx.count("arg:%s" % ("string" if V[0] == "S" else "nodeset-%s" % ("0" if not V[1] else "1" if len(V[1]) == 1 else "many")))
                ctx.count("result:%s" % ("empty" if not K else "1" if len(K) == 1 else "many"))
                if p.get("cur"):
                    ctx.count("probe:context-document-differs-from-current:%s" % ("empty" if not K else "non-empty"))
                known = None
                if many_with_empty(V):
                    ctx.count("arg:nodeset-many-with-empty-value")
                desc = "probe %d: context %s (document %d), key('%s', %s) with argument values %r; declarations %s" % (
                    pi, p["ctx"], p["doc"], p["name"][1], p["arg"], V[1],
                    "; ".join("%s match=%s use=%s" % (d["name"][0], d["match"], d["use"]) for d in c["decls"] if d["name"] == p["name"]))
                fail = None
                dpre = doc_elem_id(c["docs"][p["doc"]]) + ":"
                if any(not k.startswith(dpre) for k in K):
                    fail = "key() returned nodes of another document: %s" % K
                elif any(k not in allmap for k in K):
                    fail = "key() returned a node that is not in the document model: %s" % K
                elif [allmap[k][1] for k in K] != sorted(set(allmap[k][1] for k in K)):
                    fail = "key() result is not in document order / has duplicates: %s" % K
                elif B is not None and K != B:
                    fail = "key() returned %s but the brute-force definition gives %s" % (K, B)
                elif C is not None and not (C[0] == C[1] == C[2]):
                    fail = "count(key|bf), count(key), count(bf) = %r" % (C,)
                prev = seen_k.get(probe_ident(p))
                if fail is None and prev is not None and prev[0] != K:
                    fail = "history dependence: the same key() call answered %s %s and %s here" % (prev[0], prev[1], K)
                    known = None
                seen_k.setdefault(probe_ident(p), (K, "in order %d" % oi))
                if K:
                    DISTINCT.add((p["name"][2], tuple(V[1]), tuple(K), tuple((d["match"], d["use"]) for d in c["decls"] if d["name"] == p["name"])))
                if fail:
                    orc.append({"what": desc + "\n#   " + fail, "known": known, "replay": replay_text(c, job, desc + " :: " + fail),
                                "case": c, "probe": pi})
    # ---- correspondence
    if model and lines:
        rc, mres, raw = core.run_lines_parallel(model, lines)
        for lid, (c, job, r2, p2, usable, allmap) in expect.items():
            ctx.cov["traces_validated_against_impl"] += 1
            got = mres.get(lid)
            if got is None or got.startswith("PARSE-ERROR"):
                corr.append({"case": lid, "what": "model driver gave %r" % (got,)})
                continue
            rs = got.split(";")
            tok2desc = {}
            for dsc, (tk, _) in allmap.items():
                tok2desc[(dsc.split(":")[0], tk)] = dsc
            if "E" in rs or "F" in rs:
                ctx.count("model:unknown-key-error-predicted")
                if r2[0] == "ok" or "no xsl:key" not in (r2[2] if len(r2) > 2 else ""):
                    corr.append({"case": lid, "what": "model predicts an unknown-key error (%s), library gave %r" % (got, r2[:2]),
                                 "replay": replay_text(c, job, "model predicts unknown-key error")})
                continue
            if r2[0] != "ok":
                corr.append({"case": lid, "what": "model predicts results, the library failed: %r" % (r2,), "replay": replay_text(c, job, "library failed")})
                continue
            for pi, rtok in zip(usable, rs):
                p = c["probes"][pi]
                e = p2.get(pi)
                if e is None or e["K"] is None:
                    continue
                dpre = doc_elem_id(c["docs"][p["doc"]])
                pred = [tok2desc.get((dpre, t), "?" + t) for t in rtok[1:].split(",") if t]
                if pred != e["K"]:
                    corr.append({"case": lid, "what": "probe %d key('%s',%s) in document %d: model %s, library %s" % (
                        pi, p["name"][1], p["arg"], p["doc"], pred, e["K"]), "replay": replay_text(c, job, "model/library differ on probe %d" % pi)})
    return corr, orc


def probe_ident(p):
    return (p["doc"], p["ctx"], p["name"][0], p["arg"], p.get("cur"))


# ---------------------------------------------------------------------------------------------
# corpus: fixed replays (findings, hand-written regressions)

def run_corpus(ctx, exe, known):
    hits = set()
    if not os.path.isdir(CORPUS):
        ctx.broken.append("corpus/C15 is missing")
        return
    entries = []
    for fn in sorted(os.listdir(CORPUS)):
        if fn.endswith(".json"):
            e = json.load(open(os.path.join(CORPUS, fn)))
            e["file"] = fn
            entries.append(e)
    res = xsltrun.run([{"id": e["file"], "sheet": e["sheet"], "source": e["source"], "files": e.get("files", {}), "opts": e.get("opts", "")}
                       for e in entries], exe=exe)
    for e in entries:
        ctx.cov["evaluations"] += 1
        ctx.count("corpus")
        got = res[e["file"]]
        txt = got[1].decode("utf-8", "replace") if got[0] == "ok" else repr(got)
        if txt == e["expected"]:
            continue
        if e.get("finding") and txt == e.get("defect") and e["finding"] in known:
            hits.add(e["finding"])
            continue
        ctx.violation("corpus", "# C15 corpus entry corpus/C15/%s: expected %r (property), got %r\n%s" % (
            e["file"], e["expected"], txt, json.dumps({k: e[k] for k in ("sheet", "source", "files", "opts") if k in e}, indent=1)))
    for k in sorted(hits):
        ctx.known_finding("%s %s" % (k, known[k]["what"]))


# "rtfdoc": the second and later documents are result tree fragments (copies of doc<i>.xml made by xsl:copy-of inside a
# variable, converted with exsl:node-set): their root is a document-fragment node and key() must find the key node
# from every kind of context node, attributes included (seed C15_g)
CLASSES = ["plain", "plain", "reuse", "samename", "attrs", "attrs", "deep", "emptyvals", "xercesdom", "unknown", "reuse", "plain",
           "rtfdoc", "rtfdoc"]


def make_cases(ctx, n, tag):
    out = []
    for i in range(n):
        cls = CLASSES[i % len(CLASSES)]
        out.append(gen_case(ctx, "%s%d" % (tag, i), cls))
    return out


def run(ctx):
    ctx.assumptions += [
        "pattern matching (match=) and expression evaluation (use=) are abstract in the Coq model: per node they are taken from the library itself in pass 1 (template modes / xsl:value-of, no xsl:key in that stylesheet); properties C09/C10/C02 are about them",
        "XalanMap is a finite map (operator[] = find-or-create), property C04; MutableNodeRefList::addNodeInDocOrder on an index-sorted list of one indexed document inserts at the index position and drops an equal index (binary search: property C12, theorems bsearch_correct / add_in_doc_order_refines_partial)",
        "getIndex() of the source tree increases in document order (element, its attributes, its children): C12 struct_order_eq_index_order; here idx = position in the pre-order node list",
        "key() is not applied to result tree fragments converted by a node-set extension (StylesheetRoot::getKeyNode's fragment case is not modelled)",
        "generated patterns come from a fixed grammar whose brute-force select equivalent is known (//P for a relative pattern P)",
    ]
    ctx.notes["rule"] = ("distinct_nontrivial = distinct (key name, argument values, non-empty result node list, (match, use) of the declarations of that name) tuples "
                         "observed on the library and checked by the brute-force oracle")
    ok_lib, liblog = core.build_lib("plain")
    if not ok_lib:
        ctx.broken.append("library does not build from the working tree: " + liblog[-500:])
        return ctx.finish(LEVEL)
    proved = ctx.prove(["Properties_C15.v"], ["GenKey"])
    model, ok_m, mlog = core.build_model(FAMILY)
    if not ok_m:
        ctx.broken.append("model extraction/build failed: " + mlog[-500:])
        model = None
    exe, ok_h, hlog = xsltrun.build()
    if not ok_h:
        ctx.broken.append("xslt driver does not compile against the working tree: " + hlog[-500:])
        return ctx.finish(LEVEL)
    known = {k["key"]: k for k in ctx.known.for_property("C15")}
    POSLAST[0] = True       # former finding K-C15-2 is repaired: position()/last() in use expressions are generated and must pass
    ctx.notes["use_position_last_generated"] = POSLAST[0]
    run_corpus(ctx, exe, known)

    n = 1200 if not ctx.thorough else 20000
    cases = make_cases(ctx, n, "g")
    corr, orc = evaluate(ctx, cases, exe, model)
    ctx.cov["samples"] = ["%s: %s | probes %s" % (c["cls"], "; ".join("%s match=%s use=%s" % (d["name"][0], d["match"], d["use"]) for d in c["decls"]),
                                                  "; ".join("key('%s',%s)@%s" % (p["name"][1], p["arg"], p["ctx"]) for p in c["probes"][:3])) for c in cases[:6] if c["probes"]]
    new = [o for o in orc if not (o["known"] and o["known"] in known)]
    if (corr or not proved or not model) and not new and not ctx.thorough:
        ctx.escalated = True
        c2, o2 = evaluate(ctx, make_cases(ctx, 1500, "e"), exe, model)
        corr += c2
        orc += o2
        new = [o for o in orc if not (o["known"] and o["known"] in known)]
    # class 'nsctx' (namespace context of the declaration differs from the one key() is called in): generated from a
    # stream of its own, seeded here, so that the draws of the classes above are what they were before it existed
    saved = ctx.rng
    ctx.rng = random.Random(saved.getrandbits(64))
    try:
        ncases = [gen_ns_case(ctx, "n%d" % i) for i in range(150 if not ctx.thorough else 2500)]
        c3, o3 = evaluate(ctx, ncases, exe, model)
    finally:
        ctx.rng = saved
    corr += c3
    orc += o3
    new = [o for o in orc if not (o["known"] and o["known"] in known)]
    hit = sorted({o["known"] for o in orc if o["known"] and o["known"] in known})
    for k in hit:
        ctx.known_finding("%s %s" % (k, known[k]["what"]))
    ctx.notes["known_class_hits"] = {k: sum(1 for o in orc if o["known"] == k) for k in hit}
    ctx.cov["distinct_nontrivial"] = len(DISTINCT)
    if corr:
        ctx.broken.append("correspondence key: %d probe answers in %d of %d runs differ between the extracted model and the library, e.g. %s" % (
            len(corr), len({x["case"] for x in corr}), ctx.cov["traces_validated_against_impl"], corr[0]["what"][:600]))
        ctx.notes["correspondence_mismatches"] = [c["what"][:400] for c in corr[:10]]
        if corr[0].get("replay"):
            with open(os.path.join(core.OUT, "C15", "correspondence_first.json"), "w") as f:
                f.write(corr[0]["replay"])
    if new:
        new.sort(key=lambda o: len(o["replay"]))
        for o in new[:3]:
            ctx.violation("oracle", "# C15 oracle failure: %s\n# replay: python3 check.py C15 --replay <this file> (JSON below: sheet, source, files)\n%s" % (
                o["what"].replace("\n", "\n# "), o["replay"]))
    ctx.notes["oracle_failures"] = len(new)
    return ctx.finish(LEVEL, explanation="theorems over the Gallina model of the key table construction walk, the table, FunctionKey and the per-document cache "
                                         "+ correspondence of the extracted model with whole transformations of the rebuilt library "
                                         "+ brute-force oracle evaluated by the library's own XPath in the same run")


def replay(ctx, path):
    """re-run the stored transformation on the current tree and re-evaluate the run-local oracle lines"""
    core.build_lib("plain")
    exe, ok_h, hlog = xsltrun.build()
    txt = open(path).read()
    i = 0 if txt.startswith("{") else txt.index("\n{") + 1
    e, _ = json.JSONDecoder().raw_decode(txt[i:])
    if "sequence" in e:
        rc, raw, _ = core.run_lines(exe, "\n".join(xsltrun.line_of(j) for j in e["sequence"]) + "\n", sep="|")
        lost = [j["id"] for j in e["sequence"] if j["id"] not in raw]
        print("driver exit status %s; transformations without a result: %s" % (rc, lost))
        if lost or "sheet" not in e:
            return 1 if lost else 0
        f = raw[e["sequence"][-1]["id"]].split("|")
        r = ("ok", bytes.fromhex(f[1]) if len(f) > 1 else b"") if f[0] == "ok" else ("err", f[1], bytes.fromhex(f[2]).decode("utf-8", "replace") if len(f) > 2 else "")
    else:
        res = xsltrun.run([{"id": "replay", "sheet": e["sheet"], "source": e["source"], "files": e.get("files", {}), "opts": e.get("opts", "")}], exe=exe)
        r = res["replay"]
    print(e.get("what", ""))
    if r[0] != "ok":
        print(r)
        return 1
    out = r[1].decode("utf-8", "replace")
    print(out)
    if "expected" in e:
        ok = out == e["expected"]
        print("expected %r: %s" % (e["expected"], "as expected" if ok else "DIFFERS"))
        return 0 if ok else 1
    bad = 0
    for pi, p in sorted(parse_pass2(out).items()):
        if p["B"] is not None and p["K"] != p["B"]:
            print("FAILS: probe %d key() = %s, brute force = %s" % (pi, p["K"], p["B"]))
            bad += 1
        if p["C"] is not None and not (p["C"][0] == p["C"][1] == p["C"][2]):
            print("FAILS: probe %d counts (key|bf, key, bf) = %r" % (pi, p["C"]))
            bad += 1
    return 1 if bad else 0
