(* PatcModel.v — C09 part "compile": the pattern compiler never runs out of fuel (every loop consumes a token). *)
From Coq Require Import List NArith Bool Arith Lia.
Import ListNotations.
Require Import XV.XpAst XV.GenXpc XV.GenPatc XV.XpcLexDefs XV.XpcParseDefs XV.XpcFuelModel XV.PatcDefs.

Lemma tokc_nonnil : forall (ts : list tok) c, N.eqb (tokc ts) c = true -> c <> 0%N -> length (tl ts) < length ts.
Proof.
  intros ts c H Hc. destruct ts as [|t r]; cbn [tl length].
  - unfold tokc in H. apply N.eqb_eq in H. congruence.
  - lia.
Qed.

Section PFuel.
Variable fl : flags.
Variable pf : pflags.
Variable ns : str -> option str.
Variable pe : nat -> list tok -> res (expr * list tok).
Variable lf : nat.
Variable B : nat.
Hypothesis pe_len : forall d ts e r, pe d ts = Ok (e, r) -> length r <= length ts.
Hypothesis pe_fuel : forall d ts, length ts < B -> pe d ts <> Fuel.

Lemma pp_axis_len : forall ts c r, pp_axis ts = Ok (c, r) -> length r <= length ts.
Proof.
  intros ts c r H. unfold pp_axis in H.
  pose proof (tl_len ts) as L1. pose proof (tl_len (tl ts)) as L2. pose proof (tl_len (tl (tl ts))) as L3.
  repeat match type of H with
  | (if ?b then _ else _) = _ => destruct b
  | (let _ := _ in _) = _ => cbv zeta in H
  end; inversion H; subst; lia.
Qed.

Lemma pp_axis_nofuel : forall ts, pp_axis ts <> Fuel.
Proof.
  intros ts. unfold pp_axis.
  repeat match goal with |- (if ?b then _ else _) <> _ => destruct b | |- (let _ := _ in _) <> _ => cbv zeta end; discriminate.
Qed.

Lemma pp_step_len : forall ts s r, pp_step fl ns pe lf ts = Ok (s, r) -> length r <= length ts.
Proof.
  intros ts s r H. unfold pp_step in H.
  destruct (pp_axis ts) as [[c ts1]| |] eqn:E1; try discriminate.
  destruct (p_nodetest fl ns ts1) as [[t ts2]| |] eqn:E2; try discriminate.
  destruct (p_preds pe lf 0 ts2) as [[ps ts3]| |] eqn:E3; try discriminate.
  inversion H; subst.
  apply pp_axis_len in E1. apply p_nodetest_len in E2. apply (p_preds_len pe pe_len) in E3. lia.
Qed.

Lemma pp_step_nofuel : forall ts, length ts <= B -> length ts < lf -> pp_step fl ns pe lf ts <> Fuel.
Proof.
  intros ts HB Hl. unfold pp_step.
  destruct (pp_axis ts) as [[c ts1]| |] eqn:E1; try discriminate.
  2:{ exfalso. eapply pp_axis_nofuel; eauto. }
  destruct (p_nodetest fl ns ts1) as [[t ts2]| |] eqn:E2; try discriminate.
  2:{ exfalso. eapply p_nodetest_nofuel; eauto. }
  apply pp_axis_len in E1. apply p_nodetest_len in E2.
  pose proof (p_preds_fuel pe B pe_len pe_fuel lf 0 ts2 ltac:(lia) ltac:(lia)) as F.
  destruct (p_preds pe lf 0 ts2) as [[ps ts3]| |]; try discriminate. congruence.
Qed.

Lemma pp_steps_len : forall m ts s r, pp_steps fl ns pe lf m ts = Ok (s, r) -> length r <= length ts.
Proof.
  induction m as [|m IH]; intros ts s r H; cbn [pp_steps] in H; [discriminate|].
  destruct (pp_step fl ns pe lf ts) as [[s1 ts1]| |] eqn:E1; try discriminate.
  apply pp_step_len in E1.
  destruct (N.eqb (tokc ts1) ch_solidus) eqn:E2.
  - destruct (pp_steps fl ns pe lf m (tl ts1)) as [[r2 ts2]| |] eqn:E3; try discriminate.
    inversion H; subst. apply IH in E3. pose proof (tl_len ts1). lia.
  - inversion H; subst. lia.
Qed.

Lemma pp_steps_nofuel : forall m ts, length ts <= B -> length ts < lf -> length ts < m -> pp_steps fl ns pe lf m ts <> Fuel.
Proof.
  induction m as [|m IH]; intros ts HB Hl Hm; [lia|]. cbn [pp_steps].
  pose proof (pp_step_nofuel ts HB Hl) as F.
  destruct (pp_step fl ns pe lf ts) as [[s1 ts1]| |] eqn:E1; try discriminate; [|congruence].
  apply pp_step_len in E1.
  destruct (N.eqb (tokc ts1) ch_solidus) eqn:E2; [|discriminate].
  pose proof (tokc_nonnil ts1 _ E2 ltac:(discriminate)) as L.
  specialize (IH (tl ts1) ltac:(lia) ltac:(lia) ltac:(lia)).
  destruct (pp_steps fl ns pe lf m (tl ts1)) as [[r2 ts2]| |]; try discriminate. congruence.
Qed.

Lemma pp_head_len : forall ts h q r, pp_head fl pf ns pe lf ts = Ok (h, q, r) -> length r <= length ts.
Proof.
  intros ts h q r H. unfold pp_head in H.
  pose proof (tl_len ts) as L1. pose proof (tl_len (tl ts)) as L2.
  destruct (is_idkey ts).
  - destruct (p_funcall fl ns pe lf 0 ts) as [[f t1]| |] eqn:E1; try discriminate.
    apply (p_funcall_len fl ns pe lf pe_len) in E1. pose proof (tl_len t1).
    destruct (negb (head_call_ok pf (tok_is ts kw_key) f)); try discriminate.
    destruct (px_lpp pf && negb (isnil t1) && negb (N.eqb (tokc t1) ch_solidus) && negb (N.eqb (tokc t1) ch_bar))%bool; try discriminate.
    destruct (is_dslash t1); inversion H; subst; lia.
  - destruct (N.eqb (tokc ts) ch_solidus); [destruct (look_c ts ch_solidus 1)|]; inversion H; subst; lia.
Qed.

Lemma pp_head_nofuel : forall ts, length ts <= B -> length ts < lf -> pp_head fl pf ns pe lf ts <> Fuel.
Proof.
  intros ts HB Hl. unfold pp_head.
  destruct (is_idkey ts).
  - pose proof (p_funcall_fuel fl ns pe lf B pe_len pe_fuel 0 ts HB Hl) as F.
    destruct (p_funcall fl ns pe lf 0 ts) as [[f t1]| |]; try discriminate; [|congruence].
    destruct (negb (head_call_ok pf (tok_is ts kw_key) f)); try discriminate.
    destruct (px_lpp pf && negb (isnil t1) && negb (N.eqb (tokc t1) ch_solidus) && negb (N.eqb (tokc t1) ch_bar))%bool; try discriminate.
    destruct (is_dslash t1); discriminate.
  - destruct (N.eqb (tokc ts) ch_solidus); [destruct (look_c ts ch_solidus 1)|]; discriminate.
Qed.

Lemma pp_lpp_len : forall ab ts a r, pp_lpp fl pf ns pe lf ab ts = Ok (a, r) -> length r <= length ts.
Proof.
  intros ab ts a r H. unfold pp_lpp, pp_tail in H.
  destruct (pp_head fl pf ns pe lf ts) as [[[hd q] ts1]| |] eqn:E1; try discriminate.
  apply pp_head_len in E1.
  destruct (px_lpp pf).
  { destruct (negb (isnil ts1) && negb (N.eqb (tokc ts1) ch_bar))%bool.
    - destruct (q && N.eqb (tokc ts1) ch_solidus)%bool; try discriminate.
      destruct (pp_steps fl ns pe lf lf ts1) as [[ss ts2]| |] eqn:E2; try discriminate.
      inversion H; subst. apply pp_steps_len in E2. lia.
    - destruct (q || isnil hd)%bool; inversion H; subst; lia. }
  destruct (q && (isnil ts1 || N.eqb (tokc ts1) ch_bar))%bool; try discriminate.
  destruct (isnil ts1); [inversion H; subst; lia|].
  destruct (negb (N.eqb (tokc ts1) ch_bar)).
  - destruct (pp_steps fl ns pe lf lf ts1) as [[ss ts2]| |] eqn:E2; try discriminate.
    inversion H; subst. apply pp_steps_len in E2. lia.
  - destruct (ab && isnil hd)%bool; inversion H; subst; lia.
Qed.

Lemma pp_lpp_nofuel : forall ab ts, length ts <= B -> length ts < lf -> pp_lpp fl pf ns pe lf ab ts <> Fuel.
Proof.
  intros ab ts HB Hl. unfold pp_lpp, pp_tail.
  pose proof (pp_head_nofuel ts HB Hl) as F.
  destruct (pp_head fl pf ns pe lf ts) as [[[hd q] ts1]| |] eqn:E1; try discriminate; [|congruence].
  apply pp_head_len in E1.
  pose proof (pp_steps_nofuel lf ts1 ltac:(lia) ltac:(lia) ltac:(lia)) as F2.
  destruct (px_lpp pf).
  { destruct (negb (isnil ts1) && negb (N.eqb (tokc ts1) ch_bar))%bool.
    - destruct (q && N.eqb (tokc ts1) ch_solidus)%bool; try discriminate.
      destruct (pp_steps fl ns pe lf lf ts1) as [[ss ts2]| |]; try discriminate. congruence.
    - destruct (q || isnil hd)%bool; discriminate. }
  destruct (q && (isnil ts1 || N.eqb (tokc ts1) ch_bar))%bool; try discriminate.
  destruct (isnil ts1); [discriminate|].
  destruct (negb (N.eqb (tokc ts1) ch_bar)).
  - destruct (pp_steps fl ns pe lf lf ts1) as [[ss ts2]| |]; try discriminate. congruence.
  - destruct (ab && isnil hd)%bool; discriminate.
Qed.

Lemma pp_pattern_nofuel : forall m ab ts, length ts <= B -> length ts < lf -> length ts < m ->
  pp_pattern fl pf ns pe lf m ab ts <> Fuel.
Proof.
  induction m as [|m IH]; intros ab ts HB Hl Hm; [lia|]. cbn [pp_pattern].
  pose proof (pp_lpp_nofuel ab ts HB Hl) as F.
  destruct (pp_lpp fl pf ns pe lf ab ts) as [[a ts1]| |] eqn:E1; try discriminate; [|congruence].
  apply pp_lpp_len in E1.
  destruct (N.eqb (tokc ts1) ch_bar) eqn:E2; [|discriminate].
  pose proof (tokc_nonnil ts1 _ E2 ltac:(discriminate)) as L.
  specialize (IH true (tl ts1) ltac:(lia) ltac:(lia) ltac:(lia)).
  destruct (pp_pattern fl pf ns pe lf m true (tl ts1)) as [[r2 ts2]| |]; try discriminate. congruence.
Qed.

End PFuel.

Theorem pparse_fuel_sufficient_m : forall fl pf ns ts, pparse fl pf ns ts <> Fuel.
Proof.
  intros fl pf ns ts. unfold pparse.
  set (n := S (length ts)).
  assert (PL : forall d ts e r, p_expr fl ns n d ts = Ok (e, r) -> length r <= length ts)
    by (intros d t e r; apply (p_expr_both fl ns n d t)).
  assert (PF : forall d ts, length ts < n -> p_expr fl ns n d ts <> Fuel)
    by (intros d t; apply (p_expr_both fl ns n d t)).
  pose proof (pp_pattern_nofuel fl pf ns (p_expr fl ns n) (S n) n PL PF (S n) false ts ltac:(unfold n; lia) ltac:(unfold n; lia) ltac:(unfold n; lia)) as F.
  destruct (pp_pattern fl pf ns (p_expr fl ns n) (S n) (S n) false ts) as [[p [|t r]]| |]; try discriminate. congruence.
Qed.

Theorem pcompile_total_m : forall fl pf ns s, pcompile fl pf ns s <> Fuel.
Proof.
  intros fl pf ns s. unfold pcompile. pose proof (compile_total_m fl ns s) as C. unfold compile in C.
  destruct (tokenize fl ns s) as [ts| |]; try discriminate; [|congruence].
  apply pparse_fuel_sufficient_m.
Qed.
