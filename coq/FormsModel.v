(* FormsModel.v - C05: proofs about FormsDefs (chunking invariance, pre-order indexes, chunked output). *)
From Coq Require Import NArith List Bool Lia ZifyBool ZifyNat ZifyN.
Import ListNotations.
Require Import XV.GenForms XV.FormsDefs.

(** * A. re-chunking of characters events *)

Lemma step_chars_nil : forall st, step st (EChars []) = Some st.
Proof.
  intros [stk top buf nxt]; unfold step; cbn [h_stack h_top h_buf h_next].
  destruct stk; [reflexivity|].
  unfold accumulate_text. rewrite app_nil_r. reflexivity.
Qed.

Lemma step_chars_app : forall st a b,
  match step st (EChars a) with Some st' => step st' (EChars b) | None => None end = step st (EChars (a ++ b)).
Proof.
  intros [stk top buf nxt] a b; unfold step; cbn [h_stack h_top h_buf h_next].
  destruct stk as [|f r].
  - unfold all_ws. rewrite forallb_app. destruct (forallb is_ws_char a); cbn [h_stack andb]; reflexivity.
  - unfold accumulate_text. cbn [h_stack h_top h_buf h_next]. rewrite app_assoc. reflexivity.
Qed.

Definition merge (a : str) (l : list sax_event) : list sax_event :=
  match l with
  | EChars b :: l' => EChars (a ++ b) :: l'
  | _ => if is_nil a then l else EChars a :: l
  end.

Lemma norm_chars : forall a r, norm (EChars a :: r) = merge a (norm r).
Proof. intros; cbn [norm]. unfold merge. destruct (norm r) as [|[] ?]; reflexivity. Qed.

Lemma run_merge : forall a l st, run st (merge a l) = run st (EChars a :: l).
Proof.
  intros a l st. destruct l as [|e l'].
  - unfold merge. destruct a; cbn [is_nil]; [|reflexivity].
    cbn [run]. rewrite step_chars_nil. reflexivity.
  - destruct e; unfold merge; try (destruct a; cbn [is_nil]; [cbn [run]; rewrite step_chars_nil; reflexivity | reflexivity]).
    change (run st (EChars (a ++ s) :: l')) with (match step st (EChars (a ++ s)) with Some st' => run st' l' | None => None end).
    rewrite <- step_chars_app. cbn [run]. destruct (step st (EChars a)); reflexivity.
Qed.

Lemma run_norm : forall evs st, run st (norm evs) = run st evs.
Proof.
  induction evs as [|e r IH]; intro st; [reflexivity|].
  destruct e; try (cbn [norm run]; destruct (step st _); [apply IH | reflexivity]).
  rewrite norm_chars, run_merge. cbn [run]. destruct (step st _); [apply IH | reflexivity].
Qed.

Lemma build_norm : forall evs, build_sax (norm evs) = build_sax evs.
Proof. intro; unfold build_sax; rewrite run_norm; reflexivity. Qed.

Lemma norm_cons_congr : forall e x y, norm x = norm y -> norm (e :: x) = norm (e :: y).
Proof. intros e x y H; destruct e; cbn [norm]; rewrite H; reflexivity. Qed.

Lemma norm_app_congr : forall p x y, norm x = norm y -> norm (p ++ x) = norm (p ++ y).
Proof. induction p; intros; cbn [app]; [assumption | apply norm_cons_congr; auto]. Qed.

Lemma norm_split : forall a b s, norm (EChars (a ++ b) :: s) = norm (EChars a :: EChars b :: s).
Proof.
  intros a b s. rewrite !norm_chars. unfold merge.
  destruct (norm s) as [|e r'].
  - destruct b; cbn [is_nil].
    + rewrite app_nil_r. reflexivity.
    + destruct a; reflexivity.
  - destruct e; try (destruct b; cbn [is_nil]; [rewrite app_nil_r; reflexivity | destruct a; reflexivity]).
    rewrite app_assoc. reflexivity.
Qed.

Lemma norm_empty : forall s, norm (EChars [] :: s) = norm s.
Proof. intro s; rewrite norm_chars; unfold merge; destruct (norm s) as [|[] ?]; reflexivity. Qed.

Lemma rechunk_norm : forall l1 l2, rechunk l1 l2 -> norm l1 = norm l2.
Proof.
  induction 1.
  - reflexivity.
  - apply norm_app_congr, norm_split.
  - apply norm_app_congr. symmetry. apply norm_empty.
  - congruence.
  - congruence.
Qed.

Lemma rechunk_cons : forall e x y, rechunk x y -> rechunk (e :: x) (e :: y).
Proof.
  induction 1.
  - apply rc_refl.
  - apply (rc_split (e :: p)).
  - apply (rc_empty (e :: p)).
  - apply rc_sym; assumption.
  - eapply rc_trans; eassumption.
Qed.

Lemma rechunk_to_norm : forall l, rechunk l (norm l).
Proof.
  induction l as [|e r IH]; [apply rc_refl|].
  destruct e; try (cbn [norm]; apply rechunk_cons; assumption).
  rewrite norm_chars.
  eapply rc_trans; [apply rechunk_cons; eassumption|].
  unfold merge. destruct (norm r) as [|e' r'].
  - destruct s; cbn [is_nil]; [apply rc_sym, (rc_empty [] []) | apply rc_refl].
  - destruct e'; try (destruct s; cbn [is_nil]; [apply rc_sym, (rc_empty []) | apply rc_refl]).
    apply rc_sym, (rc_split []).
Qed.

Lemma rechunk_iff_norm : forall l1 l2, rechunk l1 l2 <-> norm l1 = norm l2.
Proof.
  split; [apply rechunk_norm|].
  intro H. eapply rc_trans; [apply rechunk_to_norm|]. rewrite H. apply rc_sym, rechunk_to_norm.
Qed.

Lemma build_rechunk : forall l1 l2, rechunk l1 l2 -> build_sax l1 = build_sax l2.
Proof. intros l1 l2 H. rewrite <- (build_norm l1), <- (build_norm l2), (rechunk_norm _ _ H). reflexivity. Qed.

(* the normal form has no empty and no adjacent characters events *)
Fixpoint chars_normal (l : list sax_event) : bool :=
  match l with
  | EChars a :: r => negb (is_nil a) && match r with EChars _ :: _ => false | _ => true end && chars_normal r
  | _ :: r => chars_normal r
  | [] => true
  end.

Lemma norm_normal : forall l, chars_normal (norm l) = true.
Proof.
  induction l as [|e r IH]; [reflexivity|].
  destruct e; try (cbn [norm chars_normal]; assumption).
  rewrite norm_chars. unfold merge. destruct (norm r) as [|e' r'].
  - destruct s; reflexivity.
  - destruct e'; try (destruct s; cbn [is_nil chars_normal negb andb]; assumption).
    cbn [chars_normal] in IH |- *. apply andb_prop in IH; destruct IH as [H1 H3]. apply andb_prop in H1; destruct H1 as [H1 H2].
    rewrite H2, H3. destruct s; destruct s0; try discriminate; reflexivity.
Qed.

(** * B. indexes are taken in document (pre-)order *)

Definition frame_ix (f : frame) : list N := f_idx f :: map fst (f_attrs f) ++ flat (rev (f_kids f)).
Fixpoint stack_ix (s : list frame) : list N :=
  match s with [] => [] | f :: r => stack_ix r ++ frame_ix f end.
Definition total (st : hstate) : list N := flat (rev (h_top st)) ++ stack_ix (h_stack st).

Definition seq_ok (n : N) (l : list N) (m : N) : Prop := incr_from n l /\ m = (n + N.of_nat (length l))%N.

Lemma seq_ok_app : forall l1 l2 n k m, seq_ok n l1 k -> seq_ok k l2 m -> seq_ok n (l1 ++ l2) m.
Proof.
  induction l1 as [|x l1 IH]; intros l2 n k m [H1 H2] [H3 H4]; cbn [app length incr_from] in *.
  - subst k. replace (n + N.of_nat 0)%N with n in * by lia. split; assumption.
  - destruct H1 as [Hx H1]. subst x.
    destruct (IH l2 (N.succ n) k m) as [H5 H6]; [split; [assumption | lia] | split; assumption |].
    split; [split; [reflexivity | assumption] | cbn [length]; lia].
Qed.

Lemma seq_ok_app_inv : forall l1 l2 n m, seq_ok n (l1 ++ l2) m -> incr_from n l1.
Proof.
  induction l1 as [|x l1 IH]; intros l2 n m [H1 H2]; cbn [app incr_from] in *; [exact I|].
  destruct H1 as [Hx H1]. split; [assumption|]. apply (IH l2 (N.succ n) m). split; [assumption|]. cbn [length] in H2. lia.
Qed.

Definition inv (st : hstate) : Prop := seq_ok first_index (total st) (h_next st).

Lemma flat_app : forall a b, flat (a ++ b) = flat a ++ flat b.
Proof. intros; unfold flat; apply flat_map_app. Qed.

Lemma total_append : forall st n, total (append_node st n) = total st ++ flat1 n.
Proof.
  intros [stk top buf nxt] n; unfold append_node, total; cbn [h_stack h_top h_buf h_next].
  destruct stk as [|f r]; cbn [h_stack h_top stack_ix rev].
  - rewrite flat_app, !app_nil_r. unfold flat at 2. cbn [flat_map]. rewrite app_nil_r. reflexivity.
  - unfold frame_ix; cbn [f_idx f_attrs f_kids rev]. rewrite flat_app. unfold flat at 3. cbn [flat_map]. rewrite app_nil_r.
    rewrite <- !app_assoc. cbn [app]. rewrite <- !app_assoc. reflexivity.
Qed.

Lemma next_append : forall st n, h_next (append_node st n) = h_next st.
Proof. intros [stk top buf nxt] n; unfold append_node; cbn; destruct stk; reflexivity. Qed.

Lemma inv_leaf : forall stk top buf nxt (mk : N -> inode),
  (forall i, flat1 (mk i) = [i]) ->
  inv (mkH stk top buf nxt) -> inv (append_node (mkH stk top buf (N.succ nxt)) (mk nxt)).
Proof.
  intros stk top buf nxt mk Hmk H. unfold inv in *. rewrite total_append, next_append, Hmk.
  cbn [h_next] in *. eapply seq_ok_app; [exact H|]. split; cbn; [auto | lia].
Qed.

Lemma inv_text_node : forall st s, inv st -> inv (text_node st s).
Proof. intros [stk top buf nxt] s H. unfold text_node; cbn [h_stack h_top h_buf h_next]. apply (inv_leaf stk top buf nxt (fun i => IText i s)); auto. Qed.

Lemma inv_buf : forall stk top b1 b2 nxt, inv (mkH stk top b1 nxt) -> inv (mkH stk top b2 nxt).
Proof. intros; exact H. Qed.

Lemma inv_flush : forall st, inv st -> inv (flush st).
Proof.
  intros [stk top buf nxt] H. unfold flush; cbn [h_buf h_stack h_top h_next]. destruct buf; [assumption|].
  apply inv_text_node. exact H.
Qed.

Lemma inv_flush_if : forall b st, inv st -> inv (flush_if b st).
Proof. intros [] st H; cbn; [apply inv_flush|]; assumption. Qed.

Lemma number_attrs_ok : forall l n l' n', number_attrs n l = (l', n') -> seq_ok n (map fst l') n' /\ map snd l' = l.
Proof.
  induction l as [|a r IH]; intros n l' n' H; cbn [number_attrs] in H.
  - inversion H; subst. split; [split; cbn; [exact I | lia] | reflexivity].
  - destruct (number_attrs (N.succ n) r) as [r' n1] eqn:E. inversion H; subst. destruct (IH _ _ _ E) as [[H1 H2] H3].
    split; [split; cbn [map fst incr_from length]; [auto | lia] | cbn; rewrite H3; reflexivity].
Qed.

Lemma inv_step : forall st e st', inv st -> step st e = Some st' -> inv st'.
Proof.
  intros st e st' H Hs. destruct e; unfold step in Hs.
  - (* EStart *)
    pose proof (inv_flush_if flush_at_start st H) as H1. destruct (flush_if flush_at_start st) as [stk top buf nxt] eqn:E.
    cbn [h_stack h_top h_buf h_next] in Hs. destruct (is_nil stk && existsb is_ielem top); [discriminate|].
    unfold number_element, element_before_attrs in Hs.
    destruct (number_attrs (N.succ nxt) (order_attrs (is_nil stk) attrs)) as [l n'] eqn:En. inversion Hs; subst; clear Hs.
    destruct (number_attrs_ok _ _ _ _ En) as [H2 _].
    unfold inv, total in *. cbn [h_stack h_top h_next stack_ix] in *. unfold frame_ix. cbn [f_idx f_attrs f_kids rev]. unfold flat at 2. cbn [flat_map]. rewrite app_nil_r.
    rewrite app_assoc. eapply seq_ok_app; [exact H1|].
    destruct H2 as [H2 H3]. split; [cbn [incr_from]; auto | cbn [length]; lia].
  - (* EEnd *)
    pose proof (inv_flush_if flush_at_end st H) as H1. destruct (flush_if flush_at_end st) as [stk top buf nxt] eqn:E.
    cbn [h_stack h_top h_buf h_next] in Hs. destruct stk as [|f r]; [discriminate|]. inversion Hs; subst; clear Hs.
    unfold inv in *. rewrite total_append, next_append. unfold total in *. cbn [h_stack h_top h_next stack_ix flat1] in *.
    unfold frame_ix in H1. rewrite <- app_assoc. exact H1.
  - (* EChars *)
    destruct st as [stk top buf nxt]. cbn [h_stack h_top h_buf h_next] in Hs. destruct stk.
    + destruct (all_ws s); inversion Hs; subst; assumption.
    + unfold accumulate_text in Hs. inversion Hs; subst. exact H.
  - (* EIgnWs *)
    destruct (h_stack st); [discriminate|]. inversion Hs; subst. apply inv_text_node. apply (inv_flush_if flush_at_ignws), H.
  - (* EComment *)
    pose proof (inv_flush_if flush_at_comment st H) as H1. destruct (flush_if flush_at_comment st) as [stk top buf nxt].
    inversion Hs; subst. cbn [h_stack h_top h_buf h_next]. apply (inv_leaf stk top buf nxt (fun i => IComment i s)); auto.
  - (* EPi *)
    pose proof (inv_flush_if flush_at_pi st H) as H1. destruct (flush_if flush_at_pi st) as [stk top buf nxt].
    inversion Hs; subst. cbn [h_stack h_top h_buf h_next]. apply (inv_leaf stk top buf nxt (fun i => IPi i target data)); auto.
Qed.

Lemma inv_run : forall evs st st', inv st -> run st evs = Some st' -> inv st'.
Proof.
  induction evs as [|e r IH]; intros st st' H Hr; cbn [run] in Hr.
  - inversion Hr; subst; assumption.
  - destruct (step st e) eqn:Es; [|discriminate]. eapply IH; [eapply inv_step; eassumption | eassumption].
Qed.

Lemma inv_init : inv h_init.
Proof. unfold inv, h_init, total; cbn. split; [exact I | reflexivity]. Qed.

Lemma index_preorder : forall evs d, build_sax evs = Some d ->
  incr_from first_index (flat d).
Proof.
  intros evs d H. unfold build_sax in H. destruct (run h_init evs) as [st|] eqn:Er; [|discriminate].
  destruct (is_nil (h_stack st)) eqn:E1; [|discriminate]. destruct (is_nil (h_buf st)); [|discriminate]. inversion H; subst; clear H.
  pose proof (inv_run _ _ _ inv_init Er) as [H1 H2]. unfold total in H1. destruct (h_stack st); [|discriminate].
  cbn [stack_ix] in H1. rewrite app_nil_r in H1. assumption.
Qed.
