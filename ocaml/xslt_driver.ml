(* model side of the C01 correspondences (extracted XsltEventsDefs / XsltVarsDefs).
   <id> ev <op>*        op = S,<name> | A,<name>,<hex> | CA,<name>,<hex> | RA,<name>,<hex> | T,<hex> | C,<hex>
                             | P,<target>,<hex> | E,<name>      (<hex> = utf-8 bytes, may be empty)
        -> <id> <canonical tree>   tokens: (name @attr=hex ... children ) | t=hex | c=hex | p=target,hex ; or ILL-NESTED
   <id> vs <g>* ; <tree>   g = G,<n>,<b> (top-level variables, lowest precedence first)
        tree tokens: (T,<e> p,<n>,<b>* ... ) | (B,<e> ... ) | (I w,<n>,<b>* ... ) | V,<n>,<b> | U,<n>
        -> <id> <ok_root (not reset_variant)> <obs>*     obs = <n>=<b> | <n>=-     ; or <id> <ok> EXC *)
let bytes_of_hex (h : string) : n list =
  let l = ref [] in
  let i = ref (String.length h - 2) in
  while !i >= 0 do
    l := n_of_int (int_of_string ("0x" ^ String.sub h !i 2)) :: !l;
    i := !i - 2
  done;
  !l

let hex_of_bytes (l : n list) : string = String.concat "" (List.map (fun c -> Printf.sprintf "%02x" (int_of_n c)) l)
let str_of_name (s : string) : n list = List.init (String.length s) (fun i -> n_of_int (Char.code s.[i]))
let name_of_str (l : n list) : string = String.concat "" (List.map (fun c -> String.make 1 (Char.chr (int_of_n c))) l)

let op_of_token (t : string) : iop =
  match String.split_on_char ',' t with
  | ["S"; n] -> IStart (str_of_name n)
  | ["A"; n; h] -> IAttr (str_of_name n, bytes_of_hex h)
  | ["CA"; n; h] -> ICopyAttr (str_of_name n, bytes_of_hex h)
  | ["RA"; n; h] -> IRawAttr (str_of_name n, bytes_of_hex h)
  | ["T"; h] -> IChars (bytes_of_hex h)
  | ["C"; h] -> IComment (bytes_of_hex h)
  | ["P"; n; h] -> IPI (str_of_name n, bytes_of_hex h)
  | ["E"; n] -> IEnd (str_of_name n)
  | _ -> failwith ("bad op " ^ t)

let rec show_node (b : Buffer.t) (x : rnode) : unit =
  match x with
  | RElem (n, a, ch) ->
      Buffer.add_string b ("(" ^ name_of_str n ^ " ");
      List.iter (fun (an, av) -> Buffer.add_string b ("@" ^ name_of_str an ^ "=" ^ hex_of_bytes av ^ " ")) a;
      List.iter (show_node b) ch;
      Buffer.add_string b ") "
  | RText s -> Buffer.add_string b ("t=" ^ hex_of_bytes s ^ " ")
  | RComment s -> Buffer.add_string b ("c=" ^ hex_of_bytes s ^ " ")
  | RPI (t, d) -> Buffer.add_string b ("p=" ^ name_of_str t ^ "," ^ hex_of_bytes d ^ " ")

let ev_handle (toks : string list) : string =
  match machine_tree (List.map op_of_token toks) with
  | None -> "ILL-NESTED"
  | Some t -> let b = Buffer.create 256 in List.iter (show_node b) (canon_list t); String.trim (Buffer.contents b)

(* ---- variables stack ---- *)
let nn (s : string) : n = n_of_int (int_of_string s)

let rec parse_list (toks : string list) : ins list * string list =
  match toks with
  | [] -> ([], [])
  | ")" :: r -> ([], r)
  | t :: r ->
      let (x, r1) = parse_one t r in
      let (xs, r2) = parse_list r1 in
      (x :: xs, r2)
and parse_pairs (tag : string) (toks : string list) : (n * n) list * string list =
  match toks with
  | t :: r when String.length t > 2 && String.sub t 0 2 = tag ^ "," ->
      (match String.split_on_char ',' t with
       | [_; a; b] -> let (ps, r2) = parse_pairs tag r in ((nn a, nn b) :: ps, r2)
       | _ -> failwith ("bad pair " ^ t))
  | _ -> ([], toks)
and parse_one (t : string) (r : string list) : ins * string list =
  match String.split_on_char ',' t with
  | ["V"; a; b] -> (Var (nn a, nn b), r)
  | ["U"; a] -> (Use (nn a), r)
  | ["(B"; e] -> let (body, r2) = parse_list r in (Block (nn e, body), r2)
  | ["(I"] -> let (wp, r1) = parse_pairs "w" r in let (ts, r2) = parse_list r1 in (Invoke (wp, ts), r2)
  | ["(T"; e] -> let (ps, r1) = parse_pairs "p" r in let (body, r2) = parse_list r1 in (Tmpl (nn e, ps, body), r2)
  | _ -> failwith ("bad token " ^ t)

let vs_handle (toks : string list) : string =
  let (globals, rest) = parse_pairs "G" toks in
  let rest = match rest with ";" :: r -> r | r -> r in
  match rest with
  | [] -> "EMPTY"
  | t :: r ->
      let (root, _) = parse_one t r in
      (* the guard of the theorem that applies to the variant the source has *)
      let ok = if ok_root (not reset_variant) root then "1" else "0" in
      match impl_run reset_variant globals root with
      | None -> ok ^ " EXC"
      | Some obs ->
          ok ^ " " ^ String.concat " " (List.map (fun (nm, v) ->
            Printf.sprintf "%d=%s" (int_of_n nm) (match v with None -> "-" | Some b -> string_of_int (int_of_n b))) obs)

let () =
  let ic = if Array.length Sys.argv > 1 then open_in Sys.argv.(1) else stdin in
  iter_lines ic (fun line ->
    match split_ws line with
    | id :: "ev" :: toks -> Printf.printf "%s %s\n" id (try ev_handle toks with Failure m -> "ERR " ^ m)
    | id :: "vs" :: toks -> Printf.printf "%s %s\n" id (try vs_handle toks with Failure m -> "ERR " ^ m)
    | _ -> ())
