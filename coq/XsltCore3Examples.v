(* C01 core3: concrete instances for the Examples of Properties_C01core3.v: a program whose root template prints two
   top-level bindings - $a (select mentions $b, which is declared AFTER it) and the param $p (set from outside) - inside a
   for-each; and a circular pair $c / $d. *)
From Coq Require Import List NArith Bool Arith.
Require Import XV.XsltEventsDefs XV.XsltVarsDefs XV.XsltVarsModel XV.XsltCoreDefs XV.XsltCoreModel XV.XsltCoreSim.
Require Import XV.XsltCore2Defs XV.XsltCore2Pkg XV.XsltCore2Examples XV.XsltCore3Defs XV.XsltCore3Model XV.XsltCore3Pkg.
Import ListNotations.

Definition e3_vstr (v : value) : str := match v with VAtom _ s => s | _ => [] end.
(* the value of expression id: the digit of id, the strings of the variables it mentions, the digit of the context node *)
Definition e3_str (id : N) (vals : list value) (n p z : N) : str := ((48 + id) :: flat_map e3_vstr vals ++ [(48 + n)])%N.
Definition e3_value (id : N) (vals : list value) (n p z : N) : value := VAtom (e3_str id vals n p z) (e3_str id vals n p z).
Definition e3_nodes (id : N) (vals : list value) (n p z : N) : list N := if N.eqb n 0 then [1; 2]%N else [].
Definition na : N := 11%N. Definition nb : N := 12%N. Definition np : N := 13%N. Definition nc : N := 14%N. Definition nd : N := 15%N.
Definition ex3_gdefs : list gdef :=
  [ mkG na false (Some (mkX 1 [nb]));        (* <xsl:variable name="a" select="f1($b)"/> *)
    mkG nb false (Some (mkX 2 []));          (* <xsl:variable name="b" select="f2()"/>   declared after its use *)
    mkG np true (Some (mkX 3 [na])) ].       (* <xsl:param name="p" select="f3($a)"/>     set from outside *)
Definition ex3_ext : list (N * value) := [(np, VAtom [69%N] [69%N])].
Definition ex3_prog : list instr2 :=
  [ JTemplate [] [JForEach (mkX 7 []) None [JVar np (Some (mkX 8 [])) []; JValueOf (mkX 6 [np])]; JValueOf (mkX 5 [])] ].
(* expression 6 (inside the for-each, where a LOCAL $p is in scope) mentions the top-level $a; expression 5 mentions $p and $a *)
Definition ex3_gmention (id : N) : list N := if N.eqb id 6 then [na] else if N.eqb id 5 then [np; na] else [].
Definition ex3_base : mech2 :=
  mkMech2 e3_value e3_str (fun _ _ _ _ _ => true) e3_nodes (fun _ _ _ _ _ l => l) (fun _ _ => Some 0%N) (fun _ => []) (fun _ => ShRoot)
          ex3_prog e2_name_ok e2_pi_ok.
Definition ex3_mech : mech3 := mkMech3 ex3_base 0%N ex3_gdefs ex3_ext ex3_gmention.

Lemma ex3_base_ok : mech2_ok ex3_base.
Proof.
  unfold mech2_ok, ex3_base; cbn [m2c_nodes m2c_sort m2c_copy m2c_shallow m2c_value m2c_name_ok]. repeat split.
  - intros. unfold e3_nodes. destruct (N.eqb n 0); repeat constructor; simpl; intuition discriminate.
  - intros; assumption.
  - intros; discriminate.
  - intros n H; exact H.
  - intros; discriminate.
Qed.

(* "6" "81" "1200" "1": expression 6 at node 1 with the local $p = "81" and the top-level $a = "1200", i.e. "1" ++ $b ("20") ++ "0":
   evaluated at the root (node 0) although first referenced with node 1 current; the local $p
   ("81") shadows nothing of it; $p = "E" from outside *)
Lemma ex3_both_sides :
  option_map result_of (SemMain3 ex3_mech 8) = Some [RText [54; 56; 49; 49; 50; 48; 48; 49]%N; RText [54; 56; 50; 49; 50; 48; 48; 50]%N; RText [53; 69; 49; 50; 48; 48; 48]%N] /\
  (match MachineMain3 true true ex3_mech 200 with Done2 s => result_tree2 s | _ => None end) = option_map result_of (SemMain3 ex3_mech 8).
Proof. vm_compute. split; reflexivity. Qed.

Definition ex3_force (names : list N) (s : lstate) := force_all e3_value 0%N ex3_gdefs 4 names s.
Definition vals_of (r : fres (list value * lstate)) : option (list value) := match r with FOk (vs, _) => Some vs | _ => None end.

(* forcing in two different orders (and, the second time, from the state the first run left) gives the same values *)
Lemma ex3_lazy_orders :
  vals_of (ex3_force [na; np] (l_init ex3_gdefs ex3_ext)) = Some [VAtom [49; 50; 48; 48]%N [49; 50; 48; 48]%N; VAtom [69%N] [69%N]] /\
  vals_of (ex3_force [np; nb; na] (l_init ex3_gdefs ex3_ext)) =
    Some [VAtom [69%N] [69%N]; VAtom [50; 48]%N [50; 48]%N; VAtom [49; 50; 48; 48]%N [49; 50; 48; 48]%N] /\
  (match ex3_force [na] (l_init ex3_gdefs ex3_ext) with
   | FOk (_, s1) => vals_of (ex3_force [nb; na] s1) = Some [VAtom [50; 48]%N [50; 48]%N; VAtom [49; 50; 48; 48]%N [49; 50; 48; 48]%N]
                    /\ l_vs s1 = l_vs (l_init ex3_gdefs ex3_ext) /\ l_guard s1 = []
   | _ => False
   end) /\
  gvalue e3_value 0%N ex3_gdefs ex3_ext 0%N = Some (VAtom [49; 50; 48; 48]%N [49; 50; 48; 48]%N).
Proof. vm_compute. repeat split; reflexivity. Qed.

(* a circular pair: no value at any fuel we try, the reference semantics of the program is undefined, lazy evaluation
   reports the circularity *)
Definition cy_gdefs : list gdef := [ mkG nc false (Some (mkX 4 [nd])); mkG nd false (Some (mkX 5 [nc])) ].
Definition cy_mech : mech3 := mkMech3 ex3_base 0%N cy_gdefs [] ex3_gmention.
Lemma cy_witness :
  gval e3_value 0%N cy_gdefs [] 20 0%N = None /\ SemMain3 cy_mech 8 = None /\
  force e3_value 0%N cy_gdefs 10 nc (l_init cy_gdefs []) = FCirc 0%N.
Proof. vm_compute. repeat split; reflexivity. Qed.
