"""Observation plumbing of the xpx family (C02 part: extension functions, id(), XSLT context functions).

The functions under test are only installed in XSLT transformations, so the library is observed through
whole transformations (vlib/xsltrun.py): one generated document (xpgen tree, serialised here, with an
internal DTD subset that types the attribute `k` as ID and declares unparsed entities), one context node,
and a batch of XPath expressions.  The stylesheet evaluates every expression with that context node and
prints the result canonically:

  <r i="N" t="ns"><n p="/2/1/@x"/>...</r>      node-set: one path string per node, in the order the library returns them
  <r i="N" t="num">string(value)</r>             number  (string() of the value; C18 owns the conversion)
  <r i="N" t="str">value</r>                     string
  <r i="N" t="bool">true|false</r>               boolean

Path strings: for every ancestor-or-self that is not the root: '/' + 1-based index among the parent's child
nodes, or '/@' + name() for an attribute; a node whose root is not the source document (result tree fragment,
exsl:node-set) gets the prefix 'R'.  The same paths are computed from the xpgen node table (`paths`)."""
import re
import xml.etree.ElementTree as ET
from vlib import xsltrun

NS = {
    "set": "http://exslt.org/sets", "math": "http://exslt.org/math", "str": "http://exslt.org/strings",
    "exsl": "http://exslt.org/common", "dyn": "http://exslt.org/dynamic", "xalan": "http://xml.apache.org/xalan",
    "p": "urn:p", "q": "urn:q",
}
ENTITIES = {"pic": "http://example.org/pic.gif", "rel": "rel.gif"}     # unparsed entities declared in every document
BASE = "file:///vmem/"


def esc_text(s):
    return s.replace("&", "&amp;").replace("<", "&lt;").replace(">", "&gt;").replace("\r", "&#13;")


def esc_attr(s):
    return esc_text(s).replace('"', "&quot;").replace("\n", "&#10;").replace("\t", "&#9;")


def doc_xml(top, id_attr="k"):
    """serialise an xpgen tree; the DTD types attribute `k` of every element name as ID"""
    names = set()

    def collect(t):
        if t[0] == "e":
            names.add(t[1])
            for c in t[3]:
                collect(c)
    for t in top:
        collect(t)
    root = [t for t in top if t[0] == "e"][0][1]
    dtd = ["<!DOCTYPE %s [" % root]
    for n in sorted(names):
        dtd.append("<!ATTLIST %s %s ID #IMPLIED>" % (n, id_attr))
    dtd.append('<!NOTATION gif SYSTEM "gifviewer">')
    for k, v in ENTITIES.items():
        dtd.append('<!ENTITY %s SYSTEM "%s" NDATA gif>' % (k, v))
    dtd.append("]>")
    out = ['<?xml version="1.0" encoding="UTF-8"?>', "".join(dtd)]

    def go(t):
        if t[0] == "e":
            out.append("<" + t[1] + "".join(' %s="%s"' % (a, esc_attr(v)) for a, v in t[2]))
            if t[3]:
                out.append(">")
                for c in t[3]:
                    go(c)
                out.append("</%s>" % t[1])
            else:
                out.append("/>")
        elif t[0] == "t":
            out.append(esc_text(t[1]))
        elif t[0] == "c":
            out.append("<!--%s-->" % t[1])
        else:
            out.append("<?%s%s?>" % (t[1], (" " + t[2]) if t[2] else ""))
    for t in top:
        go(t)
    return "".join(out)


def paths(nodes):
    """{node id: path string} and the inverse, for every node of the XPath data model (no nsdecl)"""
    p = {0: ""}
    for n in nodes:
        if n.id == 0 or n.kind == "nsdecl":
            continue
        par = n.parent
        if n.kind == "attr":
            p[n.id] = p[par.id] + "/@" + n.qname
        else:
            p[n.id] = p[par.id] + "/%d" % (par.children.index(n) + 1)
    return p, {v: k for k, v in p.items()}


def path_select(path):
    """an XPath that selects the node with the given path string (from the root)"""
    if path == "":
        return "/"
    out = []
    for seg in path.split("/")[1:]:
        out.append("@*[name() = '%s']" % seg[1:] if seg.startswith("@") else "node()[%s]" % seg)
    return "/" + "/".join(out)


PRINT_PATH = ('<xsl:template name="pp"><n><xsl:attribute name="p">'
              '<xsl:if test="count(ancestor-or-self::node()[last()] | $main) = 2">R</xsl:if>'
              '<xsl:for-each select="ancestor-or-self::node()[position() &lt; last()]">'
              '<xsl:choose><xsl:when test="count(. | ../@*) = count(../@*)">/@<xsl:value-of select="name()"/></xsl:when>'
              '<xsl:otherwise>/<xsl:value-of select="count(preceding-sibling::node()) + 1"/></xsl:otherwise></xsl:choose>'
              '</xsl:for-each></xsl:attribute></n></xsl:template>')


def xesc(s):
    return esc_attr(s)


def sheet(exprs, ctx_path, variables=(), extra_top="", version="1.0"):
    """exprs: list of (index, type, expression string); variables: list of (name, select expression)
    evaluated with the context node current (xsl:variable inside the for-each)"""
    nsdecl = " ".join('xmlns:%s="%s"' % kv for kv in NS.items())
    o = ['<xsl:stylesheet version="%s" xmlns:xsl="http://www.w3.org/1999/XSL/Transform" %s '
         'exclude-result-prefixes="%s">' % (version, nsdecl, " ".join(NS)),
         '<xsl:output method="xml" encoding="UTF-8" indent="no"/>',
         '<xsl:variable name="main" select="/"/>', extra_top, PRINT_PATH,
         '<xsl:template match="/"><out><xsl:for-each select="%s">' % xesc(path_select(ctx_path))]
    for name, sel in variables:
        o.append('<xsl:variable name="%s" select="%s"/>' % (name, xesc(sel)))
    for i, ty, x in exprs:
        if ty == "ns":
            o.append('<r i="%s" t="ns"><xsl:for-each select="%s"><xsl:call-template name="pp"/></xsl:for-each></r>' % (i, xesc(x)))
        elif ty == "bool":
            o.append('<r i="%s" t="bool"><xsl:value-of select="boolean(%s)"/></r>' % (i, xesc(x)))
        elif ty == "num":
            o.append('<r i="%s" t="num"><xsl:value-of select="number(%s)"/></r>' % (i, xesc(x)))
        else:
            o.append('<r i="%s" t="str"><xsl:value-of select="string(%s)"/></r>' % (i, xesc(x)))
    o.append('</xsl:for-each></out></xsl:template></xsl:stylesheet>')
    return "".join(o)


def parse_output(b):
    """{index: value}; value = list of path strings | str"""
    res = {}
    root = ET.fromstring(b)
    for r in root.iter("r"):
        if r.get("t") == "ns":
            res[r.get("i")] = [n.get("p") for n in r.findall("n")]
        else:
            res[r.get("i")] = r.text or ""
    return res


def run_batches(batches, exe=None):
    """batches: list of dicts {id, top (xpgen tree) | source (xml text), ctx (path), exprs [(i, ty, x)], variables, extra_top, files}
    returns {batch id: ("ok", {i: value}) | ("err", message) | ("crash",)}; a failing batch is re-run one
    expression at a time so that one error does not hide the other results"""
    def case_of(b, exprs, cid):
        c = {"id": cid, "sheet": sheet(exprs, b.get("ctx", ""), b.get("variables", ()), b.get("extra_top", ""), b.get("version", "1.0")),
             "source": b.get("source") or doc_xml(b["top"])}
        if b.get("files"):
            c["files"] = b["files"]
        return c
    cases = [case_of(b, b["exprs"], b["id"]) for b in batches]
    out = xsltrun.run(cases, exe=exe)
    res = {}
    retry = []
    for b in batches:
        r = out[b["id"]]
        if r[0] == "ok":
            try:
                res[b["id"]] = ("ok", parse_output(r[1]))
            except ET.ParseError as ex:
                res[b["id"]] = ("err", "unparsable output: %s: %r" % (ex, r[1][:200]))
        elif len(b["exprs"]) > 1:
            retry.append(b)
        else:
            res[b["id"]] = ("crash",) if r[0] == "crash" else ("err", r[2])
    if retry:
        singles = []
        for b in retry:
            for k, e in enumerate(b["exprs"]):
                singles.append((b, e, "%s~%d" % (b["id"], k)))
        out2 = xsltrun.run([case_of(b, [e], cid) for b, e, cid in singles], exe=exe)
        for b in retry:
            res[b["id"]] = ("ok", {})
        for b, e, cid in singles:
            r = out2[cid]
            if r[0] == "ok":
                try:
                    res[b["id"]][1].update(parse_output(r[1]))
                except ET.ParseError as ex:
                    res[b["id"]][1][str(e[0])] = ("err", "unparsable output %r" % r[1][:200])
            elif r[0] == "crash":
                res[b["id"]][1][str(e[0])] = ("crash",)
            else:
                res[b["id"]][1][str(e[0])] = ("err", r[2])
    return res
