(* model side of the xpx correspondence (C02, extension part).  One case per line, fields separated by blanks:
     <id> diff|inter|lead|trail n:<ids> n:<ids>          -> n:<ids>
     <id> hsn|hsns n:<ids> n:<ids>                        -> b:0|1
     <id> dist n:<ids> t:<id>=<u:units>;...               -> n:<ids>      (t: string-value table)
     <id> min|max v:<k|nan>,...                           -> nan | <k>    (k = order-preserving integer key)
     <id> high|low p:<id>=<k|nan>;...                     -> n:<ids>
     <id> pad <n> <u:units>|-                             -> u:units      (- = default padding)
     <id> align <u:target> <u:padding> <u:alignment>|-    -> u:units
     <id> idtok <u:units>                                 -> tokens separated by ';'
     <id> id i:<u:units>=<id>;... <u:units>               -> n:<ids>                                        *)
let ids_of (f : string) : n list =
  let body = String.sub f 2 (String.length f - 2) in
  if body = "" then [] else List.map (fun x -> n_of_int (int_of_string x)) (String.split_on_char ',' body)
let show_ids (l : n list) : string = "n:" ^ String.concat "," (List.map (fun x -> string_of_int (int_of_n x)) l)
let pairs_of (f : string) : (string * string) list =
  let body = String.sub f 2 (String.length f - 2) in
  if body = "" then [] else
  List.map (fun kv -> match String.index_opt kv '=' with
      | Some i -> (String.sub kv 0 i, String.sub kv (i + 1) (String.length kv - i - 1))
      | None -> failwith ("bad pair " ^ kv)) (String.split_on_char ';' body)
let xnum_of (s : string) : xnum = if s = "nan" then XNaN else XV (z_of_int (int_of_string s))
let show_xnum (x : xnum) : string = match x with XNaN -> "nan" | XV z -> string_of_int (int_of_z z)
let show_bool b = if b then "b:1" else "b:0"

let () =
  let ic = if Array.length Sys.argv > 1 then open_in Sys.argv.(1) else stdin in
  iter_lines ic (fun line ->
    match split_ws line with
    | id :: "diff" :: a :: b :: _ -> Printf.printf "%s %s\n" id (show_ids (difference (ids_of a) (ids_of b)))
    | id :: "inter" :: a :: b :: _ -> Printf.printf "%s %s\n" id (show_ids (intersection (ids_of a) (ids_of b)))
    | id :: "lead" :: a :: b :: _ -> Printf.printf "%s %s\n" id (show_ids (leading (ids_of a) (ids_of b)))
    | id :: "trail" :: a :: b :: _ -> Printf.printf "%s %s\n" id (show_ids (trailing (ids_of a) (ids_of b)))
    | id :: "hsn" :: a :: b :: _ -> Printf.printf "%s %s\n" id (show_bool (has_same_node (ids_of a) (ids_of b)))
    | id :: "hsns" :: a :: b :: _ -> Printf.printf "%s %s\n" id (show_bool (has_same_nodes (ids_of a) (ids_of b)))
    | id :: "dist" :: a :: t :: _ ->
        let tbl = List.map (fun (k, v) -> (n_of_int (int_of_string k), u16_of_token v)) (pairs_of t) in
        Printf.printf "%s %s\n" id (show_ids (distinct_tbl tbl (ids_of a)))
    | id :: "min" :: v :: _ ->
        let body = String.sub v 2 (String.length v - 2) in
        let l = if body = "" then [] else List.map xnum_of (String.split_on_char ',' body) in
        Printf.printf "%s %s\n" id (show_xnum (math_min l))
    | id :: "max" :: v :: _ ->
        let body = String.sub v 2 (String.length v - 2) in
        let l = if body = "" then [] else List.map xnum_of (String.split_on_char ',' body) in
        Printf.printf "%s %s\n" id (show_xnum (math_max l))
    | id :: "high" :: p :: _ ->
        let l = List.map (fun (k, v) -> (n_of_int (int_of_string k), xnum_of v)) (pairs_of p) in
        Printf.printf "%s %s\n" id (show_ids (math_highest l))
    | id :: "low" :: p :: _ ->
        let l = List.map (fun (k, v) -> (n_of_int (int_of_string k), xnum_of v)) (pairs_of p) in
        Printf.printf "%s %s\n" id (show_ids (math_lowest l))
    | id :: "pad" :: n :: s :: _ ->
        let pad = if s = "-" then gen_padding_default else u16_of_token s in
        Printf.printf "%s %s\n" id (token_of_u16 (padding_tree (nat_of_int (int_of_string n)) pad))
    | id :: "align" :: t :: p :: a :: _ ->
        let m = if a = "-" then ALeft else align_mode_of (u16_of_token a) in
        Printf.printf "%s %s\n" id (token_of_u16 (align_tree (u16_of_token t) (u16_of_token p) m))
    | id :: "idtok" :: s :: _ ->
        Printf.printf "%s %s\n" id (String.concat ";" (List.map token_of_u16 (id_tokens (u16_of_token s))))
    | id :: "id" :: tbl :: s :: _ ->
        let ids = List.map (fun (k, v) -> (u16_of_token k, n_of_int (int_of_string v))) (pairs_of tbl) in
        Printf.printf "%s %s\n" id (show_ids (id_nodes ids (u16_of_token s)))
    | id :: "flag" :: _ ->
        Printf.printf "%s %s\n" id (if gen_exslt_padding_align_count_characters then "characters" else "units")
    | _ -> ())
