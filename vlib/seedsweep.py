#!/usr/bin/env python3
"""Regression sweep over the stored seeded changes: for every seeded/<id>/patch.diff run the quick check of
the property it breaks on a scratch worktree with the patch applied (vlib/mutrig.sh, several slots side by
side) and record what the check reported.  Never touches /repo or /verif/.build.
   python3 vlib/seedsweep.py [--slots 3] [--only C02_a,C04_b] [--tier quick]
Result: out/seedsweep.json and a table on stdout:  seed  property  verdict (replay | no-failing-input-found | MISSED)"""
import os, sys, json, glob, argparse, subprocess, time
from concurrent.futures import ThreadPoolExecutor
import queue

VERIF = os.path.dirname(os.path.dirname(os.path.abspath(__file__)))


def one(seed, prop, tier, slots):
    t0 = time.time()
    chk = subprocess.run(["git", "-C", os.environ.get("VERIF_REPO", "/repo"), "apply", "--check", os.path.join(VERIF, "seeded", seed, "patch.diff")],
                         stdout=subprocess.PIPE, stderr=subprocess.STDOUT)
    if chk.returncode != 0:
        return {"seed": seed, "property": prop, "verdict": "does-not-apply", "violations": 0, "wall_s": 0, "tail": ""}
    slot = slots.get()
    try:
        env = dict(os.environ, MUTSLOT=str(slot), TAILN="40")
        p = subprocess.run([os.path.join(VERIF, "vlib", "mutrig.sh"), prop, os.path.join(VERIF, "seeded", seed, "patch.diff"), tier],
                           env=env, stdout=subprocess.PIPE, stderr=subprocess.STDOUT, universal_newlines=True, timeout=3600)
        out = p.stdout
    except subprocess.TimeoutExpired as e:
        out = "TIMEOUT"
    finally:
        slots.put(slot)
    viol = [l for l in out.split("\n") if l.startswith("VIOLATION")]
    if not viol:
        verdict = "MISSED" if "TIMEOUT" not in out else "TIMEOUT"
    elif all(l.rstrip().endswith("no-failing-input-found") for l in viol):
        verdict = "no-failing-input-found"
    else:
        verdict = "replay"
    return {"seed": seed, "property": prop, "verdict": verdict, "violations": len(viol), "wall_s": round(time.time() - t0), "tail": out[-600:] if verdict in ("MISSED", "TIMEOUT") else ""}


def main():
    ap = argparse.ArgumentParser()
    ap.add_argument("--slots", type=int, default=3)
    ap.add_argument("--only", default="")
    ap.add_argument("--tier", default="quick")
    ap.add_argument("--slot-base", type=int, default=0)
    a = ap.parse_args()
    seeds = sorted(os.path.basename(os.path.dirname(p)) for p in glob.glob(os.path.join(VERIF, "seeded", "*", "patch.diff")))
    if a.only:
        seeds = [s for s in seeds if s in a.only.split(",")]
    slots = queue.Queue()
    for k in range(1, a.slots + 1):
        slots.put(a.slot_base + k)
    jobs = []
    for s in seeds:
        meta = json.load(open(os.path.join(VERIF, "seeded", s, "meta.json")))
        props = meta.get("checked_by") or [meta.get("property") or s[:3]]
        if isinstance(props, str):
            props = [props]
        for prop in props:
            jobs.append((s, prop[:3]))
    res = []
    with ThreadPoolExecutor(max_workers=a.slots) as ex:
        for r in ex.map(lambda j: one(j[0], j[1], a.tier, slots), jobs):
            res.append(r)
            print("%-8s %-4s %-24s %4ds" % (r["seed"], r["property"], r["verdict"], r["wall_s"]), flush=True)
    os.makedirs(os.path.join(VERIF, "out"), exist_ok=True)
    json.dump(res, open(os.path.join(VERIF, "out", "seedsweep.json"), "w"), indent=1)
    bad = [r for r in res if r["verdict"] in ("MISSED", "TIMEOUT")]   # "does-not-apply": the code the seed changed was rewritten by a later repair
    print("%d seeds, %d with replay, %d proof/tie only, %d missed" % (len(res), sum(r["verdict"] == "replay" for r in res),
          sum(r["verdict"] == "no-failing-input-found" for r in res), len(bad)))
    return 1 if bad else 0


if __name__ == "__main__":
    sys.exit(main())
