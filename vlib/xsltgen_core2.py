"""C01 part core2 (coq/XsltCore2Defs.v): additions to vlib/xsltcore.py (read-only there) for the extended language
- xsl:element with a computed name, xsl:comment, xsl:processing-instruction with a computed target:
translation of the xsltref AST to the tokens of ocaml/xsltCore2_driver.ml, the recording reference run, and a
program generator that nests the new constructs into everything the core generator produces.

Static shape the library requires (ElemComment::childTypeAllowed / ElemPI::childTypeAllowed): the CHILDREN of
xsl:comment / xsl:processing-instruction are character instructions only (no literal result element, xsl:element,
xsl:attribute, xsl:comment, xsl:processing-instruction) - anything may occur deeper (inside xsl:if, a variable, a
called template).  The generator keeps to it."""
from vlib import xpgen, xpref, xsltref, xsltgen, xsltcore
from vlib.xsltgen import P, N, num, lit, fn
from vlib.xsltcore import enc, NotInLanguage, TableConflict

FUEL_MACHINE = xsltcore.FUEL_MACHINE
FUEL_SEM = xsltcore.FUEL_SEM
MAX_TABLE = xsltcore.MAX_TABLE


class Translator2(xsltcore.Translator):
    def instr(self, i, out):
        k = i[0]
        if k == "element":
            if len(i) > 3 and i[3]:
                raise NotInLanguage("attribute sets")
            self.ninstr += 1
            out.append("E")
            self.avt(i[1], out)
            self.body(i[2], out)
        elif k == "comment":
            self.ninstr += 1
            out.append("N")
            self.body(i[1], out)
        elif k == "pi":
            self.ninstr += 1
            out.append("J")
            self.avt(i[1], out)
            self.body(i[2], out)
        else:
            xsltcore.Translator.instr(self, i, out)


class Rec2(xsltcore.Rec):
    """records, besides the tables, whether a result tree fragment was built while the content of a comment / PI /
    attribute was being instantiated (the necessary condition of finding K-C01-core2-1, computed without the model)"""

    def ser(self, v):
        if isinstance(v, xsltref.RTF):
            return "R" + xsltcore.tree_token(rec_nodes(v.nodes))
        return xsltcore.Rec.ser(self, v)

    def value_token(self, v):
        if isinstance(v, xsltref.RTF):
            return "R" + xsltcore.tree_token(rec_nodes(v.nodes))
        return xsltcore.Rec.value_token(self, v)

    def copy_shallow(self, cx, env, b, body, tm, mode):
        # an error of the stylesheet (the class of the repaired K-C01-core2-2), computed without the model: xsl:copy of an
        # element node while the content of a comment / PI / attribute is being instantiated (not in a nested fragment)
        if self.text_only > 0 and self.nodes[cx[0]].kind == "elem":
            self.flags["copy_of_element_in_text_only_context"] = self.flags.get("copy_of_element_in_text_only_context", 0) + 1
        return xsltcore.Rec.copy_shallow(self, cx, env, b, body, tm, mode)

    def vdef_value(self, vdef, cx, env):
        if self.text_only > 0 and vdef[0] == "body" and vdef[1]:
            self.flags["fragment_built_in_text_only_context"] = self.flags.get("fragment_built_in_text_only_context", 0) + 1
        # a fragment is a tree of its own (11.2): what is instantiated into it is not "in text-only context" (the counter
        # only feeds flags; the reference's results do not depend on it)
        saved, self.text_only = self.text_only, 0
        try:
            return xsltcore.Rec.vdef_value(self, vdef, cx, env)
        finally:
            self.text_only = saved


def rec_nodes(nodes):
    """Builder nodes (dicts) with the recoveries of 7.3 / 7.4 applied to comments and PIs: the form in which the
    machine holds a fragment (the library inserts the spaces when the node is created), so that table keys agree"""
    out = []
    for n in nodes:
        if n["k"] == "e":
            m = dict(n)
            m["ch"] = rec_nodes(n["ch"])
            out.append(m)
        elif n["k"] == "c":
            m = dict(n)
            m["v"] = xsltref.comment_recovery(n["v"])
            out.append(m)
        elif n["k"] == "p":
            m = dict(n)
            m["v"] = fix_pi(n["v"])
            out.append(m)
        else:
            out.append(n)
    return out


def fix_pi(s):
    """XSLT 1.0 7.3: "?>" in the data is an error; the recovery the Recommendation names: a space between"""
    return s.replace("?>", "? >")


def norm_tree(t):
    """the frozen tree form of xsltref with the PI recovery applied (xsltref.freeze applies the comment recovery)"""
    out = []
    for n in t:
        if n[0] == "e":
            out.append(("e", n[1], n[2], norm_tree(n[3])))
        elif n[0] == "p":
            out.append(("p", n[1], fix_pi(n[2]).lstrip(" \t\r\n")))
        elif n[0] == "c":
            out.append(("c", xsltref.comment_recovery(n[1])))
        else:
            out.append(n)
    return tuple(out)


def source_flags():
    """the variant flags of the current source as the translator regenerated them (coq/GenXsltCore2.v)"""
    import os
    import re
    from vlib import core
    txt = open(os.path.join(core.COQ, "GenXsltCore2.v")).read()
    out = []
    for k in ("fragment_leaves_text_only_mode", "copy_skips_ignored_element"):
        m = re.search(r"Definition src2_%s : bool := (true|false)\." % k, txt)
        if not m:
            raise RuntimeError("coq/GenXsltCore2.v has no flag " + k)
        out.append(m.group(1) == "true")
    return tuple(out)


def prepare(cid, sheet, doc, flags=(True, True)):
    tr = Translator2(sheet)
    it = Rec2(sheet, doc, tr)
    tree = it.transform()
    if len(it.evtab) > MAX_TABLE:
        raise xsltref.XsltError("table too large")
    line = " ".join([cid, str(FUEL_MACHINE), str(FUEL_SEM), "0", "1" if flags[0] else "0", "1" if flags[1] else "0", "P"] + tr.tokens + it.table_tokens())
    return {"id": cid, "line": line, "tree": norm_tree(tree), "flags": it.flags, "stats": it.stats, "n_ev": len(it.evtab), "n_evals": it.nev,
            "n_sort": len(it.sorttab), "n_tmpl": len(it.tmpltab), "n_instr": tr.ninstr, "n_expr": len(tr.xvars) - 2}


def build_driver():
    from vlib import core
    return core.build_model("xsltCore2")


# ---------------------------------------------------------------------------------------------------
# generator

TEXTS = ["t", "a b", "1", "x-y", "a--b", "end-", "-", "--", "a?>b", "?", ">", "q? >", "---", "é"]


class CoreGen2(xsltcore.CoreGen):
    """the core generator with the new constructs mixed in at every depth"""

    def name_avt(self, env, first):
        r = self.r
        parts = [first]
        k = r.random()
        if k < 0.3:
            pass
        elif k < 0.55:
            parts.append(("x", fn("local-name")))
        elif k < 0.75:
            parts.append(("x", fn("position")))
        elif k < 0.9:
            parts.append(("x", fn("count", P([("child", N(None), [])]))))
        else:
            parts += [("x", fn("last")), "_", ("x", fn("local-name"))]
        return parts

    def tinstr(self, cx, env, d):
        """one character instruction (an allowed child of xsl:comment / xsl:processing-instruction)"""
        r = self.r
        self.budget -= 1
        k = r.random()
        if d <= 0:
            k *= 0.5
        if k < 0.15:
            return ("lit", r.choice(TEXTS))
        if k < 0.3:
            return ("value-of", self.any_ex(env))
        if k < 0.36:
            vs = self.vars_of(env, "str", "num", "bool", "anyparam", "rtf", "nodes")
            return ("value-of", ("var", r.choice(vs))) if vs else xsltcore.marker()
        if k < 0.42:
            return xsltcore.marker()
        if k < 0.47:
            # copy-of of strings / numbers / text nodes: text; rarely of arbitrary nodes (an error of the stylesheet:
            # the reference semantics is undefined, machine and library are still compared)
            kk = r.random()
            if kk < 0.5:
                return ("copy-of", self.any_ex(env, ("str", "num", "bool")))
            if kk < 0.85:
                return ("copy-of", P([("descendant", "text", [])]))
            return ("copy-of", self.sel(env, True))
        if k < 0.5:
            return ("text", r.choice([" ", "tx", "-"]))
        # ---- with depth ----
        if k < 0.62:
            name = self.fresh()
            vd, ty = self.vdef(cx, env, d)          # a fragment variable here is built in text-only context
            env[name] = ty
            return ("variable", name, vd)
        if k < 0.7:
            return ("if", self.ex("bool", env), self.tbody(cx, dict(env), d - 1))
        if k < 0.76:
            whens = [(self.ex("bool", env), self.tbody(cx, dict(env), d - 1)) for _ in range(r.choice([1, 2]))]
            return ("choose", whens, self.tbody(cx, dict(env), d - 1) if r.random() < 0.7 else None)
        if k < 0.9:
            down = r.random() < 0.6
            cx2 = dict(cx, down=cx["down"] and down)
            return ("for-each", self.sel(env, down), self.sorts(env), self.tbody(cx2, dict(env), d - 1))
        if k < 0.94:
            # xsl:copy: text nodes are copied; an element node is an error here (ignored with its content since 6d0ffbc)
            return ("copy", self.tbody(cx, dict(env), d - 1) if r.random() < 0.5 else [])
        if k < 0.97:
            return self.call(cx, env, d)             # the callee may create elements: an error of the stylesheet
        # templates instantiated for text nodes (the built-in rule, or whatever the program has for them)
        return self.text_apply()

    def text_apply(self):
        r = self.r
        sel = r.choice([P([("descendant", "text", [])]), P([("child", "text", [])]), P([("child", "text", [])])])
        return ("apply", sel, r.choice(xsltcore.MODES), [], [])

    def tbody(self, cx, env, d):
        self.in_text = getattr(self, "in_text", 0) + 1
        try:
            return self.tbody1(cx, env, d)
        finally:
            self.in_text -= 1

    def tbody1(self, cx, env, d):
        r = self.r
        k = r.random()
        if k < 0.2:
            return [("lit", r.choice(TEXTS))]        # hasSingleTextChild
        if k < 0.25:
            return []
        out = []
        for _ in range(r.choice([1, 2, 2, 3, 4])):
            if self.budget <= 0:
                break
            ins = self.tinstr(cx, env, d)
            out.append(ins)
            if ins[0] == "variable" and r.random() < 0.8:
                out.append(("value-of", ("var", ins[1])))
        return out

    def instr(self, cx, env, d):
        r = self.r
        k = r.random()
        if k < 0.09:
            self.budget -= 1
            return ("comment", self.tbody(cx, dict(env), max(d - 1, 0)))
        if k < 0.14:
            self.budget -= 1
            return ("pi", self.name_avt(env, r.choice(["p", "pi", "T"])), self.tbody(cx, dict(env), max(d - 1, 0)))
        if k < 0.24 and d > 0:
            self.budget -= 1
            return ("element", self.name_avt(env, r.choice(["e", "n", "el"])), self.body(cx, dict(env), d - 1, in_elem=True))
        ins = xsltcore.CoreGen.instr(self, cx, env, d)
        if getattr(self, "in_text", 0) > 0 and ins[0] in ("call", "apply") and self.r.random() < 0.6:
            # inside the content of a comment / PI (or a fragment nested there): mostly templates for text nodes, so that
            # most programs stay free of errors; the rest instantiates arbitrary templates there
            return self.text_apply()
        return ins


def gen_case(r, count=None):
    doc = xsltcore.gen_doc(r)
    return CoreGen2(r, count).sheet(), doc


NEW = ("element", "comment", "pi")


def features(sheet):
    """nesting classes: 'outer>inner' pairs in which at least one side is a new construct (+ what xsltcore.features sees)"""
    out = set(xsltcore.features(sheet))

    def body(b, ctxs):
        for i in b:
            k = i[0]
            tag = k
            if k == "variable":
                tag = "var-rtf" if i[2][0] == "body" and i[2][1] else "var"
            for o in ctxs[-2:]:
                if o in NEW or tag in NEW:
                    out.add("%s>%s" % (o, tag))
            sub = []
            if k in ("lre", "for-each"):
                sub = [i[3]]
            elif k in ("if", "element", "pi"):
                sub = [i[2]]
            elif k in ("copy", "comment"):
                sub = [i[1]]
            elif k == "choose":
                sub = [b2 for _, b2 in i[1]] + ([i[2]] if i[2] else [])
            elif k == "variable" and i[2][0] == "body":
                sub = [i[2][1]]
            elif k == "apply":
                sub = [vd[1] for _, vd in i[4] if vd[0] == "body"]
                tag = "with-param-rtf"
            elif k == "call":
                sub = [vd[1] for _, vd in i[2] if vd[0] == "body"]
                tag = "with-param-rtf"
            if k in ("comment", "pi") and len(i[-1]) == 1 and i[-1][0][0] == "lit":
                out.add(k + ":single-text-child")
            for s in sub:
                body(s, ctxs + [tag])
    for t in sheet["tops"]:
        body(t[1].get("body", []), [])
    return out
