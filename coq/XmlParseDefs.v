(* XmlParseDefs.v — C04: a small model XML reader, written from the XML 1.0 (5th ed.) and XML 1.1
   recommendations and independent of the serializer model: what a conforming parser reports for
   character data / CDATA sections in element content and for an attribute value, on UTF-16 code
   units.  Definitions only.
     - end-of-line normalisation (1.0 §2.11: CR LF and CR -> LF;  1.1 §2.11: also CR NEL, NEL, LSEP)
     - character and predefined entity references (§4.1, §4.6); a reference must denote a Char
     - CDATA sections (§2.7); "]]>" must not occur in character data (§2.4)
     - attribute-value normalisation (§3.3.3): literal TAB / LF / CR become a space
     - literal characters must be Chars (§2.2), in 1.1 not RestrictedChars; surrogates only in pairs *)
From Coq Require Import NArith List Bool.
Import ListNotations.
Local Open Scope N_scope.

Definition x_in (lo hi c : N) : bool := (lo <=? c) && (c <=? hi).

Definition xml_char (v11 : bool) (cp : N) : bool :=
  if v11 then x_in 1 55295 cp || x_in 57344 65533 cp || x_in 65536 1114111 cp
  else (cp =? 9) || (cp =? 10) || (cp =? 13) || x_in 32 55295 cp || x_in 57344 65533 cp
       || x_in 65536 1114111 cp.

Definition restricted_char (v11 : bool) (cp : N) : bool :=
  v11 && (x_in 1 8 cp || x_in 11 12 cp || x_in 14 31 cp || x_in 127 132 cp || x_in 134 159 cp).

(* a non-surrogate unit that may stand for itself *)
Definition literal_ok (v11 : bool) (c : N) : bool := xml_char v11 c && negb (restricted_char v11 c).

Definition x_high (c : N) : bool := x_in 55296 56319 c.
Definition x_low (c : N) : bool := x_in 56320 57343 c.

Fixpoint eol_norm (v11 : bool) (l : list N) : list N :=
  match l with
  | [] => []
  | c :: r =>
      if c =? 13 then
        match r with
        | d :: r' =>
            if (d =? 10) || (v11 && (d =? 133)) then 10 :: eol_norm v11 r' else 10 :: eol_norm v11 r
        | [] => [10]
        end
      else if v11 && ((c =? 133) || (c =? 8232)) then 10 :: eol_norm v11 r
      else c :: eol_norm v11 r
  end.

Fixpoint starts_with (p l : list N) : option (list N) :=
  match p with
  | [] => Some l
  | a :: p' => match l with b :: l' => if a =? b then starts_with p' l' else None | [] => None end
  end.

Definition is_digit (d : N) : bool := x_in 48 57 d.

Fixpoint parse_digits (acc : N) (l : list N) : N * list N :=
  match l with
  | d :: r => if is_digit d then parse_digits (acc * 10 + (d - 48)) r else (acc, l)
  | [] => (acc, [])
  end.

Definition hex_val (d : N) : option N :=
  if x_in 48 57 d then Some (d - 48)
  else if x_in 65 70 d then Some (d - 55)
  else if x_in 97 102 d then Some (d - 87)
  else None.

Fixpoint parse_hex (acc : N) (l : list N) : N * list N :=
  match l with
  | d :: r => match hex_val d with Some v => parse_hex (acc * 16 + v) r | None => (acc, l) end
  | [] => (acc, [])
  end.

Definition units_of_cp (cp : N) : list N :=
  if cp <? 65536 then [cp]
  else [55296 + (cp - 65536) / 1024; 56320 + (cp - 65536) mod 1024].

Definition finish_ref (v11 : bool) (n : N) (r : list N) : option (list N * list N) :=
  match r with
  | 59 :: r' => if xml_char v11 n then Some (units_of_cp n, r') else None
  | _ => None
  end.

(* the text after '&' *)
Definition parse_ref (v11 : bool) (l : list N) : option (list N * list N) :=
  match l with
  | [] => None
  | c :: r =>
      if c =? 35 then
        match r with
        | [] => None
        | d :: r1 =>
            if d =? 120 then
              match r1 with
              | h :: _ => match hex_val h with
                          | Some _ => let '(n, r2) := parse_hex 0 r1 in finish_ref v11 n r2
                          | None => None
                          end
              | [] => None
              end
            else if is_digit d then let '(n, r2) := parse_digits 0 r in finish_ref v11 n r2
            else None
        end
      else
        match starts_with [108; 116; 59] l with Some r' => Some ([60], r') | None =>
        match starts_with [103; 116; 59] l with Some r' => Some ([62], r') | None =>
        match starts_with [97; 109; 112; 59] l with Some r' => Some ([38], r') | None =>
        match starts_with [113; 117; 111; 116; 59] l with Some r' => Some ([34], r') | None =>
        match starts_with [97; 112; 111; 115; 59] l with Some r' => Some ([39], r') | None =>
        None end end end end end
  end.

(* element content made of character data, references and CDATA sections (any other markup: None).
   incdata = inside a CDATA section *)
Fixpoint scan_content (v11 : bool) (fuel : nat) (incdata : bool) (l : list N) : option (list N) :=
  match fuel with
  | O => None
  | S f =>
      match l with
      | [] => if incdata then None else Some []
      | c :: r =>
          if incdata then
            match starts_with [93; 93; 62] l with
            | Some r' => scan_content v11 f false r'
            | None =>
                if x_high c then
                  match r with
                  | lo :: r' => if x_low lo then option_map (fun t => c :: lo :: t) (scan_content v11 f true r') else None
                  | [] => None
                  end
                else if x_low c then None
                else if literal_ok v11 c then option_map (cons c) (scan_content v11 f true r) else None
            end
          else if c =? 38 then
            match parse_ref v11 r with
            | Some (us, r') => option_map (app us) (scan_content v11 f false r')
            | None => None
            end
          else if c =? 60 then
            match starts_with [33; 91; 67; 68; 65; 84; 65; 91] r with
            | Some r' => scan_content v11 f true r'
            | None => None
            end
          else
            match starts_with [93; 93; 62] l with
            | Some _ => None
            | None =>
                if x_high c then
                  match r with
                  | lo :: r' => if x_low lo then option_map (fun t => c :: lo :: t) (scan_content v11 f false r') else None
                  | [] => None
                  end
                else if x_low c then None
                else if literal_ok v11 c then option_map (cons c) (scan_content v11 f false r) else None
            end
      end
  end.

Definition parse_content (v11 : bool) (l : list N) : option (list N) :=
  let n := eol_norm v11 l in scan_content v11 (S (length n)) false n.

(* the text between the delimiters of an attribute value delimited by the double quote *)
Fixpoint scan_attr (v11 : bool) (fuel : nat) (l : list N) : option (list N) :=
  match fuel with
  | O => None
  | S f =>
      match l with
      | [] => Some []
      | c :: r =>
          if c =? 38 then
            match parse_ref v11 r with
            | Some (us, r') => option_map (app us) (scan_attr v11 f r')
            | None => None
            end
          else if (c =? 60) || (c =? 34) then None
          else if (c =? 9) || (c =? 10) || (c =? 13) then option_map (cons 32) (scan_attr v11 f r)
          else if x_high c then
            match r with
            | lo :: r' => if x_low lo then option_map (fun t => c :: lo :: t) (scan_attr v11 f r') else None
            | [] => None
            end
          else if x_low c then None
          else if literal_ok v11 c then option_map (cons c) (scan_attr v11 f r) else None
      end
  end.

Definition parse_attr (v11 : bool) (l : list N) : option (list N) :=
  let n := eol_norm v11 l in scan_attr v11 (S (length n)) n.
