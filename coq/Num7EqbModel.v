(* C17: structural equality of zipper locations decides equality (the model's stand-in for pointer equality). *)
From Coq Require Import List Bool.
Require Import XV.Num7CountDefs.
Import ListNotations.

Section EqbProofs.
  Variable A : Type.
  Variable aeqb : A -> A -> bool.
  Hypothesis aeqb_spec : forall a b, aeqb a b = true <-> a = b.

  Fixpoint tree_ind2 (P : tree A -> Prop)
           (H : forall a kids, Forall P kids -> P (Node a kids)) (t : tree A) : P t :=
    match t with
    | Node a kids =>
        H a kids ((fix go (ks : list (tree A)) : Forall P ks :=
                     match ks with
                     | [] => Forall_nil P
                     | k :: r => Forall_cons k (tree_ind2 P H k) (go r)
                     end) kids)
    end.

  Lemma tree_eqb_unfold : forall a ks b ls,
    tree_eqb A aeqb (Node a ks) (Node b ls) = aeqb a b && forest_eqb A aeqb ks ls.
  Proof.
    intros. cbn [tree_eqb]. f_equal.
  Qed.

  Lemma tree_eqb_spec : forall s t, tree_eqb A aeqb s t = true <-> s = t.
  Proof.
    intros s. induction s as [a ks IH] using tree_ind2. intros [b ls].
    rewrite tree_eqb_unfold. split.
    - intros H. apply andb_prop in H. destruct H as [H1 H2]. apply aeqb_spec in H1. subst b. f_equal.
      revert ls H2. induction IH as [|k ks Hk _ IHks]; intros [|l ls] H2; try discriminate; [reflexivity|].
      cbn [forest_eqb] in H2. apply andb_prop in H2. destruct H2 as [E1 E2].
      apply Hk in E1. subst l. f_equal. apply IHks. exact E2.
    - intros H. inversion H; subst. apply andb_true_intro. split; [apply aeqb_spec; reflexivity|].
      clear H. induction IH as [|k ks Hk _ IHks]; [reflexivity|].
      cbn [forest_eqb]. apply andb_true_intro. split; [apply Hk; reflexivity|exact IHks].
  Qed.

  Lemma forest_eqb_spec : forall ks ls, forest_eqb A aeqb ks ls = true <-> ks = ls.
  Proof.
    induction ks as [|k ks IH]; intros [|l ls]; cbn [forest_eqb]; split; intros H; try discriminate; try reflexivity.
    - apply andb_prop in H. destruct H as [H1 H2]. apply tree_eqb_spec in H1. apply IH in H2. subst. reflexivity.
    - inversion H; subst. apply andb_true_intro. split; [apply tree_eqb_spec; reflexivity|apply IH; reflexivity].
  Qed.

  Lemma ctx_eqb_spec : forall c d, ctx_eqb A aeqb c d = true <-> c = d.
  Proof.
    induction c as [|l a u IH r]; intros [|l' a' u' r']; cbn [ctx_eqb]; split; intros H; try discriminate; try reflexivity.
    - apply andb_prop in H. destruct H as [H H4]. apply andb_prop in H. destruct H as [H H3].
      apply andb_prop in H. destruct H as [H1 H2].
      apply forest_eqb_spec in H1. apply aeqb_spec in H2. apply IH in H3. apply forest_eqb_spec in H4. subst. reflexivity.
    - inversion H; subst. repeat (apply andb_true_intro; split).
      + apply forest_eqb_spec. reflexivity.
      + apply aeqb_spec. reflexivity.
      + apply IH. reflexivity.
      + apply forest_eqb_spec. reflexivity.
  Qed.

  Lemma loc_eqb_spec : forall x y, loc_eqb A aeqb x y = true <-> x = y.
  Proof.
    intros [t c] [t' c']. unfold loc_eqb. cbn [fst snd]. split; intros H.
    - apply andb_prop in H. destruct H as [H1 H2]. apply tree_eqb_spec in H1. apply ctx_eqb_spec in H2. subst. reflexivity.
    - inversion H; subst. apply andb_true_intro. split; [apply tree_eqb_spec|apply ctx_eqb_spec]; reflexivity.
  Qed.
End EqbProofs.

Lemma lab3_eqb_spec : forall a b, lab3_eqb a b = true <-> a = b.
Proof.
  intros [[n c] f] [[n' c'] f']. unfold lab3_eqb, l3_name, l3_cnt, l3_frm. cbn [fst snd]. split; intros H.
  - apply andb_prop in H. destruct H as [H H3]. apply andb_prop in H. destruct H as [H1 H2].
    apply NArith.BinNat.N.eqb_eq in H1. apply Bool.eqb_prop in H2. apply Bool.eqb_prop in H3. subst. reflexivity.
  - inversion H; subst. rewrite NArith.BinNat.N.eqb_refl, !Bool.eqb_reflx. reflexivity.
Qed.
