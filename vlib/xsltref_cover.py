"""Reference additions for C01, part "cover": the instructions of the property's list that vlib/xsltref.py does
not evaluate, written from the XSLT 1.0 Recommendation (not from Xalan's code) on top of xsltref.Interp:

   xsl:number without value= (7.7: level single / multiple / any, count, from, their defaults by node type and
       expanded name; 7.7.1 format tokens 1 01 a A i I with separator tokens)          instr ("numberc", level, count|None, from|None, format)
   xsl:apply-imports (5.6)                                                               instr ("apply-imports",)
   use-attribute-sets on xsl:copy (7.5)                                                  instr ("copy", body, [set names])
   literal result elements with their namespace nodes (7.1.1), xsl:exclude-result-prefixes / exclude-result-prefixes
       (7.1.1), xsl:namespace-alias (7.1.1), local xmlns declarations                    instr ("lre", qname, attrs, body, uses, {"xmlns": {p: uri}, "exclude": [p]})
   xsl:strip-space / xsl:preserve-space (3.4) incl. xml:space and import precedence      top ("strip-space", [nametest]) | ("preserve-space", [nametest])
   xsl:namespace-alias                                                                   top ("namespace-alias", stylesheet-prefix, result-prefix)
   module header                                                                         sheet["header"] = {"xmlns": {p: uri}, "exclude": [p]}

Everything else (templates, modes, priorities, keys, attribute sets, variables, ...) is inherited unchanged.
The result is the tree of xsltref (same form) plus, per result element in document order, the set of namespace
URIs of its own namespace nodes and the set of URIs that may be in scope (namespace nodes and names of the element
and its ancestors) - compared with the in-scope declarations of the re-parsed output of the library."""
import re

from vlib import xsltref, xpgen

XsltError = xsltref.XsltError
XSL_NS = "http://www.w3.org/1999/XSL/Transform"
LEAN_NS = {"p": "urn:p", "q": "urn:q"}
RICH_NS = {"p": "urn:p", "q": "urn:q", "r": "urn:r", "ax": "urn:ax", "ay": "urn:ay"}
DEFAULT_HEADER = {"xmlns": LEAN_NS, "exclude": ["p", "q"]}


# ---------------------------------------------------------------------------------------------------
# 7.7.1 number to string conversion for the formats the generator uses

def fmt_tokens(fmt):
    return re.findall(r"[A-Za-z0-9]+|[^A-Za-z0-9]+", fmt)


def format_one(n, tok):
    if tok in ("a", "A"):
        s = xsltref.alpha(n)
        return s if tok == "a" else s.upper()
    if tok in ("i", "I"):
        if n > 3999:
            raise XsltError("roman numeral above 3999")
        s = xsltref.roman(n)
        return s if tok == "i" else s.upper()
    if re.fullmatch(r"0*1", tok):
        return str(n).rjust(len(tok), "0")
    raise XsltError("format token " + tok)


def format_list(nums, fmt):
    toks = fmt_tokens(fmt or "1")
    alnum = [t for t in toks if t[0].isalnum()]
    if not alnum:
        raise XsltError("format without a format token")
    prefix = toks[0] if not toks[0][0].isalnum() else ""
    suffix = toks[-1] if not toks[-1][0].isalnum() else ""
    inner = toks[(1 if prefix else 0):(len(toks) - 1 if suffix else len(toks))]
    fmts = inner[0::2]
    seps = inner[1::2]
    if not nums:
        if prefix or suffix:
            # the Recommendation does not say whether the leading/trailing punctuation is written for an empty list
            raise XsltError("ambiguous: empty number list with leading/trailing punctuation")
        return ""
    out = [prefix]
    for i, n in enumerate(nums):
        if i > 0:
            if i - 1 < len(seps):
                out.append(seps[i - 1])
            elif seps:
                out.append(seps[-1])
            else:
                out.append(".")
        out.append(format_one(n, fmts[min(i, len(fmts) - 1)]))
    out.append(suffix)
    return "".join(out)


# ---------------------------------------------------------------------------------------------------
# 3.4 whitespace stripping of the source tree

def nametest_priority(t):
    _, ns, local = t
    if local is not None:
        return 0.0
    return -0.25 if ns is not None else -0.5


def strip_doc(doc_top, rules):
    """rules: [(prec, seq, 'strip'|'preserve', ('name', ns|None, local|None))]. Returns the document without the
    whitespace-only text nodes that 3.4 strips."""
    if not any(r[2] == "strip" for r in rules):
        return doc_top

    def decide(uri, local):
        best = None
        for prec, seq, kind, (_, ns, loc) in rules:
            if loc is not None:
                ok = loc == local and (ns or "") == uri
            elif ns is not None:
                ok = ns == uri
            else:
                ok = True
            if ok:
                key = (prec, nametest_priority(("name", ns, loc)), seq)
                if best is None or key > best[0]:
                    best = (key, kind)
        return best is not None and best[1] == "strip"

    def go(t, env, preserve):
        if t[0] != "e":
            return t
        env = dict(env)
        for a, v in t[2]:
            if a == "xmlns":
                env[""] = v
            elif a.startswith("xmlns:"):
                env[a[6:]] = v
            elif a == "xml:space":
                if v == "preserve":
                    preserve = True
                elif v == "default":
                    preserve = False
        if ":" in t[1]:
            p, l = t[1].split(":", 1)
            uri, local = env.get(p, ""), l
        else:
            uri, local = env.get("", ""), t[1]
        strip_here = (not preserve) and decide(uri, local)
        kids = []
        for c in t[3]:
            if c[0] == "t" and strip_here and c[1].strip(" \t\r\n") == "":
                continue
            kids.append(go(c, env, preserve))
        return ("e", t[1], t[2], kids)
    return [go(t, {"xml": xpgen.XML_NS}, False) for t in doc_top]


# ---------------------------------------------------------------------------------------------------

class CoverInterp(xsltref.Interp):
    def __init__(self, sheet, doc_top, fuel=40000, trace=None):
        self.strip_rules = []
        self.aliases = {}          # stylesheet namespace URI -> (prec, seq, result namespace URI)
        self.prec_lo = {}          # precedence of a module -> lowest precedence in its import tree
        self.tm_header = {}        # id(Template) -> header of the module containing it
        self.gheader = {}          # top-level variable name -> header of the module of the winning definition
        self.cur_header = DEFAULT_HEADER
        self.cur_rule = [None]     # stack: (Template, mode) of the current template rule | None
        self.scope = [self.module_scope(DEFAULT_HEADER)]
        self.num_last = {}         # id(instruction) -> last node numbered (coverage: out-of-order numbering)
        xsltref.Interp.__init__(self, sheet, doc_top, fuel=fuel, trace=trace)
        self.doc_top = strip_doc(doc_top, self.strip_rules)
        if self.doc_top is not doc_top:
            self.nodes = xpgen.build_nodes(self.doc_top)
            self.ref = xsltref.XRef(self.nodes, self)
            self.stat("source-stripped")

    # ---- loading ----
    @staticmethod
    def module_scope(header):
        ns = dict(header["xmlns"])
        return {"ns": ns, "excl": set(ns[p] for p in header.get("exclude", []))}

    def load(self, sheet):
        lo = self.prec
        for imp in sheet.get("imports", []):
            self.load(imp)
        prec = self.prec
        self.prec += 1
        self.prec_lo[prec] = lo
        saved = self.cur_header
        self.cur_header = sheet.get("header") or DEFAULT_HEADER
        self.load_tops(sheet["tops"], prec)
        self.cur_header = saved

    def load_tops(self, tops, prec):
        for t in tops:
            k = t[0]
            if k in ("strip-space", "preserve-space"):
                self.seq += 1
                for test in t[1]:
                    self.strip_rules.append((prec, self.seq, "strip" if k == "strip-space" else "preserve", test))
            elif k == "namespace-alias":
                self.seq += 1
                ns = self.cur_header["xmlns"]
                if t[1] not in ns or (t[2] not in ns and t[2] != "xsl"):
                    raise XsltError("namespace-alias: undeclared prefix")
                su, ru = ns[t[1]], (XSL_NS if t[2] == "xsl" else ns[t[2]])
                old = self.aliases.get(su)
                if old is not None and old[0] == prec and old[2] != ru:
                    # 7.1.1: an error; a processor may recover by choosing the last - not generated
                    raise XsltError("ambiguous: two aliases of one namespace with the same import precedence")
                if old is None or old[0] <= prec:
                    self.aliases[su] = (prec, self.seq, ru)
            elif k == "include":
                self.seq += 1
                saved = self.cur_header
                self.cur_header = t[1].get("header") or DEFAULT_HEADER
                if t[1].get("imports"):
                    raise XsltError("imports inside an included module")
                self.load_tops(t[1]["tops"], prec)
                self.cur_header = saved
            else:
                n_t = len(self.templates)
                old = self.globals.get(t[1]) if k in ("variable", "param") else None
                xsltref.Interp.load_tops(self, [t], prec)
                for tm in self.templates[n_t:]:
                    self.tm_header[id(tm)] = self.cur_header
                if k in ("variable", "param") and self.globals.get(t[1]) is not old:
                    self.gheader[t[1]] = self.cur_header

    # ---- scopes of namespace declarations ----
    def qname(self, q, attr=False):
        if ":" in q:
            p, l = q.split(":", 1)
            ns = self.scope[-1]["ns"]
            if p == "xml":
                return (xpgen.XML_NS, l)
            if p not in ns:
                raise XsltError("undeclared prefix")
            return (ns[p], l)
        return ("", q)

    def alias(self, uri):
        a = self.aliases.get(uri)
        return a[2] if a else uri

    def instantiate(self, tm, cx, params, b, mode):
        self.scope.append(self.module_scope(self.tm_header.get(id(tm), DEFAULT_HEADER)))
        try:
            xsltref.Interp.instantiate(self, tm, cx, params, b, mode)
        finally:
            self.scope.pop()

    def gvalue(self, name):
        self.scope.append(self.module_scope(self.gheader.get(name, DEFAULT_HEADER)))
        self.cur_rule.append(None)
        try:
            return xsltref.Interp.gvalue(self, name)
        finally:
            self.cur_rule.pop()
            self.scope.pop()

    def set_own(self, b, uris):
        uris = set(u for u in uris if u and u != xpgen.XML_NS)
        b.stack[-1]["nsown"] = uris
        if uris and self.depth > 0:
            # class of known finding K-C01-4: namespace declarations of elements built inside a fragment
            self.flags["ns_in_rtf"] = self.flags.get("ns_in_rtf", 0) + 1

    # ---- template rules: current template rule (5.6) ----
    def apply(self, nodes, mode, params, b, initial=False):
        size = len(nodes)
        for i, n in enumerate(nodes):
            self.tick()
            tm = self.find_template(n, mode)
            cx = self.initial_cx if initial else (n, i + 1, size)
            self.stat("template-for-node" if tm is not None else "builtin-rule:" + self.nodes[n].kind)
            if tm is None:
                self.cur_rule.append(None)
                try:
                    self.builtin(cx, mode, b)
                finally:
                    self.cur_rule.pop()
            else:
                self.cur_rule.append((tm, mode))
                try:
                    self.instantiate(tm, cx, params, b, mode)
                finally:
                    self.cur_rule.pop()

    def find_template_in(self, n, mode, lo, hi):
        best = None
        for tm in self.templates:
            if tm.match is None or tm.mode != mode or not (lo <= tm.prec < hi):
                continue
            for alt in tm.match:
                if not self.matches(alt, n, {}):
                    continue
                pr = float(tm.prio) if tm.prio is not None else xsltref.default_priority(alt)
                key = (tm.prec, pr, tm.seq)
                if best is None or key > best[0]:
                    best = (key, tm)
        return best[1] if best else None

    # ---- 7.7 ----
    def pattern_matcher(self, alts):
        return lambda m: any(self.matches(a, m, {}) for a in alts)

    def default_count(self, n):
        nd = self.nodes[n]
        if nd.kind in ("elem", "attr"):
            return lambda m: self.nodes[m].kind == nd.kind and (self.nodes[m].uri, self.nodes[m].local) == (nd.uri, nd.local)
        if nd.kind == "pi":
            return lambda m: self.nodes[m].kind == "pi" and self.nodes[m].qname == nd.qname
        return lambda m: self.nodes[m].kind == nd.kind

    def number_list(self, n, level, count, frm):
        nd = self.nodes[n]
        if nd.kind == "nsdecl":
            raise XsltError("xsl:number on a namespace declaration")
        cnt = self.pattern_matcher(count) if count is not None else self.default_count(n)
        fm = self.pattern_matcher(frm) if frm is not None else None
        if level == "any":
            if nd.kind == "attr":
                # "excluding any namespace and attribute nodes": whether the current attribute itself counts is unclear
                raise XsltError("ambiguous: level=any on an attribute node")
            cand = [m.id for m in self.nodes if m.id <= n and m.kind not in ("attr", "nsdecl")]
            if fm is not None:
                fs = [m for m in cand if m != n and fm(m)]
                if fs:
                    cand = [m for m in cand if m > fs[-1]]
            c = sum(1 for m in cand if cnt(m))
            return [c] if c else []
        chain = [n] + self.ref.ancestors(n)[::-1]          # the node, then its ancestors going up
        if fm is not None:
            cut = [n]
            for a in chain[1:]:
                if fm(a):
                    break
                cut.append(a)
            chain = cut
        sel = [a for a in chain if cnt(a)]
        if level == "single":
            sel = sel[:1]

        def num(a):
            sib, _ = self.ref.axis("preceding-sibling", a)
            return 1 + sum(1 for s in sib if cnt(s))
        return [num(a) for a in reversed(sel)]

    # ---- instructions ----
    def run(self, body, cx, env, b, tm, mode):
        for ins in body:
            k = ins[0]
            if k == "numberc":
                self.tick()
                _, level, count, frm, fmt = ins
                self.stat("number-level-" + level + ("+count" if count is not None else "") + ("+from" if frm is not None else ""))
                self.stat("number-on-" + self.nodes[cx[0]].kind)
                last = self.num_last.get(id(ins))
                if last is not None and last >= cx[0]:
                    self.stat("number-instruction-revisited-out-of-document-order")
                self.num_last[id(ins)] = cx[0]
                lst = self.number_list(cx[0], level, count, frm)
                if len(lst) > 1:
                    self.stat("number-list-longer-than-one")
                self.emit_text(b, format_list(lst, fmt))
            elif k == "apply-imports":
                self.tick()
                rule = self.cur_rule[-1]
                if rule is None:
                    raise XsltError("apply-imports with a null current template rule")
                tm0, mode0 = rule
                t2 = self.find_template_in(cx[0], mode0, self.prec_lo[tm0.prec], tm0.prec)
                self.stat("apply-imports->" + ("template" if t2 is not None else "builtin"))
                if t2 is None:
                    self.cur_rule.append(None)
                    try:
                        self.builtin(cx, mode0, b)
                    finally:
                        self.cur_rule.pop()
                else:
                    self.cur_rule.append((t2, mode0))
                    try:
                        self.instantiate(t2, cx, {}, b, mode0)
                    finally:
                        self.cur_rule.pop()
            elif k == "lre":
                self.tick()
                self.run_lre(ins, cx, env, b, tm, mode)
            elif k == "copy" and len(ins) > 2 and ins[2] and self.nodes[cx[0]].kind == "elem":
                self.tick()
                nd = self.nodes[cx[0]]
                self.stat("copy-with-attribute-sets")
                self.emit_start(b, self.node_name(nd), self.shown_src(nd))
                self.set_own(b, nd.nsenv.values())
                self.apply_sets(ins[2], cx, b, tm, mode)
                self.block(ins[1], ins[1], cx, dict(env), b, tm, mode)
                self.emit_end(b, self.shown_src(nd))
            elif k == "for-each":
                self.cur_rule.append(None)
                try:
                    xsltref.Interp.run(self, [ins], cx, env, b, tm, mode)
                finally:
                    self.cur_rule.pop()
            else:
                if k == "copy":
                    self.stat("copy-" + self.nodes[cx[0]].kind)
                    if len(ins) > 2 and ins[2] and self.nodes[cx[0]].kind == "doc" and ins[1] \
                            and sum(len(self.asets.get(nm, ())) for nm in ins[2]) > 1:
                        # class of finding K-C01cover-1: xsl:copy of the root node naming more than one attribute-set
                        # definition (they are not used for a non-element, 7.5) with a non-empty content
                        self.flags["copy_of_root_with_several_attribute_sets"] = 1
                xsltref.Interp.run(self, [ins], cx, env, b, tm, mode)

    def run_lre(self, ins, cx, env, b, tm, mode):
        extra = ins[5] if len(ins) > 5 and ins[5] else {}
        sc = self.scope[-1]
        ns = dict(sc["ns"])
        ns.update(extra.get("xmlns", {}))
        excl = set(sc["excl"])
        for p in extra.get("exclude", []):
            if p not in ns:
                raise XsltError("exclude-result-prefixes: undeclared prefix")
            excl.add(ns[p])
        self.scope.append({"ns": ns, "excl": excl})
        try:
            u, l = self.qname(ins[1])
            if self.alias(u) != u:
                self.stat("aliased-element-name")
            nm = (self.alias(u), l)
            self.emit_start(b, nm, self.shown(nm))
            own = set(self.alias(x) for x in ns.values() if x != XSL_NS and x not in excl)
            if excl & set(ns.values()):
                self.stat("lre-with-excluded-namespace")
            if any(self.alias(x) != x for x in ns.values()):
                self.stat("lre-with-aliased-namespace-node")
            self.set_own(b, own)
            if len(ins) > 4 and ins[4]:
                self.apply_sets(ins[4], cx, b, tm, mode)
            for aq, parts in ins[2]:
                au, al = self.qname(aq, True)
                an = (self.alias(au) if au else au, al)
                self.emit_attr(b, an, self.shown(an), self.avt(parts, cx, env))
            self.block(ins, ins[3], cx, dict(env), b, tm, mode)
            self.emit_end(b, self.shown(nm))
        finally:
            self.scope.pop()

    # ---- copies carry the namespace nodes of the source element (7.5, 11.3) ----
    def copy_shallow(self, cx, env, b, body, tm, mode):
        nd = self.nodes[cx[0]]
        if nd.kind == "elem":
            self.emit_start(b, self.node_name(nd), self.shown_src(nd))
            self.set_own(b, nd.nsenv.values())
            self.block(body, body, cx, dict(env), b, tm, mode)
            self.emit_end(b, self.shown_src(nd))
        else:
            xsltref.Interp.copy_shallow(self, cx, env, b, body, tm, mode)

    def copy_deep(self, n, b):
        nd = self.nodes[n]
        if nd.kind == "elem":
            self.emit_start(b, self.node_name(nd), self.shown_src(nd))
            self.set_own(b, nd.nsenv.values())
            for a in nd.attrs:
                if a.kind == "attr":
                    self.emit_attr(b, self.node_name(a), self.shown_src(a), a.value, copy=True)
            for c in nd.children:
                self.copy_deep(c.id, b)
            self.emit_end(b, self.shown_src(nd))
        else:
            xsltref.Interp.copy_deep(self, n, b)

    def copy_rtf_node(self, n, b):
        if n["k"] == "e":
            self.emit_start(b, n["name"], self.shown(n["name"]))
            self.set_own(b, n.get("nsown", ()))
            for a, v in n["attrs"]:
                self.emit_attr(b, a, self.shown(a), v, copy=True)
            for c in n["ch"]:
                self.copy_rtf_node(c, b)
            self.emit_end(b, self.shown(n["name"]))
        else:
            xsltref.Interp.copy_rtf_node(self, n, b)


def ns_profile(nodes):
    """per result element in document order: (URIs of its own namespace nodes, URIs that may be in scope)"""
    out = []

    def go(l, inherited):
        for n in l:
            if n["k"] != "e":
                continue
            own = set(n.get("nsown", ()))
            names = set([n["name"][0]] + [a[0][0] for a in n["attrs"]]) - {"", xpgen.XML_NS}
            may = inherited | own | names
            out.append((frozenset(own), frozenset(may)))
            go(n["ch"], may)
    go(nodes, frozenset())
    return out


def static_check(sheet):
    """errors a processor may report at compile time although the faulty instruction is never instantiated: references
    to named templates / attribute sets that do not exist (the shrinker must not drift into them)"""
    named, sets, used_t, used_s = set(), set(), set(), set()

    def body(b):
        for i in b:
            k = i[0]
            if k == "lre":
                used_s.update(i[4] if len(i) > 4 and i[4] else [])
                body(i[3])
            elif k == "element":
                used_s.update(i[3] if len(i) > 3 and i[3] else [])
                body(i[2])
            elif k in ("attribute", "pi", "if"):
                body(i[2])
            elif k == "comment":
                body(i[1])
            elif k == "copy":
                used_s.update(i[2] if len(i) > 2 and i[2] else [])
                body(i[1])
            elif k == "for-each":
                body(i[3])
            elif k == "choose":
                for _, b2 in i[1]:
                    body(b2)
                if i[2]:
                    body(i[2])
            elif k == "variable":
                if i[2][0] == "body":
                    body(i[2][1])
            elif k in ("apply", "call"):
                if k == "call":
                    used_t.add(i[1])
                for _, vd in (i[4] if k == "apply" else i[2]):
                    if vd[0] == "body":
                        body(vd[1])

    def tops(sh):
        for imp in sh.get("imports", []):
            tops(imp)
        for t in sh["tops"]:
            if t[0] == "include":
                tops(t[1])
            elif t[0] == "template":
                if t[1].get("name") is not None:
                    named.add(t[1]["name"])
                for _, vd in t[1].get("params", []):
                    if vd[0] == "body":
                        body(vd[1])
                body(t[1].get("body", []))
            elif t[0] in ("variable", "param"):
                if t[2][0] == "body":
                    body(t[2][1])
            elif t[0] == "attribute-set":
                sets.add(t[1])
                used_s.update(t[2])
                for _, b2 in t[3]:
                    body(b2)
    tops(sheet)
    if used_t - named:
        raise XsltError("static: call of a template that does not exist")
    if used_s - sets:
        raise XsltError("static: use of an attribute set that does not exist")


def header_of(sh):
    return sh.get("header") or DEFAULT_HEADER


def alias_scope_differs(sheet):
    """class of finding K-C01cover-2 (guard): some namespace alias is not declared with one and the same result URI in
    the import tree of EVERY stylesheet module (declarations inside included modules not counted). Outside the class
    every way of collecting the aliases module by module gives the stylesheet-wide table of 7.1.1."""
    decls = []          # (stylesheet uri, result uri) of the whole sheet, included modules too

    def uri(h, p):
        return XSL_NS if p == "xsl" else h["xmlns"].get(p)

    def own(sh, into, with_includes):
        for t in sh["tops"]:
            if t[0] == "namespace-alias":
                into.append((uri(header_of(sh), t[1]), uri(header_of(sh), t[2])))
            elif t[0] == "include" and with_includes:
                own(t[1], into, True)

    def everything(sh):
        own(sh, decls, True)
        for imp in sh.get("imports", []):
            everything(imp)
    everything(sheet)
    if not decls:
        return False
    if any(len(set(r for s2, r in decls if s2 == s1)) > 1 for s1, _ in decls):
        return True
    need = set(s1 for s1, _ in decls)

    def visible(sh):
        """-> declarations visible in sh; raises KeyError(None) by returning None when a module misses one"""
        v = []
        own(sh, v, False)
        ok = True
        for imp in sh.get("imports", []):
            sub = visible(imp)
            if sub is None:
                ok = False
            else:
                v += sub
        if not ok or set(s1 for s1, _ in v) != need:
            return None
        return v
    return visible(sheet) is None


def include_exclusion_differs(sheet):
    """class of finding K-C01cover-3 (guard): an included module whose excluded namespaces differ from its includer's"""
    def ex(sh):
        h = header_of(sh)
        return set(h["xmlns"][p] for p in h.get("exclude", []))

    def go(sh):
        for imp in sh.get("imports", []):
            if go(imp):
                return True
        for t in sh["tops"]:
            if t[0] == "include" and (ex(t[1]) != ex(sh) or go(t[1])):
                return True
        return False
    return go(sheet)


def run(sheet, doc_top, fuel=40000):
    static_check(sheet)
    it = CoverInterp(sheet, doc_top, fuel=fuel)
    if alias_scope_differs(sheet):
        it.flags["alias_not_visible_alike_in_every_module"] = 1
    if include_exclusion_differs(sheet):
        it.flags["included_module_excludes_other_namespaces"] = 1
    b = xsltref.Builder(it.flags)
    it.apply([0], None, {}, b, initial=True)
    it.flags["#stats"] = it.stats
    return xsltref.freeze(b.root), ns_profile(b.root), it.flags


# ---------------------------------------------------------------------------------------------------
# the library's output: tree (form of xsltref.parse_output) + in-scope namespace URIs per element

def parse_output_ns(data):
    import xml.parsers.expat
    if data.startswith(b"<?xml"):
        data = data[data.find(b"?>") + 2:]
    wrapped = b"<wrap__>" + data + b"</wrap__>"
    p = xml.parsers.expat.ParserCreate(namespace_separator="\x01")
    p.buffer_text = True
    p.ordered_attributes = True
    root = {"k": "e", "name": ("", "wrap__"), "attrs": [], "ch": []}
    stack = [root]
    scopes = [{}]
    pending = {}
    profile = []

    def split(n):
        if "\x01" in n:
            u, l = n.split("\x01", 1)
            return (u, l)
        return ("", n)

    def ns_start(prefix, uri):
        pending[prefix or ""] = uri or ""

    def se(name, attrs):
        sc = dict(scopes[-1])
        sc.update(pending)
        pending.clear()
        scopes.append(sc)
        n = {"k": "e", "name": split(name), "attrs": [[split(attrs[i]), attrs[i + 1]] for i in range(0, len(attrs), 2)], "ch": []}
        stack[-1]["ch"].append(n)
        stack.append(n)
        if len(stack) > 2:
            profile.append(frozenset(u for u in sc.values() if u and u != xpgen.XML_NS))

    def ee(name):
        stack.pop()
        scopes.pop()

    def cd(s):
        k = stack[-1]["ch"]
        if k and k[-1]["k"] == "t":
            k[-1]["v"] += s
        else:
            k.append({"k": "t", "v": s})

    def cm(s):
        stack[-1]["ch"].append({"k": "c", "v": s})

    def pi(t, d):
        stack[-1]["ch"].append({"k": "p", "t": t, "v": d})
    p.StartNamespaceDeclHandler = ns_start
    p.StartElementHandler, p.EndElementHandler = se, ee
    p.CharacterDataHandler, p.CommentHandler, p.ProcessingInstructionHandler = cd, cm, pi
    p.Parse(wrapped, True)
    return xsltref.freeze(root["ch"][0]["ch"]), profile


def ns_check(ref_profile, lib_profile):
    """None, or a description of the first element whose in-scope namespaces contradict 7.1.1 / 7.5"""
    if len(ref_profile) != len(lib_profile):
        return "number of elements differs"
    for i, ((own, may), got) in enumerate(zip(ref_profile, lib_profile)):
        if not own <= got:
            return "element #%d: namespace node(s) %s missing (in scope: %s)" % (i + 1, sorted(own - got), sorted(got))
        if not got <= may:
            return "element #%d: namespace(s) %s in scope, but no namespace node of the element or of an ancestor has that URI (allowed: %s)" % (
                i + 1, sorted(got - may), sorted(may))
    return None
