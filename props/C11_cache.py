"""C11, part "cache": the value caches of the XObjects that XObjectFactoryDefault recycles (XNodeSet: string and number of the
first node; XString: number; XNumber: string) -- proof + tie for "an expression has one value whichever way the caller asks,
whatever was evaluated before" (the mechanism of seeded/C11_f; props/C11_seq.py is the whole-transformation test of it).

  proof   coq/Properties_C11x.v over the machine of coq/XoCacheDefs.v: for all conversions, all flag records passing the
          decidable guard flags_ok and ALL histories of create / ask / give-back, every observation is the conversion of the
          payload the object holds at that moment; flags_ok at the regenerated flags (translator/gen_xocache.py -> GenXoCache.v:
          clearCachedValues() statement by statement, the sentinel, who calls release()/clearCachedValues(), the stack bounds;
          every other body the machine mirrors pinned token for token).
  tie     the extracted machine (ocaml/xoCache_driver.ml) and the library (harness/xocache.cpp: XObjectFactoryDefault driven
          directly over XalanSourceTree nodes) answer the same histories; every difference is reported.
  oracle  the property on the library's answers without the Coq model: a Python list of the payloads held, every answer must be
          the XPath conversion (vlib/xpref number/string conversions) of the payload held at that moment.
A failing history is shrunk (ops dropped while the failure stays) and written as the replay (#XOCACHE lines)."""
import os, struct
from vlib import core, xpref

# string-values of the <p> elements.  The first ones are the interesting first nodes: empty, not a number, the sentinel
VALUES = ["", "abc", " ", "123456789", "123456789.0", " 123456789 ", "20", "10", "2.5", "-3", "0", "-0", " 7 ", "007", "1e3", "NaN",
          "0.0", "x<y&z", "été", "12", "5", ".5", "-", "Infinity", "1 2", "\U0001d4b3", "40"]
NUMBERS = [0.0, -0.0, 1.5, 2.5, 20.0, -3.0, float("nan"), float("inf"), float("-inf"), 1e21, 0.1, 123456789.0, -2.25, 7.0, 1e-7]
ASKS = "nstbceflz"


def u16(s):
    b = s.encode("utf-16-le")
    return "u:" + ",".join("%x" % (b[i] | (b[i + 1] << 8)) for i in range(0, len(b), 2))


def units(s):
    return len(s.encode("utf-16-le")) // 2


def show_num(x):
    return "n:nan" if x != x else "n:%016x" % struct.unpack(">Q", struct.pack(">d", x))[0]


def d_tok(x):
    return "Dnan" if x != x else "D%016x" % struct.unpack(">Q", struct.pack(">d", x))[0]


def dbl_of_tok(t):
    return float("nan") if t == "Dnan" else struct.unpack(">d", struct.pack(">Q", int(t[1:], 16)))[0]


# ---- the specification, in Python (independent of the Coq model) ------------------------------------------------------------
def expected(vals, ops):
    """the answers a cache-less evaluator gives: list of (index of the op, token)"""
    held, out = [], []
    for k, t in enumerate(ops):
        c, r = t[0], t[1:]
        if c == "N":
            held.append(("N", [vals[int(i)] for i in r.split(",")] if r else []))
        elif c == "S":
            held.append(("S", vals[int(r)]))
        elif c == "D":
            held.append(("D", dbl_of_tok(t)))
        else:
            i = int(r)
            if i >= len(held):
                continue
            if c == "r":
                del held[i]
                continue
            kind, p = held[i]
            s = (p[0] if p else "") if kind == "N" else p if kind == "S" else xpref.num_to_str(p)
            if c == "n":
                out.append((k, show_num(p if kind == "D" else xpref.str_to_num(s))))
            elif c in "stbcef":
                out.append((k, "s:" + u16(s)))
            elif c == "l":
                out.append((k, "l:%d" % units(s)))
            elif c == "z":
                b = bool(p) if kind in ("N", "S") else (p == p and p != 0)
                out.append((k, "z:1" if b else "z:0"))
    return out


# ---- histories --------------------------------------------------------------------------------------------------------------
def gen_vals(r):
    n = r.randrange(5, 10)
    vals = [r.choice(VALUES[:6]) for _ in range(2)] + [r.choice(VALUES) for _ in range(n - 2)]
    r.shuffle(vals)
    return vals


def gen_create(r, vals, kind=None):
    kind = kind or r.choice("NNNNNSD")
    if kind == "N":
        k = r.choice([0, 0, 1, 1, 1, 1, 2, 3])
        return "N" + ",".join(str(r.randrange(len(vals))) for _ in range(k))
    if kind == "S":
        return "S%d" % r.randrange(len(vals))
    return d_tok(r.choice(NUMBERS))


def gen_history(r, vals, n_ops):
    ops, held = [], []
    again = None
    while len(ops) < n_ops:
        x = r.random()
        if again is not None and r.random() < 0.7:
            # the recycled object of the kind just given back, asked straight away
            ops.append(gen_create(r, vals, again))
            held.append(again)
            ops.append(r.choice("nnnn" + ASKS) + str(len(held) - 1))
            again = None
        elif not held or x < 0.22:
            ops.append(gen_create(r, vals))
            held.append(ops[-1][0] if ops[-1][0] in "NS" else "D")
        elif x < 0.75 or len(held) < 2 and x < 0.85:
            i = r.randrange(len(held)) if r.random() < 0.5 else len(held) - 1
            ops.append(r.choice("nnn" + ASKS) + str(i))
        elif x < 0.97:
            i = r.randrange(len(held))
            ops.append("r%d" % i)
            again = held.pop(i)
        else:
            ops.append(r.choice(ASKS + "r") + str(len(held) + r.randrange(3)))     # nothing at that index: no-op on both sides
    return ops


def boundary_histories(r):
    """aimed at the case splits of the proof: what is (not) cached before the give-back x what the recycled object is asked first"""
    out = []
    vals = ["", "abc", " ", "20", "123456789", "5", " 7 ", "0"]
    firsts = ["N", "N0", "N1", "N2", "N3", "N4", "N0,3", "N6"]
    for a in firsts:
        for b in ("N3", "N5", "N4", "N", "N0", "N1,3"):
            for q in "nslbez":
                out.append((vals, [a, r.choice("nn" + ASKS) + "0", "r0", b, q + "0", "n0", "s0", "l0"]))
    # a first question other than num() before the give-back, two objects alive, LIFO order of the stack
    for _ in range(40):
        a, b, c = (r.choice(firsts) for _ in range(3))
        perm = r.choice([["r0", "r0", "r0"], ["r2", "r1", "r0"], ["r1", "r0", "r0"], ["r0", "r1", "r0"]])
        out.append((vals, [a, b, c, "n0", r.choice(ASKS) + "1", r.choice(ASKS) + "2"] + perm +
                    ["N3", "N5", "N6", "n0", "n1", "n2", "s0", "s1", "s2"]))
    # XString: sentinel 0.0;  XNumber: the empty string as the marker
    for a in range(len(vals)):
        for b in (3, 5, 7, 0):
            out.append((vals, ["S%d" % a, "n0", "n0", "r0", "S%d" % b, "n0", "s0", "l0", "z0", "n0"]))
    for x in NUMBERS:
        for y in (2.5, float("nan"), 0.0, 1e21):
            out.append((vals, [d_tok(x), r.choice("stefl") + "0", "b0", "r0", d_tok(y), r.choice("stbcefl") + "0", "n0", "z0", "s0"]))
    # more objects than the stacks keep (eXNodeSetCacheMax = 40): the 41st .. are destroyed, the others recycled in LIFO order
    for n in (39, 41, 45):
        ops = []
        for i in range(n):
            ops += [r.choice(firsts), "n%d" % i]
        ops += ["r0"] * n
        for i in range(n):
            ops += [r.choice(["N3", "N5", "N6", "N"]), r.choice("nnl") + str(i)]
        out.append((vals, ops))
    return out


def line_of(tag, vals, ops):
    return "%s|%s|%s" % (tag, ";".join(u16(v) for v in vals), " ".join(ops))


def judge(vals, ops, got):
    """-> None or (index of the failing op, text)"""
    exp = expected(vals, ops)
    toks = got.split(" ") if got else []
    if got in ("docerr", "exception") or len(toks) != len(exp):
        return (exp[-1][0] if exp else 0, "the library answered %r where %d answers were expected" % (got[:80], len(exp)))
    for (k, e), g in zip(exp, toks):
        if e != g:
            return (k, "op %d (%s): the library answers %s, the conversion of the payload held is %s" % (k, ops[k], g, e))
    return None


def run_cases(ctx, cases, impl, model):
    lines = [line_of(tag, vals, ops) for tag, vals, ops in cases]
    rc, ri, raw = core.run_lines_parallel(impl, lines, sep="|")
    rm = {}
    if model:
        rcm, rm, rawm = core.run_lines_parallel(model, lines, sep="|")
    corr, bad = [], []
    for tag, vals, ops in cases:
        got = ri.get(tag)
        if got is None:
            bad.append((tag, vals, ops, len(ops) - 1, "the harness did not answer (crash?)"))
            continue
        ctx.cov["evaluations"] += len(got.split(" ")) if got else 0
        if model:
            ctx.cov["traces_validated_against_impl"] += 1
            if rm.get(tag) != got:
                corr.append({"case": line_of(tag, vals, ops), "impl": got[:300], "model": (rm.get(tag) or "<none>")[:300]})
        j = judge(vals, ops, got)
        if j:
            bad.append((tag, vals, ops, j[0], j[1]))
    return corr, bad


def shrink(impl, vals, ops, k):
    """drop ops (never the failing one) while the same op keeps failing"""
    keep = ops[:k + 1]

    def fails(trial):
        rc, ri, raw = core.run_lines(impl, line_of("s", vals, trial) + "\n", sep="|")
        j = judge(vals, trial, ri.get("s", "exception"))
        return j is not None and j[0] == len(trial) - 1
    if not fails(keep):
        return ops
    i = 0
    while i < len(keep) - 1 and len(keep) > 2:
        trial = keep[:i] + keep[i + 1:]
        # dropping a create / give-back shifts the indices of later ops: only keep trials that still fail at the last op
        if fails(trial):
            keep = trial
        else:
            i += 1
    return keep


def gen_all(ctx, r, n_hist, n_ops, prefix):
    cases = []
    for q in range(n_hist):
        vals = gen_vals(r)
        cases.append(("%s%d" % (prefix, q), vals, gen_history(r, vals, n_ops)))
        ctx.count("cache:random-history")
    for q, (vals, ops) in enumerate(boundary_histories(r)):
        cases.append(("%sb%d" % (prefix, q), vals, ops))
        ctx.count("cache:boundary-history")
    return cases


def corpus_cases(ctx):
    cases = []
    cdir = os.path.join(core.VERIF, "corpus", "C11cache")
    for fn in sorted(os.listdir(cdir)) if os.path.isdir(cdir) else []:
        for k, l in enumerate(open(os.path.join(cdir, fn), encoding="utf-8")):
            if l.startswith("#XOCACHE "):
                tag, vals, ops = parse_line(l[9:].rstrip("\n"))
                cases.append(("c%s_%d" % (fn.split(".")[0][:16], k), vals, ops))
                ctx.count("cache:corpus")
    return cases


def parse_line(l):
    tag, vf, of = l.split("|")
    vals = []
    for t in vf.split(";"):
        if t:
            us = [int(h, 16) for h in t[2:].split(",")] if len(t) > 2 else []
            vals.append(b"".join(struct.pack("<H", u) for u in us).decode("utf-16-le"))
    return tag, vals, [o for o in of.split(" ") if o]


def run_part(ctx):
    broken_before = len(ctx.broken)
    ctx.assumptions.append(
        "cache: DoubleSupport::toDouble / NumberToDOMString are parameters of the machine (any functions; instantiated with property C18's "
        "model for the extracted machine); DOMServices::getNodeData appends the string-value of item(0); every function body the machine "
        "mirrors is pinned token for token by translator/gen_xocache.py; XResultTreeFrag (recycled by StylesheetExecutionContextDefault, "
        "caches of the same design) and the never-recycled kinds (XNodeSetNodeProxy, XStringCached/Reference/Adapter, XToken adapters) are "
        "not in the machine")
    rule = ("cache: histories of createNodeSet/createString/createNumber, the nine member functions asking for the value, and give-backs, "
            "driven against XObjectFactoryDefault directly; distinct = distinct (payload table, op list); non-trivial = an object handed "
            "out from a stack is asked for a value")
    ctx.notes["rule"] = (ctx.notes.get("rule", "") + " | " + rule) if ctx.notes.get("rule") else rule
    ok_lib, liblog = core.build_lib("plain")
    if not ok_lib:
        ctx.broken.append("cache: library does not build from the working tree: " + liblog[-300:])
        return
    proved = ctx.prove(["Properties_C11x.v"], ["GenXoCache"])
    impl, ok_h, hlog = core.build_harness("xocache", "plain")
    if not ok_h:
        ctx.broken.append("cache: harness xocache does not compile against the working tree: " + hlog[-300:])
        return
    model, ok_m, mlog = core.build_model("xoCache")
    if not ok_m:
        ctx.broken.append("cache: model extraction/build failed: " + mlog[-500:])
        model = None
    if model:
        rc, res, raw = core.run_lines(model, "fl|flags\n", sep="|")
        ctx.notes["cache_flags_ok"] = res.get("fl")
        if res.get("fl") != "1":
            try:
                import srcfacts
                facts = srcfacts.GENERATORS["GenXoCache"]()[1]
            except Exception as e:        # AnchorError: already reported by ctx.prove; GenXoCache.v is the last one written
                facts = None
            if facts is not None:
                ctx.broken.append("cache: the shape regenerated from this tree does not pass the guard flags_ok of the theorems "
                                  "(clearCachedValues() must leave nothing cached, release() must call it, set() or the factory must "
                                  "release, XString::set / XNumber::set must clear): %r" % (facts,))
    r = ctx.rng
    wide = ctx.thorough
    cases = corpus_cases(ctx) + gen_all(ctx, r, 2500 if wide else 320, 70 if wide else 45, "h")
    corr, bad = run_cases(ctx, cases, impl, model)
    if (corr or not proved or not model or len(ctx.broken) > broken_before) and not bad and not ctx.thorough:
        ctx.escalated = True
        c2, b2 = run_cases(ctx, gen_all(ctx, r, 3000, 70, "w"), impl, model)
        corr += c2
        bad += b2
    distinct = {(tuple(v), tuple(o)) for t, v, o in cases if any(x[0] == "r" for x in o)}
    ctx.cov["distinct_nontrivial"] = ctx.cov.get("distinct_nontrivial", 0) + len(distinct)
    ctx.cov["samples"] = list(ctx.cov.get("samples", [])) + [line_of(*cases[-1])[:200]]
    if corr:
        ctx.broken.append("correspondence cache: %d histories are answered differently by the extracted machine and the library, e.g. %s" % (
            len(corr), corr[0]))
        ctx.notes["cache_correspondence_mismatches"] = corr[:10]
    if bad:
        bad.sort(key=lambda b: b[3])
        txt = []
        for tag, vals, ops, k, what in bad[:8]:
            small = shrink(impl, vals, ops, k)
            exp = expected(vals, small)
            txt.append("#XOCACHE " + line_of(tag, vals, small))
            txt.append("# %s\n# payload table: %r\n# shortest failing history: %s\n# the cache-less conversions: %s" % (
                what, vals, " ".join(small), " ".join(e for _, e in exp)))
        ctx.violation("cache", "# C11: an XObject handed out by XObjectFactoryDefault answers with something that is not the XPath conversion of "
                               "the value it holds (a cached value of an earlier use?)\n"
                               "# replay: python3 check.py C11 --replay <this file>  (re-runs every #XOCACHE line), or feed the text after "
                               "#XOCACHE to .build/xocache_plain (protocol: head of harness/xocache.cpp)\n" + "\n".join(txt))
    ctx.notes["cache_failures"] = len(bad)
    ctx.notes["cache_histories"] = len(cases)


def replay(ctx, path):
    core.build_lib("plain")
    impl, ok_h, hlog = core.build_harness("xocache", "plain")
    failed = 0
    for l in open(path, encoding="utf-8"):
        if not l.startswith("#XOCACHE "):
            continue
        tag, vals, ops = parse_line(l[9:].rstrip("\n"))
        rc, ri, raw = core.run_lines(impl, line_of(tag, vals, ops) + "\n", sep="|")
        got = ri.get(tag, "exception")
        j = judge(vals, ops, got)
        print("history over %r: %s" % (vals, " ".join(ops)))
        print("   library:     %s" % got)
        print("   conversions: %s" % " ".join(e for _, e in expected(vals, ops)))
        if j:
            print("   FAIL %s" % j[1])
            failed += 1
    print("%d failing history(ies)" % failed)
    return 1 if failed else 0
