(* FormsWrap.v - C05: the wrapper walk numbers a Xerces DOM in pre-order; for a DOM in XPath-normal
   form it presents the same nodes in the same order as the native tree of the DOM's serialisation. *)
From Coq Require Import NArith List Bool Lia ZifyBool ZifyNat ZifyN.
Import ListNotations.
Require Import XV.GenForms XV.FormsDefs XV.FormsModel XV.FormsTree.

Section xnode_ind2.
  Variable Q : xnode -> Prop.
  Hypothesis HE : forall q a kids, Forall Q kids -> Q (XElem q a kids).
  Hypothesis HR : forall nm kids, Forall Q kids -> Q (XEntRef nm kids).
  Hypothesis HT : forall s, Q (XText s).
  Hypothesis HD : forall s, Q (XCData s).
  Hypothesis HC : forall s, Q (XComment s).
  Hypothesis HP : forall t d, Q (XPi t d).
  Hypothesis HY : forall nm k, Q (XDoctype nm k).
  Fixpoint xnode_ind2 (x : xnode) : Q x :=
    let go := fix go (l : list xnode) : Forall Q l :=
                match l with [] => Forall_nil Q | y :: r => Forall_cons y (xnode_ind2 y) (go r) end in
    match x with
    | XElem q a kids => HE q a kids (go kids)
    | XEntRef nm kids => HR nm kids (go kids)
    | XText s => HT s | XCData s => HD s | XComment s => HC s | XPi t d => HP t d | XDoctype nm k => HY nm k
    end.
End xnode_ind2.

Lemma wrap_go_eq : forall kids m,
  (fix go (n : N) (l : list xnode) {struct l} : list wnode * N :=
     match l with
     | [] => ([], n)
     | k :: r => let (k', n') := wrap1 n k in let (r', n'') := go n' r in (k' :: r', n'')
     end) m kids = wrap_list m kids.
Proof. induction kids as [|k r IH]; intro m; [reflexivity|]. cbn [wrap_list]. destruct (wrap1 m k). rewrite IH. reflexivity. Qed.

Lemma wrap1_elem : forall n q a kids,
  wrap1 n (XElem q a kids) =
  (WElem n q (fst (number_attrs (N.succ n) a)) (fst (wrap_list (snd (number_attrs (N.succ n) a)) kids)),
   snd (wrap_list (snd (number_attrs (N.succ n) a)) kids)).
Proof.
  intros. cbn [wrap1]. unfold wrap_attrs_in_start. destruct (number_attrs (N.succ n) a) as [l n1]. rewrite wrap_go_eq.
  cbn [fst snd]. destruct (wrap_list n1 kids); reflexivity.
Qed.

Lemma wrap1_entref : forall n nm kids,
  wrap1 n (XEntRef nm kids) = (WEntRef n nm (fst (wrap_list (N.succ n) kids)), snd (wrap_list (N.succ n) kids)).
Proof. intros. cbn [wrap1]. rewrite wrap_go_eq. destruct (wrap_list (N.succ n) kids); reflexivity. Qed.

Lemma wrap_list_cons : forall n x r,
  wrap_list n (x :: r) = (fst (wrap1 n x) :: fst (wrap_list (snd (wrap1 n x)) r), snd (wrap_list (snd (wrap1 n x)) r)).
Proof. intros; cbn [wrap_list]. destruct (wrap1 n x) as [k' n']. cbn [fst snd]. destruct (wrap_list n' r); reflexivity. Qed.

Lemma seq_ok_nil : forall n, seq_ok n [] n.
Proof. intro; split; cbn; [exact I | lia]. Qed.

Lemma seq_ok_one : forall n, seq_ok n [n] (N.succ n).
Proof. intro; split; cbn; [auto | lia]. Qed.

Lemma seq_ok_entities : forall m a s, seq_ok (a + N.of_nat s) (map (fun j => (a + N.of_nat j)%N) (seq s m)) (a + N.of_nat s + N.of_nat m).
Proof.
  induction m as [|m IH]; intros a s; cbn [seq map].
  - split; cbn; [exact I | lia].
  - destruct (IH a (S s)) as [H1 H2]. split; cbn [incr_from length].
    + split; [reflexivity|]. replace (N.succ (a + N.of_nat s)) with (a + N.of_nat (S s))%N by lia. exact H1.
    + lia.
Qed.

Definition Qx (x : xnode) : Prop := forall n, seq_ok n (wflat1 (fst (wrap1 n x))) (snd (wrap1 n x)).

Lemma wrap_list_seq : forall xs, Forall Qx xs -> forall n, seq_ok n (wflat (fst (wrap_list n xs))) (snd (wrap_list n xs)).
Proof.
  induction 1 as [|x r Hx _ IH]; intro n.
  - apply seq_ok_nil.
  - rewrite wrap_list_cons. cbn [fst snd]. unfold wflat. cbn [flat_map]. eapply seq_ok_app; [apply Hx | apply IH].
Qed.

Lemma Qx_all : forall x, Qx x.
Proof.
  apply xnode_ind2; unfold Qx; intros.
  - rewrite wrap1_elem. cbn [fst snd wflat1]. unfold wrap_attrs_in_start.
    change (n :: map fst (fst (number_attrs (N.succ n) a)) ++ flat_map wflat1 (fst (wrap_list (snd (number_attrs (N.succ n) a)) kids)))
      with ([n] ++ map fst (fst (number_attrs (N.succ n) a)) ++ wflat (fst (wrap_list (snd (number_attrs (N.succ n) a)) kids))).
    eapply seq_ok_app; [apply seq_ok_one|]. eapply seq_ok_app; [| apply wrap_list_seq; assumption].
    destruct (number_attrs (N.succ n) a) as [l n1] eqn:E. apply (number_attrs_ok _ _ _ _ E).
  - rewrite wrap1_entref. cbn [fst snd wflat1].
    change (n :: flat_map wflat1 (fst (wrap_list (N.succ n) kids))) with ([n] ++ wflat (fst (wrap_list (N.succ n) kids))).
    eapply seq_ok_app; [apply seq_ok_one | apply wrap_list_seq; assumption].
  - apply seq_ok_one.
  - apply seq_ok_one.
  - apply seq_ok_one.
  - apply seq_ok_one.
  - cbn [wrap1 fst snd wflat1].
    change (n :: map (fun j => (N.succ n + N.of_nat j)%N) (seq 0 (N.to_nat k))) with ([n] ++ map (fun j => (N.succ n + N.of_nat j)%N) (seq 0 (N.to_nat k))).
    eapply seq_ok_app; [apply seq_ok_one|].
    pose proof (seq_ok_entities (N.to_nat k) (N.succ n) 0) as H.
    replace (N.succ n + N.of_nat 0)%N with (N.succ n) in H by lia.
    replace (N.succ n + N.of_nat (N.to_nat k))%N with (N.succ n + k)%N in H by lia. exact H.
Qed.

Lemma wrap_preorder_from : forall xs n, seq_ok n (wflat (fst (wrap_list n xs))) (snd (wrap_list n xs)).
Proof. intros. apply wrap_list_seq. apply Forall_forall. intros; apply Qx_all. Qed.

Lemma wrap_preorder : forall xs, incr_from wrap_first_index (wflat (wrap xs)).
Proof. intro xs. unfold wrap. apply (wrap_preorder_from xs wrap_first_index). Qed.

(* the wrapper presents exactly the DOM's nodes, in the DOM's order *)
Definition Sx (x : xnode) : Prop := forall n, wstrip (fst (wrap1 n x)) = x2t x.

Lemma wrap_list_strip : forall xs, Forall Sx xs -> forall n, map wstrip (fst (wrap_list n xs)) = map x2t xs.
Proof.
  induction 1 as [|x r Hx _ IH]; intro n; [reflexivity|].
  rewrite wrap_list_cons. cbn [fst map]. rewrite Hx, IH. reflexivity.
Qed.

Lemma Sx_all : forall x, Sx x.
Proof.
  apply xnode_ind2; unfold Sx; intros; try reflexivity.
  - rewrite wrap1_elem. cbn [fst wstrip x2t]. rewrite wrap_list_strip by assumption.
    destruct (number_attrs (N.succ n) a) as [l n1] eqn:E. destruct (number_attrs_ok _ _ _ _ E) as [_ H1]. cbn [fst]. rewrite H1. reflexivity.
  - rewrite wrap1_entref. reflexivity.
Qed.

Lemma wrap_strip : forall xs, map wstrip (wrap xs) = map x2t xs.
Proof. intro xs. unfold wrap. apply wrap_list_strip. apply Forall_forall. intros; apply Sx_all. Qed.

(** the native tree of a canonical-attribute tree, with indexes and the xmlns:xml attribute erased, is the tree *)
Lemma str_eqb_eq : forall a b, str_eqb a b = true -> a = b.
Proof.
  induction a as [|x a IH]; destruct b as [|y b]; cbn [str_eqb]; intro H; try discriminate; [reflexivity|].
  apply andb_prop in H; destruct H as [H1 H2]. apply N.eqb_eq in H1. rewrite (IH _ H2), H1. reflexivity.
Qed.

Lemma attrs_eqb_eq : forall a b, attrs_eqb a b = true -> a = b.
Proof.
  induction a as [|[x1 x2] a IH]; destruct b as [|[y1 y2] b]; cbn [attrs_eqb fst snd]; intro H; try discriminate; [reflexivity|].
  apply andb_prop in H; destruct H as [H1 H3]. apply andb_prop in H1; destruct H1 as [H1 H2].
  rewrite (str_eqb_eq _ _ H1), (str_eqb_eq _ _ H2), (IH _ H3). reflexivity.
Qed.

Lemma filter_keep : forall (a : list attr), has_xml_ns a = false ->
  filter (fun x => negb (str_eqb (fst x) s_xmlns_xml)) a = a.
Proof.
  induction a as [|x a IH]; intro H; [reflexivity|]. cbn [has_xml_ns existsb] in H. apply orb_false_elim in H; destruct H as [H1 H2].
  set (f := fun x0 : str * str => negb (str_eqb (fst x0) s_xmlns_xml)) in *.
  change (filter f (x :: a)) with (if f x then x :: filter f a else filter f a).
  assert (Hx : f x = true) by (unfold f; rewrite H1; reflexivity). rewrite Hx, IH; [reflexivity | exact H2].
Qed.

Lemma strip_attrs : forall first a n, attrs_canonical a = true ->
  filter (fun x => negb (str_eqb (fst x) s_xmlns_xml)) (map snd (fst (number_attrs n (order_attrs first a)))) = a.
Proof.
  intros first a n H. unfold attrs_canonical in H. apply andb_prop in H; destruct H as [H1 H2].
  apply attrs_eqb_eq in H2. destruct (has_xml_ns a) eqn:Ex; [discriminate|].
  destruct (number_attrs n (order_attrs first a)) as [l n1] eqn:E. destruct (number_attrs_ok _ _ _ _ E) as [_ H3]. cbn [fst]. rewrite H3.
  unfold order_attrs in H2 |- *. rewrite Ex. cbn [negb andb app] in H2. rewrite H2.
  rewrite filter_app.
  match goal with |- ?l1 ++ ?l2 = _ => replace l2 with a by (symmetry; exact (filter_keep a Ex)) end.
  destruct first; reflexivity.
Qed.

Definition Tx (t : tree) : Prop := forall first n, tattrs_canonical t = true -> strip true (fst (number first n t)) = t.

Lemma number_list_strip : forall ts, Forall Tx ts -> forall first n, forallb tattrs_canonical ts = true ->
  map (strip true) (fst (number_list first n ts)) = ts.
Proof.
  induction 1 as [|t r Ht _ IH]; intros first n Hc; [reflexivity|].
  cbn [forallb] in Hc. apply andb_prop in Hc; destruct Hc as [H1 H2].
  rewrite number_list_cons. cbn [fst map]. rewrite Ht, IH by assumption. reflexivity.
Qed.

Lemma Tx_all : forall t, Tx t.
Proof.
  apply tree_ind2; unfold Tx; intros; try reflexivity.
  cbn [tattrs_canonical] in H0. apply andb_prop in H0; destruct H0 as [H1 H2].
  rewrite number_elem. cbn [fst strip andb]. rewrite strip_attrs by assumption. rewrite number_list_strip by assumption. reflexivity.
Qed.

Lemma x2t_plain_events : forall xs, xnormal xs = true ->
  build_sax (events_of_list (map x2t xs)) = Some (fst (number_list true first_index (map x2t xs))).
Proof.
  intros xs H. unfold xnormal in H. apply andb_prop in H; destruct H as [_ H]. apply build_canonical, H.
Qed.

Lemma sax_of_plain_list : forall xs, Forall (fun x => xplain x = true -> sax_of x = events_of (x2t x)) xs ->
  forallb xplain xs = true -> flat_map sax_of xs = flat_map events_of (map x2t xs).
Proof.
  induction 1 as [|x r Hx _ IH]; intro Hp; [reflexivity|].
  cbn [forallb] in Hp. apply andb_prop in Hp; destruct Hp as [H1 H2].
  cbn [flat_map map]. rewrite Hx, IH by assumption. reflexivity.
Qed.

Lemma sax_of_plain : forall x, xplain x = true -> sax_of x = events_of (x2t x).
Proof.
  apply (xnode_ind2 (fun x => xplain x = true -> sax_of x = events_of (x2t x))); intros; try reflexivity; try discriminate.
  cbn [xplain] in H0. cbn [sax_of x2t events_of]. rewrite (sax_of_plain_list kids H H0). reflexivity.
Qed.

Lemma sax_of_list_plain : forall xs, forallb xplain xs = true -> sax_of_list xs = events_of_list (map x2t xs).
Proof. intros xs H. apply sax_of_plain_list; [apply Forall_forall; intros; apply sax_of_plain; assumption | exact H]. Qed.

Lemma wrap_eq_build : forall xs, xnormal xs = true ->
  exists d, build_sax (sax_of_list xs) = Some d
            /\ map (strip true) d = map wstrip (wrap xs)
            /\ incr_from first_index (flat d)
            /\ incr_from wrap_first_index (wflat (wrap xs)).
Proof.
  intros xs H. exists (fst (number_list true first_index (map x2t xs))).
  assert (Hpl : forallb xplain xs = true).
  { unfold xnormal in H. apply andb_prop in H; destruct H as [H _]. apply andb_prop in H; tauto. }
  rewrite (sax_of_list_plain xs Hpl).
  pose proof (x2t_plain_events xs H) as Hb. split; [exact Hb|]. split; [|split].
  - rewrite wrap_strip. unfold xnormal in H. apply andb_prop in H; destruct H as [H _]. apply andb_prop in H; destruct H as [_ H].
    apply number_list_strip; [apply Forall_forall; intros; apply Tx_all | exact H].
  - eapply index_preorder; exact Hb.
  - apply wrap_preorder.
Qed.
