"""C02, the fragment-comparison part: variables holding result tree fragments compared with node-sets, strings,
numbers, booleans and other fragments by = != < <= > >=, in whole transformations (vlib/xsltrun.py).

XSLT 1.0 section 11.1: "A result tree fragment is treated equivalently to a node-set that contains just a single root
node. [...] When a permitted operation is performed on a result tree fragment, it is performed exactly as it would be
on the equivalent node-set."  The expected value of every comparison is therefore computed here, in Python, from the
rules of XPath 1.0 section 3.4 with the fragment replaced by a one-node node-set whose only string-value is the
concatenation of the fragment's text (compare() below is a transcription of those rules and knows nothing of the
library or of the Coq models).  A variable-binding element with empty content is, by XSLT 11.2, the empty STRING.

The random.Random of this part is seeded from ctx.rng by the caller after every other stream of C02 has drawn."""
import json, os, random, re, time
from xml.sax.saxutils import escape
from vlib import core, xsltrun

XSL = "http://www.w3.org/1999/XSL/Transform"
OPS = ["=", "!=", "<", "<=", ">", ">="]
NUMBER = re.compile(r"^[ \t\r\n]*-?([0-9]+(\.[0-9]*)?|\.[0-9]+)[ \t\r\n]*$")

# string-values: groups of different strings that convert to the same number, strings that are not numbers, the empty string
POOL = ["1", "1.0", "01", " 1 ", "1.", "1.00", "+1", "1e0", "0", "0.0", "-0", "00", ".0", "", " ", "abc", "ABC", "abc ",
        "NaN", "Infinity", "-Infinity", "-1", "-1.0", "2", "2.0", "10", "9", "0.5", ".5", "0.50", "true", "false", "1 1", "--1",
        "12345678901234567890", "12345678901234567891", "0.1", "0.10000000000000001"]


def to_number(s):
    return float(s.strip(" \t\r\n")) if NUMBER.match(s) else float("nan")


def num_of(v):
    k, x = v
    if k == "n":
        return x
    if k == "b":
        return 1.0 if x else 0.0
    if k == "s":
        return to_number(x)
    raise ValueError(k)


def bool_of(v):
    k, x = v
    if k == "b":
        return x
    if k == "n":
        return not (x != x or x == 0)
    if k == "s":
        return len(x) > 0
    return len(x) > 0            # node-set


def str_of(v):
    k, x = v
    if k == "s":
        return x
    if k == "b":
        return "true" if x else "false"
    raise ValueError("string() of a number is never needed by section 3.4 once numbers are compared as numbers")


def num_cmp(op, a, b):
    # IEEE 754: every comparison with a NaN is false except !=
    return {"=": a == b, "!=": a != b, "<": a < b, "<=": a <= b, ">": a > b, ">=": a >= b}[op]


def compare(op, a, b):
    """XPath 1.0 section 3.4.  a, b: ("ns", [string-values]) | ("s", str) | ("n", float) | ("b", bool)"""
    eq = op in ("=", "!=")
    if a[0] == "ns" and b[0] == "ns":
        if eq:
            return any((x == y) == (op == "=") for x in a[1] for y in b[1])
        return any(num_cmp(op, to_number(x), to_number(y)) for x in a[1] for y in b[1])
    if a[0] == "ns" or b[0] == "ns":
        ns, other, ns_left = (a, b, True) if a[0] == "ns" else (b, a, False)

        def oriented(f, x, y):
            return f(op, x, y) if ns_left else f(op, y, x)
        if other[0] == "b":
            x, y = bool_of(ns), other[1]
            if eq:
                return (x == y) == (op == "=")
            return oriented(num_cmp, 1.0 if x else 0.0, 1.0 if y else 0.0)
        if other[0] == "n":
            return any(oriented(num_cmp, to_number(x), other[1]) for x in ns[1])
        if eq:
            return any((x == other[1]) == (op == "=") for x in ns[1])
        return any(oriented(num_cmp, to_number(x), to_number(other[1])) for x in ns[1])
    if eq:
        if a[0] == "b" or b[0] == "b":
            return (bool_of(a) == bool_of(b)) == (op == "=")
        if a[0] == "n" or b[0] == "n":
            return num_cmp(op, num_of(a), num_of(b))
        return (str_of(a) == str_of(b)) == (op == "=")
    return num_cmp(op, num_of(a), num_of(b))


# ---------------------------------------------------------------------------------------------------------------
# operands.  Each: {"x": XPath text, "v": value for compare(), "k": class letter, "vars": [variable declarations]}

def lit(s):
    return "'%s'" % s if "'" not in s else '"%s"' % s


def split_text(rng, s):
    if len(s) < 2 or rng.random() < 0.5:
        return [s]
    i = rng.randrange(1, len(s))
    # a whitespace-only text node of the stylesheet is stripped (XSLT 3.4): never cut one off
    if not s[:i].strip(" \t\r\n") or not s[i:].strip(" \t\r\n"):
        return [s]
    return [s[:i], s[i:]]


def fragment_body(rng, s):
    """content of a variable-binding element whose result tree fragment has the string-value s (never empty content)"""
    forms = ["text", "elem", "valueof", "xsltext", "nested", "mixed"] if s.strip(" \t\r\n") else ["valueof", "xsltext"]
    if s == "":
        forms = ["emptyelem", "comment", "valueof"]
    form = rng.choice(forms)
    e = escape(s)
    if form == "text":
        return e, form
    if form == "elem":
        return "<a>%s</a>" % "".join("<b>%s</b>" % escape(p) if rng.random() < 0.5 else escape(p) for p in split_text(rng, s)), form
    if form == "valueof":
        return '<xsl:value-of select="%s"/>' % escape(lit(s), {'"': "&quot;"}), form
    if form == "xsltext":
        return "<xsl:text>%s</xsl:text>" % e, form
    if form == "nested":
        ps = split_text(rng, s)
        return "".join("<p%d>%s</p%d>" % (i, escape(p), i) for i, p in enumerate(ps)) + '<xsl:comment>1</xsl:comment><xsl:processing-instruction name="pi">1</xsl:processing-instruction>', form
    if form == "mixed":
        ps = split_text(rng, s)
        return escape(ps[0]) + "".join("<i>%s</i>" % escape(p) for p in ps[1:]) + '<e at="7"/>', form
    if form == "emptyelem":
        return "<a/>", form
    if form == "comment":
        return "<xsl:comment>9</xsl:comment>", form
    raise ValueError(form)


class Sheet:
    """one transformation: a source document, variable declarations, a list of comparisons"""

    def __init__(self, rng):
        self.rng = rng
        self.elems = []        # string-values of /doc/* children, named c0, c1, ...; grouped by a class attribute
        self.groups = {}       # group name -> [string-values]
        self.decls = []        # (name, xml text of the declaration)
        self.items = []        # dicts

    def fragment(self, s, form=None):
        name = "f%d" % len(self.decls)
        if form == "text":
            body, form = escape(s), "text"
        else:
            body, form = fragment_body(self.rng, s)
        self.decls.append((name, '<xsl:variable name="%s">%s</xsl:variable>' % (name, body)))
        return {"x": "$" + name, "v": ("ns", [s]), "k": "F", "form": form}

    def empty_content(self):
        name = "f%d" % len(self.decls)
        self.decls.append((name, '<xsl:variable name="%s"/>' % name if self.rng.random() < 0.5 else '<xsl:variable name="%s">  </xsl:variable>' % name))
        return {"x": "$" + name, "v": ("s", ""), "k": "E", "form": "empty-content"}

    def nodeset(self, values, via_var=None):
        g = "g%d" % len(self.groups)
        self.groups[g] = list(values)
        x = "/doc/%s" % g if values else "/doc/none"
        if via_var if via_var is not None else self.rng.random() < 0.3:
            name = "n%d" % len(self.decls)
            self.decls.append((name, '<xsl:variable name="%s" select="%s"/>' % (name, x)))
            x = "$" + name
        return {"x": x, "v": ("ns", list(values)), "k": "NS"}

    def string(self, s, via_var=None):
        x = lit(s)
        if via_var if via_var is not None else self.rng.random() < 0.3:
            name = "s%d" % len(self.decls)
            self.decls.append((name, '<xsl:variable name="%s" select="%s"/>' % (name, escape(x, {'"': "&quot;"}))))
            x = "$" + name
        return {"x": x, "v": ("s", s), "k": "S"}

    def number(self, text, via_var=None):
        v = {"NaN": float("nan"), "Inf": float("inf"), "-Inf": float("-inf")}.get(text)
        x = {"NaN": "number('x')", "Inf": "(1 div 0)", "-Inf": "(-1 div 0)"}.get(text, text)
        if v is None:
            v = float(text)
        if via_var if via_var is not None else self.rng.random() < 0.3:
            name = "d%d" % len(self.decls)
            self.decls.append((name, '<xsl:variable name="%s" select="%s"/>' % (name, x)))
            x = "$" + name
        return {"x": x, "v": ("n", v), "k": "N"}

    def boolean(self, b, via_var=None):
        x = "true()" if b else "false()"
        if via_var if via_var is not None else self.rng.random() < 0.3:
            name = "b%d" % len(self.decls)
            self.decls.append((name, '<xsl:variable name="%s" select="%s"/>' % (name, x)))
            x = "$" + name
        return {"x": x, "v": ("b", b), "k": "B"}

    def add(self, a, op, b):
        self.items.append({"a": a, "op": op, "b": b, "expr": "%s %s %s" % (a["x"], op, b["x"]),
                           "expect": compare(op, a["v"], b["v"])})

    def source(self, used_in=None):
        """used_in: a stylesheet; only the groups it mentions are kept (replay files)"""
        return "<doc>%s</doc>" % "".join("<%s>%s</%s>" % (g, escape(v), g) if i % 2 == 0 or not v.strip() else "<%s><t>%s</t></%s>" % (g, escape(v), g)
                                         for g in sorted(self.groups, key=lambda g: int(g[1:])) if used_in is None or re.search(r"/doc/%s\b" % g, used_in)
                                         for i, v in enumerate(self.groups[g]))

    def sheet(self, only=None, local=True):
        items = self.items if only is None else [self.items[only]]
        used = set(m for it in items for m in re.findall(r"\$([a-z][0-9]+)", it["expr"]))
        decls = [d for n, d in self.decls if n in used]
        top = [d for i, d in enumerate(decls) if not local or i % 2 == 0]
        loc = [d for i, d in enumerate(decls) if local and i % 2 == 1]
        body = "".join('<xsl:value-of select="%s"/><xsl:text>;</xsl:text>' % escape(it["expr"], {'"': "&quot;"}) for it in items)
        return ('<xsl:stylesheet version="1.0" xmlns:xsl="%s"><xsl:output method="text"/>%s<xsl:template match="/">%s%s</xsl:template></xsl:stylesheet>'
                % (XSL, "".join(top), "".join(loc), body))

    def expected_output(self, only=None):
        items = self.items if only is None else [self.items[only]]
        return "".join(("true" if it["expect"] else "false") + ";" for it in items)


def numeric_twins(s):
    n = to_number(s)
    return [t for t in POOL if t != s and to_number(t) == n]


def directed_sheets(rng):
    """the boundary stream: for every operator, a fragment against each other type of operand, with the string-values
    chosen at the case splits of section 3.4 (same number / different strings, not a number, empty, boolean coercions)"""
    out = []
    # 1. fragment x node-set, = and != : equal strings, numerically equal but different strings, non-numbers, empty sets
    sh = Sheet(rng)
    for fs, nvals in [("1.0", ["1"]), ("1", ["1.0"]), ("1", ["1"]), ("1.0", ["1.0"]), ("01", ["1", "2"]), ("0", ["-0"]), ("0", ["0.0", "abc"]),
                      (" 1 ", ["1"]), ("abc", ["abc"]), ("abc", ["ABC"]), ("", [""]), ("", ["0"]), ("1.0", []), ("abc", []), ("2", ["1", "2.0", "2"]),
                      ("NaN", ["NaN"]), ("Infinity", ["Infinity"]), (".5", ["0.5"]), ("12345678901234567890", ["12345678901234567891"]),
                      ("0.1", ["0.10000000000000001"])]:
        for form in ("text", None):
            f = sh.fragment(fs, form)
            for via in (False, True):
                n = sh.nodeset(nvals, via_var=via)
                for op in OPS:
                    sh.add(n, op, f)
                    sh.add(f, op, n)
    out.append(sh)
    # 2. fragment x boolean / number / string / fragment / empty-content variable, every operator, both orders
    sh = Sheet(rng)
    for fs in ["0", "1", "1.0", "", "abc", "-1", "2", "NaN", " ", "true", "false"]:
        f = sh.fragment(fs)
        others = [sh.boolean(True, False), sh.boolean(False, False), sh.boolean(True, True), sh.boolean(False, True),
                  sh.number("0", False), sh.number("1", False), sh.number("1", True), sh.number("NaN", False), sh.number("Inf", False), sh.number("-1", False),
                  sh.string("1", False), sh.string("1.0", False), sh.string(fs, False), sh.string(fs, True), sh.string("", False), sh.string("abc", False),
                  sh.fragment("1"), sh.fragment("1.0"), sh.fragment(fs), sh.fragment(""), sh.empty_content()]
        for o in others:
            for op in OPS:
                sh.add(f, op, o)
                sh.add(o, op, f)
    out.append(sh)
    return out


def random_sheet(rng, n_items):
    sh = Sheet(rng)
    frags = []
    for _ in range(rng.randint(3, 6)):
        frags.append(sh.fragment(rng.choice(POOL)))
    if rng.random() < 0.3:
        frags.append(sh.empty_content())
    for _ in range(n_items):
        f = rng.choice(frags)
        fs = f["v"][1][0] if f["v"][0] == "ns" else f["v"][1]
        twins = numeric_twins(fs)

        def near():
            r = rng.random()
            if r < 0.35 and twins:
                return rng.choice(twins)
            if r < 0.55:
                return fs
            return rng.choice(POOL)
        kind = rng.choice(["NS", "NS", "NS", "F", "S", "N", "B"])
        if kind == "NS":
            o = sh.nodeset([near() for _ in range(rng.choice([0, 1, 1, 1, 2, 3]))])
        elif kind == "F":
            o = sh.fragment(near()) if rng.random() < 0.6 else rng.choice(frags)
        elif kind == "S":
            o = sh.string(near())
        elif kind == "N":
            n = to_number(near())
            o = sh.number("NaN" if n != n else "Inf" if n == float("inf") else "-Inf" if n == float("-inf") else rng.choice(["0", "1", "2", "-1", "0.5", "10", "1.0", "00.50"]))
        else:
            o = sh.boolean(rng.random() < 0.5)
        op = rng.choice(OPS)
        if rng.random() < 0.5:
            sh.add(f, op, o)
        else:
            sh.add(o, op, f)
    return sh


def classify(ctx, it):
    a, b = it["a"], it["b"]
    ks = sorted([a["k"], b["k"]])
    ctx.count("rtfcmp %s~%s %s" % (ks[0], ks[1], "eq" if it["op"] in ("=", "!=") else "rel"))
    if a["v"][0] == "ns" and b["v"][0] == "ns" and it["op"] in ("=", "!="):
        if any(x != y and to_number(x) == to_number(y) for x in a["v"][1] for y in b["v"][1]):
            ctx.count("rtfcmp same number, different strings (= / !=)")


def replay_rows(sh, bad):
    rows = []
    for i, got in bad:
        it = sh.items[i]
        rows.append("# %s : library %s, section 3.4 with the fragment as a one-node node-set prescribes %s\n%s" % (
            it["expr"], got, "true" if it["expect"] else "false",
            json.dumps({"rtfcmp": 1, "source": sh.source(used_in=sh.sheet(only=i)), "sheet": sh.sheet(only=i), "expr": it["expr"], "expect": sh.expected_output(only=i)}, ensure_ascii=False)))
    return rows


def run_part(ctx, rng=None):
    t0 = time.time()
    rng = rng or random.Random(ctx.rng.getrandbits(64))
    rule = ("rtfcmp: whole transformations; a variable holding a result tree fragment (text, elements, xsl:value-of, xsl:text, comments; top-level and "
            "local) compared by = != < <= > >= in both orders with a node-set (0-3 nodes, direct or through a variable), a string, a number, a boolean, "
            "another fragment, an empty-content variable; string-values drawn from groups of different strings with the same number; expected = "
            "XPath 3.4 with the fragment as a one-node node-set (XSLT 11.1)")
    ctx.notes["rule"] = (ctx.notes.get("rule", "") + " | " + rule) if ctx.notes.get("rule") else rule
    ok_lib, liblog = core.build_lib("plain")
    if not ok_lib:
        ctx.broken.append("rtfcmp: library does not build from the working tree: " + liblog[-300:])
        return
    exe, ok_h, hlog = xsltrun.build()
    if not ok_h:
        ctx.broken.append("rtfcmp: harness xslt does not compile against the working tree: " + hlog[-300:])
        return
    sheets = directed_sheets(rng)
    n_sheets, n_items = (60, 40) if not ctx.thorough else (600, 60)
    sheets += [random_sheet(rng, n_items) for _ in range(n_sheets)]
    cases = [{"id": "q%d" % i, "sheet": sh.sheet(local=(i % 2 == 0)), "source": sh.source()} for i, sh in enumerate(sheets)]
    res = xsltrun.run(cases, exe=exe)
    rows, n_cmp, n_bad = [], 0, 0
    for i, sh in enumerate(sheets):
        for it in sh.items:
            classify(ctx, it)
        n_cmp += len(sh.items)
        r = res["q%d" % i]
        if r[0] != "ok":
            n_bad += 1
            rows.append("# the transformation %s\n%s" % ("crashed" if r[0] == "crash" else "failed: " + r[2][:200].replace("\n", " "),
                                                        json.dumps({"rtfcmp": 1, "source": sh.source(), "sheet": cases[i]["sheet"], "expect": sh.expected_output()}, ensure_ascii=False)))
            continue
        got = r[1].decode("utf-8", "replace").split(";")[:-1]
        if len(got) != len(sh.items):
            n_bad += 1
            rows.append("# the output has %d values for %d comparisons\n%s" % (len(got), len(sh.items),
                        json.dumps({"rtfcmp": 1, "source": sh.source(), "sheet": cases[i]["sheet"], "expect": sh.expected_output()}, ensure_ascii=False)))
            continue
        bad = [(k, g) for k, (g, it) in enumerate(zip(got, sh.items)) if g != ("true" if it["expect"] else "false")]
        n_bad += len(bad)
        bad.sort(key=lambda kg: len(sh.items[kg[0]]["expr"]))
        rows += replay_rows(sh, bad[:12])
    ctx.notes["rtfcmp"] = {"transformations": len(sheets), "comparisons": n_cmp, "deviations": n_bad, "seconds": round(time.time() - t0, 1)}
    ctx.cov["rtfcmp_comparisons"] = n_cmp
    if rows:
        ctx.violation("rtfcmp", "# C02 rtfcmp: comparisons with a result tree fragment whose value differs from XPath 1.0 section 3.4 applied to the fragment\n"
                      "# as a node-set of one root node (XSLT 1.0 section 11.1); %d of %d comparisons deviate\n"
                      "# replay: python3 check.py C02 --replay <this file>  (each JSON line is one transformation; 'expect' is the prescribed output)\n"
                      % (n_bad, n_cmp) + "\n".join(rows[:40]))


def is_replay(path):
    with open(path, encoding="utf-8") as f:
        return any(l.startswith('{"rtfcmp"') for l in f)


def replay(ctx, path):
    """every JSON line {"source", "sheet", "expect"} is transformed by the rebuilt library and its output compared with 'expect'"""
    core.build_lib("plain")
    exe, ok, log = xsltrun.build()
    rows = [json.loads(l) for l in open(path, encoding="utf-8") if l.startswith('{"rtfcmp"')]
    res = xsltrun.run([{"id": "r%d" % i, "sheet": r["sheet"], "source": r["source"]} for i, r in enumerate(rows)], exe=exe)
    bad = 0
    for i, row in enumerate(rows):
        r = res["r%d" % i]
        got = r[1].decode("utf-8", "replace") if r[0] == "ok" else repr(r)
        ok_ = got == row["expect"]
        bad += 0 if ok_ else 1
        print("%s %s: library %s, expected %s" % ("PASS" if ok_ else "FAIL", row.get("expr", "(whole sheet)"), got[:200], row["expect"][:200]))
    print("replay: %d of %d transformations deviate" % (bad, len(rows)))
    return 1 if bad else 0
