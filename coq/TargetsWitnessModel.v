(* C05 part "targets": concrete witnesses - where a target deviates from the XPath-data-model tree (refutations of the
   unguarded statements) and examples showing that the guards of the general theorems are satisfiable. *)
From Coq Require Import List NArith Bool.
Import ListNotations.
Require Import XV.GenTargets XV.TargetsDefs XV.TargetsModel XV.TargetsSpecModel XV.TargetsAgreeModel.

Definition s_a : str := [97%N].
Definition s_k : str := [107%N].
Definition s_x : str := [120%N].
Definition s_y : str := [121%N].
Definition s_z : str := [122%N].
Definition s_sp : str := [32%N].

(* <a>x<![CDATA[y]]>z</a> *)
Definition w_cdata : list item := [IElem s_a [] [IChars s_x; ICdata s_y; IChars s_z]].
(* " " <a/> *)
Definition w_topws : list item := [IChars s_sp; IElem s_a [] []].
(* <a xmlns="x"/> with a prefix resolver that binds nothing *)
Definition w_xmlns : list item := [IElem s_a [(xmlns_name, s_x)] []].
(* <a k="x" k="y"/> (two entries of the same name in the AttributeList) *)
Definition w_dup : list item := [IElem s_a [(s_k, s_x); (s_k, s_y)] []].
(* <a>x<?k y?>z</a> : text before a processing instruction (the flush site of seeded/C05_d) *)
Definition w_pi : list item := [IElem s_a [] [IChars s_x; IPI s_k s_y; IChars s_z]].

(* K-C05t-1: with the no-op cdata() the source-tree target loses the text of a cdata event *)
Lemma source_tree_cdata_lost : s_cdata_is_characters = false ->
  run_target STREE MFrag None (script w_cdata) = Some [TElem s_a [] [] [TText (s_x ++ s_z)]] /\
  den MFrag None w_cdata = [TElem s_a [] [] [TText (s_x ++ s_y ++ s_z)]].
Proof. intro H. split; [|reflexivity]. cbv -[s_cdata_is_characters]. rewrite H. reflexivity. Qed.

Lemma source_tree_cdata_refuted : s_cdata_is_characters = false ->
  run_target STREE MFrag None (script w_cdata) <> Some (den MFrag None w_cdata).
Proof. intro H. destruct (source_tree_cdata_lost H) as [E1 E2]. rewrite E1, E2. intro E. discriminate E. Qed.

(* with the repaired cdata() (= characters) the same script gives the denoted tree *)
Lemma source_tree_cdata_repaired : s_cdata_is_characters = true ->
  run_target STREE MFrag None (script w_cdata) = Some (den MFrag None w_cdata).
Proof. intro H. cbv -[s_cdata_is_characters]. rewrite H. reflexivity. Qed.

(* the Xerces target keeps a CDATA section as a node of its own (the DOM's representation; the text view is the same) *)
Lemma xerces_cdata_node :
  run_target XDOM MFrag None (script w_cdata) = Some [TElem s_a [] [] [TText s_x; TCdata s_y; TText s_z]].
Proof. reflexivity. Qed.

Lemma xerces_cdata_refuted : run_target XDOM MFrag None (script w_cdata) <> Some (den MFrag None w_cdata).
Proof. rewrite xerces_cdata_node. intro E. discriminate E. Qed.

(* the Xerces target keeps white space outside the document element as a child of the document *)
Lemma xerces_top_ws_refuted :
  run_target XDOM MDoc None (script w_topws) = Some [TText s_sp; TElem s_a [] [] []] /\
  run_target STREE MDoc None (script w_topws) = Some (den MDoc None w_topws) /\
  den MDoc None w_topws = [TElem s_a [] [] []].
Proof. repeat split; reflexivity. Qed.

(* namespace-aware creation: the attribute xmlns is in the xmlns namespace for the Xerces target, in none for the source tree *)
Lemma xmlns_attr_refuted :
  run_target XDOM MFrag (Some []) (script w_xmlns) = Some [TElem s_a [] [(xmlns_name, xmlns_uri, s_x)] []] /\
  run_target STREE MFrag (Some []) (script w_xmlns) = Some [TElem s_a [] [(xmlns_name, [], s_x)] []].
Proof. split; reflexivity. Qed.

(* duplicate names in the AttributeList: setAttribute replaces, createAttributes keeps both *)
Lemma dup_attr_refuted :
  run_target XDOM MFrag None (script w_dup) = Some [TElem s_a [] [(s_k, [], s_y)] []] /\
  run_target STREE MFrag None (script w_dup) = Some [TElem s_a [] [(s_k, [], s_x); (s_k, [], s_y)] []].
Proof. split; reflexivity. Qed.

(* guards are satisfiable *)
Lemma ex_guards :
  top_ok XDOM MDoc w_pi = true /\ top_ok STREE MDoc w_pi = true /\ forallb plain w_pi = true /\
  forallb attrs_distinct w_pi = true /\ top_plain MDoc w_pi = true /\
  top_ok XDOM MDoc w_topws = true /\ top_ok STREE MDoc w_cdata = true.
Proof. repeat split; reflexivity. Qed.

Lemma ex_pi_tree :
  run_target XDOM MDoc None (script w_pi) = Some [TElem s_a [] [] [TText s_x; TPI s_k s_y; TText s_z]] /\
  run_target STREE MDoc None (script w_pi) = Some [TElem s_a [] [] [TText s_x; TPI s_k s_y; TText s_z]].
Proof. split; reflexivity. Qed.

Lemma ex_chunk : chunk_eq [EvStartDoc; EvChars (s_x ++ s_y); EvEndDoc] [EvStartDoc; EvChars s_x; EvChars []; EvChars s_y; EvEndDoc].
Proof.
  apply ce_cons. eapply ce_trans; [apply ce_split|]. apply ce_cons. apply ce_sym. apply ce_empty.
Qed.

Lemma ex_structural : structural XDOM MDoc true KPI = true /\ structural STREE MFrag true KIws = true /\
  structural STREE MDoc true KIws = false.
Proof. repeat split; reflexivity. Qed.
