"""C10 part "currule": reference evaluator of the generated programs straight from XSLT 1.0
sections 5.5 (which rule), 5.6 (current template rule, xsl:apply-imports), 5.8 (built-in rules), 6 (named templates)
and 11.4 (top-level variables).  Independent of the Coq model and of the library.

  * the current template rule is a parameter handed down the instantiation: a rule chosen by matching becomes
    current for its template; xsl:for-each content gets null; xsl:call-template (any form) hands its own on;
    the content of a top-level variable is instantiated with null (no rule was chosen for it) and the root node
    as current node, once;
  * xsl:apply-imports with a null current rule is an error; otherwise the section 5.5 maximum of
    (import precedence, priority, position) among the rules imported into the stylesheet module of the current rule,
    same mode, pattern matching the current node; none: the built-in rule.
  * xsl:apply-templates with xsl:with-param (stream wp): the content of xsl:with-param is instantiated once, where the
    instruction stands: same current node, same current template rule, same mode as the surrounding template (not the
    mode the instruction names); every rule chosen for a selected node prints the value first (all rules of such a case
    declare the parameter); a built-in rule does not (the built-in rules of section 5.8 are written without xsl:param and
    their xsl:apply-templates without xsl:with-param); xsl:apply-imports hands no parameter on.  An error inside the content when no selected node
    has a rule of its own is not decided here (info["grey"]): a processor need not instantiate a parameter nobody receives.
evaluate(case) -> ("ok", text, info) | ("err", reason, info); info["class_global"]: a top-level variable was first
used where the current rule is not null, or its content is nothing but a parameter-less xsl:call-template (the two
places where the library is known to differ)."""
from vlib.currule_gen import pat_matches, default_priority


class XsltError(Exception):
    pass


class TooLong(Exception):
    pass


def levels_under(m):
    """modules of the import tree below (and including) m, in increasing import precedence (post-order)"""
    out = []
    for c in m["imports"]:
        out += levels_under(c)
    out.append(m)
    return out


def choose(case, m, only_imports, mode, i):
    levels = levels_under(m)
    if only_imports:
        levels = levels[:-1]
    best = None
    for prec, lv in enumerate(levels):
        for pos, ru in enumerate(lv["rules"]):
            if ru["mode"] != mode:
                continue
            for a in ru["alts"]:
                if pat_matches(a["text"], case["nodes"], i):
                    pr = ru["prio"] if ru["prio"] is not None else default_priority(a["text"])
                    key = (prec, pr, pos)
                    if best is None or key > best[0]:
                        best = (key, ru)
    return best[1] if best else None


def evaluate(case, limit=40000):
    nodes = case["nodes"]
    named = {n["name"]: n for n in case["named"]}
    globs = {g["g"]: g for g in case["globals"]}
    vals = {}
    evaluating = []
    info = {"class_global": False, "imports": 0, "imports_in_named": 0, "imports_null": 0, "calls_direct": 0,
            "globals_used": 0, "depth": 0, "wp": 0, "wp_imports": 0, "wp_imports_other_mode": 0, "grey": False}
    in_wp = [False, None]                # census only: directly inside the content of an xsl:with-param?  mode its instruction names
    size = [0]

    def emit(out, s):
        size[0] += len(s)
        if size[0] > limit:
            raise TooLong()
        out.append(s)

    def is_direct(body):
        return len(body) == 1 and body[0][0] == "c" and body[0][2] is None

    def builtin(out, i, mode, depth):
        for k in nodes[i]["kids"]:
            apply_to(out, k, mode, depth)

    def apply_to(out, i, mode, depth, pval=""):
        ru = choose(case, case["root"], False, mode, i)
        if ru is None:
            builtin(out, i, mode, depth + 1)
        else:
            if pval:
                emit(out, pval)
            saved = in_wp[:]
            in_wp[:] = [False, None]         # the census is about xsl:apply-imports standing in the content itself
            try:
                body(out, ru["body"], i, mode, ru, depth + 1, False)
            finally:
                in_wp[:] = saved

    def body(out, b, i, mode, cur, depth, in_named):
        if depth > 150:
            raise TooLong()
        info["depth"] = max(info["depth"], depth)
        if is_direct(b):
            info["calls_direct"] += 1
        for ins in b:
            k = ins[0]
            if k == "t":
                emit(out, case["texts"][ins[1]])
            elif k == "b":
                body(out, ins[2], i, mode, cur, depth + 1, in_named)
            elif k == "f":
                for n in (nodes[i]["kids"] if ins[1] == "c" else [i]):
                    body(out, ins[2], n, mode, None, depth + 1, in_named)
            elif k == "c":
                if ins[2] is not None:
                    body(out, ins[2], i, mode, cur, depth + 1, in_named)        # printed by the callee's value-of $p, first thing
                body(out, named[ins[1]]["body"], i, mode, cur, depth + 1, True)
            elif k == "a":
                for n in (nodes[i]["kids"] if ins[1] == "c" else [i]):
                    apply_to(out, n, ins[2], depth)
            elif k == "w":
                sel = nodes[i]["kids"] if ins[1] == "c" else [i]
                info["wp"] += 1
                o2 = []
                saved = in_wp[:]
                in_wp[:] = [True, ins[2]]
                try:
                    body(o2, ins[3], i, mode, cur, depth + 1, in_named)
                except XsltError:
                    if not [n for n in sel if choose(case, case["root"], False, ins[2], n) is not None]:
                        info["grey"] = True
                    raise
                finally:
                    in_wp[:] = saved
                pval = "".join(o2)
                for n in sel:
                    apply_to(out, n, ins[2], depth, pval)
            elif k == "i":
                info["imports"] += 1
                if in_wp[0] and cur is not None:
                    info["wp_imports"] += 1
                    if in_wp[1] != mode:
                        info["wp_imports_other_mode"] += 1
                if cur is None:
                    info["imports_null"] += 1
                    raise XsltError("xsl:apply-imports with a null current template rule")
                if in_named:
                    info["imports_in_named"] += 1
                ru = choose(case, case["mods"][cur["mod"]], True, mode, i)
                if ru is None:
                    builtin(out, i, mode, depth + 1)
                else:
                    body(out, ru["body"], i, mode, ru, depth + 1, False)
            elif k == "g":
                g = ins[1]
                if g not in vals:
                    if g in evaluating:
                        raise XsltError("circular variable definition")
                    info["globals_used"] += 1
                    if cur is not None or is_direct(globs[g]["body"]):
                        info["class_global"] = True
                    evaluating.append(g)
                    o2 = []
                    body(o2, globs[g]["body"], 0, mode, None, depth + 1, False)
                    evaluating.pop()
                    vals[g] = "".join(o2)
                emit(out, vals[g])
    out = []
    try:
        apply_to(out, 0, None, 0)
    except XsltError as e:
        return ("err", str(e), info)
    except (TooLong, RecursionError):
        return ("toolong", "", info)
    return ("ok", "".join(out), info)
