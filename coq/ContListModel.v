(* ContListModel.v — proofs about the XalanList model: the values of the node sequence refine the
   std::list specification for every op sequence (node recycling through the free chain never changes
   the observable list). *)
From Coq Require Import List Arith Bool Lia.
Require Import XV.ContVecDefs XV.ContListDefs.
Import ListNotations.

Definition vals (l : xl) : list nat := map snd (lo l).

Lemma map_insert_at {A B} (f : A -> B) p x l : map f (insert_at p x l) = insert_at p (f x) (map f l).
Proof. unfold insert_at. rewrite map_app, firstn_map, skipn_map. reflexivity. Qed.
Lemma map_remove_at {A B} (f : A -> B) p l : map f (remove_at p l) = remove_at p (map f l).
Proof. unfold remove_at. rewrite map_app, firstn_map, skipn_map. reflexivity. Qed.
Lemma map_move_in {A B} (f : A -> B) p seg l : map f (move_in p seg l) = move_in p (map f seg) (map f l).
Proof. unfold move_in. rewrite !map_app, firstn_map, skipn_map. reflexivity. Qed.

Lemma construct_vals : forall l nx p v, vals (fst (construct_node l nx p v)) = insert_at p v (vals l).
Proof. intros. unfold construct_node, vals. destruct (lfree l); simpl; apply (map_insert_at snd). Qed.

Lemma construct_next : forall l nx p v, nx <= snd (construct_node l nx p v).
Proof. intros. unfold construct_node. destruct (lfree l); simpl; lia. Qed.

Lemma free_vals : forall l p, p < length (lo l) -> vals (free_node l p) = remove_at p (vals l).
Proof.
  intros l p H. unfold free_node, vals. destruct (nth_error (lo l) p) as [[id x]|] eqn:E.
  - simpl. apply (map_remove_at snd).
  - apply nth_error_None in E. lia.
Qed.

Definition grel (s : gstate) (t : lstate) : Prop := vals (g0 s) = l0 t /\ vals (g1 s) = l1 t /\ gcur s = lcur t.

Lemma set_cur_g_rel : forall s t x n l, grel s t -> vals x = l -> grel (set_cur_g s x n) (set_cur_l t l).
Proof. intros s t x n l (A & B & C) H. unfold set_cur_g, set_cur_l, grel. rewrite C. destruct (lcur t); simpl; auto. Qed.
Lemma set_both_g_rel : forall s t c o lc lo', grel s t -> vals c = lc -> vals o = lo' -> grel (set_both_g s c o) (set_both_l t lc lo').
Proof. intros s t c o lc lo' (A & B & C) H1 H2. unfold set_both_g, set_both_l, grel. rewrite C. destruct (lcur t); simpl; auto. Qed.

Lemma gstep_refines : forall s t o, grel s t ->
  match gstep s o, llstep t o with
  | None, None => True
  | Some (s', r), Some (t', r') => r = r' /\ grel s' t'
  | _, _ => False
  end.
Proof.
  intros s t o R.
  assert (C : vals (cur_g s) = cur_l t) by (destruct R as (A & B & D); unfold cur_g, cur_l; rewrite D; destruct (lcur t); assumption).
  assert (O : vals (oth_g s) = oth_l t) by (destruct R as (A & B & D); unfold oth_g, oth_l; rewrite D; destruct (lcur t); assumption).
  assert (N : length (lo (cur_g s)) = length (cur_l t)) by (rewrite <- C; unfold vals; rewrite map_length; reflexivity).
  assert (NO : length (lo (oth_g s)) = length (oth_l t)) by (rewrite <- O; unfold vals; rewrite map_length; reflexivity).
  destruct o; unfold gstep, llstep; rewrite ?N, ?NO.
  - pose proof (construct_vals (cur_g s) (gnext s) (length (cur_l t)) v) as V.
    destruct (construct_node (cur_g s) (gnext s) (length (cur_l t)) v) as [l' nx]. simpl in V.
    split; [reflexivity|]. apply set_cur_g_rel; [assumption|]. rewrite V, C. reflexivity.
  - pose proof (construct_vals (cur_g s) (gnext s) 0 v) as V.
    destruct (construct_node (cur_g s) (gnext s) 0 v) as [l' nx]. simpl in V.
    split; [reflexivity|]. apply set_cur_g_rel; [assumption|]. rewrite V, C. reflexivity.
  - destruct (length (cur_l t) =? 0) eqn:E; [exact I|]. apply Nat.eqb_neq in E. split; [reflexivity|].
    apply set_cur_g_rel; [assumption|]. rewrite free_vals, C by lia. reflexivity.
  - destruct (length (cur_l t) =? 0) eqn:E; [exact I|]. apply Nat.eqb_neq in E. split; [reflexivity|].
    apply set_cur_g_rel; [assumption|]. rewrite free_vals, C by lia. reflexivity.
  - destruct (length (cur_l t) <? p); [exact I|].
    pose proof (construct_vals (cur_g s) (gnext s) p v) as V.
    destruct (construct_node (cur_g s) (gnext s) p v) as [l' nx]. simpl in V.
    split; [reflexivity|]. apply set_cur_g_rel; [assumption|]. rewrite V, C. reflexivity.
  - destruct (p <? length (cur_l t)) eqn:E; [|exact I]. apply Nat.ltb_lt in E. split; [reflexivity|].
    apply set_cur_g_rel; [assumption|]. rewrite free_vals, C by lia. reflexivity.
  - destruct (length (cur_l t) =? 0); [exact I|]. split; [|assumption]. f_equal. rewrite <- C. unfold vals.
    symmetry. apply (map_nth snd _ (0, 0)).
  - destruct (length (cur_l t) =? 0); [exact I|]. split; [|assumption]. f_equal. rewrite <- C. unfold vals.
    symmetry. apply (map_nth snd _ (0, 0)).
  - split; [|assumption]. rewrite <- C. reflexivity.
  - split; [reflexivity|]. apply set_cur_g_rel; [assumption | reflexivity].
  - destruct R as (A & B & D). split; [reflexivity|]. unfold grel. simpl. auto.
  - destruct R as (A & B & D). split; [reflexivity|]. unfold grel. simpl. auto.
  - destruct ((p <=? length (cur_l t)) && (q <? length (oth_l t))); [|exact I]. split; [reflexivity|].
    apply set_both_g_rel; [assumption | |]; unfold vals; cbn [lo lfree].
    + rewrite map_move_in, <- firstn_map, <- skipn_map. fold (vals (oth_g s)). fold (vals (cur_g s)). rewrite C, O. reflexivity.
    + rewrite map_remove_at. fold (vals (oth_g s)). rewrite O. reflexivity.
  - destruct ((p <=? length (cur_l t)) && (a <=? b) && (b <=? length (oth_l t))); [|exact I]. split; [reflexivity|].
    apply set_both_g_rel; [assumption | |]; unfold vals; cbn [lo lfree].
    + rewrite map_move_in, <- firstn_map, <- skipn_map. fold (vals (oth_g s)). fold (vals (cur_g s)). rewrite C, O. reflexivity.
    + rewrite map_app, <- firstn_map, <- skipn_map. fold (vals (oth_g s)). rewrite O. reflexivity.
  - destruct ((p <=? length (cur_l t)) && (q <? length (cur_l t))); [|exact I]. split; [reflexivity|].
    apply set_cur_g_rel; [assumption|]. destruct (p =? q); [assumption|]. unfold vals. cbn [lo lfree].
    rewrite map_move_in, map_remove_at, <- firstn_map, <- skipn_map. fold (vals (cur_g s)). rewrite C. reflexivity.
Qed.

Theorem list_refines_list_lemma : forall ops s t, grel s t -> map strip_nodes (grun s ops) = llrun t ops.
Proof.
  induction ops; intros s t R; simpl; [reflexivity|].
  pose proof (gstep_refines s t a R) as H.
  destruct (gstep s a) as [[s' r]|]; destruct (llstep t a) as [[t' r']|]; try contradiction.
  - destruct H as (-> & R'). simpl. rewrite (IHops s' t' R'). f_equal. f_equal.
    assert (C : vals (cur_g s') = cur_l t') by (destruct R' as (A & B & D); unfold cur_g, cur_l; rewrite D; destruct (lcur t'); assumption).
    fold (vals (cur_g s')). rewrite <- C. unfold vals. rewrite map_length. reflexivity.
  - simpl. rewrite (IHops s t R). reflexivity.
Qed.

(* ---------------------------------------------------------------------------------------------- *)
(* node discipline: over both lists and both free chains every node id occurs exactly once and is
   below the allocation counter — a node is never in two places, and a recycled node was free *)
From Coq Require Import Permutation.
Require Import XV.ContVecModel.

Definition ids_xl (l : xl) : list nat := map fst (lo l) ++ lfree l.
Definition ids_all (s : gstate) : list nat := ids_xl (g0 s) ++ ids_xl (g1 s).
Definition ginv (s : gstate) : Prop := NoDup (ids_all s) /\ Forall (fun id => id < gnext s) (ids_all s).

Lemma perm_insert_at : forall p (x : nat) l, Permutation (insert_at p x l) (x :: l).
Proof.
  intros. unfold insert_at. rewrite <- (firstn_skipn p l) at 3. symmetry. apply Permutation_middle.
Qed.

Lemma nth_error_split' : forall (l : list nat) p x, nth_error l p = Some x -> l = firstn p l ++ x :: skipn (S p) l.
Proof.
  induction l; intros p x H; destruct p; simpl in *; try discriminate.
  - inversion H. reflexivity.
  - f_equal. apply IHl. assumption.
Qed.

Lemma perm_remove_at : forall (l : list nat) p x, nth_error l p = Some x -> Permutation (x :: remove_at p l) l.
Proof.
  intros l p x H. unfold remove_at. rewrite (nth_error_split' l p x H) at 3. apply Permutation_middle.
Qed.

Lemma perm_move_in : forall p (seg l : list nat), Permutation (move_in p seg l) (seg ++ l).
Proof.
  intros. unfold move_in. rewrite <- (firstn_skipn p l) at 3.
  rewrite app_assoc. rewrite (app_assoc seg). apply Permutation_app_tail. apply Permutation_app_comm.
Qed.

Lemma perm_segment : forall (l : list nat) a b, a <= b ->
  Permutation (firstn (b - a) (skipn a l) ++ (firstn a l ++ skipn b l)) l.
Proof.
  intros l a b H.
  assert (E : skipn b l = skipn (b - a) (skipn a l)) by (rewrite skipn_skipn'; f_equal; lia).
  assert (L : firstn a l ++ firstn (b - a) (skipn a l) ++ skipn b l = l).
  { rewrite E, firstn_skipn. apply firstn_skipn. }
  apply (Permutation_trans (Permutation_app_swap_app _ _ _)). rewrite L. reflexivity.
Qed.

Lemma splice_perm : forall (M S A R B FC FO : list nat),
  Permutation M (S ++ A) -> Permutation (S ++ R) B ->
  Permutation ((M ++ FC) ++ R ++ FO) ((A ++ FC) ++ B ++ FO).
Proof.
  intros M S A R B FC FO K1 K2. apply (Permutation_count_occ Nat.eq_dec). intros x.
  pose proof (proj1 (Permutation_count_occ Nat.eq_dec _ _) K1 x) as C1.
  pose proof (proj1 (Permutation_count_occ Nat.eq_dec _ _) K2 x) as C2.
  rewrite ?count_occ_app in *. lia.
Qed.

Lemma map_fst_nth_error : forall (l : list (nat * nat)) p id v, nth_error l p = Some (id, v) -> nth_error (map fst l) p = Some id.
Proof. intros. rewrite nth_error_map, H. reflexivity. Qed.

Lemma construct_ids : forall l nx p v,
  (Permutation (ids_xl (fst (construct_node l nx p v))) (ids_xl l) /\ snd (construct_node l nx p v) = nx) \/
  (Permutation (ids_xl (fst (construct_node l nx p v))) (nx :: ids_xl l) /\ snd (construct_node l nx p v) = S nx).
Proof.
  intros. unfold construct_node, ids_xl. destruct (lfree l) as [|id rest]; simpl.
  - right. split; [|reflexivity]. rewrite (map_insert_at fst), !app_nil_r. apply perm_insert_at.
  - left. split; [|reflexivity]. rewrite (map_insert_at fst). simpl.
    rewrite (perm_insert_at p id (map fst (lo l))). simpl. apply Permutation_middle.
Qed.

Lemma free_ids : forall l p, Permutation (ids_xl (free_node l p)) (ids_xl l).
Proof.
  intros. unfold free_node, ids_xl. destruct (nth_error (lo l) p) as [[id v]|] eqn:E; [|reflexivity].
  simpl. rewrite (map_remove_at fst). rewrite <- Permutation_middle.
  rewrite <- (perm_remove_at (map fst (lo l)) p id (map_fst_nth_error _ _ _ _ E)) at 2. reflexivity.
Qed.

Lemma clear_ids : forall l, Permutation (ids_xl (clear_list l)) (ids_xl l).
Proof. intros. unfold clear_list, ids_xl. simpl. apply Permutation_app_tail. symmetry. apply Permutation_rev. Qed.

Lemma ids_all_cur : forall s, Permutation (ids_all s) (ids_xl (cur_g s) ++ ids_xl (oth_g s)).
Proof. intros. unfold ids_all, cur_g, oth_g. destruct (gcur s); [apply Permutation_app_comm | reflexivity]. Qed.

Lemma ids_set_cur : forall s x n, Permutation (ids_all (set_cur_g s x n)) (ids_xl x ++ ids_xl (oth_g s)).
Proof. intros. unfold ids_all, set_cur_g, oth_g. destruct (gcur s); simpl; [apply Permutation_app_comm | reflexivity]. Qed.

Lemma ids_set_both : forall s c o, Permutation (ids_all (set_both_g s c o)) (ids_xl c ++ ids_xl o).
Proof. intros. unfold ids_all, set_both_g. destruct (gcur s); simpl; [apply Permutation_app_comm | reflexivity]. Qed.

Lemma gstep_ids : forall s o s' r, gstep s o = Some (s', r) ->
  (Permutation (ids_all s') (ids_all s) /\ gnext s' = gnext s) \/
  (Permutation (ids_all s') (gnext s :: ids_all s) /\ gnext s' = S (gnext s)).
Proof.
  intros s o s' r H.
  assert (Cons : forall p v l' nx, construct_node (cur_g s) (gnext s) p v = (l', nx) ->
    (Permutation (ids_all (set_cur_g s l' nx)) (ids_all s) /\ gnext (set_cur_g s l' nx) = gnext s) \/
    (Permutation (ids_all (set_cur_g s l' nx)) (gnext s :: ids_all s) /\ gnext (set_cur_g s l' nx) = S (gnext s))).
  { intros p v l' nx E. pose proof (construct_ids (cur_g s) (gnext s) p v) as K. rewrite E in K. simpl in K.
    assert (Gn : gnext (set_cur_g s l' nx) = nx) by (unfold set_cur_g; destruct (gcur s); reflexivity).
    rewrite Gn. destruct K as [[K1 K2]|[K1 K2]]; [left | right]; (split; [|assumption]);
      rewrite ids_set_cur, (ids_all_cur s), K1; reflexivity. }
  assert (Same : forall x, Permutation (ids_xl x) (ids_xl (cur_g s)) ->
    Permutation (ids_all (set_cur_g s x (gnext s))) (ids_all s) /\ gnext (set_cur_g s x (gnext s)) = gnext s).
  { intros x K. split; [rewrite ids_set_cur, (ids_all_cur s), K; reflexivity | unfold set_cur_g; destruct (gcur s); reflexivity]. }
  assert (Both : forall c o0, Permutation (ids_xl c ++ ids_xl o0) (ids_xl (cur_g s) ++ ids_xl (oth_g s)) ->
    Permutation (ids_all (set_both_g s c o0)) (ids_all s) /\ gnext (set_both_g s c o0) = gnext s).
  { intros c o0 K. split; [rewrite ids_set_both, (ids_all_cur s), K; reflexivity | unfold set_both_g; destruct (gcur s); reflexivity]. }
  destruct o; unfold gstep in H.
  - destruct (construct_node (cur_g s) (gnext s) (length (lo (cur_g s))) v) as [l' nx] eqn:E. inversion H; subst. eapply Cons; eassumption.
  - destruct (construct_node (cur_g s) (gnext s) 0 v) as [l' nx] eqn:E. inversion H; subst. eapply Cons; eassumption.
  - destruct (length (lo (cur_g s)) =? 0); [discriminate|]. inversion H; subst. left. apply Same, free_ids.
  - destruct (length (lo (cur_g s)) =? 0); [discriminate|]. inversion H; subst. left. apply Same, free_ids.
  - destruct (length (lo (cur_g s)) <? p); [discriminate|].
    destruct (construct_node (cur_g s) (gnext s) p v) as [l' nx] eqn:E. inversion H; subst. eapply Cons; eassumption.
  - destruct (p <? length (lo (cur_g s))); [|discriminate]. inversion H; subst. left. apply Same, free_ids.
  - destruct (length (lo (cur_g s)) =? 0); [discriminate|]. inversion H; subst. left. split; reflexivity.
  - destruct (length (lo (cur_g s)) =? 0); [discriminate|]. inversion H; subst. left. split; reflexivity.
  - inversion H; subst. left. split; reflexivity.
  - inversion H; subst. left. apply Same, clear_ids.
  - inversion H; subst. left. split; [|reflexivity]. unfold ids_all. simpl. apply Permutation_app_comm.
  - inversion H; subst. left. split; reflexivity.
  - destruct ((p <=? length (lo (cur_g s))) && (q <? length (lo (oth_g s)))) eqn:G; [|discriminate]. inversion H; subst. left.
    apply andb_prop in G. destruct G as [_ G]. apply Nat.ltb_lt in G.
    apply Both. unfold ids_xl. cbn [lo lfree].
    change (match skipn q (lo (oth_g s)) with [] => [] | a0 :: _ => [a0] end) with (firstn 1 (skipn q (lo (oth_g s)))).
    rewrite (map_move_in fst), (map_remove_at fst), <- firstn_map, <- skipn_map.
    apply (splice_perm _ (firstn 1 (skipn q (map fst (lo (oth_g s)))))); [apply perm_move_in|].
    unfold remove_at. replace 1 with (S q - q) by lia. apply perm_segment. lia.
  - destruct ((p <=? length (lo (cur_g s))) && (a <=? b) && (b <=? length (lo (oth_g s)))) eqn:G; [|discriminate]. inversion H; subst. left.
    apply andb_prop in G. destruct G as [G _]. apply andb_prop in G. destruct G as [_ G]. apply Nat.leb_le in G.
    apply Both. unfold ids_xl. cbn [lo lfree].
    rewrite (map_move_in fst), map_app, <- !firstn_map, <- !skipn_map.
    apply (splice_perm _ (firstn (b - a) (skipn a (map fst (lo (oth_g s)))))); [apply perm_move_in|].
    apply perm_segment. assumption.
  - destruct ((p <=? length (lo (cur_g s))) && (q <? length (lo (cur_g s)))) eqn:G; [|discriminate]. inversion H; subst. left.
    apply andb_prop in G. destruct G as [_ G]. apply Nat.ltb_lt in G.
    apply Same. destruct (p =? q); [reflexivity|]. unfold ids_xl. cbn [lo lfree].
    apply Permutation_app_tail.
    change (match skipn q (lo (cur_g s)) with [] => [] | a0 :: _ => [a0] end) with (firstn 1 (skipn q (lo (cur_g s)))).
    rewrite (map_move_in fst), (map_remove_at fst), <- firstn_map, <- skipn_map.
    set (A := map fst (lo (cur_g s))). rewrite perm_move_in.
    unfold remove_at. replace 1 with (S q - q) by lia. apply perm_segment. lia.
Qed.

Lemma ginv_step : forall s o s' r, ginv s -> gstep s o = Some (s', r) -> ginv s'.
Proof.
  intros s o s' r (N & F) H. destruct (gstep_ids s o s' r H) as [[P E]|[P E]]; unfold ginv; rewrite E.
  - split; [apply (Permutation_NoDup (Permutation_sym P) N)|].
    rewrite Forall_forall in *. intros id Hid. apply F. apply (Permutation_in _ P). assumption.
  - split.
    + apply (Permutation_NoDup (Permutation_sym P)). constructor; [|assumption].
      intros Hin. rewrite Forall_forall in F. specialize (F _ Hin). lia.
    + rewrite Forall_forall in *. intros id Hid. apply (Permutation_in _ P) in Hid. destruct Hid as [<-|Hid]; [lia|].
      specialize (F _ Hid). lia.
Qed.

Theorem list_nodes_unique_lemma : forall ops s, ginv s -> ginv (gfinal s ops).
Proof.
  induction ops; intros s I; simpl; [assumption|].
  destruct (gstep s a) as [[s' r]|] eqn:E; [|apply IHops; assumption].
  apply IHops. eapply ginv_step; eassumption.
Qed.
