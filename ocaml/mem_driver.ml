(* model side of the C19 correspondence: same line protocol as harness/mem.cpp
   line:  <id> vec|list <fuse|-> <op>...        <id> arena <fuse|-> <blocksize> <op>...
   out :  <id> | <ok|T> <events> o=<obs> | ... | D<ok|T> <events> | end out=<n> bad=<0|1>
   events: A<mgr>:<tag>*<count>=<id>   F<mgr>:<id>   !  (allocation refused) *)
let ni = nat_of_int
let ii = int_of_nat

let show_event = function
  | EAlloc (m, tag, cnt, id) -> Printf.sprintf "A%d:%d*%d=%d" (ii m) (ii tag) (ii cnt) (ii id)
  | EFree (m, id) -> Printf.sprintf "F%d:%d" (ii m) (ii id)
  | EThrow -> "!"

let show_result id (r : result) =
  let b = Buffer.create 256 in
  Buffer.add_string b id;
  List.iter (fun ((ok, evs), obs) ->
    Buffer.add_string b (if ok then " | ok" else " | T");
    List.iter (fun e -> Buffer.add_char b ' '; Buffer.add_string b (show_event e)) evs;
    Buffer.add_string b " o=";
    Buffer.add_string b (String.concat "," (List.map (fun n -> string_of_int (ii n)) obs))) r.r_steps;
  Buffer.add_string b (if r.r_dtor_ok then " | Dok" else " | DT");
  List.iter (fun e -> Buffer.add_char b ' '; Buffer.add_string b (show_event e)) r.r_dtor_events;
  Buffer.add_string b (Printf.sprintf " | end out=%d bad=%d" (ii r.r_outstanding) (if r.r_bad then 1 else 0));
  print_endline (Buffer.contents b)

let idx_arg (s : string) (plen : int) : bool * int =
  (* "<prefix><0|1>[:n]" *)
  let rest = String.sub s plen (String.length s - plen) in
  match String.split_on_char ':' rest with
  | [i] -> (i = "1", 0)
  | [i; n] -> (i = "1", int_of_string n)
  | _ -> failwith ("bad op " ^ s)

let starts s p = String.length s >= String.length p && String.sub s 0 (String.length p) = p

let vop_of (s : string) : vop =
  if s = "x" then VSwap
  else if starts s "ie" then let (i, n) = idx_arg s 2 in VInsEnd (i, ni n)
  else if starts s "im" then let (i, n) = idx_arg s 2 in VInsMid (i, ni n)
  else match s.[0] with
    | 'p' -> VPush (fst (idx_arg s 1))
    | 'o' -> VPop (fst (idx_arg s 1))
    | 'e' -> VErase (fst (idx_arg s 1))
    | 'c' -> VClear (fst (idx_arg s 1))
    | 'r' -> let (i, n) = idx_arg s 1 in VReserve (i, ni n)
    | 'z' -> let (i, n) = idx_arg s 1 in VResize (i, ni n)
    | 'a' -> VAssign (fst (idx_arg s 1))
    | _ -> failwith ("bad vec op " ^ s)

let lop_of (s : string) : lop =
  if s = "x" then LSwap
  else if starts s "pb" then LPushBack (fst (idx_arg s 2))
  else if starts s "pf" then LPushFront (fst (idx_arg s 2))
  else if starts s "in" then let (i, n) = idx_arg s 2 in LInsert (i, ni n)
  else if starts s "er" then let (i, n) = idx_arg s 2 in LErase (i, ni n)
  else if starts s "cl" then LClear (fst (idx_arg s 2))
  else if starts s "em" then LEmpty (fst (idx_arg s 2))
  else failwith ("bad list op " ^ s)

let aop_of (s : string) : aop =
  if s = "rs" then AReset
  else if starts s "n:" then ANew (ni (int_of_string (String.sub s 2 (String.length s - 2))))
  else failwith ("bad arena op " ^ s)

let mop_of (s : string) : mop =
  if s = "x" then MSwap
  else match s.[0] with
    | 'i' -> let (i, n) = idx_arg s 1 in MInsert (i, ni n)
    | 'e' -> let (i, n) = idx_arg s 1 in MErase (i, ni n)
    | 'c' -> MClear (fst (idx_arg s 1))
    | 'a' -> MAssign (fst (idx_arg s 1))
    | _ -> failwith ("bad map op " ^ s)

let fuse_of s = if s = "-" then None else Some (ni (int_of_string s))

let () =
  let ic = if Array.length Sys.argv > 1 then open_in Sys.argv.(1) else stdin in
  iter_lines ic (fun line ->
    match split_ws line with
    | id :: "vec" :: f :: ops -> show_result id (vec_case (fuse_of f) (List.map vop_of ops))
    | id :: "list" :: f :: ops -> show_result id (list_case (fuse_of f) (List.map lop_of ops))
    | id :: "map" :: f :: ops -> show_result id (map_case (fuse_of f) (ni 3) (ni 3) (List.map mop_of ops))
    | id :: "arena" :: f :: bs :: ops -> show_result id (arena_case (fuse_of f) (ni (int_of_string bs)) (List.map aop_of ops))
    | _ -> ())
