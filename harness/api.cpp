// C06 driver: interprets operation histories on ONE XalanTransformer (public API only, plus the
// guarded verification hook verifReportSizes / verifGetExecutionContext when the tree has it).
//
// Input (stdin or argv[1]), one item per line:
//   S <idx> <hex utf-8 bytes>        stylesheet pool entry
//   D <idx> <hex utf-8 bytes>        source pool entry
//   F <name> <hex bytes>             in-memory file served for file:///vmem/<name> (document(), imports)
//   H <id> <op>;<op>;...             one history, run on one new transformer
// Operations:
//   c<S>        compileStylesheet(pool sheet S)  -> appends a handle (null when it fails) to the cs list
//   p<D> / q<D> parseSource(pool source D) (q: Xerces DOM) -> appends a handle to the ps list
//   t<i>,<j>    transform(parsed source handle j, compiled stylesheet handle i)      [doTransform only]
//   T<S>,<D>    transform(source D, stylesheet S)           [parseSource + doTransform, compiles inline]
//   u<i>,<D>    transform(source D, compiled handle i)
//   v<S>,<j>    transform(parsed handle j, stylesheet S)
//   s<name>=<E> setStylesheetParam(name, expression pool entry E)   n<name>=<int> number param
//   x           clearStylesheetParams()
//   i<k>        installExternalFunction(urn:verif, f<k>)   r<k> uninstallExternalFunction
//   d<i>        destroyStylesheet(handle i)   e<j> destroyParsedSource(handle j)
//   o<n>        setIndent(n)
// Output: H <id> <r>;<r>;...   one result per op:
//   <status>:<fnv64 of output>:<output length>:<fnv64 of getLastError()>:<residue>
//   status "." for void calls; residue = "-" (every reported member equals a new transformer's),
//   "?" (hook not compiled in) or "name=value,..." (members that differ from a new transformer; the
//   caller decides which of them are sticky by documentation).
// With API_VERBOSE=1 the output bytes and the error text follow on '#' lines.
#include "common.hpp"
#include <map>
#include <utility>
#include <xercesc/framework/MemBufInputSource.hpp>
#include <xercesc/sax/EntityResolver.hpp>
#include <xercesc/sax/InputSource.hpp>
#include <xalanc/XSLT/XSLTInputSource.hpp>
#include <xalanc/XSLT/XSLTResultTarget.hpp>
#include <xalanc/XPath/Function.hpp>
#include <xalanc/XPath/XObjectFactory.hpp>
#include <xalanc/XPath/XPathExecutionContext.hpp>
#include <xalanc/XalanTransformer/XalanCompiledStylesheet.hpp>
#include <xalanc/XalanTransformer/XalanParsedSource.hpp>
#include <xalanc/XSLT/StylesheetExecutionContextDefault.hpp>

using namespace xalanc;
using namespace verif;

#if defined(APACHE_XALAN_C_VERIF) && defined(VERIF_HAVE_C06_HOOK)
#define HOOK 1
#else
#define HOOK 0
#endif

static std::string unhex(const std::string& h)
{
    std::string r;
    for (size_t i = 0; i + 1 < h.size(); i += 2) r += (char) std::strtoul(h.substr(i, 2).c_str(), 0, 16);
    return r;
}

static std::string hexs(const std::string& s)
{
    static const char* d = "0123456789abcdef";
    std::string r;
    for (size_t i = 0; i < s.size(); ++i) { r += d[(unsigned char) s[i] >> 4]; r += d[(unsigned char) s[i] & 15]; }
    return r;
}

static std::string fnv(const std::string& s)
{
    uint64_t h = 1469598103934665603ULL;
    for (size_t i = 0; i < s.size(); ++i) { h ^= (unsigned char) s[i]; h *= 1099511628211ULL; }
    char buf[32]; std::snprintf(buf, sizeof buf, "%016llx", (unsigned long long) h);
    return buf;
}

static std::string narrowX(const XMLCh* s)
{
    std::string r;
    if (s) for (; *s; ++s) r += (char) *s;
    return r;
}

static std::map<std::string, std::string> g_files;
static std::map<int, std::string> g_sheets, g_sources;

class MemResolver : public xercesc::EntityResolver
{
public:
    virtual xercesc::InputSource* resolveEntity(const XMLCh* const, const XMLCh* const systemId)
    {
        std::string id = narrowX(systemId);
        std::string::size_type p = id.find("/vmem/");
        std::string name = p == std::string::npos ? id : id.substr(p + 6);
        if (p == std::string::npos && id.find(':') != std::string::npos) return 0;
        std::map<std::string, std::string>::const_iterator i = g_files.find(name);
        if (i == g_files.end()) return 0;
        return new xercesc::MemBufInputSource((const XMLByte*) i->second.data(), i->second.size(), systemId, false);
    }
};

// extension function urn:verif f<k>(): returns the string "F<k>" followed by its argument strings
class ConstFn : public Function
{
public:
    explicit ConstFn(int k) : m_k(k) {}
    virtual XObjectPtr
    execute(XPathExecutionContext& ec, XalanNode*, const XObjectArgVectorType& args, const Locator*) const
    {
        XPathExecutionContext::GetCachedString g(ec);
        XalanDOMString& s = g.get();
        s.assign("F");
        s.append(1, XalanDOMChar('0' + m_k));
        for (XObjectArgVectorType::size_type i = 0; i < args.size(); ++i) { s.append(1, XalanDOMChar('|')); s.append(args[i]->str(ec)); }
        return ec.getXObjectFactory().createString(s);
    }
    using Function::execute;
    virtual ConstFn* clone(MemoryManager& m) const { return XalanCopyConstruct(m, *this); }
protected:
    const XalanDOMString& getError(XalanDOMString& r) const { r.assign("f() failed"); return r; }
private:
    int m_k;
};

typedef std::vector<std::pair<const char*, unsigned long> > Sizes;

static void report(const XalanTransformer& t, Sizes& out)
{
#if HOOK
    t.verifReportSizes(out);
    t.verifGetExecutionContext()->verifReportSizes(out);
#endif
}

static std::string residue(const XalanTransformer& t, const Sizes& base)
{
#if HOOK
    Sizes now; report(t, now);
    std::string r;
    for (size_t i = 0; i < now.size() && i < base.size(); ++i) {
        if (now[i].second != base[i].second) {
            char buf[32]; std::snprintf(buf, sizeof buf, "=%lu", now[i].second);
            if (!r.empty()) r += ",";
            r += now[i].first; r += buf;
        }
    }
    return r.empty() ? "-" : r;
#else
    return "?";
#endif
}

static const char* const EXPRS[] = { "'p0'", "2 + 3", "concat('a','b')", "string(1 div 0)", "unknownfn()", "'x' = 'x'", "/*", "count(//*)" };

int main(int argc, char** argv)
{
    Init init;
    std::istream* in = &std::cin;
    std::ifstream f;
    if (argc > 1) { f.open(argv[1]); in = &f; }
    const bool verbose = getenv("API_VERBOSE") != 0;
    // the parser liaison's default error handler writes "Fatal Error: ..." to stderr
    if (!verbose) { if (!std::freopen("/dev/null", "w", stderr)) { /* keep stderr */ } }
    if (argc > 2 && std::string(argv[2]) == "--members") {
        XalanTransformer t; Sizes b; report(t, b);
        for (size_t i = 0; i < b.size(); ++i) std::cout << "M " << b[i].first << " " << b[i].second << "\n";
        return 0;
    }
    std::string line;
    MemResolver res;
    const XalanDOMString ns("urn:verif");
    while (std::getline(*in, line)) {
        if (line.empty() || line[0] == '#') continue;
        std::vector<std::string> w = split(line);
        if (w.size() < 2) continue;
        if (w[0] == "S") { g_sheets[std::atoi(w[1].c_str())] = unhex(w.size() > 2 ? w[2] : ""); continue; }
        if (w[0] == "D") { g_sources[std::atoi(w[1].c_str())] = unhex(w.size() > 2 ? w[2] : ""); continue; }
        if (w[0] == "F") { g_files[w[1]] = unhex(w.size() > 2 ? w[2] : ""); continue; }
        if (w[0] == "M") {   // list the hook's members and their values on a new transformer
            XalanTransformer t; Sizes b; report(t, b);
            std::cout << "M " << w[1];
            for (size_t i = 0; i < b.size(); ++i) std::cout << " " << b[i].first << "=" << b[i].second;
            std::cout << "\n"; std::cout.flush();
            continue;
        }
        if (w[0] != "H") continue;
        const std::string id = w[1];
        std::vector<std::string> ops;
        if (w.size() > 2) { const std::string& s = w[2]; size_t i = 0; while (i <= s.size()) { size_t j = s.find(';', i); if (j == std::string::npos) j = s.size(); if (j > i) ops.push_back(s.substr(i, j - i)); i = j + 1; } }
        XalanTransformer* t = new XalanTransformer;
        t->setEntityResolver(&res);
        t->setWarningStream(0);
        Sizes base; report(*t, base);
        std::vector<const XalanCompiledStylesheet*> cs;
        std::vector<const XalanParsedSource*> ps;
        std::cout << "H " << id << " ";
        std::string verb;
        for (size_t k = 0; k < ops.size(); ++k) {
            const std::string& op = ops[k];
            const char c = op[0];
            const std::string a = op.substr(1);
            int rc = 0; bool isvoid = false;
            std::ostringstream os;
            std::string a1 = a, a2;
            { size_t p = a.find_first_of(",="); if (p != std::string::npos) { a1 = a.substr(0, p); a2 = a.substr(p + 1); } }
            try {
                switch (c) {
                case 'c': {
                    std::istringstream ss(g_sheets[std::atoi(a1.c_str())]);
                    XSLTInputSource sin(&ss); sin.setSystemId(XalanDOMString("file:///vmem/main.xsl").c_str());
                    const XalanCompiledStylesheet* h = 0;
                    rc = t->compileStylesheet(sin, h);
                    cs.push_back(rc == 0 ? h : 0);
                    break; }
                case 'p': case 'q': {
                    std::istringstream ds(g_sources[std::atoi(a1.c_str())]);
                    XSLTInputSource din(&ds); din.setSystemId(XalanDOMString("file:///vmem/main.xml").c_str());
                    const XalanParsedSource* h = 0;
                    rc = t->parseSource(din, h, c == 'q');
                    ps.push_back(rc == 0 ? h : 0);
                    break; }
                case 't': {
                    size_t i = std::atoi(a1.c_str()), j = std::atoi(a2.c_str());
                    if (i >= cs.size() || j >= ps.size() || cs[i] == 0 || ps[j] == 0) { rc = -90; break; }
                    XSLTResultTarget out(os);
                    rc = t->transform(*ps[j], cs[i], out);
                    break; }
                case 'T': {
                    std::istringstream ss(g_sheets[std::atoi(a1.c_str())]), ds(g_sources[std::atoi(a2.c_str())]);
                    XSLTInputSource sin(&ss), din(&ds);
                    sin.setSystemId(XalanDOMString("file:///vmem/main.xsl").c_str());
                    din.setSystemId(XalanDOMString("file:///vmem/main.xml").c_str());
                    XSLTResultTarget out(os);
                    rc = t->transform(din, sin, out);
                    break; }
                case 'u': {
                    size_t i = std::atoi(a1.c_str());
                    if (i >= cs.size() || cs[i] == 0) { rc = -90; break; }
                    std::istringstream ds(g_sources[std::atoi(a2.c_str())]);
                    XSLTInputSource din(&ds); din.setSystemId(XalanDOMString("file:///vmem/main.xml").c_str());
                    XSLTResultTarget out(os);
                    rc = t->transform(din, cs[i], out);
                    break; }
                case 'v': {
                    size_t j = std::atoi(a2.c_str());
                    if (j >= ps.size() || ps[j] == 0) { rc = -90; break; }
                    std::istringstream ss(g_sheets[std::atoi(a1.c_str())]);
                    XSLTInputSource sin(&ss); sin.setSystemId(XalanDOMString("file:///vmem/main.xsl").c_str());
                    XSLTResultTarget out(os);
                    rc = t->transform(*ps[j], sin, out);
                    break; }
                case 's': {
                    int e = std::atoi(a2.c_str()); if (e < 0 || e >= (int) (sizeof EXPRS / sizeof *EXPRS)) e = 0;
                    t->setStylesheetParam(XalanDOMString(a1.c_str()), XalanDOMString(EXPRS[e]));
                    isvoid = true; break; }
                case 'n':
                    t->setStylesheetParam(XalanDOMString(a1.c_str()), (double) std::atoi(a2.c_str()));
                    isvoid = true; break;
                case 'x': t->clearStylesheetParams(); isvoid = true; break;
                case 'i': { XalanDOMString fn("f"); fn.append(a1.c_str()); t->installExternalFunction(ns, fn, ConstFn(std::atoi(a1.c_str()))); isvoid = true; break; }
                case 'r': { XalanDOMString fn("f"); fn.append(a1.c_str()); t->uninstallExternalFunction(ns, fn); isvoid = true; break; }
                case 'd': {
                    size_t i = std::atoi(a1.c_str());
                    if (i >= cs.size() || cs[i] == 0) { rc = -90; break; }
                    rc = t->destroyStylesheet(cs[i]);
                    cs[i] = 0;
                    break; }
                case 'e': {
                    size_t j = std::atoi(a1.c_str());
                    if (j >= ps.size() || ps[j] == 0) { rc = -90; break; }
                    rc = t->destroyParsedSource(ps[j]);
                    ps[j] = 0;
                    break; }
                case 'o': t->setIndent(std::atoi(a1.c_str())); isvoid = true; break;
                default: rc = -91;
                }
            } catch (const std::exception& e) { rc = -98; }
            catch (...) { rc = -97; }
            // getLastError(): read at most the vector's documented NUL-terminated content
            std::string msg;
            if (!isvoid) { const char* m = t->getLastError(); if (m) msg = m; }
            const std::string o = os.str();
            if (k) std::cout << ";";
            if (isvoid) std::cout << "."; else std::cout << rc;
            std::cout << ":" << fnv(o) << ":" << o.size() << ":" << (isvoid ? std::string("-") : (msg.empty() ? std::string("0") : fnv(msg))) << ":" << residue(*t, base);
            if (verbose) { verb += "# " + op + " out=" + hexs(o) + " msg=" + msg + "\n"; }
        }
        std::cout << "\n" << verb;
        std::cout.flush();
        t->setEntityResolver(0);
        delete t;
    }
    return 0;
}
