"""An independent recogniser of XPath 1.0 expression syntax (Recommendation sections 2, 3 and 3.7),
written from the grammar, used as the oracle for 'strings that are not XPath expressions are
rejected' (C02).  recognise(s) -> True when s is an Expr per the grammar (function names and
arities are NOT checked here), False otherwise."""
import re

NCNAME_START = r"[A-Za-z_À-ÖØ-öø-˿Ͱ-ͽͿ-῿‌-‍⁰-↏Ⰰ-⿯、-퟿豈-﷏ﷰ-�]"
NCNAME_CHAR = NCNAME_START[:-1] + r"\-.0-9·̀-ͯ‿-⁀]"
NCNAME = NCNAME_START + NCNAME_CHAR + "*"

TOKEN_RX = re.compile(
    r"\s*(?:(?P<num>\d+(?:\.\d*)?|\.\d+)"
    r"|(?P<lit>\"[^\"]*\"|'[^']*')"
    r"|(?P<op2>//|::|\.\.|!=|<=|>=)"
    r"|(?P<op1>[()\[\]@,/|+\-=<>.*$])"
    r"|(?P<name>" + NCNAME + r"(?::(?:" + NCNAME + r"|\*))?)"
    r")", re.U)

AXES = {"ancestor", "ancestor-or-self", "attribute", "child", "descendant", "descendant-or-self",
        "following", "following-sibling", "namespace", "parent", "preceding", "preceding-sibling", "self"}
NODETYPES = {"comment", "text", "processing-instruction", "node"}
OPNAMES = {"and", "or", "mod", "div"}


class Bad(Exception):
    pass


def tokenize(s):
    """ExprTokens with the disambiguation rules of section 3.7 applied.
       token = (kind, text): kinds: num lit op name(NameTest) opname mul func axis nodetype var"""
    toks = []
    i = 0
    n = len(s)
    raw = []
    while True:
        m = re.compile(r"\s*", re.U).match(s, i)
        i = m.end()
        if i >= n:
            break
        m = TOKEN_RX.match(s, i)
        if not m or m.end() == i:
            raise Bad("bad character at %d" % i)
        for k in ("num", "lit", "op2", "op1", "name"):
            if m.group(k) is not None:
                raw.append((k, m.group(k), m.start(k), m.end(k)))
                break
        i = m.end()
    for idx, (k, t, st, en) in enumerate(raw):
        prev = toks[-1] if toks else None
        # "preceding token is not one of @, ::, (, [, , or an Operator" => operator context
        operator_ctx = prev is not None and not (
            prev[0] in ("opname", "mul") or (prev[0] == "op" and prev[1] in ("@", "::", "(", "[", ",", "/", "//", "|", "+", "-", "=", "!=", "<", "<=", ">", ">=")))
        if k == "num":
            toks.append(("num", t))
        elif k == "lit":
            toks.append(("lit", t))
        elif k in ("op1", "op2"):
            if t == "*":
                toks.append(("mul", t) if operator_ctx else ("name", "*"))
            elif t == "$":
                # VariableReference: '$' QName with no white space
                if idx + 1 < len(raw) and raw[idx + 1][0] == "name" and raw[idx + 1][2] == en and not raw[idx + 1][1].endswith(":*"):
                    toks.append(("var$", t))
                else:
                    raise Bad("bad variable reference")
            else:
                toks.append(("op", t))
        else:  # name
            if prev is not None and prev[0] == "var$":
                toks[-1] = ("var", t)
                continue
            nxt = raw[idx + 1][1] if idx + 1 < len(raw) else None
            if operator_ctx and ":" not in t:
                if t in OPNAMES:
                    toks.append(("opname", t))
                    continue
                raise Bad("name where an operator is required")
            if operator_ctx:
                raise Bad("name where an operator is required")
            if nxt == "(" and ":" not in t and t in NODETYPES:
                toks.append(("nodetype", t))
            elif nxt == "(" and not t.endswith(":*") and t != "*":
                toks.append(("func", t))
            elif nxt == "::" and ":" not in t:
                if t not in AXES:
                    raise Bad("unknown axis " + t)
                toks.append(("axis", t))
            else:
                toks.append(("name", t))
    if any(t[0] == "var$" for t in toks):
        raise Bad("dangling $")
    return toks


class P:
    def __init__(self, toks):
        self.t, self.i = toks, 0

    def peek(self, k=0):
        return self.t[self.i + k] if self.i + k < len(self.t) else (None, None)

    def isop(self, *ops):
        k, t = self.peek()
        return k == "op" and t in ops

    def eat(self, kind, text=None):
        k, t = self.peek()
        if k != kind or (text is not None and t != text):
            raise Bad("expected %s %s, got %s %s" % (kind, text, k, t))
        self.i += 1
        return t

    # Expr ::= OrExpr
    def expr(self):
        self.binary(0)

    LEVELS = [("opname", ("or",)), ("opname", ("and",)), ("op", ("=", "!=")), ("op", ("<", "<=", ">", ">=")),
              ("op", ("+", "-")), ("mulops", None)]

    def binary(self, lvl):
        if lvl == len(self.LEVELS):
            return self.unary()
        self.binary(lvl + 1)
        while True:
            k, t = self.peek()
            kind, ops = self.LEVELS[lvl]
            if kind == "mulops":
                ok = (k == "mul") or (k == "opname" and t in ("div", "mod"))
            else:
                ok = k == kind and t in ops
            if not ok:
                return
            self.i += 1
            self.binary(lvl + 1)

    def unary(self):
        while self.isop("-"):
            self.i += 1
        self.union()

    def union(self):
        self.path()
        while self.isop("|"):
            self.i += 1
            self.path()

    def starts_primary(self):
        k, t = self.peek()
        return k in ("var", "lit", "num", "func") or (k == "op" and t == "(")

    def path(self):
        if self.starts_primary():
            # FilterExpr ('/' | '//') RelativeLocationPath
            self.primary()
            while self.isop("["):
                self.predicate()
            if self.isop("/", "//"):
                self.i += 1
                self.relpath()
            return
        self.locpath()

    def primary(self):
        k, t = self.peek()
        if k in ("var", "lit", "num"):
            self.i += 1
        elif k == "func":
            self.i += 1
            self.eat("op", "(")
            if not self.isop(")"):
                self.expr()
                while self.isop(","):
                    self.i += 1
                    self.expr()
            self.eat("op", ")")
        else:
            self.eat("op", "(")
            self.expr()
            self.eat("op", ")")

    def starts_step(self):
        k, t = self.peek()
        return k in ("axis", "name", "nodetype") or (k == "op" and t in ("@", ".", ".."))

    def locpath(self):
        if self.isop("/"):
            self.i += 1
            if self.starts_step():
                self.relpath()
            return
        if self.isop("//"):
            self.i += 1
            self.relpath()
            return
        self.relpath()

    def relpath(self):
        self.step()
        while self.isop("/", "//"):
            self.i += 1
            self.step()

    def step(self):
        if self.isop(".", ".."):
            self.i += 1
            return
        k, t = self.peek()
        if k == "axis":
            self.i += 1
            self.eat("op", "::")
        elif self.isop("@"):
            self.i += 1
        k, t = self.peek()
        if k == "name":
            self.i += 1
        elif k == "nodetype":
            self.i += 1
            self.eat("op", "(")
            if t == "processing-instruction" and self.peek()[0] == "lit":
                self.i += 1
            self.eat("op", ")")
        else:
            raise Bad("node test expected")
        while self.isop("["):
            self.predicate()

    def predicate(self):
        self.eat("op", "[")
        self.expr()
        self.eat("op", "]")


def recognise(s):
    try:
        toks = tokenize(s)
        if not toks:
            return False
        p = P(toks)
        p.expr()
        return p.i == len(toks)
    except (Bad, RecursionError):
        return False


if __name__ == "__main__":
    import sys
    for a in sys.argv[1:]:
        print(a, recognise(a))
