// C10 driver: whole transformations through XSLTEngineImpl directly (the way TestXSLT/process.cpp
// does), so that the conflict-reporting ("non-quiet") path of Stylesheet::findTemplate can be
// selected: XalanTransformer has no switch for XSLTProcessor::setQuietConflictWarnings.
//
// One case per line, same protocol as harness/xslt.cpp:
//   <id>|S:<hex stylesheet>|D:<hex source>[|F:<name>=<hex bytes>;...][|O:<opts>]
// opts: nonquiet  -> setQuietConflictWarnings(false)   (default: quiet, as XalanTransformer)
// Output: <id>|ok|<hex output>|<number of warnings the problem listener received>
//         <id>|err|<status>|<hex message>
#include "common.hpp"
#include <map>
#include <xercesc/framework/MemBufInputSource.hpp>
#include <xercesc/sax/EntityResolver.hpp>
#include <xercesc/sax/InputSource.hpp>
#include <xalanc/XSLT/XSLTInputSource.hpp>
#include <xalanc/XSLT/XSLTResultTarget.hpp>
#include <xalanc/XSLT/XSLTEngineImpl.hpp>
#include <xalanc/XSLT/XSLTProcessorEnvSupportDefault.hpp>
#include <xalanc/XSLT/StylesheetConstructionContextDefault.hpp>
#include <xalanc/XSLT/StylesheetExecutionContextDefault.hpp>
#include <xalanc/XSLT/ProblemListener.hpp>
#include <xalanc/XPath/XObjectFactoryDefault.hpp>
#include <xalanc/XPath/XPathFactoryDefault.hpp>
#include <xalanc/XalanSourceTree/XalanSourceTreeDOMSupport.hpp>
#include <xalanc/XalanSourceTree/XalanSourceTreeParserLiaison.hpp>
#include <xalanc/XSLT/XSLTProcessorException.hpp>
#include <xalanc/PlatformSupport/XSLException.hpp>
#include <xercesc/sax/SAXParseException.hpp>
#include <xercesc/sax/SAXException.hpp>

using namespace xalanc;
using namespace verif;

static std::string unhex(const std::string& h)
{
    std::string r;
    for (size_t i = 0; i + 1 < h.size(); i += 2) r += (char) std::strtoul(h.substr(i, 2).c_str(), 0, 16);
    return r;
}

static std::string hex(const std::string& s)
{
    static const char* d = "0123456789abcdef";
    std::string r;
    for (size_t i = 0; i < s.size(); ++i) { r += d[(unsigned char) s[i] >> 4]; r += d[(unsigned char) s[i] & 15]; }
    return r;
}

static std::string narrowX(const XMLCh* s)
{
    std::string r;
    if (s) for (; *s; ++s) r += (char) *s;
    return r;
}

class MemResolver : public xercesc::EntityResolver
{
public:
    std::map<std::string, std::string> m_files;
    virtual xercesc::InputSource* resolveEntity(const XMLCh* const, const XMLCh* const systemId)
    {
        std::string id = narrowX(systemId);
        std::string::size_type p = id.find("/vmem/");
        std::string name = p == std::string::npos ? id : id.substr(p + 6);
        if (p == std::string::npos && id.find(':') != std::string::npos) return 0;
        std::map<std::string, std::string>::const_iterator i = m_files.find(name);
        if (i == m_files.end()) return 0;
        return new xercesc::MemBufInputSource((const XMLByte*) i->second.data(), i->second.size(), systemId, false);
    }
};

class CountingListener : public ProblemListener
{
public:
    CountingListener() : m_warnings(0) {}
    unsigned m_warnings;
    std::string m_last;
    virtual void setPrintWriter(PrintWriter*) {}
    virtual void problem(eSource, eClassification c, const XalanDOMString& msg, const Locator*, const XalanNode*)
    { note(c, msg); }
    virtual void problem(eSource, eClassification c, const XalanNode*, const ElemTemplateElement*, const XalanDOMString& msg,
                         const XalanDOMChar*, XalanFileLoc, XalanFileLoc)
    { note(c, msg); }
    virtual void problem(eSource, eClassification c, const XalanDOMString& msg, const XalanNode*)
    { note(c, msg); }
private:
    void note(eClassification c, const XalanDOMString& msg)
    {
        if (c == eWarning) ++m_warnings;
        else { m_last.clear(); for (XalanDOMString::size_type i = 0; i < msg.length(); ++i) m_last += (char) msg[i]; }
    }
};

int main(int argc, char** argv)
{
    Init init;
    std::istream* in = &std::cin;
    std::ifstream f;
    if (argc > 1) { f.open(argv[1]); in = &f; }
    std::string line;
    while (std::getline(*in, line)) {
        if (line.empty() || line[0] == '#') continue;
        std::vector<std::string> fs;
        { size_t i = 0; while (true) { size_t j = line.find('|', i); fs.push_back(line.substr(i, j == std::string::npos ? j : j - i)); if (j == std::string::npos) break; i = j + 1; } }
        std::string id = fs[0], sheet, src, opts;
        MemResolver res;
        for (size_t k = 1; k < fs.size(); ++k) {
            const std::string& x = fs[k];
            if (x.compare(0, 2, "S:") == 0) sheet = unhex(x.substr(2));
            else if (x.compare(0, 2, "D:") == 0) src = unhex(x.substr(2));
            else if (x.compare(0, 2, "O:") == 0) opts = x.substr(2);
            else if (x.compare(0, 2, "F:") == 0) {
                std::string body = x.substr(2); size_t i = 0;
                while (i < body.size()) {
                    size_t j = body.find(';', i); if (j == std::string::npos) j = body.size();
                    std::string kv = body.substr(i, j - i); size_t e = kv.find('=');
                    if (e != std::string::npos) res.m_files[kv.substr(0, e)] = unhex(kv.substr(e + 1));
                    i = j + 1;
                }
            }
        }
        const bool nonquiet = opts.find("nonquiet") != std::string::npos;
        std::ostringstream os;
        int rc = 0; std::string msg;
        CountingListener listener;
        try {
            MemoryManager& mm = XalanMemMgrs::getDefaultXercesMemMgr();
            XalanSourceTreeDOMSupport dom;
            XalanSourceTreeParserLiaison liaison(dom, mm);
            dom.setParserLiaison(&liaison);
            liaison.setEntityResolver(&res);
            XSLTProcessorEnvSupportDefault env(mm);
            XObjectFactoryDefault xof(mm);
            XPathFactoryDefault xpf(mm);
            XSLTEngineImpl proc(mm, liaison, env, dom, xof, xpf);
            env.setProcessor(&proc);
            proc.setProblemListener(&listener);
            proc.setQuietConflictWarnings(!nonquiet);
            StylesheetConstructionContextDefault cctx(mm, proc, xpf);
            StylesheetExecutionContextDefault ectx(mm, proc, env, dom, xof);
            std::istringstream ss(sheet), ds(src);
            XSLTInputSource sin(&ss, mm), din(&ds, mm);
            sin.setSystemId(XalanDOMString("file:///vmem/main.xsl").c_str());
            din.setSystemId(XalanDOMString("file:///vmem/main.xml").c_str());
            XSLTResultTarget out(os, mm);
            proc.process(din, sin, out, cctx, ectx);
        }
        catch (const XSLException& e) { rc = -2; const XalanDOMString& m = e.getMessage(); for (XalanDOMString::size_type i = 0; i < m.length(); ++i) msg += (char) m[i]; }
        catch (const xercesc::SAXParseException& e) { rc = -3; msg = narrowX(e.getMessage()); }
        catch (const xercesc::SAXException& e) { rc = -4; msg = narrowX(e.getMessage()); }
        catch (const std::exception& e) { rc = -98; msg = std::string("std::exception: ") + e.what(); }
        catch (...) { rc = -97; msg = "unknown exception"; }
        if (rc == 0) std::cout << id << "|ok|" << hex(os.str()) << "|" << listener.m_warnings << "\n";
        else std::cout << id << "|err|" << rc << "|" << hex(msg.empty() ? listener.m_last : msg) << "\n";
        std::cout.flush();
    }
    return 0;
}
