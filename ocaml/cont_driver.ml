(* model side of the C20 correspondence: same line protocol as harness/cont.cpp (first output line
   of each case only; the ".o" oracle line is the harness's own business) *)
let ni = nat_of_int
let int_list (s : string) : int list =     (* "[1,2,3" or "1,2" *)
  let s = if String.length s > 0 && s.[0] = '[' then String.sub s 1 (String.length s - 1) else s in
  List.filter_map (fun x -> if x = "" then None else Some (int_of_string x)) (String.split_on_char ',' s)
let nat_list s = List.map ni (int_list s)
let show_list l = "[" ^ String.concat "," (List.map (fun x -> string_of_int (int_of_nat x)) l) ^ "]"

let parse_vop (t : string) : vop option =
  match String.split_on_char ':' t with
  | ["pb"; x] -> Some (VPush (ni (int_of_string x)))
  | ["pop"] -> Some VPop
  | ["ins1"; p; x] -> Some (VIns1 (ni (int_of_string p), ni (int_of_string x)))
  | ["insn"; p; n; x] -> Some (VInsN (ni (int_of_string p), ni (int_of_string n), ni (int_of_string x)))
  | ["insr"; p; l] -> Some (VInsR (ni (int_of_string p), nat_list l))
  | ["er"; p] -> Some (VErase (ni (int_of_string p)))
  | ["err"; a; b] -> Some (VEraseR (ni (int_of_string a), ni (int_of_string b)))
  | ["rsz"; n; x] -> Some (VResize (ni (int_of_string n), ni (int_of_string x)))
  | ["rsz0"; n] -> Some (VResize (ni (int_of_string n), O))
  | ["rsv"; n] -> Some (VReserve (ni (int_of_string n)))
  | ["clr"] -> Some VClear
  | ["asgr"; l] -> Some (VAssignR (nat_list l))
  | ["at"; i] -> Some (VAt (ni (int_of_string i)))
  | ["idx"; i] -> Some (VIdx (ni (int_of_string i)))
  | ["setidx"; i; x] -> Some (VSetIdx (ni (int_of_string i), ni (int_of_string x)))
  | ["front"] -> Some VFront
  | ["back"] -> Some VBack
  | ["riter"] -> Some VRIter
  | ["cpy"; c] -> Some (VCopy (ni (int_of_string c)))
  | ["asg"] -> Some VAssign
  | ["selfasg"] -> Some VSelfAssign
  | ["swap"] -> Some VSwap
  | ["sel"; r] -> Some (VSel (r <> "0"))
  | ["new"; c] -> Some (VNew (ni (int_of_string c)))
  | ["newn"; n; x] -> Some (VNewN (ni (int_of_string n), ni (int_of_string x)))
  | ["newr"; l] -> Some (VNewR (nat_list l))
  | ["insa"; p; n; i] -> Some (VInsA (ni (int_of_string p), ni (int_of_string n), ni (int_of_string i)))
  | ["rsza"; n; i] -> Some (VResizeA (ni (int_of_string n), ni (int_of_string i)))
  | ["pba"; i] -> Some (VPushA (ni (int_of_string i)))
  | ["asgn"; n; x] -> Some (VAssignN (ni (int_of_string n), ni (int_of_string x)))
  | _ -> None

let show_ret = function
  | RNone -> "-" | RNum n -> string_of_int (int_of_nat n) | ROor -> "oor" | RList l -> show_list l

let show_vobs = function
  | None -> "!"
  | Some (((r, n), c), d) ->
      Printf.sprintf "%s/%d/%d/%s" (show_ret r) (int_of_nat n) (int_of_nat c) (show_list d)

(* vector cases; an op the model does not know ends the model's trace with "?" *)
let run_vec id toks =
  let obs_of s r = let v = cur_vec s in show_vobs (Some (((r, vsize v), v.vcap), v.vdata)) in
  let rec go s acc = function
    | [] -> List.rev acc
    | t :: rest ->
      (match parse_vop t with
       | Some o ->
         (match vstep s o with
          | None -> go s ("!" :: acc) rest
          | Some (s', r) -> go s' (obs_of s' r :: acc) rest)
       | None -> List.rev ("?" :: acc)) in
  Printf.printf "%s %s\n" id (String.concat "|" (go vinit [] toks))

let parse_mop (t : string) : mop option =
  let n x = ni (int_of_string x) in
  match String.split_on_char ':' t with
  | ["ins"; k; v] | ["insp"; k; v] -> Some (MIns (n k, n v))
  | ["set"; k; v] -> Some (MSet (n k, n v))
  | ["get"; k] -> Some (MGet (n k))
  | ["find"; k] -> Some (MFind (n k))
  | ["er"; k] -> Some (MErase (n k))
  | ["erit"; k] -> Some (MEraseIt (n k))
  | ["clr"] -> Some MClear
  | ["cpy"] -> Some MCopy
  | ["asg"] -> Some MAssign
  | ["selfasg"] -> Some MSelfAssign
  | ["swap"] -> Some MSwap
  | ["sel"; r] -> Some (MSel (r <> "0"))
  | ["new"; a; b; c; d] -> Some (MNew (n a, n b, n c, n d))
  | _ -> None

let show_mret = function
  | MRNone -> "-" | MRNum n -> string_of_int (int_of_nat n)
  | MRKV (k, v) -> Printf.sprintf "%d=%d" (int_of_nat k) (int_of_nat v) | MREnd -> "end"

let index_of p l = let rec go i = function [] -> None | x :: r -> if p x then Some i else go (i + 1) r in go 0 l

let show_map (m : xmap) : string =
  let label id =
    match index_of (fun nd -> nd.nid = id) m.m_entries with
    | Some i -> let nd = List.nth m.m_entries i in "L" ^ string_of_int i ^ (if nd.nerased then "e" else "")
    | None ->
      (match index_of (fun nd -> nd.nid = id) m.m_free with
       | Some i -> let nd = List.nth m.m_free i in "F" ^ string_of_int i ^ (if nd.nerased then "" else "n")
       | None -> "?") in
  let bs = List.mapi (fun i b -> (i, b)) m.m_buckets in
  let bs = List.filter (fun (_, b) -> b.vcap <> O) bs in
  let sb (i, b) = Printf.sprintf "%d(%d):%s" i (int_of_nat b.vcap) (String.concat "," (List.map label b.vdata)) in
  Printf.sprintf "%d/%d/%d/%s" (List.length m.m_buckets) (int_of_nat m.m_ec) (List.length m.m_free)
    (String.concat ";" (List.map sb bs))

let run_map id params toks =
  match List.map ni params with
  | [a; b; c; d; e; f; g; h] ->
    let s0 = { mreg0 = new_map a b c d; mreg1 = new_map e f g h; mcur = false; mnext = O } in
    let rec split acc = function
      | [] -> (List.rev acc, false)
      | t :: r -> (match parse_mop t with Some o -> split (o :: acc) r | None -> (List.rev acc, true)) in
    let (ops, cut) = split [] toks in
    let obs = List.map (fun (((r, n), c), m) ->
      Printf.sprintf "%s/%d%s/[%s]/%s" (show_mret r) (int_of_nat n) (if n = O then "e" else "")
        (String.concat "," (List.map (fun (k, v) -> Printf.sprintf "%d=%d" (int_of_nat k) (int_of_nat v)) c))
        (show_map m)) (mrun (fun k -> k) s0 ops) in
    Printf.printf "%s %s\n" id (String.concat "|" (obs @ (if cut then ["?"] else [])))
  | _ -> ()

let parse_sop (t : string) : sop option =
  let n x = ni (int_of_string x) in
  match String.split_on_char ':' t with
  | ["app"; w] -> Some (SApp (nat_list w))
  | ["appn"; k; c] -> Some (SAppN (n k, n c))
  | ["pb"; c] -> Some (SPush (n c))
  | ["ins"; p; w] -> Some (SIns (n p, nat_list w))
  | ["insn"; p; k; c] -> Some (SInsN (n p, n k, n c))
  | ["insit"; p; c] -> Some (SInsIt (n p, n c))
  | ["er"; p; k] -> Some (SErase (n p, n k))
  | ["ernpos"; p] -> Some (SEraseNpos (n p))
  | ["erit"; a; b] -> Some (SEraseIt (n a, n b))
  | ["erit1"; p] -> Some (SEraseIt1 (n p))
  | ["rsz"; k; c] | ["rszgrow"; k; c] -> Some (SResize (n k, n c))
  | ["appsubnpos"; p] -> Some (SAppSubNpos (n p))
  | ["substrnpos"; p] -> Some (SSubstrNpos (n p))
  | ["eritempty"] -> Some (SEraseIt (O, O))
  | ["rsz0"; k] -> Some (SResize0 (n k))
  | ["rsv"; k] -> Some (SReserve (n k))
  | ["clr"] -> Some SClear
  | ["asgw"; w] -> Some (SAssignW (nat_list w))
  | ["asgn"; k; c] -> Some (SAssignN (n k, n c))
  | ["substr"; p; k] -> Some (SSubstr (n p, n k))
  | ["selfsub"; p; k] -> Some (SSelfSub (n p, n k))
  | ["appsub"; p; k] -> Some (SAppSub (n p, n k))
  | ["appo"] -> Some SAppO
  | ["cmp"] -> Some SCmp
  | ["cmpw"; w] -> Some (SCmpW (nat_list w))
  | ["idx"; i] -> Some (SIdx (n i))
  | ["cstr"] -> Some SCStr
  | ["riter"] -> Some SRIter
  | ["cpy"] -> Some SCopy
  | ["asg"] -> Some SAssign
  | ["selfasg"] -> Some SSelfAssign
  | ["swap"] -> Some SSwap
  | ["sel"; r] -> Some (SSel (r <> "0"))
  | _ -> None

let run_str id toks =
  let rec split acc = function
    | [] -> (List.rev acc, false)
    | t :: r -> (match parse_sop t with Some o -> split (o :: acc) r | None -> (List.rev acc, true)) in
  let (ops, cut) = split [] toks in
  let is_cmp = List.map (fun o -> match o with SCmp | SCmpW _ -> true | _ -> false) ops in
  let show (o, cmp) = match o with
    | None -> "!"
    | Some ((((r, n), cs), term), cap) ->
      let rs = match r with
        | SRNone -> "-"
        | SRNum k -> if cmp then string_of_int (int_of_nat k - 1) else string_of_int (int_of_nat k)
        | SRList l -> show_list l in
      Printf.sprintf "%s/%d%s/%s/%s/%d" rs (int_of_nat n) (if n = O then "e" else "") (show_list cs)
        (if term then "z" else "N") (int_of_nat cap) in
  let obs = List.map show (List.combine (strun stinit ops) is_cmp) in
  Printf.printf "%s %s\n" id (String.concat "|" (obs @ (if cut then ["?"] else [])))

let parse_dop (t : string) : dop option =
  let n x = ni (int_of_string x) in
  match String.split_on_char ':' t with
  | ["pb"; x] -> Some (DPush (n x))
  | ["pop"] -> Some DPop
  | ["back"] -> Some DBack
  | ["idx"; i] -> Some (DIdx (n i))
  | ["setidx"; i; x] -> Some (DSetIdx (n i, n x))
  | ["rsz"; k] -> Some (DResize (n k))
  | ["clr"] -> Some DClear
  | ["iter"] -> Some DIter
  | ["riter"] -> Some DRIter
  | ["cpy"] -> Some DCopy
  | ["asg"] -> Some DAssign
  | ["selfasg"] -> Some DSelfAssign
  | ["swap"] -> Some DSwap
  | ["sel"; r] -> Some (DSel (r <> "0"))
  | ["new"; k] -> Some (DNew (n k))
  | _ -> None

let run_deq id params toks =
  match params with
  | [a; b] ->
    let rec split acc = function
      | [] -> (List.rev acc, false)
      | t :: r -> (match parse_dop t with Some o -> split (o :: acc) r | None -> (List.rev acc, true)) in
    let (ops, cut) = split [] toks in
    let s0 = { dreg0 = new_deq (ni a); dreg1 = new_deq (ni b); dcur = false } in
    let show = function
      | None -> "!"
      | Some (((r, n), e), l) -> Printf.sprintf "%s/%d%s/%s" (show_ret r) (int_of_nat n) (if e then "e" else "") (show_list l) in
    let obs = List.map show (drun s0 ops) in
    Printf.printf "%s %s\n" id (String.concat "|" (obs @ (if cut then ["?"] else [])))
  | _ -> ()

let run_set id toks =
  let n x = ni (int_of_string x) in
  let parse t = match String.split_on_char ':' t with
    | ["ins"; k] -> Some (TIns (n k), `Plain)
    | ["er"; k] -> Some (TErase (n k), `Plain)
    | ["find"; k] -> Some (TFind (n k), `Find)
    | ["cnt"; k] -> Some (TFind (n k), `Count)
    | ["clr"] -> Some (TClear, `Plain)
    | ["cpy"] -> Some (TCopy, `Plain)
    | ["sel"; r] -> Some (TSel (r <> "0"), `Plain)
    | _ -> None in
  let rec split acc = function
    | [] -> (List.rev acc, false)
    | t :: r -> (match parse t with Some o -> split (o :: acc) r | None -> (List.rev acc, true)) in
  let (ops, cut) = split [] toks in
  let res = set_run (fun k -> k) (List.map fst ops) in
  let show ((((r, sz), cts), _), kind) =
    let rs = match r, kind with
      | MRKV (k, _), `Find -> string_of_int (int_of_nat k)
      | MREnd, `Find -> "end"
      | MRKV _, `Count -> "1"
      | MREnd, `Count -> "0"
      | _, _ -> show_mret r in
    Printf.sprintf "%s/%d/%s" rs (int_of_nat sz) (show_list (List.map fst cts)) in
  let obs = List.map show (List.combine res (List.map snd ops)) in
  Printf.printf "%s %s\n" id (String.concat "|" (obs @ (if cut then ["?"] else [])))

let parse_lop (t : string) : lop option =
  let n x = ni (int_of_string x) in
  match String.split_on_char ':' t with
  | ["pb"; v] -> Some (LPushB (n v))
  | ["pf"; v] -> Some (LPushF (n v))
  | ["popb"] -> Some LPopB
  | ["popf"] -> Some LPopF
  | ["ins"; p; v] -> Some (LIns (n p, n v))
  | ["er"; p] -> Some (LErase (n p))
  | ["front"] -> Some LFront
  | ["back"] -> Some LBack
  | ["riter"] -> Some LRIter
  | ["clr"] -> Some LClear
  | ["swap"] -> Some LSwap
  | ["sel"; r] -> Some (LSel (r <> "0"))
  | ["spl1"; p; q] -> Some (LSplice1 (n p, n q))
  | ["spln"; p; a; b] -> Some (LSpliceN (n p, n a, n b))
  | ["splself"; p; q] -> Some (LSpliceSelf (n p, n q))
  | _ -> None

let run_list id toks =
  let rec split acc = function
    | [] -> (List.rev acc, false)
    | t :: r -> (match parse_lop t with Some o -> split (o :: acc) r | None -> (List.rev acc, true)) in
  let (ops, cut) = split [] toks in
  let show = function
    | None -> "!"
    | Some ((((r, n), vs), ids), fr) ->
      Printf.sprintf "%s/%d%s/%s/%s/%d" (show_ret r) (int_of_nat n) (if n = O then "e" else "") (show_list vs) (show_list ids) (int_of_nat fr) in
  let obs = List.map show (grun ginit ops) in
  Printf.printf "%s %s\n" id (String.concat "|" (obs @ (if cut then ["?"] else [])))

let () =
  let ic = if Array.length Sys.argv > 1 then open_in Sys.argv.(1) else stdin in
  iter_lines ic (fun line ->
    match split_ws line with
    | id :: kind :: params :: toks when String.length id > 0 && id.[0] <> '#' ->
      (match kind with
       | "vi" | "vs" -> run_vec id toks
       | "m" -> run_map id (int_list params) toks
       | "s" -> run_str id toks
       | "d" -> run_deq id (int_list params) toks
       | "st" -> run_set id toks
       | "l" -> run_list id toks
       | _ -> ())
    | _ -> ())
