(* C03, part "errors" — the guards that make erroneous (non-terminating) stylesheets end in a
   reported error.  The models are instantiated with the facts GenSafeErr.v reads from the source on
   every run (how m_guardStack is searched, comparison and constant of the depth limits); a change of
   one of them to another recognised shape makes the corresponding `exact` fail.

   deps / calls : nat -> list nat is the dependency graph of the stylesheet: top-level variable v
   references, unconditionally and in this order, the variables deps v (template t instantiates the
   templates calls t).  closed n deps: the variables are 0..n-1. *)
From Coq Require Import List Arith Bool NArith Lia.
Require Import XV.SafeErrDefs XV.SafeErrModel XV.GenSafeErr XV.SafeErrInst.
Import ListNotations.

Definition var_eval (deps : nat -> list nat) (n v : nat) : gres :=
  g_eval variable_guard_search variable_value_stored variable_dlimit deps (S n) g_init v.

Definition attset_eval (deps : nat -> list nat) (n v : nat) : gres :=
  g_eval attribute_set_guard_search attribute_set_value_stored None deps (S n) g_init v.

(* --- circular definitions of top-level variables (VariablesStack::findXObject), the tree at hand ---
   variable_dlimit is None for the code without a limit on the nesting of lazy evaluations and Some L
   for the code with 'if (m_guardStack.size() >= L) error' in front of the push; the statements of
   this block hold for both and are instantiated with what the translator found. *)

(* fuel = number of variables + 1 is always enough: the lazy evaluation terminates *)
Theorem guard_terminates :
  forall n deps v, closed n deps -> v < n -> var_eval deps n v <> GFuel.
Proof. exact (fun n deps v C H => guard_terminates_l n true variable_dlimit deps C v H). Qed.
Print Assumptions guard_terminates.

(* a reference that reaches a cycle always ends in a reported error *)
Theorem cycle_always_reported :
  forall n deps v, closed n deps -> v < n -> reaches_cycle deps v ->
    (exists s w, var_eval deps n v = GCirc s w) \/ (exists s w, var_eval deps n v = GDeep s w).
Proof. exact (fun n deps v C H => cycle_is_error_l n true variable_dlimit deps C v H). Qed.
Print Assumptions cycle_always_reported.

(* when no chain of references from v is as long as the nesting limit (always, when there is none):
   the circular-definition error is raised iff v reaches a cycle, and the evaluation succeeds iff every
   dependency path from v ends *)
Theorem guard_detects_every_cycle :
  forall n deps v, closed n deps -> v < n ->
    (forall L, variable_dlimit = Some L -> ~ deep deps L v) ->
    ((exists s w, var_eval deps n v = GCirc s w) <-> reaches_cycle deps v) /\
    ((exists s, var_eval deps n v = GOk s) <-> wf_from deps v).
Proof. exact (fun n deps v C H => short_chains_unaffected_l n true variable_dlimit deps C v H). Qed.
Print Assumptions guard_detects_every_cycle.

(* the variable the circular-definition message names lies on a cycle that the referenced variable reaches *)
Theorem guard_reports_a_variable_on_a_cycle :
  forall n deps v s w, closed n deps -> v < n -> var_eval deps n v = GCirc s w ->
    reach deps v w /\ on_cycle deps w.
Proof. exact (fun n deps v s w C H => circ_sound n true variable_dlimit deps C v H s w). Qed.
Print Assumptions guard_reports_a_variable_on_a_cycle.

(* success only when every dependency path from the variable ends *)
Theorem guard_success_sound :
  forall n deps v s, closed n deps -> v < n -> var_eval deps n v = GOk s -> wf_from deps v.
Proof. exact (fun n deps v s C H => ok_sound n true variable_dlimit deps C v H s). Qed.
Print Assumptions guard_success_sound.

(* the nesting error is raised only when a chain of as many references as the limit exists below v: the
   stack then holds exactly that many variables, a duplicate-free chain, and w is the next one *)
Theorem nesting_error_sound :
  forall n deps v s w, closed n deps -> v < n -> var_eval deps n v = GDeep s w ->
    variable_dlimit = Some (length (g_guard s)) /\ reach deps v w /\ deep deps (length (g_guard s)) v
    /\ NoDup (w :: g_guard s) /\ chain deps (w :: g_guard s).
Proof. exact (fun n deps v s w C H => deep_sound n true variable_dlimit deps C v H s w). Qed.
Print Assumptions nesting_error_sound.

(* the guard stack (and with it the native recursion) never gets deeper than the number of variables,
   nor than the limit when there is one *)
Theorem guard_stack_bounded :
  forall n deps v, closed n deps -> v < n ->
    match var_eval deps n v with
    | GOk s => g_hw s <= n /\ within variable_dlimit (g_hw s)
    | GCirc s _ => g_hw s <= n /\ length (g_guard s) <= n /\ within variable_dlimit (g_hw s)
    | GDeep s _ => g_hw s <= n /\ within variable_dlimit (g_hw s)
    | GFuel => False
    end.
Proof. exact (fun n deps v C H => guard_stack_bounded_l n true variable_dlimit deps C v H). Qed.
Print Assumptions guard_stack_bounded.

(* after a successful evaluation the stack is empty again; at a throw it holds a duplicate-free
   dependency path, and reset() (which follows every transformation) empties it *)
Theorem guard_balanced :
  forall n deps v, closed n deps -> v < n ->
    match var_eval deps n v with
    | GOk s => g_guard s = []
    | GCirc s w => NoDup (g_guard s) /\ chain deps (g_guard s) /\ In w (g_guard s) /\ g_guard (g_reset s) = []
    | GDeep s w => NoDup (g_guard s) /\ chain deps (g_guard s) /\ ~ In w (g_guard s) /\ g_guard (g_reset s) = []
    | GFuel => False
    end.
Proof. exact (fun n deps v C H => guard_balanced_l n true variable_dlimit deps C v H). Qed.
Print Assumptions guard_balanced.

(* nested lazy evaluations: from any state the evaluation can be in, success restores the stack *)
Theorem guard_balanced_from_any_state :
  forall n deps s v f, closed n deps -> ginv n variable_dlimit deps s -> v < n -> linked deps (g_guard s) v ->
    n + 1 <= f + length (g_guard s) ->
    forall s', g_eval variable_guard_search variable_value_stored variable_dlimit deps f s v = GOk s' -> g_guard s' = g_guard s.
Proof. exact (fun n deps s v f => guard_balanced_any n true variable_dlimit deps s v f). Qed.
Print Assumptions guard_balanced_from_any_state.

(* --- the same for xsl:attribute-set (pushOnElementRecursionStack; nothing stored, no limit) -------- *)

Theorem attribute_set_guard_detects_every_cycle :
  forall n deps v, closed n deps -> v < n ->
    attset_eval deps n v <> GFuel /\
    ((exists s w, attset_eval deps n v = GCirc s w) <-> reaches_cycle deps v).
Proof.
  exact (fun n deps v C H => conj (guard_terminates_l n false None deps C v H)
                                  (guard_detects_every_cycle_l n false deps C v H)).
Qed.
Print Assumptions attribute_set_guard_detects_every_cycle.

Theorem attribute_set_guard_balanced :
  forall n deps v, closed n deps -> v < n ->
    match attset_eval deps n v with
    | GOk s => g_guard s = [] /\ g_hw s <= n
    | GCirc s w => NoDup (g_guard s) /\ In w (g_guard s) /\ g_hw s <= n
    | GDeep _ _ => False
    | GFuel => False
    end.
Proof. exact attset_balanced_l. Qed.
Print Assumptions attribute_set_guard_balanced.

(* --- why the whole stack has to be searched: with the other recognised shape (top of the stack
       only) a cycle of length two keeps the evaluation running for every amount of fuel ------------- *)

Theorem top_only_guard_refuted :
  exists deps n v, closed n deps /\ v < n /\ reaches_cycle deps v /\
    forall fuel, g_eval SearchTopOnly variable_value_stored None deps fuel g_init v = GFuel.
Proof. exact (top_only_refuted_l true). Qed.
Print Assumptions top_only_guard_refuted.

(* --- depth of the native recursion (findXObject -> getValue -> XPath::execute -> findXObject) ------- *)

(* VARIANT WITHOUT a nesting limit (finding K-C03e-1): no constant bounds the depth - a chain
   v0 -> v1 -> ... -> vB drives it to B + 1 ... *)
Theorem native_recursion_constant_bound_refuted :
  ~ exists B, forall n deps v s, closed n deps -> v < n ->
      g_eval SearchWholeStack true None deps (S n) g_init v = GOk s -> g_hw s <= B.
Proof. exact native_bound_refuted_l. Qed.
Print Assumptions native_recursion_constant_bound_refuted.

(* ... what does hold there: the depth is at most the number of variables *)
Theorem native_recursion_bound_partial :
  forall B n deps v s, n <= B -> closed n deps -> v < n ->
    g_eval SearchWholeStack true None deps (S n) g_init v = GOk s -> g_hw s <= B.
Proof. exact native_bound_partial_l. Qed.
Print Assumptions native_recursion_bound_partial.

(* VARIANT WITH the nesting limit L (for every L): whatever the stylesheet, the recursion is never deeper
   than L; the nesting error is raised exactly at depth L and only when L further references below v exist *)
Theorem native_recursion_bounded :
  forall L n deps v, closed n deps -> v < n ->
    match g_eval SearchWholeStack true (Some L) deps (S n) g_init v with
    | GOk s => g_hw s <= L
    | GCirc s _ => g_hw s <= L
    | GDeep s w => g_hw s <= L /\ length (g_guard s) = L /\ deep deps L v
    | GFuel => False
    end.
Proof. exact (fun L n deps v C H => native_recursion_bounded_l L n true deps C v H). Qed.
Print Assumptions native_recursion_bounded.

(* ... and a stylesheet without a chain of L references is evaluated as if there were no limit *)
Theorem nesting_limit_does_not_interfere :
  forall L n deps v, closed n deps -> v < n -> ~ deep deps L v ->
    ((exists s w, g_eval SearchWholeStack true (Some L) deps (S n) g_init v = GCirc s w) <-> reaches_cycle deps v) /\
    ((exists s, g_eval SearchWholeStack true (Some L) deps (S n) g_init v = GOk s) <-> wf_from deps v).
Proof.
  exact (fun L n deps v C H D => short_chains_unaffected_l n true (Some L) deps C v H
           (fun L' E => match E in (_ = o) return (match o with Some k => ~ deep deps k v | None => True end) with eq_refl => D end)).
Qed.
Print Assumptions nesting_limit_does_not_interfere.

(* THE TREE AT HAND: the bounded statement when the translator found the limit, the refutation otherwise *)
Theorem native_recursion_this_tree : native_recursion_statement variable_dlimit.
Proof. exact (native_recursion_this_tree_l variable_dlimit). Qed.
Print Assumptions native_recursion_this_tree.

(* --- template / for-each nesting limit (pushCurrentTemplate) ------------------------------------- *)


Definition template_run (calls : nat -> list nat) (t : nat) : tres :=
  t_call template_limit_cmp template_nesting_limit calls (S (N.to_nat template_nesting_limit))
         (t_init template_stack_initial) t.

(* for EVERY call graph (finite or not, cyclic or not) the instantiation terminates within fuel limit + 1 *)
Theorem template_limit_terminates :
  forall calls t, template_run calls t <> TFuel.
Proof. exact (template_limit_terminates_l template_nesting_limit template_stack_initial template_initial_le_limit). Qed.
Print Assumptions template_limit_terminates.

(* the depth counter never exceeds the limit *)
Theorem template_depth_bounded :
  forall calls t,
    match template_run calls t with
    | TOk s => (t_hw s <= template_nesting_limit)%N
    | TErr s => (t_hw s <= template_nesting_limit)%N
    | TFuel => False
    end.
Proof. exact (template_depth_bounded_l template_nesting_limit template_stack_initial template_initial_le_limit). Qed.
Print Assumptions template_depth_bounded.

(* success restores the depth; the error is raised exactly at the limit *)
Theorem template_balanced :
  forall calls t,
    match template_run calls t with
    | TOk s => t_size s = template_stack_initial
    | TErr s => t_size s = template_nesting_limit
    | TFuel => False
    end.
Proof. exact (template_balanced_l template_nesting_limit template_stack_initial template_initial_le_limit). Qed.
Print Assumptions template_balanced.

(* "Infinite recursion" is reported iff a chain of limit - initial further nested instantiations exists *)
Theorem template_limit_reports :
  forall calls t, (exists s, template_run calls t = TErr s)
                  <-> deep calls (N.to_nat (template_nesting_limit - template_stack_initial)) t.
Proof. exact (template_limit_reports_l template_nesting_limit template_stack_initial template_initial_le_limit). Qed.
Print Assumptions template_limit_reports.

(* in particular every recursion that does not end (a reachable cycle of unconditional instantiations) is reported *)
Theorem template_recursion_reported :
  forall calls t, reaches_cycle calls t -> exists s, template_run calls t = TErr s.
Proof. exact (template_recursion_reported_l template_nesting_limit template_stack_initial template_initial_le_limit). Qed.
Print Assumptions template_recursion_reported.

(* --- XPath parser nesting counter ---------------------------------------------------------------- *)

Theorem xpath_nesting_accepts_iff :
  forall depth, nesting_refused xpath_nesting_cmp xpath_nesting_limit depth = false
                <-> (depth <= xpath_nesting_limit)%N.
Proof. exact (nesting_accepts_iff xpath_nesting_limit). Qed.
Print Assumptions xpath_nesting_accepts_iff.

(* --- the hypotheses are satisfiable, the statements are not vacuous ------------------------------- *)

(* a -> b -> c -> a, d -> a, e -> f, f: referencing d reports a (found again when c references it) *)
Definition ex_graph : nat -> list nat := table_deps [[1]; [2]; [0]; [0]; [5]; []].

Example ex_closed : closed 6 ex_graph.
Proof.
  intros v d Hv. unfold ex_graph, table_deps.
  do 6 (destruct v as [|v]; [cbn; intuition lia|]). lia.
Qed.

Example ex_cycle_reported :
  match var_eval ex_graph 6 3 with GCirc s w => w = 0 /\ g_guard s = [2; 1; 0; 3] | _ => False end.
Proof. vm_compute. split; reflexivity. Qed.

Example ex_acyclic_ok :
  match var_eval ex_graph 6 4 with GOk s => g_guard s = [] /\ g_cache s = [4; 5] /\ g_hw s = 2 | _ => False end.
Proof. vm_compute. repeat split. Qed.

Example ex_reaches_cycle : reaches_cycle ex_graph 3.
Proof.
  exists 0. split.
  - eapply reach_step; [left; reflexivity|apply reach_refl].
  - exists 1. split; [left; reflexivity|].
    eapply reach_step; [left; reflexivity|]. eapply reach_step; [left; reflexivity|apply reach_refl].
Qed.

Example ex_wf : wf_from ex_graph 4.
Proof.
  constructor. intros d [<-|[]]. constructor. intros d [].
Qed.

(* template limit with a small limit (the generated one is used in the theorems above) *)
Example ex_template_cut :
  match t_call CmpGe 5 (fun _ => [0]) 6 (t_init 1) 0 with TErr s => t_size s = 5%N /\ t_hw s = 5%N | _ => False end.
Proof. vm_compute. split; reflexivity. Qed.

Example ex_template_ok :
  match t_call CmpGe 5 (table_deps [[1; 2]; [2]; []]) 6 (t_init 1) 0 with TOk s => t_size s = 1%N /\ t_hw s = 4%N | _ => False end.
Proof. vm_compute. split; reflexivity. Qed.
