(* PatModel.v — C09, part 1: the tree, ancestor lists, predicate filtering, and the correctness of the
   positional-predicate machinery (doStepPredicate + handleFoundIndex decide membership in the forward step). *)
From Coq Require Import List Bool Arith Lia.
Require Import XV.PatDefs.
Import ListNotations.

(** * membership helpers *)
Lemma mem_In : forall x l, mem x l = true <-> In x l.
Proof.
  intros x l. unfold mem. rewrite existsb_exists. split.
  - intros [y [Hy E]]. apply Nat.eqb_eq in E. subst. exact Hy.
  - intros H. exists x. split; [exact H | apply Nat.eqb_refl].
Qed.

Lemma mem_false_not_In : forall x l, mem x l = false <-> ~ In x l.
Proof.
  intros x l. rewrite <- mem_In. destruct (mem x l).
  - split; [discriminate | intro H; exfalso; apply H; reflexivity].
  - split; [intros _ H; discriminate | reflexivity].
Qed.

(** * parents and ancestors *)
Lemma parent_lt : forall D n p, parent D n = Some p -> p < n.
Proof.
  intros D n p. unfold parent. destruct (nth_error D n) as [r|]; [|discriminate].
  destruct (npar r) as [q|]; [|discriminate].
  destruct (q <? n) eqn:E; [|discriminate]. intros H. inversion H. subst. apply Nat.ltb_lt. exact E.
Qed.

Lemma parent_valid : forall D n p, parent D n = Some p -> n < length D.
Proof.
  intros D n p. unfold parent. destruct (nth_error D n) as [r|] eqn:E; [|discriminate].
  intros _. apply nth_error_Some. rewrite E. discriminate.
Qed.

Lemma kind_invalid : forall D n, length D <= n -> kind_of D n = KNs.
Proof.
  intros D n H. unfold kind_of. apply nth_error_None in H. rewrite H. reflexivity.
Qed.

Lemma node_ind : forall (D : doc) (P : nat -> Prop),
  (forall n, (forall p, parent D n = Some p -> P p) -> P n) -> forall n, P n.
Proof.
  intros D P H n. induction n as [n IH] using lt_wf_ind.
  apply H. intros p Hp. apply IH. eapply parent_lt; eauto.
Qed.

Lemma aos_f_stable : forall f f' D n, n < f -> n < f' -> aos_f f D n = aos_f f' D n.
Proof.
  induction f as [|f IH]; intros f' D n H1 H2; [lia|].
  destruct f' as [|f']; [lia|]. cbn [aos_f].
  destruct (parent D n) as [p|] eqn:E; [|reflexivity].
  f_equal. pose proof (parent_lt _ _ _ E). apply IH; lia.
Qed.

Lemma aos_eq : forall D n,
  aos D n = n :: match parent D n with Some p => aos D p | None => [] end.
Proof.
  intros D n. unfold aos at 1. cbn [aos_f]. destruct (parent D n) as [p|] eqn:E; [|reflexivity].
  f_equal. pose proof (parent_lt _ _ _ E). unfold aos. apply aos_f_stable; lia.
Qed.

Lemma aos_self : forall D n, In n (aos D n).
Proof. intros. rewrite aos_eq. left. reflexivity. Qed.

Lemma aos_cases : forall D a c, In a (aos D c) ->
  a = c \/ exists p, parent D c = Some p /\ In a (aos D p).
Proof.
  intros D a c H. rewrite aos_eq in H. destruct H as [H|H]; [left; auto|].
  destruct (parent D c) as [p|]; [|contradiction]. right. exists p. auto.
Qed.

Lemma aos_up : forall D a c p, parent D c = Some p -> In a (aos D p) -> In a (aos D c).
Proof. intros D a c p Hp H. rewrite aos_eq, Hp. right. exact H. Qed.

Lemma aos_split : forall D c a, In a (aos D c) -> exists l, aos D c = l ++ aos D a.
Proof.
  intros D c. induction c as [c IH] using (node_ind D). intros a H.
  apply aos_cases in H. destruct H as [H|[p [Hp H]]].
  - subst. exists []. reflexivity.
  - destruct (IH p Hp a H) as [l Hl]. exists (c :: l).
    rewrite (aos_eq D c), Hp, Hl. reflexivity.
Qed.

Lemma aos_trans : forall D a b c, In a (aos D b) -> In b (aos D c) -> In a (aos D c).
Proof.
  intros D a b c H1 H2. destruct (aos_split D c b H2) as [l Hl]. rewrite Hl.
  apply in_or_app. right. exact H1.
Qed.

Lemma aos_parent_in : forall D c n a, In c (aos D n) -> parent D c = Some a -> In a (aos D n).
Proof.
  intros D c n a H Hp. eapply aos_trans; [|exact H]. eapply aos_up; [exact Hp|apply aos_self].
Qed.

(* the nearest ancestor satisfying a test is at or below any ancestor satisfying it *)
Lemma find_aos : forall D (P : nat -> bool) c a, In a (aos D c) -> P a = true ->
  exists g, find P (aos D c) = Some g /\ In a (aos D g).
Proof.
  intros D P c. induction c as [c IH] using (node_ind D). intros a H Pa.
  rewrite (aos_eq D c). cbn [find]. destruct (P c) eqn:Pc.
  - exists c. split; [reflexivity|exact H].
  - apply aos_cases in H. destruct H as [H|[p [Hp H]]].
    + subst. rewrite Pa in Pc. discriminate.
    + rewrite Hp. apply (IH p Hp a H Pa).
Qed.

(** * well-formed documents *)
Lemma wf_doc_node : forall D n, wf_doc D = true -> n < length D -> wf_node D n = true.
Proof.
  intros D n H Hn. unfold wf_doc in H. rewrite forallb_forall in H. apply H.
  unfold nodes. apply in_seq. lia.
Qed.

Lemma wf_parent_container : forall D c p, wf_doc D = true -> parent D c = Some p ->
  is_container (kind_of D p) = true /\ is_root (kind_of D c) = false.
Proof.
  intros D c p H Hp. pose proof (wf_doc_node D c H (parent_valid _ _ _ Hp)) as W.
  unfold wf_node in W. rewrite Hp in W.
  apply andb_prop in W. destruct W as [W _]. apply andb_prop in W. destruct W as [W1 W2].
  split; [exact W2|]. destruct (is_root (kind_of D c)); [discriminate|reflexivity].
Qed.

Lemma wf_noparent_root : forall D c, wf_doc D = true -> c < length D -> parent D c = None ->
  is_root (kind_of D c) = true.
Proof.
  intros D c H Hc Hp. pose proof (wf_doc_node D c H Hc) as W. unfold wf_node in W.
  rewrite Hp in W. exact W.
Qed.

Lemma container_not_attr : forall k, is_container k = true -> is_attr k = false.
Proof. intros k. destruct k; simpl; intro H; try reflexivity; discriminate. Qed.

(* every proper ancestor is a container *)
Lemma aos_container : forall D c x, wf_doc D = true -> In c (aos D x) ->
  c = x \/ is_container (kind_of D c) = true.
Proof.
  intros D c x W. induction x as [x IH] using (node_ind D). intros H.
  apply aos_cases in H. destruct H as [H|[p [Hp H]]]; [left; exact H|].
  right. destruct (IH p Hp H) as [E|E]; [|exact E].
  subst. apply (wf_parent_container D x p W Hp).
Qed.

(** * children, attributes *)
Lemma opt_is_true : forall o p, opt_is o p = true <-> o = Some p.
Proof.
  intros o p. destruct o as [q|]; simpl.
  - rewrite Nat.eqb_eq. split; intro H; [subst; reflexivity|inversion H; reflexivity].
  - split; discriminate.
Qed.

Lemma in_children : forall D p m,
  In m (children D p) <-> parent D m = Some p /\ is_attr (kind_of D m) = false.
Proof.
  intros D p m. unfold children. rewrite filter_In, andb_true_iff, opt_is_true, negb_true_iff.
  split.
  - intros [_ H]. exact H.
  - intros [H1 H2]. split; [|split; assumption]. unfold nodes. apply in_seq.
    pose proof (parent_valid _ _ _ H1). lia.
Qed.

Lemma in_attributes : forall D p m,
  In m (attributes D p) <-> parent D m = Some p /\ is_attr (kind_of D m) = true.
Proof.
  intros D p m. unfold attributes. rewrite filter_In, andb_true_iff, opt_is_true.
  split.
  - intros [_ H]. exact H.
  - intros [H1 H2]. split; [|split; assumption]. unfold nodes. apply in_seq.
    pose proof (parent_valid _ _ _ H1). lia.
Qed.

(** * predicate filtering *)
Definition wf_pred (p : predi) : Prop :=
  pfl p = false -> forall n i s i' s', pfn p n i s = pfn p n i' s'.

Lemma keep_from_sub : forall p s l i x, In x (keep_from p s i l) -> In x l.
Proof.
  intros p s l. induction l as [|y r IH]; intros i x H; [exact H|].
  cbn [keep_from] in H. destruct (holds (pfn p y i s) i).
  - destruct H as [H|H]; [left; exact H|right; eapply IH; exact H].
  - right. eapply IH; exact H.
Qed.

Lemma keep_from_true : forall p s l i x, (forall i s, pfn p x i s = PB true) -> In x l ->
  In x (keep_from p s i l).
Proof.
  intros p s l. induction l as [|y r IH]; intros i x Hx H; [exact H|].
  cbn [keep_from]. destruct H as [H|H].
  - subst. rewrite Hx. cbn [holds]. left. reflexivity.
  - destruct (holds (pfn p y i s) i); [right|]; apply IH; assumption.
Qed.

Lemma keep_from_false : forall p s l i x, (forall i s, pfn p x i s = PB false) ->
  ~ In x (keep_from p s i l).
Proof.
  intros p s l. induction l as [|y r IH]; intros i x Hx H; [exact H|].
  cbn [keep_from] in H. destruct (holds (pfn p y i s) i) eqn:E.
  - destruct H as [H|H].
    + subst. rewrite Hx in E. discriminate.
    + eapply IH; eauto.
  - eapply IH; eauto.
Qed.

Lemma keep_sub : forall p l x, In x (keep p l) -> In x l.
Proof. intros p l x. apply keep_from_sub. Qed.

Lemma apply_preds_cons : forall p ps l, apply_preds (p :: ps) l = apply_preds ps (keep p l).
Proof. reflexivity. Qed.

Lemma apply_preds_sub : forall ps l x, In x (apply_preds ps l) -> In x l.
Proof.
  induction ps as [|p ps IH]; intros l x H; [exact H|].
  rewrite apply_preds_cons in H. apply IH in H. eapply keep_sub; exact H.
Qed.

(** * doStepPredicate decides membership in the filtered candidate list *)
Lemma do_preds_inv : forall ps, Forall wf_pred ps -> forall mid c score fi,
  fi = mem c (apply_preds ps mid) ->
  (score = true /\ In c mid) \/ score = fi ->
  do_preds fi ps c score = fi.
Proof.
  induction ps as [|p ps IH]; intros W mid c score fi Hfi Hs.
  - cbn [do_preds]. destruct Hs as [[Hs Hin]|Hs]; [|exact Hs].
    rewrite Hs, Hfi. cbn [apply_preds fold_left]. symmetry. apply mem_In. exact Hin.
  - inversion_clear W as [|? ? Wp Wps].
    rewrite apply_preds_cons in Hfi. cbn [do_preds].
    destruct (pfl p) eqn:Fl.
    + apply (IH Wps (keep p mid)); [exact Hfi|right; reflexivity].
    + destruct (pfn p c 0 0) as [b|k] eqn:E.
      * assert (Hind : forall i s, pfn p c i s = PB b).
        { intros i s. rewrite <- E. apply Wp. exact Fl. }
        destruct b.
        -- apply (IH Wps (keep p mid)); [exact Hfi|].
           destruct Hs as [[Hs Hin]|Hs]; [left|right; exact Hs].
           split; [exact Hs|]. unfold keep. apply keep_from_true; assumption.
        -- symmetry. rewrite Hfi. apply mem_false_not_In. intro H.
           apply apply_preds_sub in H. unfold keep in H. eapply keep_from_false; eauto.
      * apply (IH Wps (keep p mid)); [exact Hfi|right; reflexivity].
Qed.

Lemma do_preds_correct : forall ps cands c, Forall wf_pred ps -> In c cands ->
  do_preds (mem c (apply_preds ps cands)) ps c true = mem c (apply_preds ps cands).
Proof.
  intros ps cands c W H. apply (do_preds_inv ps W cands); [reflexivity|left; split; [reflexivity|exact H]].
Qed.

(** * one step: the matcher's test is the specification's "selected from its parent" *)
Definition sstep_ok (D : doc) (st : sstep) (c : nat) : Prop :=
  exists p, parent D c = Some p /\ In c (spec_step D st p).

Lemma rerun_is_spec : forall D st p,
  rerun_step D (s_attr st) (s_test st) (s_preds st) p = spec_step D st p.
Proof. reflexivity. Qed.

Lemma in_spec_step_parent : forall D st p n, In n (spec_step D st p) -> parent D n = Some p.
Proof.
  intros D st p n H. unfold spec_step in H. apply apply_preds_sub in H.
  destruct (s_attr st); apply filter_In in H; destruct H as [H _].
  - apply in_attributes in H. tauto.
  - apply in_children in H. tauto.
Qed.

Lemma attr_test_attr : forall t k, attr_test t k = true -> is_attr k = true.
Proof. intros t k. destruct t, k; simpl; intro H; try discriminate; reflexivity. Qed.

Lemma step_ok_spec : forall D st c, wf_doc D = true -> Forall wf_pred (s_preds st) ->
  (step_ok D (s_attr st) (s_test st) (s_preds st) c = true <-> sstep_ok D st c).
Proof.
  intros D st c W Wp. unfold step_ok, sstep_ok. split.
  - intros H. apply andb_prop in H. destruct H as [Ht Hd].
    assert (Hc : c < length D).
    { destruct (lt_dec c (length D)) as [L|L]; [exact L|]. exfalso.
      rewrite (kind_invalid D c) in Ht by lia. destruct (s_attr st); [|discriminate].
      destruct (s_test st); discriminate. }
    assert (Hnr : is_root (kind_of D c) = false).
    { destruct (s_attr st).
      - apply attr_test_attr in Ht. destruct (kind_of D c); try discriminate; reflexivity.
      - apply andb_prop in Ht. destruct Ht as [Ht _]. apply andb_prop in Ht. destruct Ht as [_ Ht].
        apply negb_true_iff in Ht. exact Ht. }
    destruct (parent D c) as [p|] eqn:Hp.
    2:{ rewrite (wf_noparent_root D c W Hc Hp) in Hnr. discriminate. }
    exists p. split; [reflexivity|].
    unfold found_index in Hd. rewrite Hp in Hd. rewrite rerun_is_spec in Hd.
    unfold spec_step in *.
    set (cands := if s_attr st
                  then filter (fun m => attr_test (s_test st) (kind_of D m)) (attributes D p)
                  else filter (fun m => child_test (s_test st) (kind_of D m)) (children D p)) in *.
    assert (Hin : In c cands).
    { unfold cands. destruct (s_attr st); apply filter_In.
      - split; [|exact Ht]. apply in_attributes. split; [exact Hp|]. eapply attr_test_attr; exact Ht.
      - apply andb_prop in Ht. destruct Ht as [Ht Ht2]. apply andb_prop in Ht. destruct Ht as [Ht1 _].
        split; [|exact Ht2]. apply in_children. split; [exact Hp|]. apply negb_true_iff. exact Ht1. }
    rewrite (do_preds_correct _ _ _ Wp Hin) in Hd. apply mem_In. exact Hd.
  - intros [p [Hp H]].
    pose proof H as H0. unfold spec_step in H0. apply apply_preds_sub in H0.
    destruct (wf_parent_container D c p W Hp) as [_ Hnr].
    assert (Hin : In c (if s_attr st
                  then filter (fun m => attr_test (s_test st) (kind_of D m)) (attributes D p)
                  else filter (fun m => child_test (s_test st) (kind_of D m)) (children D p))) by exact H0.
    apply andb_true_intro. split.
    + destruct (s_attr st); apply filter_In in H0; destruct H0 as [H1 H2].
      * exact H2.
      * apply in_children in H1. destruct H1 as [_ H1]. rewrite H1, Hnr, H2. reflexivity.
    + unfold found_index. rewrite Hp, rerun_is_spec. unfold spec_step.
      rewrite (do_preds_correct _ _ _ Wp Hin). apply mem_In. exact H.
Qed.
