"""C05 part "targets" - facts of XercesParserLiaison/FormatterToXercesDOM.cpp and XalanSourceTree/FormatterToSourceTree.cpp
(and the helpers they call: DOMServices::getNamespaceForPrefix, XalanSourceTreeDocument::createAttributes /
getNamespaceForPrefix / createTextNode / appendChildNode, FormatterListener::s_piTarget / s_piData) consumed by
coq/TargetsDefs.v through coq/GenTargets.v.

For each of the two classes and each FormatterListener event method the body is read, the try/catch wrapper and the
asserts are removed, and the rest must be

      [processAccumulatedText();] <the action this generator knows for that method>

The optional leading flush becomes a boolean of the flush table (x_flush_<event>, s_flush_<event>); everything else
must match exactly, otherwise the generator fails closed (AnchorError).  Besides the flush table: what characters()
does (append to the buffer; the top-level white-space test of the source-tree builder), what processAccumulatedText()
does, where append() / doAppendChildNode() attach a node (current element, else fragment, else document), the
namespace-aware creation calls, which of the two recorded variants of FormatterToSourceTree::cdata() is in the tree
(no-op = finding K-C05t-1, or characters(ch, length) = the proposed repair), the marker processing instruction of
charactersRaw(), and for the document-order indexes of the source tree: the first index, one index per created node,
the element before its attributes, and whether startElement() creates the element after the flush."""
import re
import srcfacts
from srcfacts import AnchorError, need, read, strip_comments, function_body

EVENTS = ["startDocument", "endDocument", "startElement", "endElement", "characters", "charactersRaw", "entityReference",
          "ignorableWhitespace", "processingInstruction", "comment", "cdata"]


def _b(x):
    return "true" if x else "false"


def _norm(body):
    s = re.sub(r"\s+", "", body)
    s = re.sub(r"assert\((?:[^()]|\((?:[^()]|\([^()]*\))*\))*\);", "", s)
    return s


def _method(text, cls, name):
    return _norm(function_body(text, r"\b%s::%s\s*\([^)]*\)\s*\{" % (cls, name), "%s::%s" % (cls, name)))


def _unwrap_try(b, what):
    """{try{X}catch(constxercesc::DOMException&theException){throwXercesDOMException(theException);}} -> X ; {X} -> X"""
    m = re.fullmatch(r"\{try\{(.*)\}catch\(constxercesc::DOMException&theException\)\{throwXercesDOMException\(theException\);\}\}", b, re.S)
    if m:
        return m.group(1)
    if "try{" in b or "catch(" in b:
        raise AnchorError("%s: the try/catch wrapper is not the known one" % what)
    return b[1:-1]


FLUSH = "processAccumulatedText();"


def _split_flush(b):
    if b.startswith(FLUSH):
        return True, b[len(FLUSH):]
    return False, b


def _expect(rest, expected, what):
    if rest != expected:
        raise AnchorError("%s: after the optional leading processAccumulatedText() the body is not the modelled one: %r" % (what, rest[:160]))


def _chars(text, name):
    arr = need(r"FormatterListener::%s\s*\[\s*\]\s*=\s*\{([^}]*)\}" % name, text, "FormatterListener::" + name).group(1)
    out = []
    for tok in [t.strip() for t in arr.split(",") if t.strip()]:
        if tok == "0":
            break
        m = re.fullmatch(r"XalanUnicode::charLetter_(\w)", tok)
        if not m:
            raise AnchorError("FormatterListener::%s: unexpected element %s" % (name, tok))
        out.append(ord(m.group(1)))
    if not out:
        raise AnchorError("FormatterListener::%s is empty" % name)
    return out


def gen_targets():
    fx = strip_comments(read("XercesParserLiaison/FormatterToXercesDOM.cpp"))
    fs = strip_comments(read("XalanSourceTree/FormatterToSourceTree.cpp"))
    fl = strip_comments(read("PlatformSupport/FormatterListener.cpp"))
    ds = strip_comments(read("DOMSupport/DOMServices.cpp"))
    sd = strip_comments(read("XalanSourceTree/XalanSourceTreeDocument.cpp"))
    facts = {}

    # ------------------------------------------------------------------ FormatterToXercesDOM
    X = "FormatterToXercesDOM"
    x_action = {
        "startDocument": "",
        "endDocument": "",
        "startElement": "DOMElementType*constelem=createElement(name,attrs);append(elem);m_elemStack.push_back(m_currentElem);m_currentElem=elem;",
        "endElement": "if(m_elemStack.empty()==false){m_currentElem=m_elemStack.back();m_elemStack.pop_back();}else{m_currentElem=0;}",
        "characters": "m_textBuffer.append(chars,length);",
        "charactersRaw": "cdata(chars,length);",
        "entityReference": "append(m_doc->createEntityReference(name));",
        "ignorableWhitespace": "m_buffer.assign(chars,length);append(m_doc->createTextNode(m_buffer.c_str()));",
        "processingInstruction": "append(m_doc->createProcessingInstruction(target,data));",
        "comment": "append(m_doc->createComment(data));",
        "cdata": "m_buffer.assign(ch,length);append(m_doc->createCDATASection(m_buffer.c_str()));",
    }
    for ev in EVENTS:
        b = _unwrap_try(_method(fx, X, ev), X + "::" + ev)
        fl_, rest = _split_flush(b)
        _expect(rest, x_action[ev], X + "::" + ev)
        facts["x_flush_" + ev] = fl_
    _expect(_method(fx, X, "processAccumulatedText"),
            "{if(m_textBuffer.empty()==false){append(m_doc->createTextNode(m_textBuffer.c_str()));m_textBuffer.clear();}}",
            X + "::processAccumulatedText")
    _expect(_method(fx, X, "append"),
            "{if(0!=m_currentElem){m_currentElem->appendChild(newNode);}elseif(0!=m_docFrag){m_docFrag->appendChild(newNode);}else{m_doc->appendChild(newNode);}}",
            X + "::append (current element, else fragment, else document)")
    _expect(_method(fx, X, "createElement"),
            "{DOMElementType*theElement=0;if(m_prefixResolver==0){theElement=m_doc->createElement(theElementName);addAttributes(theElement,attrs);}"
            "else{constXalanDOMString*consttheNamespace=DOMServices::getNamespaceForPrefix(theElementName,*m_prefixResolver,false,m_buffer);"
            "if(theNamespace==0||theNamespace->empty()==true){theElement=m_doc->createElement(theElementName);}"
            "else{theElement=m_doc->createElementNS(theNamespace->c_str(),theElementName);}addAttributes(theElement,attrs);}returntheElement;}",
            X + "::createElement (createElementNS when the resolver gives a non-empty URI)")
    _expect(_method(fx, X, "addAttributes"),
            "{constXalanSize_tnAtts=attrs.getLength();if(m_prefixResolver==0){for(XalanSize_ti=0;i<nAtts;i++){theElement->setAttribute(attrs.getName(i),attrs.getValue(i));}}"
            "else{for(XalanSize_ti=0;i<nAtts;i++){constXalanDOMChar*consttheName=attrs.getName(i);"
            "constXalanDOMString*consttheNamespace=DOMServices::getNamespaceForPrefix(theName,*m_prefixResolver,true,m_buffer);"
            "if(theNamespace==0||theNamespace->empty()==true){theElement->setAttribute(theName,attrs.getValue(i));}"
            "else{theElement->setAttributeNS(theNamespace->c_str(),theName,attrs.getValue(i));}}}}",
            X + "::addAttributes (setAttributeNS when the resolver gives a non-empty URI)")
    _expect(_norm(function_body(ds, r"DOMServices::getNamespaceForPrefix\s*\(\s*const\s+XalanDOMChar\s*\*\s*theName\s*,[^)]*\)\s*\{",
                                "DOMServices::getNamespaceForPrefix(name, resolver, isAttribute, prefix)")),
            "{constXalanDOMString::size_typetheLength=length(theName);if(isAttribute==true&&equals(s_XMLNamespace,theName,theLength)==true){return&s_XMLNamespacePrefixURI;}"
            "else{constXalanDOMString::size_typetheColonIndex=indexOf(theName,XalanUnicode::charColon);if(theColonIndex==theLength){thePrefix.clear();"
            "if(isAttribute==true){return0;}else{returnthePrefixResolver.getNamespaceForPrefix(s_emptyString);}}"
            "else{thePrefix.assign(theName,theColonIndex);returnthePrefixResolver.getNamespaceForPrefix(thePrefix);}}}",
            "DOMServices::getNamespaceForPrefix(name, resolver, isAttribute, prefix)")
    ds_raw = read("DOMSupport/DOMServices.cpp")      # string literals contain "//": not through strip_comments
    m = need(r"::s_XMLNamespacePrefixURI\.reset\(\s*theManager\s*,\s*\"([^\"]*)\"\s*\)", ds_raw, "DOMServices::s_XMLNamespacePrefixURI")
    facts["xmlns_uri"] = [ord(c) for c in m.group(1)]
    m = need(r"::s_XMLNamespace\.reset\(\s*theManager\s*,\s*\"([^\"]*)\"\s*\)", ds, "DOMServices::s_XMLNamespace")
    facts["xmlns_name"] = [ord(c) for c in m.group(1)]
    m = need(r"::s_XMLNamespaceWithSeparator\.reset\(\s*theManager\s*,\s*\"([^\"]*)\"\s*\)", ds, "DOMServices::s_XMLNamespaceWithSeparator")
    facts["xmlns_with_sep"] = [ord(c) for c in m.group(1)]

    # ------------------------------------------------------------------ FormatterToSourceTree
    S = "FormatterToSourceTree"
    append5 = "doAppendChildNode(m_document,m_documentFragment,m_currentElement,m_lastChild,%s);"
    s_action = {
        "startDocument": "m_currentElement=0;m_elementStack.clear();m_lastChild=0;m_lastChildStack.clear();m_lastChildStack.reserve(eDefaultStackSize);"
                         "m_textBuffer.clear();m_textBuffer.reserve(eDefaultTextBufferSize);m_elementStack.push_back(ElementStackType::value_type(0));",
        "endDocument": None,
        "startElement": "XalanSourceTreeElement*consttheNewElement=createElementNode(name,attrs,m_currentElement);" + (append5 % "theNewElement") +
                        "m_elementStack.push_back(theNewElement);m_lastChildStack.push_back(m_lastChild);m_currentElement=theNewElement;m_lastChild=0;",
        "endElement": "m_elementStack.pop_back();m_currentElement=m_elementStack.back();m_lastChild=m_lastChildStack.back();m_lastChildStack.pop_back();",
        "characters": None,
        "charactersRaw": "doProcessingInstruction(s_piTarget,s_piData);characters(chars,length);",
        "entityReference": "",
        "ignorableWhitespace": None,
        "processingInstruction": "doProcessingInstruction(target,data);",
        "comment": "XalanSourceTreeComment*consttheNewComment=m_document->createCommentNode(data,length(data),m_currentElement);" + (append5 % "theNewComment"),
        "cdata": None,
    }
    create_el = "XalanSourceTreeElement*consttheNewElement=createElementNode(name,attrs,m_currentElement);"
    link_el = ((append5 % "theNewElement") +
               "m_elementStack.push_back(theNewElement);m_lastChildStack.push_back(m_lastChild);m_currentElement=theNewElement;m_lastChild=0;")
    for ev in EVENTS:
        b = _method(fs, S, ev)[1:-1]
        if ev == "startElement":
            # the element node takes its document-order index when it is CREATED: flush, create, link (as shipped) or
            # create, flush, link (the text node made by the flush then gets a larger index than the element it precedes)
            if b == FLUSH + create_el + link_el:
                facts["s_flush_startElement"], facts["s_element_created_after_flush"] = True, True
            elif b == create_el + FLUSH + link_el:
                facts["s_flush_startElement"], facts["s_element_created_after_flush"] = True, False
            elif b == create_el + link_el:
                facts["s_flush_startElement"], facts["s_element_created_after_flush"] = False, True
            else:
                raise AnchorError(S + "::startElement: not one of the modelled shapes ([flush] create link / create flush link): %r" % b[:200])
            continue
        if ev == "characters":
            # the white-space test at the top of a document: over the NUL-terminated buffer (K-C05t-2) or over the length passed
            shape = ("if(m_documentFragment!=0){m_textBuffer.append(chars,length);}elseif(m_currentElement==0){if(%s==false)"
                     "{throwXalanDOMException(XalanDOMException::HIERARCHY_REQUEST_ERR);}}else{m_textBuffer.append(chars,length);}")
            fl_, rest = _split_flush(b)
            if rest == shape % "isXMLWhitespace(chars)":
                facts["s_top_ws_test_uses_length"] = False
            elif rest == shape % "isXMLWhitespace(chars,0,length)":
                facts["s_top_ws_test_uses_length"] = True
            else:
                raise AnchorError(S + "::characters: not the modelled shape (fragment: append; document top: white-space test; else append): %r" % rest[:200])
            facts["s_flush_characters"] = fl_
            continue
        if ev == "endDocument":
            # the flush of endDocument() is conditional: fragment mode only
            if b == "if(m_documentFragment!=0){processAccumulatedText();}m_elementStack.pop_back();":
                facts["s_flush_endDocument_frag"], facts["s_flush_endDocument_doc"] = True, False
            elif b == "processAccumulatedText();m_elementStack.pop_back();":
                facts["s_flush_endDocument_frag"], facts["s_flush_endDocument_doc"] = True, True
            elif b == "m_elementStack.pop_back();":
                facts["s_flush_endDocument_frag"], facts["s_flush_endDocument_doc"] = False, False
            else:
                raise AnchorError(S + "::endDocument: not one of the modelled shapes: %r" % b[:160])
            continue
        if ev == "ignorableWhitespace":
            node = "m_document->createTextIWSNode(chars,length,m_currentElement)"
            shape = ("if(m_elementStack.size()>1){%sdoAppendChildNode(m_currentElement,m_lastChild," + node + ");}"
                     "elseif(m_documentFragment!=0){%sdoAppendChildNode(m_documentFragment,m_lastChild," + node + ");}")
            if b == shape % (FLUSH, FLUSH):
                facts["s_flush_ignorableWhitespace"] = True
            elif b == shape % ("", ""):
                facts["s_flush_ignorableWhitespace"] = False
            else:
                raise AnchorError(S + "::ignorableWhitespace: not the modelled shape (inside an element or in fragment mode: [flush,] append a "
                                      "TextIWS node; otherwise nothing): %r" % b[:200])
            continue
        if ev == "cdata":
            if b == "":
                facts["s_cdata_is_characters"], facts["s_flush_cdata"] = False, False
            elif b == "characters(ch,length);":
                facts["s_cdata_is_characters"], facts["s_flush_cdata"] = True, False
            else:
                raise AnchorError(S + "::cdata: neither the no-op (K-C05t-1) nor 'characters(ch, length);': %r" % b[:160])
            continue
        fl_, rest = _split_flush(b)
        _expect(rest, s_action[ev], S + "::" + ev)
        facts["s_flush_" + ev] = fl_
    _expect(_method(fs, S, "processAccumulatedText"),
            "{if(m_textBuffer.empty()==false){doCharacters(m_textBuffer.c_str(),m_textBuffer.length());m_textBuffer.clear();}}",
            S + "::processAccumulatedText")
    node = "m_document->createTextNode(chars,length,m_currentElement)"
    _expect(_method(fs, S, "doCharacters"),
            "{if(m_currentElement!=0){doAppendChildNode(m_currentElement,m_lastChild," + node + ");}"
            "elseif(m_documentFragment!=0){doAppendChildNode(m_documentFragment,m_lastChild," + node + ");}"
            "else{throwXalanDOMException(XalanDOMException::HIERARCHY_REQUEST_ERR);}}",
            S + "::doCharacters (current element, else fragment, else HIERARCHY_REQUEST_ERR)")
    _expect(_method(fs, S, "doProcessingInstruction"),
            "{" + (append5 % "m_document->createProcessingInstructionNode(target,data)") + "}",
            S + "::doProcessingInstruction")
    _expect(_method(fs, S, "createElementNode"),
            "{if(m_prefixResolver!=0){returnm_document->createElementNode(name,attrs,*m_prefixResolver,theParentElement);}"
            "else{returnm_document->createElementNode(name,attrs,theParentElement);}}",
            S + "::createElementNode")
    five = _norm(function_body(fs, r"doAppendChildNode\s*\(\s*XalanSourceTreeDocument\s*\*\s*theDocument\s*,[^)]*\)\s*\{", "doAppendChildNode(document, fragment, element, lastChild, child)"))
    _expect(five,
            "{if(theCurrentElement==0){if(theDocumentFragment!=0){doAppendChildNode(theDocumentFragment,theLastChild,theNewChild);}"
            "else{theDocument->appendChildNode(theNewChild);}}else{doAppendChildNode(theCurrentElement,theLastChild,theNewChild);}}",
            "doAppendChildNode(document, fragment, element, lastChild, child): current element, else fragment, else document")
    three = _norm(function_body(fs, r"doAppendChildNode\s*\(\s*ParentNodeType\s*\*\s*theParent\s*,[^)]*\)\s*\{", "doAppendChildNode(parent, lastChild, child)"))
    _expect(three,
            "{if(theLastChild==0){theParent->appendChildNode(theNewChild);}else{XalanSourceTreeHelper::appendSibling(theLastChild,theNewChild);"
            "theNewChild->setParent(theParent);}theLastChild=theNewChild;}",
            "doAppendChildNode(parent, lastChild, child): append after the last child")
    # helpers in XalanSourceTreeDocument.cpp
    _expect(_norm(function_body(sd, r"XalanSourceTreeDocument::appendChildNode\s*\(\s*XalanSourceTreeElement\s*\*\s*theChild\s*\)\s*\{", "XalanSourceTreeDocument::appendChildNode(element)")),
            "{if(m_documentElement!=0){throwXalanDOMException(XalanDOMException::HIERARCHY_REQUEST_ERR);}else{m_documentElement=theChild;"
            "XalanSourceTreeHelper::appendSibling(this,m_firstChild,theChild);}}",
            "XalanSourceTreeDocument::appendChildNode(element): a second document element is refused")
    gp = _norm(function_body(sd, r"XalanSourceTreeDocument::getNamespaceForPrefix\s*\(", "XalanSourceTreeDocument::getNamespaceForPrefix"))
    _expect(gp,
            "{constXalanDOMString::size_typetheLength=length(theName);constXalanDOMString::size_typetheColonIndex=indexOf(theName,XalanUnicode::charColon);"
            "if(theColonIndex!=theLength){thePrefix.assign(theName,theColonIndex);if(theLocalName!=0){*theLocalName=theName+theColonIndex+1;}"
            "returnthePrefixResolver.getNamespaceForPrefix(thePrefix);}else{thePrefix.clear();if(theLocalName!=0){*theLocalName=theName;}"
            "if(fUseDefault==false){return0;}else{returnthePrefixResolver.getNamespaceForPrefix(s_emptyString);}}}",
            "XalanSourceTreeDocument::getNamespaceForPrefix")
    ca = _norm(function_body(sd, r"XalanSourceTreeDocument::createAttributes\s*\(\s*XalanSourceTreeAttr\s*\*\*\s*theAttributeVector\s*,\s*const\s+AttributeListType",
                             "XalanSourceTreeDocument::createAttributes(vector, AttributeList, ...)"))
    need(re.escape("constboolisNamespaceNode=startsWith(theName,DOMServices::s_XMLNamespaceWithSeparator)==true||theName==DOMServices::s_XMLNamespace;"
                   "if((isNamespaceNode==true&&fCreateNamespaces==true)||(isNamespaceNode==false&&fCreateNamespaces==false))"), ca,
         "createAttributes: an entry is taken in the pass that matches its being a namespace declaration")
    need(re.escape("getNamespaceForPrefix(theName,*thePrefixResolver,m_stringBuffer,false,&theLocalName);if(theNamespace==0||theNamespace->empty()==true)"), ca,
         "createAttributes: attribute namespace = resolver(prefix), no default namespace")
    for sig, what in ((r"XalanSourceTreeDocument::createElementNode\s*\(\s*const\s+XalanDOMChar\s*\*\s*name\s*,\s*const\s+AttributeListType", "createElementNode(name, attrs, ...)"),
                      (r"XalanSourceTreeDocument::createElementNode\s*\(\s*const\s+XalanDOMChar\s*\*\s*tagName\s*,\s*const\s+AttributeListType", "createElementNode(tagName, attrs, resolver, ...)")):
        ce = _norm(function_body(sd, sig, "XalanSourceTreeDocument::" + what))
        i1 = ce.find("theIndex=createAttributes(theAttributeVector,attrs,theIndex,theNewElement,true")
        i2 = ce.find("theIndex=createAttributes(theAttributeVector,attrs,theIndex,theNewElement,false")
        if not (0 <= i1 < i2):
            raise AnchorError("XalanSourceTreeDocument::%s: namespace declarations are no longer created before the other attributes" % what)
    ct = _norm(function_body(sd, r"XalanSourceTreeDocument::createTextNode\s*\(", "XalanSourceTreeDocument::createTextNode"))
    need(re.escape("if(isXMLWhitespace(chars,0,length)==true)"), ct, "createTextNode: a white-space-only text is a TextIWS node (same node kind)")
    # document-order indexes: one m_nextIndexValue++ per created node, the element before its attributes
    vals = set(re.findall(r"m_nextIndexValue\s*\(\s*(\d+)\s*\)", sd))
    if len(vals) != 1:
        raise AnchorError("XalanSourceTreeDocument: m_nextIndexValue initialisers not found or not unique: %r" % sorted(vals))
    facts["st_first_index"] = int(vals.pop())
    for sig, what, n in ((r"XalanSourceTreeDocument::createCommentNode\s*\(", "createCommentNode", 1),
                         (r"XalanSourceTreeDocument::createProcessingInstructionNode\s*\(", "createProcessingInstructionNode", 1),
                         (r"XalanSourceTreeDocument::createTextNode\s*\(", "createTextNode", 2),
                         (r"XalanSourceTreeDocument::createTextIWSNode\s*\(", "createTextIWSNode", 1)):
        body = _norm(function_body(sd, sig, "XalanSourceTreeDocument::" + what))
        if body.count("m_nextIndexValue++") != n or body.count("m_nextIndexValue") != n:
            raise AnchorError("XalanSourceTreeDocument::%s: does not take exactly one index (m_nextIndexValue++) per created node" % what)
    ce1 = _norm(function_body(sd, r"XalanSourceTreeDocument::createElementNode\s*\(\s*const\s+XalanDOMChar\s*\*\s*name\s*,\s*const\s+AttributeListType", "createElementNode(name, attrs, ...)"))
    i1, i2 = ce1.find("m_nextIndexValue++"), ce1.find("createAttributes(")
    if not (0 <= i1 < i2) or "fAddXMLNamespaceAttribute=false" not in _norm(read("XalanSourceTree/XalanSourceTreeDocument.hpp")):
        raise AnchorError("createElementNode(name, attrs, ...): the element no longer takes its index before its attributes / default of fAddXMLNamespaceAttribute")
    ce2 = _norm(function_body(sd, r"XalanSourceTreeDocument::createElementNode\s*\(\s*const\s+XalanDOMChar\s*\*\s*tagName\s*,\s*const\s+AttributeListType", "createElementNode(tagName, attrs, resolver, ...)"))
    i1, i2 = ce2.find("createElementNode(tagName,theAttributeVector"), ce2.find("createAttributes(")
    if not (0 <= i1 < i2):
        raise AnchorError("createElementNode(tagName, attrs, resolver, ...): the element is no longer created before its attributes")
    if ca.count("m_nextIndexValue++") != 3:
        raise AnchorError("createAttributes(AttributeList): not one index per attribute in each of its three branches")
    facts["pi_marker_target"] = _chars(fl, "s_piTarget")
    facts["pi_marker_data"] = _chars(fl, "s_piData")

    text = ("(* generated by translator/gen_targets.py from FormatterToXercesDOM.cpp, FormatterToSourceTree.cpp, DOMServices.cpp,\n"
            "   XalanSourceTreeDocument.cpp, FormatterListener.cpp - do not edit *)\n"
            "From Coq Require Import NArith List.\nImport ListNotations.\n")
    for ev in EVENTS:
        text += "Definition x_flush_%s : bool := %s.\n" % (ev, _b(facts["x_flush_" + ev]))
    for ev in EVENTS:
        if ev == "endDocument":
            text += "Definition s_flush_endDocument_frag : bool := %s.\n" % _b(facts["s_flush_endDocument_frag"])
            text += "Definition s_flush_endDocument_doc : bool := %s.\n" % _b(facts["s_flush_endDocument_doc"])
        else:
            text += "Definition s_flush_%s : bool := %s.\n" % (ev, _b(facts["s_flush_" + ev]))
    text += "Definition s_cdata_is_characters : bool := %s.\n" % _b(facts["s_cdata_is_characters"])
    text += "Definition s_top_ws_test_uses_length : bool := %s.\n" % _b(facts["s_top_ws_test_uses_length"])
    text += "Definition s_element_created_after_flush : bool := %s.\n" % _b(facts["s_element_created_after_flush"])
    text += "Definition st_first_index : N := %d%%N.\n" % facts["st_first_index"]
    for k in ("pi_marker_target", "pi_marker_data", "xmlns_uri", "xmlns_name", "xmlns_with_sep"):
        text += "Definition %s : list N := [%s]%%N.\n" % (k, "; ".join(str(c) for c in facts[k]))
    return text, facts


GENERATORS = {"GenTargets": gen_targets}
