(* XpcPrintModel.v — the round trip parse (print e) = e for every canonical tree (prefix-free), by induction on the size of
   the tree through every function of the parser model. *)
From Coq Require Import List NArith Bool Arith Lia.
Import ListNotations.
Require Import XV.XpAst XV.GenXpc XV.XpcLexDefs XV.XpcParseDefs XV.XpcPrintDefs XV.XpcPrintFacts.

Lemma pathlevel_lvl : forall e, is_pathlevel e = true -> elvl e = 0 /\ is_neg e = false /\ is_union e = false.
Proof. destruct e; cbn; intros H; try discriminate; auto. Qed.

Lemma tokc_app : forall t r rest, tokc ((t :: r) ++ rest) = tokc [t].
Proof. intros [|c t] r rest; reflexivity. Qed.

Definition fc_ok (e : expr) (c : N) : Prop :=
  N.eqb c ch_equals = false /\ N.eqb c ch_rparen = false /\ N.eqb c ch_comma = false /\
  (elvl e = 0 -> is_neg e = false -> N.eqb c ch_hyphen = false).

Lemma first_tok : forall k e, expr_size e < k -> canon e = true ->
  exists t r, pr e = t :: r /\ fc_ok e (tokc [t]).
Proof.
  induction k as [|k IH]; intros e Hk Hc; [lia|].
  destruct (as_bin e) as [[[o a] b]|] eqn:EB.
  - apply as_bin_mk in EB. subst e. rewrite size_mk in Hk.
    destruct (canon_mk _ _ _ Hc) as (Ca & _ & _ & _).
    destruct (IH a ltac:(lia) Ca) as (t & r & E & (F1 & F2 & F3 & _)).
    exists t, (r ++ optoks o ++ pr b). rewrite pr_mk, E. split; [reflexivity|].
    repeat split; auto. rewrite elvl_mk. pose proof (op_level_pos o). lia.
  - destruct e; try discriminate EB.
    + (* ENeg *) eexists _, _. split; [reflexivity|]. repeat split; try reflexivity. cbn. discriminate.
    + (* EUnion *) rewrite canon_union in Hc. repeat (apply andb_prop in Hc; destruct Hc as [Hc ?]).
      destruct l as [|x [|y l']]; try discriminate. rewrite size_union in Hk. cbn [size_list] in Hk.
      cbn [canon_list] in Hc. apply andb_prop in Hc. destruct Hc as [Cx _].
      destruct (IH x ltac:(lia) Cx) as (t & r & E & (F1 & F2 & F3 & F4)).
      match goal with X : forallb _ _ = true |- _ => cbn [forallb] in X; apply andb_prop in X; destruct X as [Px _] end.
      destruct (pathlevel_lvl _ Px) as (L0 & N0 & _).
      eexists t, _. rewrite pr_union_eq. cbn [pr_union]. rewrite E. split; [reflexivity|].
      repeat split; auto.
    + (* ELiteral *) eexists _, _. split; [reflexivity|]. unfold quote_tok. destruct (has ch_quote s); repeat split; reflexivity.
    + (* EVar *) eexists _, _. split; [reflexivity|]. repeat split; reflexivity.
    + (* EGroup *) eexists _, _. split; [reflexivity|]. repeat split; reflexivity.
    + (* ENumLit *) cbn [canon] in Hc. destruct tok as [|c r]; [discriminate|]. cbn [num_tok_ok] in Hc.
      eexists _, _. split; [reflexivity|]. cbn [tokc].
      destruct (is_ascii_digit c) eqn:D.
      * destruct (digit_not _ D) as (A1 & A2 & A3 & A4 & _). repeat split; auto.
      * cbn [orb] in Hc. apply andb_prop in Hc. destruct Hc as [Hc _]. apply N.eqb_eq in Hc. subst c. repeat split; reflexivity.
    + (* EFunc *) rewrite canon_func in Hc. apply andb_prop in Hc. destruct Hc as [_ Hf]. unfold func_ok in Hf.
      apply andb_prop in Hf. destruct Hf as [Hf _]. destruct name as [|c r]; [discriminate|]. cbn in Hf.
      destruct (name_start_not _ Hf) as (A1 & A2 & A3 & A4 & _).
      eexists _, _. rewrite pr_func. split; [reflexivity|]. cbn [tokc]. repeat split; auto.
    + (* EExtFunc *) discriminate.
    + (* EPath *) destruct head as [x|].
      * rewrite canon_path_some in Hc. repeat (apply andb_prop in Hc; destruct Hc as [Hc ?]).
        rewrite size_path in Hk.
        match goal with X : canon x = true |- _ => destruct (IH x ltac:(lia) X) as (t & r & E & (F1 & F2 & F3 & F4)) end.
        eexists t, _. rewrite pr_path_some, E. split; [reflexivity|]. repeat split; auto.
        intros _ _. apply F4; destruct x; try discriminate; reflexivity.
      * rewrite canon_path_none in Hc. apply andb_prop in Hc. destruct Hc as [_ Hc]. rewrite pr_path_none.
        destruct steps as [|[[a t] ps] r]; [discriminate|].
        destruct a; try (
          cbn [canon_steps] in Hc; repeat (apply andb_prop in Hc; destruct Hc as [Hc ?]);
          eexists _, _; split; [reflexivity|]; vm_compute; repeat split; reflexivity).
Qed.

Lemma first_tok' : forall e rest, canon e = true ->
  pr e ++ rest <> [] /\ fc_ok e (tokc (pr e ++ rest)).
Proof.
  intros e rest Hc. destruct (first_tok (S (expr_size e)) e ltac:(lia) Hc) as (t & r & E & F).
  rewrite E. split; [discriminate|]. rewrite tokc_app. exact F.
Qed.

(* ---- small computation lemmas -------------------------------------------------------------------- *)
Lemma tokc1 : forall c r, tokc ([c] :: r) = c. Proof. reflexivity. Qed.
Lemma tokc_cons2 : forall t r, tokc (t :: r) = tokc [t]. Proof. intros [|c t] r; reflexivity. Qed.
Lemma expect_ok : forall c r, expect c ([c] :: r) = Ok r.
Proof. intros. unfold expect. rewrite tokc1, N.eqb_refl. reflexivity. Qed.
Lemma look_c_S : forall t r c n, look_c (t :: r) c (S n) = look_c r c n. Proof. reflexivity. Qed.
Lemma look_s_S : forall t r s n, look_s (t :: r) s (S n) = look_s r s n. Proof. reflexivity. Qed.
Lemma isnil_false : forall (A : Type) (l : list A), l <> [] -> isnil l = false.
Proof. intros A [|x l] H; [congruence|reflexivity]. Qed.
Lemma look_c_app_nil : forall (r : list tok) c, look_c r c 0 = false -> forall t, look_c (t :: r) c 1 = false.
Proof. intros. rewrite look_c_S. assumption. Qed.

Lemma app_cons_mid : forall (A : Type) (a : A) l1 b l2 rest, (a :: l1 ++ b :: l2) ++ rest = a :: l1 ++ b :: (l2 ++ rest).
Proof. intros. cbn [app]. rewrite <- app_assoc. reflexivity. Qed.

Ltac len := unfold tok, str in *; repeat (rewrite ?app_length in *; cbn [length app] in * ); lia.
Ltac andbs H := repeat (apply andb_prop in H; let H' := fresh H in destruct H as [H H']).

Section RT.
Variable fl : flags.
Variable ns : str -> option str.
Variable pe : nat -> list tok -> res (expr * list tok).
Variables lf B K : nat.
Hypothesis lfB : B < lf.
Hypothesis Hpe : forall e, expr_size e < K -> canon e = true -> forall d rest,
  length (pr e ++ rest) < B -> S d + idepth e <= gen_xpc_max_nesting -> follow rest = true ->
  pe d (pr e ++ rest) = Ok (e, rest).

Lemma preds_rt : forall ps, canon_preds ps = true -> size_preds ps <= K ->
  forall m d rest, length (pr_preds ps ++ rest) <= B -> length (pr_preds ps ++ rest) < m ->
    d + dep_preds ps <= gen_xpc_max_nesting -> N.eqb (tokc rest) ch_lbrack = false ->
    p_preds pe m d (pr_preds ps ++ rest) = Ok (ps, rest).
Proof.
  induction ps as [|[f p] r IH]; intros Hc Hs m d rest HB Hm Hd Hr.
  - destruct m; [cbn in Hm; lia|]. cbn [pr_preds app p_preds]. rewrite Hr. reflexivity.
  - cbn [canon_preds] in Hc. andbs Hc. cbn [size_preds] in Hs. cbn [dep_preds] in Hd.
    destruct m; [lia|]. cbn [pr_preds] in *.
    rewrite app_cons_mid in *.
    cbn [p_preds]. rewrite tokc1, N.eqb_refl. cbn [tl].
    rewrite (Hpe p ltac:(lia) Hc1 d); [|len|lia|reflexivity].
    rewrite expect_ok.
    rewrite IH; auto; try len; try lia.
    apply eqb_prop in Hc. subst f. reflexivity.
Qed.

Lemma args_rt : forall l, canon_list l = true -> size_list l <= K ->
  forall m d rest, length (pr_args l ++ rp :: rest) < B -> S (length (pr_args l ++ rp :: rest)) < m ->
    d + dep_args l <= gen_xpc_max_nesting ->
    p_args pe m d (pr_args l ++ rp :: rest) = Ok (l, rp :: rest).
Proof.
  induction l as [|x r IH]; intros Hc Hs m d rest HB Hm Hd.
  - destruct m; [lia|]. cbn [pr_args app p_args]. unfold rp in *. rewrite tokc1, N.eqb_refl. reflexivity.
  - cbn [canon_list] in Hc. andbs Hc. cbn [size_list] in Hs. cbn [dep_args] in Hd.
    destruct m; [lia|].
    destruct r as [|y r'].
    + cbn [pr_args] in *.
      destruct (first_tok' x (rp :: rest) Hc) as (NE & F1 & F2 & F3 & _).
      unfold tok, str in *. cbn [p_args]. rewrite F2, F3, (isnil_false tok _ NE). cbn [orb].
      rewrite (Hpe x ltac:(lia) Hc d); [|len|lia|reflexivity].
      unfold rp in *. rewrite tokc1, N.eqb_refl.
      destruct m; [len|]. cbn [p_args]. rewrite tokc1, N.eqb_refl. reflexivity.
    + change (pr_args (x :: y :: r')) with (pr x ++ [ch_comma] :: pr_args (y :: r')) in *.
      rewrite <- app_assoc in *. cbn [app] in *.
      destruct (first_tok' x ([ch_comma] :: pr_args (y :: r') ++ rp :: rest) Hc) as (NE & F1 & F2 & F3 & _).
      unfold tok, str in *. cbn [p_args]. rewrite F2, F3, (isnil_false tok _ NE). cbn [orb].
      rewrite (Hpe x ltac:(lia) Hc d); [|len|lia|reflexivity].
      rewrite tokc1. change (N.eqb ch_comma ch_rparen) with false. cbv iota.
      rewrite expect_ok.
      cbn [canon_list] in Hc0. assert (Cy := Hc0). andbs Cy.
      assert (T : N.eqb (tokc (pr_args (y :: r') ++ rp :: rest)) ch_rparen = false).
      { destruct r' as [|z r'']; cbn [pr_args]; [|rewrite <- app_assoc];
          apply (first_tok' y _ Cy). }
      unfold tok, str in *. rewrite T.
      rewrite IH; auto; try len; try lia.
Qed.

Lemma call_args_rt : forall l, canon_list l = true -> size_list l <= K ->
  forall d rest, length (lp :: pr_args l ++ rp :: rest) <= B -> d + dep_args l <= gen_xpc_max_nesting ->
    p_call_args pe lf d (lp :: pr_args l ++ rp :: rest) = Ok (l, rest).
Proof.
  intros l Hc Hs d rest HB Hd. unfold p_call_args. unfold lp in *. rewrite expect_ok.
  rewrite args_rt; auto; try (cbn [length] in HB; len).
Qed.

Lemma literal_rt : forall s rest, negb (has ch_quote s && has ch_apos s) = true ->
  p_literal (quote_tok s :: rest) = Ok (s, rest) /\
  (N.eqb (tokc (quote_tok s :: rest)) ch_apos || N.eqb (tokc (quote_tok s :: rest)) ch_quote)%bool = true /\
  N.eqb (tokc (quote_tok s :: rest)) ch_rparen = false.
Proof.
  intros s rest H. unfold p_literal, quote_tok. cbn [cur_tok tl].
  assert (L : forall q, is_literal (q :: s ++ [q]) = ((N.eqb q ch_quote && N.eqb q ch_quote) || (N.eqb q ch_apos && N.eqb q ch_apos))%bool).
  { intros q. unfold is_literal. destruct (s ++ [q]) as [|a l] eqn:E; [destruct s; discriminate|].
    rewrite <- E. rewrite last_last. reflexivity. }
  assert (Bd : forall q, literal_body (q :: s ++ [q]) = s).
  { intros q. unfold literal_body. cbn [tl]. apply removelast_last. }
  destruct (has ch_quote s); rewrite L, Bd; repeat split; reflexivity.
Qed.

Lemma nodetest_rt : forall t, ntest_ok t = true -> forall rest,
  look_c rest ch_lparen 0 = false -> look_c rest ch_colon 0 = false ->
  p_nodetest fl ns (pr_ntest t ++ rest) = Ok (t, rest).
Proof.
  intros t Ht rest R1 R2. unfold p_nodetest.
  destruct t as [| |[s|]| |q l|]; cbn [ntest_ok] in Ht; try discriminate.
  - cbn [pr_ntest app]. cbn [look_c nth_error lp]. rewrite N.eqb_refl. cbn [cur_tok]. rewrite ntype_facts.
    cbn [tl]. unfold lp, rp. rewrite !expect_ok. reflexivity.
  - cbn [pr_ntest app]. cbn [look_c nth_error lp]. rewrite N.eqb_refl. cbn [cur_tok]. rewrite ntype_facts.
    cbn [tl]. unfold lp, rp. rewrite !expect_ok. reflexivity.
  - cbn [pr_ntest app]. cbn [look_c nth_error lp]. rewrite N.eqb_refl. cbn [cur_tok]. rewrite ntype_facts.
    cbn [tl]. unfold lp. rewrite expect_ok.
    destruct (literal_rt s (rp :: rest) Ht) as (P1 & _ & P3). rewrite P3, P1. unfold rp. rewrite expect_ok. reflexivity.
  - cbn [pr_ntest app]. cbn [look_c nth_error lp]. rewrite N.eqb_refl. cbn [cur_tok]. rewrite ntype_facts.
    cbn [tl]. unfold lp, rp. rewrite expect_ok. rewrite tokc1, N.eqb_refl. reflexivity.
  - cbn [pr_ntest app]. cbn [look_c nth_error lp]. rewrite N.eqb_refl. cbn [cur_tok]. rewrite ntype_facts.
    cbn [tl]. unfold lp, rp. rewrite !expect_ok. reflexivity.
  - destruct q; try discriminate. destruct l as [n|].
    + cbn [pr_ntest app]. rewrite !look_c_S, R1, R2.
      destruct n as [|c n']; [discriminate|]. assert (Hv := Ht). cbn [valid_ncname] in Ht. apply andb_prop in Ht. destruct Ht as [Ht _].
      destruct (name_start_not _ Ht) as (_ & _ & _ & _ & _ & _ & _ & _ & _ & _ & A & _).
      cbn [tokc]. rewrite A. cbn [cur_tok]. rewrite Hv. cbn [negb]. rewrite andb_false_r. unfold is_nodetest_tok.
      unfold is_name_start in Ht. rewrite orb_comm in Ht.
      replace (str_eqb (c :: n') [ch_asterisk] || N.eqb c ch_lowline || is_letter c)%bool with true; [reflexivity|].
      rewrite <- orb_assoc. rewrite Ht. rewrite orb_true_r. reflexivity.
    + cbn [pr_ntest app]. rewrite !look_c_S, R1, R2. rewrite tokc1, N.eqb_refl. reflexivity.
Qed.

Definition pr_step1 (s : step) : list tok :=
  match s with (a, t, ps) => axis_name a :: gen_xpc_kw_axis_sep :: pr_ntest t ++ pr_preds ps end.
Lemma pr_steps_cons : forall s r,
  pr_steps (s :: r) = pr_step1 s ++ match r with [] => [] | _ => [ch_solidus] :: pr_steps r end.
Proof. intros [[a t] ps] r. cbn [pr_steps pr_step1 app]. rewrite <- !app_assoc. reflexivity. Qed.

Lemma orb5_last : forall a b c d, (a || b || c || d || true)%bool = true.
Proof. intros. rewrite orb_true_r. reflexivity. Qed.

Lemma step_rt : forall a t ps, axis_ok a = true -> ntest_ok t = true -> canon_preds ps = true -> size_preds ps <= K ->
  forall d rest, length (pr_step1 (a, t, ps) ++ rest) <= B -> d + dep_preds ps <= gen_xpc_max_nesting ->
    N.eqb (tokc rest) ch_lbrack = false -> look_c rest ch_lparen 0 = false -> look_c rest ch_colon 0 = false ->
    p_step fl ns pe lf d (pr_step1 (a, t, ps) ++ rest) = Ok ((a, t, ps), rest).
Proof.
  intros a t ps Ha Ht Hp Hs d rest HB Hd R0 R1 R2.
  destruct (axis_facts a Ha) as (A1 & A2 & A3 & A4 & A5 & A6).
  unfold pr_step1 in *. cbn [app] in *. rewrite <- app_assoc in *.
  unfold p_step. rewrite A3, A4. rewrite (tokc_cons2 (axis_name a)). unfold tok, str in *. rewrite A5, orb5_last.
  unfold p_basis. rewrite look_s_S. cbn [look_s nth_error]. rewrite str_eqb_refl. cbn [cur_tok]. rewrite A1. cbn [tl].
  rewrite nodetest_rt; auto.
  2:{ destruct ps as [|[f p] r]; [exact R1|reflexivity]. }
  2:{ destruct ps as [|[f p] r]; [exact R2|reflexivity]. }
  rewrite preds_rt; auto; try len.
Qed.

Lemma steps_rt : forall st, st <> [] -> canon_steps st = true -> size_steps st <= K ->
  forall m d rest, length (pr_steps st ++ rest) <= B -> length (pr_steps st ++ rest) < m ->
    d + dep_steps st <= gen_xpc_max_nesting -> stop_path rest = true ->
    p_steps fl ns pe lf m d (pr_steps st ++ rest) = Ok (st, rest).
Proof.
  induction st as [|[[a t] ps] r IH]; intros NE Hc Hs m d rest HB Hm Hd Hr; [congruence|].
  cbn [canon_steps] in Hc. andbs Hc. cbn [size_steps] in Hs. cbn [dep_steps] in Hd.
  destruct (sp_facts _ Hr) as (S1 & S2 & S3 & S4).
  destruct m; [lia|]. rewrite pr_steps_cons in *. cbn [p_steps].
  destruct r as [|s2 r'].
  - rewrite app_nil_r in *. rewrite step_rt; auto; try lia. rewrite S1. reflexivity.
  - rewrite <- app_assoc in *. cbn [app] in *.
    rewrite step_rt; auto; try lia.
    rewrite tokc1, N.eqb_refl. cbn [tl].
    rewrite IH; auto; try discriminate; try lia; try len.
Qed.

Lemma locpath_rt : forall st, canon (EPath None [] st) = true -> expr_size (EPath None [] st) <= K ->
  forall d rest, length (pr (EPath None [] st) ++ rest) <= B -> d + idepth (EPath None [] st) <= gen_xpc_max_nesting ->
    stop_path rest = true -> (ends_root (EPath None [] st) = true -> root_ok rest = true) ->
    p_locpath fl ns pe lf d (pr (EPath None [] st) ++ rest) = Ok (EPath None [] st, rest) /\
    primary_kind fl (pr (EPath None [] st) ++ rest) = PkPath.
Proof.
  intros st Hc Hs d rest HB Hd Hr Hroot.
  rewrite canon_path_none in Hc. cbn [isnil andb] in Hc. rewrite size_path in Hs. rewrite idepth_path in Hd.
  cbn [size_preds dep_preds] in *. rewrite pr_path_none in *.
  destruct (sp_facts _ Hr) as (S1 & S2 & S3 & S4).
  destruct st as [|[[a t] ps] r]; [discriminate|].
  assert (NR : forall a t ps r, axis_ok a = true -> canon_steps ((a, t, ps) :: r) = true ->
               size_steps ((a, t, ps) :: r) <= K -> d + dep_steps ((a, t, ps) :: r) <= gen_xpc_max_nesting ->
               length (pr_steps ((a, t, ps) :: r) ++ rest) <= B ->
               p_locpath fl ns pe lf d (pr_steps ((a, t, ps) :: r) ++ rest) = Ok (EPath None [] ((a, t, ps) :: r), rest) /\
               primary_kind fl (pr_steps ((a, t, ps) :: r) ++ rest) = PkPath).
  { intros a0 t0 ps0 r0 Ha C Sz Dp Ln.
    pose proof (axis_facts2 fl a0 Ha) as F.
    split.
    2:{ cbn [pr_steps app]. apply (F _). }
    unfold p_locpath.
    assert (E : N.eqb (tokc (pr_steps ((a0, t0, ps0) :: r0) ++ rest)) ch_solidus = false) by (cbn [pr_steps app]; apply (F _)).
    rewrite E.
    assert (E2 : isnil (pr_steps ((a0, t0, ps0) :: r0) ++ rest) = false) by reflexivity.
    rewrite E2. cbn [negb andb orb].
    rewrite steps_rt; auto; try discriminate; try lia. }
  destruct a; try (cbn [canon_steps] in Hc; apply NR; auto; try (cbn [size_steps dep_steps size_preds dep_preds] in Hs, Hd |- *; unfold step, pred in *; lia); reflexivity).
  (* leading '/' *)
  destruct t; try discriminate. destruct ps; try discriminate.
  cbn [app]. split.
  2:{ destruct r as [|[[a1 t1] ps1] r1].
      - apply pk_root; assumption.
      - cbn [canon_steps] in Hc. andbs Hc. destruct (axis_facts a1 Hc) as (_ & _ & _ & _ & _ & A6).
        cbn [pr_steps app]. apply pk_root; apply A6. }
  unfold p_locpath. rewrite tokc1, N.eqb_refl. cbn [tl negb orb].
  destruct r as [|[[a1 t1] ps1] r1].
  - cbn [pr_steps app]. specialize (Hroot eq_refl). unfold root_ok in Hroot.
    destruct (isnil rest) eqn:E1; cbn [negb andb]; [reflexivity|]. cbn [orb] in Hroot. rewrite Hroot. reflexivity.
  - assert (C := Hc). cbn [canon_steps] in C. andbs C.
    pose proof (axis_facts2 fl a1 C) as F.
    assert (E : root_alone (pr_steps ((a1, t1, ps1) :: r1) ++ rest) = false) by (cbn [pr_steps app]; apply (F _)).
    assert (E2 : isnil (pr_steps ((a1, t1, ps1) :: r1) ++ rest) = false) by reflexivity.
    rewrite E, E2. cbn [negb andb].
    cbn [size_steps dep_steps size_preds dep_preds] in *.
    rewrite steps_rt; auto; try discriminate; try reflexivity;
      try (cbn [size_steps dep_steps size_preds dep_preds app length] in Hs, Hd, HB |- *; unfold step, pred, tok, str in *; lia).
Qed.

Lemma prim_rt : forall e, is_prim e = true -> canon e = true -> expr_size e <= K ->
  forall d rest, length (pr e ++ rest) <= B -> d + idepth e <= gen_xpc_max_nesting ->
    look_c rest ch_lparen 0 = false -> look_c rest ch_colon 0 = false ->
    p_primary fl ns pe lf d (pr e ++ rest) = Ok (e, rest).
Proof.
  intros e Hp Hc Hs d rest HB Hd R1 R2. unfold p_primary.
  destruct e; try discriminate Hp.
  - (* ELiteral *) cbn [canon] in Hc. destruct (literal_rt s rest Hc) as (P1 & P2 & _).
    cbn [pr app]. unfold primary_kind. cbv zeta. rewrite P2. rewrite P1. reflexivity.
  - (* EVar *) cbn [canon] in Hc. andbs Hc. destruct ns0; [|discriminate]. cbn [pr app].
    change (primary_kind fl ([ch_dollar] :: local :: rest)) with PkVar. cbn [tl]. unfold p_qname.
    rewrite look_c_S, R2. cbn [cur_tok tl]. rewrite Hc0. reflexivity.
  - (* EGroup *) cbn [canon] in Hc. cbn [pr app]. rewrite <- app_assoc. cbn [app].
    change (primary_kind fl (lp :: pr e ++ rp :: rest)) with PkGroup. cbn [tl].
    cbn [expr_size idepth] in *.
    rewrite (Hpe e ltac:(lia) Hc d); [|cbn [pr] in HB; len|lia|reflexivity].
    unfold rp. rewrite expect_ok. reflexivity.
  - (* ENumLit *) cbn [canon] in Hc. destruct tok as [|c r]; [discriminate|]. cbn [num_tok_ok] in Hc. cbn [pr app].
    assert (PK : primary_kind fl ((c :: r) :: rest) = PkNumber).
    { unfold primary_kind. cbn [tokc cur_tok]. cbv zeta.
      destruct (is_ascii_digit c) eqn:D.
      - destruct (digit_not _ D) as (_ & _ & _ & _ & A5 & A6 & A7 & A8 & _ & A9). rewrite A5, A6, A7, A8, (A9 fl). cbn [orb].
        rewrite orb_true_r. reflexivity.
      - cbn [orb] in Hc. apply andb_prop in Hc. destruct Hc as [Hc Hc']. apply N.eqb_eq in Hc. subst c.
        change (N.eqb ch_fullstop ch_apos) with false. change (N.eqb ch_fullstop ch_quote) with false.
        change (N.eqb ch_fullstop ch_dollar) with false. change (N.eqb ch_fullstop ch_lparen) with false.
        cbn [orb]. rewrite N.eqb_refl. cbn [andb].
        destruct r as [|c1 r1]; [discriminate|]. destruct (digit_not _ Hc') as (_ & _ & _ & _ & _ & _ & _ & _ & _ & A9).
        rewrite (A9 fl). reflexivity. }
    unfold tok, str in *. rewrite PK. reflexivity.
  - (* EFunc *) rewrite canon_func in Hc. andbs Hc. unfold func_ok in Hc0. andbs Hc0.
    rewrite size_func in Hs. rewrite idepth_func in Hd. rewrite pr_func in *. cbn [app] in *. rewrite <- app_assoc in *. cbn [app] in *.
    destruct name as [|c nr]; [discriminate|]. cbn [first_name_start] in Hc0.
    destruct (name_start_not _ Hc0) as (_ & _ & _ & _ & A5 & A6 & A7 & A8 & A9 & A10 & _).
    assert (PK : primary_kind fl ((c :: nr) :: lp :: pr_args args ++ rp :: rest) = PkCall).
    { unfold primary_kind. cbn [tokc cur_tok]. cbv zeta. rewrite A5, A6, A7, A8, A9, (not_digit_num fl _ A10). reflexivity. }
    unfold tok, str in *. rewrite PK. unfold p_funcall. rewrite look_c_S. change (look_c (lp :: pr_args args ++ rp :: rest) ch_colon 0) with false.
    cbn [cur_tok tl].
    destruct (func_kind (c :: nr)) as [| |lo hi|]; try discriminate.
    + rewrite call_args_rt; auto; try (cbn [length] in *; unfold tok, str in *; lia).
      match goal with H : (Nat.leb lo _ && _)%bool = true |- _ => rewrite H end. reflexivity.
    + rewrite call_args_rt; auto; try (cbn [length] in *; unfold tok, str in *; lia).
  - (* EExtFunc *) discriminate Hc.
Qed.

Lemma path_rt : forall e, is_pathlevel e = true -> canon e = true -> expr_size e <= K ->
  forall d rest, length (pr e ++ rest) <= B -> d + idepth e <= gen_xpc_max_nesting -> stop_path rest = true ->
    (ends_root e = true -> root_ok rest = true) ->
    p_path fl ns pe lf d (pr e ++ rest) = Ok (e, rest).
Proof.
  intros e Hp Hc Hs d rest HB Hd Hr Hroot.
  destruct (sp_facts _ Hr) as (S1 & S2 & S3 & S4).
  unfold p_path, p_filter.
  destruct (is_prim e) eqn:EP.
  { rewrite prim_rt; auto. rewrite S2, S1. reflexivity. }
  destruct e; try discriminate. destruct head as [x|].
  - (* filter path *)
    rewrite canon_path_some in Hc. andbs Hc. rewrite size_path in Hs. rewrite idepth_path in Hd. rewrite pr_path_some in *.
    rewrite <- !app_assoc in *.
    assert (Q : forall l : list tok, match steps with [] => [] | _ :: _ => [ch_solidus] :: pr_steps steps end ++ l =
                match steps with [] => l | _ :: _ => [ch_solidus] :: pr_steps steps ++ l end) by (destruct steps; reflexivity).
    rewrite Q in *.
    destruct hpreds as [|[f p] hp].
    + cbn [pr_preds app] in *. destruct steps as [|s st]; [discriminate|].
      rewrite prim_rt; auto; try lia; try reflexivity.
      rewrite tokc1. change (N.eqb ch_solidus ch_lbrack) with false. cbv iota. rewrite tokc1, N.eqb_refl. cbn [tl].
      rewrite steps_rt; auto; try discriminate; try lia; try len.
    + rewrite prim_rt; auto; try lia; try reflexivity.
      remember ((f, p) :: hp) as hps. assert (T : N.eqb (tokc (pr_preds hps ++ match steps with [] => rest | _ :: _ => [ch_solidus] :: pr_steps steps ++ rest end)) ch_lbrack = true)
        by (subst hps; reflexivity).
      unfold tok, str in *. rewrite T.
      rewrite preds_rt; auto; try lia; try len.
      2:{ destruct steps; [exact S2|reflexivity]. }
      destruct steps as [|s st].
      * rewrite S1. rewrite S1. reflexivity.
      * rewrite tokc1, N.eqb_refl. cbn [tl].
        rewrite steps_rt; auto; try discriminate; try lia; try len. rewrite S1. reflexivity.
  - (* location path *)
    assert (H0 : hpreds = []).
    { rewrite canon_path_none in Hc. destruct hpreds; [reflexivity|discriminate]. }
    subst hpreds.
    destruct (locpath_rt steps Hc Hs d rest HB Hd Hr Hroot) as (L1 & L2).
    unfold p_primary. unfold tok, str in *. rewrite L2, L1. rewrite S2, S1. reflexivity.
Qed.

Fixpoint pr_utail (l : list expr) : list tok := match l with [] => [] | x :: r => [ch_bar] :: pr x ++ pr_utail r end.
Lemma pr_union_tail : forall x l, pr_union (x :: l) = pr x ++ pr_utail l.
Proof.
  intros x l. revert x. induction l as [|y r IH]; intros x.
  - cbn. rewrite app_nil_r. reflexivity.
  - change (pr_union (x :: y :: r)) with (pr x ++ [ch_bar] :: pr_union (y :: r)). rewrite IH. reflexivity.
Qed.
Fixpoint ends_root_list (l : list expr) : bool :=
  match l with [] => false | [x] => ends_root x | _ :: r => ends_root_list r end.
Lemma ends_root_union : forall l, ends_root (EUnion l) = ends_root_list l. Proof. reflexivity. Qed.

Lemma bar_root_ok : forall r, root_ok ([ch_bar] :: r) = true. Proof. reflexivity. Qed.
Lemma bar_stop_path : forall r, stop_path ([ch_bar] :: r) = true. Proof. reflexivity. Qed.

Lemma union_tail_rt : forall l, canon_list l = true -> forallb is_pathlevel l = true -> size_list l <= K ->
  forall m d rest, length (pr_utail l ++ rest) <= B -> length (pr_utail l ++ rest) < m ->
    d + dep_list l <= gen_xpc_max_nesting -> stopb 0 rest = true ->
    (ends_root_list l = true -> root_ok rest = true) ->
    p_union_rest fl ns pe lf m d (pr_utail l ++ rest) = Ok (l, rest).
Proof.
  induction l as [|x r IH]; intros Hc Hp Hs m d rest HB Hm Hd Hr Hroot.
  - destruct m; [cbn in Hm; lia|]. cbn [pr_utail app p_union_rest]. rewrite (stopb0_bar _ Hr). reflexivity.
  - cbn [canon_list] in Hc. andbs Hc. cbn [forallb] in Hp. andbs Hp. cbn [size_list] in Hs. cbn [dep_list] in Hd.
    destruct m; [lia|]. cbn [pr_utail app] in *. rewrite <- app_assoc in *.
    cbn [p_union_rest]. rewrite tokc1, N.eqb_refl. cbn [tl].
    destruct (first_tok' x (pr_utail r ++ rest) Hc) as (NE & _).
    destruct (pr x ++ pr_utail r ++ rest) as [|t0 q0] eqn:EQ; [congruence|]. rewrite <- EQ in *.
    rewrite path_rt; auto; try lia; try len.
    + rewrite IH; auto; try lia; try len.
      intros E. apply Hroot. destruct r; [discriminate E|exact E].
    + destruct r; [apply (stopb_path _ _ Hr)|reflexivity].
    + intros E. destruct r as [|y r']; [|reflexivity]. apply Hroot. exact E.
Qed.

Lemma union_rt : forall e, elvl e = 0 -> is_neg e = false -> canon e = true -> expr_size e <= K ->
  forall d rest, length (pr e ++ rest) <= B -> d + idepth e <= gen_xpc_max_nesting -> stopb 0 rest = true ->
    (ends_root e = true -> root_ok rest = true) ->
    p_union fl ns pe lf d (pr e ++ rest) = Ok (e, rest).
Proof.
  intros e L0 N0 Hc Hs d rest HB Hd Hr Hroot. unfold p_union.
  destruct (is_union e) eqn:EU.
  - destruct e; try discriminate. rewrite canon_union in Hc. andbs Hc.
    destruct l as [|x [|y r]]; try discriminate.
    rewrite size_union in Hs. rewrite idepth_union in Hd. rewrite pr_union_eq, pr_union_tail in *. rewrite <- app_assoc in *.
    cbn [canon_list] in Hc. andbs Hc. cbn [forallb] in Hc0. andbs Hc0. cbn [size_list dep_list] in *.
    rewrite path_rt; auto; try lia; try reflexivity.
    rewrite (union_tail_rt (y :: r)); auto; try lia; try len; try (cbn [size_list dep_list]; lia).
  - assert (P : is_pathlevel e = true).
    { destruct e; try discriminate; reflexivity. }
    rewrite path_rt; auto; [|apply (stopb_path _ _ Hr)].
    destruct lf as [|lf']; [lia|]. cbn [p_union_rest]. rewrite (stopb0_bar _ Hr). reflexivity.
Qed.

Lemma unary_rt : forall e, elvl e = 0 -> canon e = true -> expr_size e <= K ->
  forall m d rest, length (pr e ++ rest) <= B -> length (pr e ++ rest) < m -> d + idepth e <= gen_xpc_max_nesting ->
    stopb 0 rest = true -> (ends_root e = true -> root_ok rest = true) ->
    p_unary fl ns pe lf m d (pr e ++ rest) = Ok (e, rest).
Proof.
  induction e; intros L0 Hc Hs m d rest HB Hm Hd Hr Hroot; try discriminate L0;
    try (destruct m; [lia|]; cbn [p_unary];
         match goal with |- context [N.eqb (tokc (pr ?E ++ rest)) ch_hyphen] =>
           destruct (first_tok' E rest Hc) as (_ & _ & _ & _ & F4); rewrite (F4 L0 eq_refl) end;
         apply union_rt; auto).
  (* ENeg *)
  destruct m; [lia|]. cbn [pr app p_unary]. rewrite tokc1, N.eqb_refl. cbn [tl].
  cbn [canon] in Hc. andbs Hc. apply Nat.eqb_eq in Hc0. cbn [expr_size idepth] in *.
  destruct (first_tok' e rest Hc) as (NE & _).
  destruct (pr e ++ rest) as [|t0 q0] eqn:EQ; [congruence|]. rewrite <- EQ in *.
  assert (D : Nat.ltb gen_xpc_max_nesting (S d) = false) by (apply Nat.ltb_ge; lia). rewrite D.
  rewrite IHe; auto; try lia; try (cbn [pr app length] in *; lia).
Qed.

(* ---- the binary levels --------------------------------------------------------------------------- *)
Section Levels.
Variable d : nat.
Variable L : nat.
Variable sub : list tok -> res (expr * list tok).
Hypothesis L1 : 1 <= L.
Hypothesis SUB : forall e, canon e = true -> elvl e < L -> expr_size e <= K ->
  forall rest, length (pr e ++ rest) <= B -> d + idepth e <= gen_xpc_max_nesting -> stopb (L - 1) rest = true ->
    (ends_root e = true -> root_ok rest = true) -> sub (pr e ++ rest) = Ok (e, rest).

Lemma lrest_rt : right_nested L = false ->
  forall k e, expr_size e < k -> canon e = true -> elvl e <= L -> expr_size e <= K ->
  forall m rest, length (pr e ++ rest) <= B -> d + idepth e <= gen_xpc_max_nesting -> stopb (L - 1) rest = true ->
    (ends_root e = true -> root_ok rest = true) ->
    (bind (a, ts1) <- sub (pr e ++ rest); p_lrest sub L (nops L e + m) a ts1) = p_lrest sub L m e rest.
Proof.
  intros RN. induction k as [|k IH]; intros e Hk Hc Hl Hs m rest HB Hd Hr Hroot; [lia|].
  destruct (Nat.eq_dec (elvl e) L) as [EL|NEL].
  2:{ assert (N0 : nops L e = 0).
      { destruct (as_bin e) as [[[o a] b]|] eqn:EB; [|apply nops_nonbin; exact EB].
        apply as_bin_mk in EB. subst e. rewrite nops_mk. rewrite elvl_mk in NEL.
        destruct (Nat.eqb (op_level o) L) eqn:E; [apply Nat.eqb_eq in E; congruence|reflexivity]. }
      rewrite N0. cbn [plus]. rewrite SUB; auto; lia. }
  unfold elvl in EL. destruct (as_bin e) as [[[o a] b]|] eqn:EB; [|lia].
  apply as_bin_mk in EB. subst e.
  destruct (canon_mk _ _ _ Hc) as (Ca & Cb & Lv & Nm). rewrite EL, RN in Lv. destruct Lv as [La Lb].
  rewrite size_mk in *. rewrite idepth_mk in Hd. rewrite nops_mk, EL, Nat.eqb_refl. rewrite pr_mk in *.
  rewrite <- !app_assoc in *.
  replace (S (nops L a) + m) with (nops L a + S m) by lia.
  rewrite (IH a); auto; try lia.
  - cbn [p_lrest].
    destruct (first_tok' b rest Cb) as (NE & F1 & _).
    rewrite <- EL at 1. rewrite (match_op_optoks o _ F1).
    destruct (pr b ++ rest) as [|t0 q0] eqn:EQ; [congruence|]. rewrite <- EQ in *.
    rewrite SUB; auto; try lia; try len.
    rewrite ends_root_mk in Hroot. exact Hroot.
  - apply optoks_stopb. lia.
  - intros E. destruct (name_like_op o) eqn:NL; [rewrite (Nm eq_refl) in E; discriminate|].
    apply optoks_root_ok. exact NL.
Qed.

Lemma nops_len : forall k e, expr_size e < k -> canon e = true -> nops L e < length (pr e).
Proof.
  induction k as [|k IH]; intros e Hk Hc; [lia|].
  destruct (as_bin e) as [[[o a] b]|] eqn:EB.
  - apply as_bin_mk in EB. subst e. destruct (canon_mk _ _ _ Hc) as (Ca & _). rewrite size_mk in Hk.
    rewrite nops_mk, pr_mk. pose proof (IH a ltac:(lia) Ca). pose proof (optoks_len o).
    destruct (Nat.eqb (op_level o) L); len.
  - rewrite (nops_nonbin _ _ EB). destruct (first_tok' e [] Hc) as (NE & _). rewrite app_nil_r in NE.
    destruct (pr e); [congruence|cbn; lia].
Qed.

Lemma llevel_rt : right_nested L = false ->
  forall e, canon e = true -> elvl e <= L -> expr_size e <= K ->
  forall rest, length (pr e ++ rest) <= B -> d + idepth e <= gen_xpc_max_nesting -> stopb L rest = true ->
    (ends_root e = true -> root_ok rest = true) ->
    (bind (a, ts1) <- sub (pr e ++ rest); p_lrest sub L lf a ts1) = Ok (e, rest).
Proof.
  intros RN e Hc Hl Hs rest HB Hd Hr Hroot.
  pose proof (nops_len (S (expr_size e)) e ltac:(lia) Hc) as NL.
  assert (LF : lf = nops L e + (lf - nops L e)) by (unfold tok, str in *; rewrite app_length in HB; lia).
  rewrite LF. rewrite (lrest_rt RN (S (expr_size e))); auto; try lia.
  2:{ apply (stopb_mono L); [exact Hr|lia]. }
  destruct (lf - nops L e) as [|m'] eqn:EM; [unfold tok, str in *; rewrite app_length in HB; lia|].
  cbn [p_lrest]. rewrite (stopb_match_op L L rest Hr L1 (le_n _)). reflexivity.
Qed.

Lemma rlevel_rt :
  forall k e, expr_size e < k -> canon e = true -> elvl e <= L -> right_nested L = true -> expr_size e <= K ->
  forall m rest, length (pr e ++ rest) <= B -> length (pr e ++ rest) < m -> d + idepth e <= gen_xpc_max_nesting ->
    stopb L rest = true -> (ends_root e = true -> root_ok rest = true) ->
    p_rlevel sub L m (pr e ++ rest) = Ok (e, rest).
Proof.
  induction k as [|k IH]; intros e Hk Hc Hl RN Hs m rest HB Hm Hd Hr Hroot; [lia|].
  destruct m; [lia|]. cbn [p_rlevel].
  destruct (Nat.eq_dec (elvl e) L) as [EL|NEL].
  2:{ rewrite SUB; auto; try lia; [|apply (stopb_mono L); [exact Hr|lia]].
      rewrite (stopb_match_op L L rest Hr L1 (le_n _)). reflexivity. }
  unfold elvl in EL. destruct (as_bin e) as [[[o a] b]|] eqn:EB; [|lia].
  apply as_bin_mk in EB. subst e.
  destruct (canon_mk _ _ _ Hc) as (Ca & Cb & Lv & Nm). rewrite EL, RN in Lv. destruct Lv as [La Lb].
  rewrite size_mk in *. rewrite idepth_mk in Hd. rewrite pr_mk in *. rewrite <- !app_assoc in *.
  rewrite SUB; auto; try lia.
  - destruct (first_tok' b rest Cb) as (NE & F1 & _).
    rewrite <- EL at 1. rewrite (match_op_optoks o _ F1).
    destruct (pr b ++ rest) as [|t0 q0] eqn:EQ; [congruence|]. rewrite <- EQ in *.
    rewrite IH; auto; try lia; try len.
    + pose proof (optoks_len o). len.
    + rewrite ends_root_mk in Hroot. exact Hroot.
  - apply optoks_stopb. lia.
  - intros E. destruct (name_like_op o) eqn:NL; [rewrite (Nm eq_refl) in E; discriminate|].
    apply optoks_root_ok. exact NL.
Qed.

End Levels.

Lemma level_rt : forall L e, canon e = true -> elvl e <= L -> expr_size e <= K ->
  forall d rest, length (pr e ++ rest) <= B -> d + idepth e <= gen_xpc_max_nesting -> stopb L rest = true ->
    (ends_root e = true -> root_ok rest = true) ->
    p_level fl ns pe lf L d (pr e ++ rest) = Ok (e, rest).
Proof.
  induction L as [|l IH]; intros e Hc Hl Hs d rest HB Hd Hr Hroot.
  - cbn [p_level]. apply unary_rt; auto; lia.
  - cbn [p_level].
    assert (SUBl : forall e0, canon e0 = true -> elvl e0 < S l -> expr_size e0 <= K ->
              forall rest0, length (pr e0 ++ rest0) <= B -> d + idepth e0 <= gen_xpc_max_nesting ->
                stopb (S l - 1) rest0 = true -> (ends_root e0 = true -> root_ok rest0 = true) ->
                p_level fl ns pe lf l d (pr e0 ++ rest0) = Ok (e0, rest0)).
    { intros e0 C0 L0 S0 rest0 B0 D0 R0 Rt0. apply IH; auto; try lia.
      replace (S l - 1) with l in R0 by lia. exact R0. }
    destruct (right_nested (S l)) eqn:RN.
    + apply (rlevel_rt d (S l) (p_level fl ns pe lf l d) ltac:(lia) SUBl (S (expr_size e))); auto; lia.
    + apply (llevel_rt d (S l) (p_level fl ns pe lf l d) ltac:(lia) SUBl RN); auto.
Qed.

End RT.

(* Expr() on the printed tokens of a canonical tree returns the tree and stops at the follow token *)
Theorem p_expr_rt : forall fl ns k e, expr_size e < k -> canon e = true -> forall n d rest,
  length (pr e ++ rest) < n -> S d + idepth e <= gen_xpc_max_nesting -> follow rest = true ->
  p_expr fl ns n d (pr e ++ rest) = Ok (e, rest).
Proof.
  intros fl ns. induction k as [|k IH]; intros e Hk Hc n d rest Hn Hd Hf; [lia|].
  destruct n as [|n]; [lia|]. cbn [p_expr].
  assert (D : Nat.ltb gen_xpc_max_nesting (S d) = false) by (apply Nat.ltb_ge; lia). rewrite D.
  apply (level_rt fl ns (p_expr fl ns n) (S n) n (expr_size e)); auto; try lia.
  - intros e0 S0 C0 d0 rest0 B0 D0 F0. apply IH; auto. lia.
  - apply elvl_le6.
  - apply follow_stopb. exact Hf.
  - intros _. apply follow_root_ok. exact Hf.
Qed.

Theorem parse_print_m : forall fl ns e, canon e = true -> S (idepth e) <= gen_xpc_max_nesting ->
  parse fl ns (pr e) = Ok e.
Proof.
  intros fl ns e Hc Hd. unfold parse.
  pose proof (p_expr_rt fl ns (S (expr_size e)) e ltac:(lia) Hc (S (length (pr e))) 0 []) as H.
  rewrite app_nil_r in H. rewrite H; auto; lia.
Qed.
