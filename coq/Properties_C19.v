(* Properties_C19.v — C19 "pluggable memory manager: balanced use, allocation failure is survivable":
   theorems about the allocation-ledger model (MemDefs.v) of XalanVector, XalanList and ArenaAllocator.
   The heap is the manager's table: [live] = outstanding blocks with the manager that handed them out,
   [bad] = a deallocate of a block not outstanding in that manager happened (foreign or double free),
   [fuse] = failure injection (Some k: the allocation after k successful ones is refused, once). *)
From Coq Require Import List Arith Bool Lia Permutation.
Require Import XV.GenCont XV.GenMem XV.MemDefs XV.MemModel XV.MemListModel XV.MemArenaModel XV.MemMapDefs.
Import ListNotations.

(* the shapes of the source that the model follows (regenerated from /repo on every run) *)
Theorem source_shape :
  vec_dtor_deallocates = true /\ vec_swap_swaps_manager = true /\ vec_grow_copy_then_swap = true /\
  vec_reserve_copy_then_swap = true /\ list_dtor_guarded = true /\ list_dtor_frees_all = true /\
  list_head_lazy = true /\ list_swap_swaps_manager = true /\ list_erase_recycles = true /\
  arena_dtor_resets = true /\ arena_create_then_push = true /\ arenablock_dtor_all_objects = true /\
  arenablock_dtor_frees_storage = true /\ map_dtor_guard_buckets = true /\ map_dtor_frees_values = true /\
  map_clear_recycles = true /\ map_value_before_node = true.
Proof. repeat split; reflexivity. Qed.
Print Assumptions source_shape.

(* ---------------- XalanVector (two vectors on two managers; swap, operator=, growth, reserve, ...) *)

(* every history of operations, with or without an injected allocation failure anywhere, followed by the
   destructors: nothing outstanding, no foreign free, no double free *)
Theorem vec_ledger_balanced : forall (ops : list vop) (f : option nat) w h,
  run _ _ vstep ops vworld0 (heap0 f) = (w, h) ->
  live (vdestroy w h) = [] /\ bad (vdestroy w h) = false.
Proof. exact vec_ledger_balanced_lemma. Qed.
Print Assumptions vec_ledger_balanced.

(* strong guarantee: an operation in which the manager refuses leaves both vectors and the manager's
   table exactly as they were, in every reachable state *)
Theorem vec_alloc_failure_safe : forall (ops : list vop) (f : option nat) w h op h1 w1,
  run _ _ vstep ops vworld0 (heap0 f) = (w, h) ->
  vstep op w h = (h1, w1, false) ->
  w1 = w /\ live h1 = live h /\ bad h1 = false /\
  live (vdestroy w1 h1) = [] /\ bad (vdestroy w1 h1) = false.
Proof.
  intros ops f w h op h1 w1 R S.
  assert (V : vinv w h) by (eapply vrun_inv; [apply vinv0 | exact R]).
  destruct (vstep_inv _ _ _ _ _ _ V S) as [V1 T]. destruct (T eq_refl) as [E L].
  split; auto. split; auto. split; [apply V1|]. apply vdestroy_spec. exact V1.
Qed.
Print Assumptions vec_alloc_failure_safe.

Theorem vec_dtor_never_allocates : forall w h,
  next (vdestroy w h) = next h /\ fuse (vdestroy w h) = fuse h.
Proof. exact vdestroy_no_alloc. Qed.
Print Assumptions vec_dtor_never_allocates.

(* ... where every call of allocate, successful or refused, shows in (next, fuse) *)
Theorem alloc_is_visible : forall m t c h h1 r, alloc m t c h = (h1, r) -> next h1 <> next h \/ fuse h1 <> fuse h.
Proof. exact alloc_visible. Qed.
Print Assumptions alloc_is_visible.

(* the "reserve before create" idiom of XalanTransformer: after reserve(n) succeeded, pushing up to n
   elements never calls the manager (so it cannot fail): the heap, log included, is unchanged *)
Theorem reserve_then_push_safe : forall tag v n h h1 v1 j,
  vwf v -> linv (vowned v) h -> vec_reserve tag v n h = (h1, v1, true) -> vsize v + j <= n ->
  push_n tag j v1 h1 = (h1, vset_size v1 (vsize v + j), true).
Proof. exact reserve_then_push_lemma. Qed.
Print Assumptions reserve_then_push_safe.

(* the hypotheses are satisfiable and failure does happen in the model *)
Example vec_reserve_example :
  vec_reserve TAG_INT (vempty 0) 4 (heap0 None) =
  (mkheap 1 [(0, 0)] None false [EAlloc 0 TAG_INT 4 0], mkvec 0 0 4 (Some 0), true).
Proof. reflexivity. Qed.
Example vec_failure_example :
  let '(w, h) := run _ _ vstep [VPush false; VPush false] vworld0 (heap0 (Some 1)) in
  vsize (fst w) = 1 /\ vcap (fst w) = 1 /\ log h = [EThrow; EAlloc 0 TAG_INT 1 0].
Proof. vm_compute. auto. Qed.

(* ---------------- XalanList (two lists; lazy sentinel, free list, swap) *)

Theorem list_ledger_balanced : forall (ops : list lop) (f : option nat) w h h1 ok,
  run _ _ lstep ops lworld0 (heap0 f) = (w, h) -> ldestroy w h = (h1, ok) ->
  ok = true /\ live h1 = [] /\ bad h1 = false.
Proof.
  intros ops f w h h1 ok R D.
  assert (V : linv2 w h) by (eapply lrun_inv; [apply linv20 | exact R]).
  destruct (ldestroy_spec _ _ _ _ V D) as [A [B [C _]]]. auto.
Qed.
Print Assumptions list_ledger_balanced.

(* basic guarantee: an operation in which the manager refuses changes nothing but, possibly, the lazily
   allocated sentinel; the lists stay destructible and destruction balances the ledger *)
Theorem list_alloc_failure_safe : forall (ops : list lop) (f : option nat) w h op h1 w1 h2 ok,
  run _ _ lstep ops lworld0 (heap0 f) = (w, h) ->
  lstep op w h = (h1, w1, false) -> ldestroy w1 h1 = (h2, ok) ->
  only_heads w w1 /\ bad h1 = false /\ ok = true /\ live h2 = [] /\ bad h2 = false.
Proof.
  intros ops f w h op h1 w1 h2 ok R S D.
  assert (V : linv2 w h) by (eapply lrun_inv; [apply linv20 | exact R]).
  destruct (lstep_inv _ _ _ _ _ _ V S) as [V1 T].
  destruct (ldestroy_spec _ _ _ _ V1 D) as [A [B [C _]]].
  split; [apply T; reflexivity|]. split; [apply V1|]. auto.
Qed.
Print Assumptions list_alloc_failure_safe.

(* ~XalanList is guarded by "if (m_listHead != 0)": it never calls the manager's allocate *)
Theorem list_dtor_never_allocates : forall (ops : list lop) (f : option nat) w h h1 ok,
  run _ _ lstep ops lworld0 (heap0 f) = (w, h) -> ldestroy w h = (h1, ok) ->
  next h1 = next h /\ fuse h1 = fuse h.
Proof.
  intros ops f w h h1 ok R D.
  assert (V : linv2 w h) by (eapply lrun_inv; [apply linv20 | exact R]).
  destruct (ldestroy_spec _ _ _ _ V D) as [_ [_ [_ X]]]. exact X.
Qed.
Print Assumptions list_dtor_never_allocates.

(* ... but a read-only query on a fresh list does allocate (begin()/end()/empty()/size()) *)
Example list_empty_allocates :
  let '(h, _, ok) := lstep (LEmpty false) lworld0 (heap0 None) in (ok, log h) = (true, [EAlloc 0 TAG_LNODE 1 0]).
Proof. reflexivity. Qed.

(* ---------------- ArenaAllocator<Obj, ArenaBlock<Obj>> *)

(* without a refusal: every history followed by the destructor is balanced *)
Theorem arena_ledger_balanced : forall (ops : list aop) (bs : nat) a h h1 a1 ok,
  run _ _ astep ops (arena0 0 bs) (heap0 None) = (a, h) -> arena_dtor a h = (h1, a1, ok) ->
  ok = true /\ live h1 = [] /\ bad h1 = false.
Proof.
  intros ops bs a h h1 a1 ok R D.
  destruct (arun_inv _ _ _ _ _ (ainv0 0 bs None) R) as [V FZ].
  destruct (FZ eq_refl) as [LK F1]. cbn in LK.
  destruct (arena_dtor_spec _ _ _ _ _ V D) as [OK [_ [_ FZ2]]].
  specialize (FZ2 F1). subst ok. destruct (OK eq_refl) as [P B]. rewrite LK in P.
  split; auto. split; auto. apply Permutation_nil. apply Permutation_sym. exact P.
Qed.
Print Assumptions arena_ledger_balanced.

(* alloc_failure_safe, full statement ("destruction balances the ledger after a refusal"): REFUTED.
   allocateBlock() does  m_blocks.push_back(ArenaBlockType::create(...)) : when the list node cannot be
   allocated the freshly created block (its struct and its storage) is lost *)
Theorem arena_alloc_failure_safe_refuted :
  exists f bs ops, r_dtor_ok (arena_case f bs ops) = true /\ r_outstanding (arena_case f bs ops) = 2 /\
                   r_bad (arena_case f bs ops) = false.
Proof. exists (Some 3), 2, [ANew 8]. vm_compute. auto. Qed.
Print Assumptions arena_alloc_failure_safe_refuted.

(* what does hold with refusals anywhere: no foreign / double free ever; every step leaks nothing or exactly
   the two blocks of one ArenaBlock, and only a refused step can leak; when the destructor completes, what is
   outstanding is exactly the leaked blocks *)
Theorem arena_alloc_failure_safe_partial : forall (ops : list aop) (f : option nat) (bs : nat) a h,
  run _ _ astep ops (arena0 0 bs) (heap0 f) = (a, h) ->
  bad h = false /\
  (forall op h1 a1 ok, astep op a h = (h1, a1, ok) ->
     bad h1 = false /\ leak_step a a1 /\ (ok = true -> aleak a1 = aleak a)) /\
  (forall h1 a1, arena_dtor a h = (h1, a1, true) -> Permutation (live h1) (aleak a) /\ bad h1 = false).
Proof.
  intros ops f bs a h R.
  destruct (arun_inv _ _ _ _ _ (ainv0 0 bs f) R) as [V _].
  split; [apply V|]. split.
  - intros op h1 a1 ok S. destruct (astep_inv _ _ _ _ _ _ V S) as [V1 [_ [LS [OK _]]]].
    split; [apply V1|]. auto.
  - intros h1 a1 D. destruct (arena_dtor_spec _ _ _ _ _ V D) as [OK _]. apply OK. reflexivity.
Qed.
Print Assumptions arena_alloc_failure_safe_partial.

(* dtor_never_allocates: REFUTED (known finding K8).  ~ArenaAllocator calls reset(), reset() calls
   m_blocks.begin(), and XalanList::begin() allocates the sentinel of a list that was never used.  If the
   manager refuses there, the exception leaves a destructor (std::terminate). *)
Theorem dtor_never_allocates_refuted :
  (exists bs, let '(h1, _, ok) := arena_dtor (arena0 0 bs) (heap0 None) in ok = true /\ next h1 <> 0) /\
  (exists bs, let '(h1, _, ok) := arena_dtor (arena0 0 bs) (heap0 (Some 0)) in ok = false /\ log h1 = [EThrow]).
Proof. split; exists 4; vm_compute; split; auto; discriminate. Qed.
Print Assumptions dtor_never_allocates_refuted.

(* under the exact guard "the block list has its sentinel" (= the allocator was used at least once) the
   destructor never calls allocate and cannot fail *)
Theorem dtor_never_allocates_partial : forall (ops : list aop) (f : option nat) (bs : nat) a h h1 a1 ok,
  run _ _ astep ops (arena0 0 bs) (heap0 f) = (a, h) ->
  lhead (alist a) <> None ->
  arena_dtor a h = (h1, a1, ok) -> ok = true /\ next h1 = next h /\ fuse h1 = fuse h.
Proof.
  intros ops f bs a h h1 a1 ok R HD D.
  destruct (arun_inv _ _ _ _ _ (ainv0 0 bs f) R) as [V _].
  destruct (arena_dtor_spec _ _ _ _ _ V D) as [_ [_ [HH _]]]. apply HH. exact HD.
Qed.
Print Assumptions dtor_never_allocates_partial.

(* the guard is exact: in a reachable state without the sentinel the destructor does call allocate *)
Theorem dtor_guard_exact : forall (ops : list aop) (f : option nat) (bs : nat) a h h1 a1 ok,
  run _ _ astep ops (arena0 0 bs) (heap0 f) = (a, h) ->
  lhead (alist a) = None -> arena_dtor a h = (h1, a1, ok) -> next h1 <> next h \/ fuse h1 <> fuse h.
Proof.
  intros ops f bs a h h1 a1 ok R HD D.
  destruct (arun_inv _ _ _ _ _ (ainv0 0 bs f) R) as [[[Wl Wb] _] _].
  destruct (Wl HD) as [N Fr]. specialize (Wb HD).
  destruct a as [[m hd nodes fr] blocks sz lk]. cbn in *. subst.
  unfold arena_dtor, arena_reset, get_head in D. cbn in D.
  destruct (alloc m TAG_ANODE 1 h) as [h2 [id|]] eqn:A; cbn in D; inversion D; subst; clear D.
  - left. apply alloc_some in A. destruct A as [_ [_ [_ Nx]]]. cbn. lia.
  - eapply alloc_visible; eauto.
Qed.
Print Assumptions dtor_guard_exact.

Example arena_guard_satisfiable :
  let '(a, h) := run _ _ astep [ANew 8] (arena0 0 2) (heap0 None) in lhead (alist a) <> None.
Proof. vm_compute. discriminate. Qed.

(* ---------------- XalanMap (model tied by correspondence only; the statements below are witnesses) *)

(* dtor_never_allocates is refuted for XalanMap too: the copy of an empty map has one bucket and a free-entries
   list that was never used; ~XalanMap calls m_freeEntries.begin() because m_buckets is not empty *)
Theorem map_dtor_never_allocates_refuted :
  r_dtor_events (map_case None 3 3 [MAssign true]) =
    [EFree 0 1; EAlloc 1 TAG_MNODE 1 2; EFree 1 0; EFree 1 2] /\
  r_dtor_ok (map_case (Some 2) 3 3 [MAssign true]) = false.
Proof. split; vm_compute; reflexivity. Qed.
Print Assumptions map_dtor_never_allocates_refuted.

(* ... and the refusal can come from inside operator= (its temporary is destroyed): std::terminate during an
   operation, not only at the end *)
Theorem map_assign_terminates_refuted :
  exists f ops, existsb (fun s => negb (fst (fst s))) (r_steps (map_case f 3 3 ops)) = true /\
    last (map (fun s => last (snd (fst s)) EThrow) (r_steps (map_case f 3 3 ops))) EThrow = EThrow.
Proof.
  exists (Some 26), [MInsert true 5; MAssign true; MErase true 27; MInsert false 36; MInsert false 5; MAssign true].
  vm_compute. split; reflexivity.
Qed.
Print Assumptions map_assign_terminates_refuted.

(* alloc_failure_safe for XalanMap, "destruction balances the ledger after a refusal": refuted.
   doCreateEntry does m_freeEntries.push_back(Entry(allocate(1))): the value block is lost when the node cannot
   be allocated (1); and a refused bucket push_back leaves the new entry in m_entries, in no bucket, with m_size
   not incremented (2) - the state behind the SIGSEGV of known finding K23 *)
Theorem map_alloc_failure_safe_refuted :
  r_outstanding (map_case (Some 4) 3 3 [MInsert false 1; MInsert false 2]) = 1 /\
  r_outstanding (map_case (Some 5) 3 3 [MInsert false 1; MInsert false 2]) = 1 /\
  (let '(h, w, ok) := mstep (MInsert false 1) (map0 0 3 3, map0 1 3 3) (heap0 (Some 5)) in
   ok = false /\ length (mentries (fst w)) = 1 /\ msize (fst w) = 0 /\
   forallb (fun b => match brefs b with [] => true | _ => false end) (mbuckets (fst w)) = true).
Proof. split; [|split]; vm_compute; auto. Qed.
Print Assumptions map_alloc_failure_safe_refuted.
