(* Extraction of the C13 model for the correspondence driver. ExtrOcamlBasic only. *)
Require Import ExtrOcamlBasic.
From Coq Require Import ZArith.
Require Import XV.StripDefs.
(* ocaml/conv.ml mentions the types z and nat: make sure both are part of the extracted module *)
Definition conv_types_witness : Z * nat := (0%Z, O).
Extraction "extracted/strip_model.ml" conv_types_witness model_report post_construction sheet_strip remove_stripped run_obs number_any walk_strip.
