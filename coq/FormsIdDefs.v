(* FormsIdDefs.v - C05: the element-by-ID table of the native tree builder.
   XalanSourceTreeDocument::createAttributes (SAX2) looks at the declared type Attributes::getType(i) of every
   attribute it creates and, when that is exactly "ID" (GenForms.id_type_exact, regenerated from /repo),
   does m_elementsByID.insert(value -> owner element): the FIRST element registered for a value stays.
   getElementById is a lookup in that table.  Elements are identified by their index.  Definitions only. *)
From Coq Require Import NArith List Bool.
Import ListNotations.
Require Import XV.GenForms XV.FormsDefs.

Definition s_ID : str := [73; 68]%N.

(* the test on the type string *)
Definition is_id_type (ty : str) : bool :=
  if id_type_exact then str_eqb ty s_ID else starts_with ty s_ID.

(* an attribute with its declared type ("CDATA", "ID", "IDREF", "IDREFS", "NMTOKEN", ...) *)
Definition tattr := (attr * str)%type.

Inductive tevent :=
  | TStart (q : str) (attrs : list tattr)
  | TEv (e : sax_event).                       (* any other event *)

Definition erase (e : tevent) : sax_event :=
  match e with
  | TStart q a => EStart q (map fst a)
  | TEv e => e
  end.

Definition idtab := list (str * N).            (* value -> element index, in insertion order *)

Fixpoint id_lookup (t : idtab) (v : str) : option N :=
  match t with
  | [] => None
  | (k, i) :: r => if str_eqb k v then Some i else id_lookup r v
  end.

(* XalanMap::insert: no effect when the key is present *)
Definition id_insert (t : idtab) (p : str * N) : idtab :=
  match id_lookup t (fst p) with
  | Some _ => t
  | None => t ++ [p]
  end.

(* the ID attributes of one start tag, in the order createAttributes visits them (xmlns declarations first) *)
Definition id_pairs_of (idx : N) (a : list tattr) : list (str * N) :=
  let typed := filter (fun x => is_nsdecl (fst (fst x))) a ++ filter (fun x => negb (is_nsdecl (fst (fst x)))) a in
  map (fun x => (snd (fst x), idx)) (filter (fun x => is_id_type (snd x)) typed).

(* index of the element just opened *)
Definition opened_index (st : hstate) : N :=
  match h_stack st with f :: _ => f_idx f | [] => 0%N end.

Fixpoint run_ids (st : hstate) (t : idtab) (evs : list tevent) : option (hstate * idtab) :=
  match evs with
  | [] => Some (st, t)
  | e :: r =>
      match step st (erase e) with
      | None => None
      | Some st' =>
          let t' := match e with
                    | TStart _ a => fold_left id_insert (id_pairs_of (opened_index st') a) t
                    | TEv _ => t
                    end in
          run_ids st' t' r
      end
  end.

Definition build_ids (evs : list tevent) : option (list inode * idtab) :=
  match run_ids h_init [] evs with
  | Some (st, t) => if is_nil (h_stack st) && is_nil (h_buf st) then Some (rev (h_top st), t) else None
  | None => None
  end.

(* XalanSourceTreeDocument::getElementById *)
Definition get_element_by_id (evs : list tevent) (v : str) : option N :=
  match build_ids evs with Some (_, t) => id_lookup t v | None => None end.

(** specification side: all (value, element) pairs of attributes declared ID, in document order *)
Fixpoint all_id_pairs (st : hstate) (evs : list tevent) : list (str * N) :=
  match evs with
  | [] => []
  | e :: r =>
      match step st (erase e) with
      | None => []
      | Some st' =>
          (match e with
           | TStart _ a => map (fun x => (snd (fst x), opened_index st'))
                               (filter (fun x => str_eqb (snd x) s_ID) (filter (fun x => is_nsdecl (fst (fst x))) a ++ filter (fun x => negb (is_nsdecl (fst (fst x)))) a))
           | TEv _ => []
           end) ++ all_id_pairs st' r
      end
  end.

(* DOMDocument::getElementById on a document with unique IDs: the element whose ID attribute has the value *)
Definition unique_ids (ps : list (str * N)) : Prop := NoDup (map fst ps).
