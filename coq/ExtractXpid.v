(* Extraction of the id() mechanism model (element-by-ID table + FunctionID). ExtrOcamlBasic only. *)
From Coq Require Import ZArith.
Require Import ExtrOcamlBasic.
Require Import XV.XpAst XV.DomDefs XV.XpIdDefs.
(* ocaml/conv.ml (prepended to every driver) mentions the constructors of Z *)
Definition xpid_z_probe : Z := Z.succ 0%Z.
Extraction "extracted/xpid_model.ml" build_doc fn_id build_table tbl_find tokens xpid_z_probe.
