(* XpcPrintFacts.v — facts about tokens, follow sets and generated tables used by the round-trip proof. *)
From Coq Require Import List NArith Bool Arith Lia.
Import ListNotations.
Require Import XV.XpAst XV.GenXpc XV.XpcLexDefs XV.XpcParseDefs XV.XpcPrintDefs.

Lemma str_eqb_eq : forall a b, str_eqb a b = true -> a = b.
Proof.
  induction a as [|x a IH]; destruct b as [|y b]; cbn; intros H; try discriminate; [reflexivity|].
  apply andb_prop in H. destruct H as [H1 H2]. apply N.eqb_eq in H1. subst. f_equal. auto.
Qed.
Lemma str_eqb_refl : forall a, str_eqb a a = true.
Proof. induction a; cbn; [reflexivity|]. rewrite N.eqb_refl. assumption. Qed.

(* standalone versions of the printer's local functions *)
Fixpoint pr_preds (l : list pred) : list tok :=
  match l with [] => [] | (_, p) :: r => [ch_lbrack] :: pr p ++ [ch_rbrack] :: pr_preds r end.
Fixpoint pr_args (l : list expr) : list tok :=
  match l with [] => [] | [x] => pr x | x :: r => pr x ++ [ch_comma] :: pr_args r end.
Fixpoint pr_steps (l : list step) : list tok :=
  match l with
  | [] => []
  | (a, t, ps) :: r =>
      axis_name a :: gen_xpc_kw_axis_sep :: pr_ntest t ++ pr_preds ps ++ match r with [] => [] | _ => [ch_solidus] :: pr_steps r end
  end.
Fixpoint pr_union (l : list expr) : list tok :=
  match l with [] => [] | [x] => pr x | x :: r => pr x ++ [ch_bar] :: pr_union r end.

Lemma pr_func : forall n l, pr (EFunc n l) = n :: lp :: pr_args l ++ [rp].
Proof. reflexivity. Qed.
Lemma pr_union_eq : forall l, pr (EUnion l) = pr_union l.
Proof. reflexivity. Qed.
Lemma pr_path_some : forall x hp st,
  pr (EPath (Some x) hp st) = pr x ++ pr_preds hp ++ match st with [] => [] | _ => [ch_solidus] :: pr_steps st end.
Proof. reflexivity. Qed.
Lemma pr_path_none : forall hp st,
  pr (EPath None hp st) = match st with (AxRoot, _, _) :: r => [ch_solidus] :: pr_steps r | _ => pr_steps st end.
Proof. reflexivity. Qed.
Lemma pr_mk : forall o a b, pr (mk o a b) = pr a ++ optoks o ++ pr b.
Proof. destruct o; reflexivity. Qed.

Fixpoint canon_preds (l : list pred) : bool :=
  match l with [] => true | (f, p) :: r => (Bool.eqb f (uses_pos p) && canon p && canon_preds r)%bool end.
Fixpoint canon_list (l : list expr) : bool := match l with [] => true | x :: r => (canon x && canon_list r)%bool end.
Fixpoint canon_steps (l : list step) : bool :=
  match l with [] => true | (a, t, ps) :: r => (axis_ok a && ntest_ok t && canon_preds ps && canon_steps r)%bool end.
Lemma canon_union : forall l, canon (EUnion l) = (canon_list l && Nat.leb 2 (length l) && forallb is_pathlevel l)%bool.
Proof. reflexivity. Qed.
Lemma canon_func : forall n l, canon (EFunc n l) = (canon_list l && func_ok n (length l))%bool.
Proof. reflexivity. Qed.
Lemma canon_path_some : forall x hp st,
  canon (EPath (Some x) hp st) = (is_prim x && canon x && canon_preds hp && canon_steps st && negb (isnil hp && isnil st))%bool.
Proof. reflexivity. Qed.
Lemma canon_path_none : forall hp st,
  canon (EPath None hp st) =
  (isnil hp && match st with [] => false | (AxRoot, TRoot, []) :: r => canon_steps r | _ => canon_steps st end)%bool.
Proof. reflexivity. Qed.

Fixpoint dep_preds (l : list pred) : nat := match l with [] => 0 | (_, p) :: r => Nat.max (S (idepth p)) (dep_preds r) end.
Fixpoint dep_list (l : list expr) : nat := match l with [] => 0 | x :: r => Nat.max (idepth x) (dep_list r) end.
Fixpoint dep_args (l : list expr) : nat := match l with [] => 0 | x :: r => Nat.max (S (idepth x)) (dep_args r) end.
Fixpoint dep_steps (l : list step) : nat := match l with [] => 0 | (_, _, ps) :: r => Nat.max (dep_preds ps) (dep_steps r) end.
Lemma idepth_union : forall l, idepth (EUnion l) = dep_list l. Proof. reflexivity. Qed.
Lemma idepth_func : forall n l, idepth (EFunc n l) = dep_args l. Proof. reflexivity. Qed.
Lemma idepth_path : forall h hp st, idepth (EPath h hp st) =
  Nat.max (match h with Some x => idepth x | None => 0 end) (Nat.max (dep_preds hp) (dep_steps st)).
Proof. reflexivity. Qed.
Lemma idepth_mk : forall o a b, idepth (mk o a b) = Nat.max (idepth a) (idepth b).
Proof. destruct o; reflexivity. Qed.

Fixpoint size_preds (l : list pred) : nat := match l with [] => 0 | (_, p) :: r => S (expr_size p + size_preds r) end.
Fixpoint size_list (l : list expr) : nat := match l with [] => 0 | x :: r => S (expr_size x + size_list r) end.
Fixpoint size_steps (l : list step) : nat := match l with [] => 0 | (_, _, ps) :: r => S (size_preds ps + size_steps r) end.
Lemma size_union : forall l, expr_size (EUnion l) = S (size_list l). Proof. reflexivity. Qed.
Lemma size_func : forall n l, expr_size (EFunc n l) = S (size_list l). Proof. reflexivity. Qed.
Lemma size_path : forall h hp st, expr_size (EPath h hp st) =
  S ((match h with Some x => expr_size x | None => 0 end) + size_preds hp + size_steps st).
Proof. reflexivity. Qed.
Lemma size_mk : forall o a b, expr_size (mk o a b) = S (expr_size a + expr_size b).
Proof. destruct o; reflexivity. Qed.

Lemma as_bin_mk : forall e o a b, as_bin e = Some (o, a, b) -> e = mk o a b.
Proof. destruct e; cbn; intros o0 a0 b0 H; inversion H; subst; reflexivity. Qed.
Lemma elvl_mk : forall o a b, elvl (mk o a b) = op_level o.
Proof. destruct o; reflexivity. Qed.
Lemma op_level_pos : forall o, 1 <= op_level o <= 6.
Proof. destruct o; cbn; lia. Qed.
Lemma ends_root_mk : forall o a b, ends_root (mk o a b) = ends_root b.
Proof. destruct o; reflexivity. Qed.

(* canonical binary nodes, uniformly *)
Lemma canon_mk : forall o a b, canon (mk o a b) = true ->
  canon a = true /\ canon b = true /\
  (if right_nested (op_level o) then elvl a < op_level o /\ elvl b <= op_level o
   else elvl a <= op_level o /\ elvl b < op_level o) /\
  (name_like_op o = true -> ends_root a = false).
Proof.
  intros o a b H.
  destruct o; cbn [mk canon] in H; repeat (apply andb_prop in H; destruct H as [H ?]);
    cbn [op_level right_nested Nat.leb name_like_op];
    repeat match goal with
           | X : Nat.ltb _ _ = true |- _ => apply Nat.ltb_lt in X
           | X : Nat.leb _ _ = true |- _ => apply Nat.leb_le in X
           | X : negb _ = true |- _ => apply negb_true_iff in X
           end;
    cbn [elvl as_bin op_level] in *; repeat split; auto; try discriminate.
Qed.

(* ---- follow sets -------------------------------------------------------------------------------- *)
Definition known_toks : list tok :=
  [[ch_rparen]; [ch_rbrack]; [ch_comma]] ++ map fst optab.

Lemma stop_path_known : forall t r, stop_path (t :: r) = true -> In t known_toks.
Proof.
  intros t r H. unfold stop_path, closer in H.
  destruct (str_eqb t [ch_rparen]) eqn:E1; [apply str_eqb_eq in E1; subst; cbn; auto|].
  destruct (str_eqb t [ch_rbrack]) eqn:E2; [apply str_eqb_eq in E2; subst; cbn; auto|].
  destruct (str_eqb t [ch_comma]) eqn:E3; [apply str_eqb_eq in E3; subst; cbn; auto|].
  cbn [orb] in H. unfold known_toks. apply in_or_app. right.
  unfold optab in *. cbn [opcls map fst] in *.
  repeat match type of H with
         | context [if str_eqb t ?k then _ else _] =>
             let E := fresh "E" in destruct (str_eqb t k) eqn:E; [apply str_eqb_eq in E; subst; cbn; tauto|]
         end.
  discriminate.
Qed.

Ltac known_cases H :=
  unfold known_toks, optab in H; cbn [map fst app] in H;
  repeat (destruct H as [H|H]; [subst|]); [..|destruct H].

Lemma stopb_path : forall l rest, stopb l rest = true -> stop_path rest = true.
Proof.
  intros l [|t r] H; [reflexivity|]. unfold stopb in H. unfold stop_path.
  destruct (closer t); [reflexivity|]. cbn [orb] in *. destruct (opcls optab t); [reflexivity|discriminate].
Qed.
Lemma stopb_mono : forall l l' rest, stopb l rest = true -> l' <= l -> stopb l' rest = true.
Proof.
  intros l l' [|t r] H Hl; [reflexivity|]. unfold stopb in *.
  destruct (closer t); [reflexivity|]. cbn [orb] in *. destruct (opcls optab t); [|discriminate].
  apply Nat.ltb_lt in H. apply Nat.ltb_lt. lia.
Qed.
Lemma follow_stopb : forall l rest, follow rest = true -> stopb l rest = true.
Proof. intros l [|t r] H; [reflexivity|]. unfold stopb. cbn in H. rewrite H. reflexivity. Qed.

Lemma stopb_inv : forall l t r, stopb l (t :: r) = true ->
  closer t = true \/ exists k, opcls optab t = Some k /\ l < k.
Proof.
  intros l t r H. unfold stopb in H. destruct (closer t); [left; reflexivity|]. cbn [orb] in H.
  destruct (opcls optab t) as [k|]; [|discriminate]. right. exists k. split; [reflexivity|]. apply Nat.ltb_lt. exact H.
Qed.
Lemma sp_facts : forall rest, stop_path rest = true ->
  N.eqb (tokc rest) ch_solidus = false /\ N.eqb (tokc rest) ch_lbrack = false /\
  look_c rest ch_lparen 0 = false /\ look_c rest ch_colon 0 = false.
Proof.
  intros [|t r] H; [repeat split; reflexivity|].
  pose proof (stop_path_known _ _ H) as K. known_cases K; repeat split; reflexivity.
Qed.
Lemma stopb0_bar : forall rest, stopb 0 rest = true -> N.eqb (tokc rest) ch_bar = false.
Proof.
  intros [|t r] H; [reflexivity|].
  pose proof (stop_path_known _ _ (stopb_path _ _ H)) as K. known_cases K; try reflexivity.
  apply stopb_inv in H. destruct H as [H|(k & Hk & Hlt)]; [vm_compute in H; discriminate|].
  vm_compute in Hk. inversion Hk; subst. lia.
Qed.
Lemma stopb_match_op : forall l l' rest, stopb l rest = true -> 1 <= l' -> l' <= l -> match_op l' rest = None.
Proof.
  intros l l' [|t r] H H1 H2.
  - destruct l' as [|[|[|[|[|[|[|?]]]]]]]; reflexivity.
  - pose proof (stop_path_known _ _ (stopb_path _ _ H)) as K.
    apply stopb_inv in H.
    known_cases K;
      (destruct H as [H|(k & Hk & Hlt)];
       [vm_compute in H; try discriminate | vm_compute in Hk; inversion Hk; subst k]);
      destruct l' as [|[|[|[|[|[|[|?]]]]]]]; try reflexivity; lia.
Qed.
(* a lone '/' may be followed by everything that can follow a path, except the operators that are names *)
Lemma stop_root_ok : forall rest, stop_path rest = true ->
  (forall t r, rest = t :: r -> ~ In t [gen_xpc_kw_or; gen_xpc_kw_and; [ch_asterisk]; gen_xpc_kw_div; gen_xpc_kw_mod]) ->
  root_ok rest = true.
Proof.
  intros [|t r] H N; [reflexivity|]. specialize (N t r eq_refl).
  pose proof (stop_path_known _ _ H) as K. known_cases K; try reflexivity; exfalso; apply N; cbn; tauto.
Qed.
Lemma follow_root_ok : forall rest, follow rest = true -> root_ok rest = true.
Proof.
  intros [|t r] H; [reflexivity|]. cbn in H. unfold closer in H.
  destruct (str_eqb t [ch_rparen]) eqn:E1; [apply str_eqb_eq in E1; subst; reflexivity|].
  destruct (str_eqb t [ch_rbrack]) eqn:E2; [apply str_eqb_eq in E2; subst; reflexivity|].
  destruct (str_eqb t [ch_comma]) eqn:E3; [apply str_eqb_eq in E3; subst; reflexivity|]. discriminate.
Qed.
Lemma optoks_root_ok : forall o r, name_like_op o = false -> root_ok (optoks o ++ r) = true.
Proof. destruct o; cbn [name_like_op]; intros; try discriminate; reflexivity. Qed.
Lemma optoks_stopb : forall o r l, l < op_level o -> stopb l (optoks o ++ r) = true.
Proof.
  intros o r l H. destruct o; cbn [op_level] in H; unfold stopb; cbn;
    first [apply Nat.ltb_lt; lia | apply Nat.leb_le; lia].
Qed.

(* ---- generated tables ---------------------------------------------------------------------------- *)
Lemma axis_facts : forall a, axis_ok a = true ->
  axis_of_name (axis_name a) = Some a /\ first_name_start (axis_name a) = true /\
  str_eqb (axis_name a) gen_xpc_kw_dot = false /\ str_eqb (axis_name a) gen_xpc_kw_dotdot = false /\
  is_letter (tokc [axis_name a]) = true /\
  (forall r, look_c (axis_name a :: r) ch_lparen 0 = false /\ look_c (axis_name a :: r) ch_colon 0 = false).
Proof. destruct a; intros H; try discriminate; vm_compute; repeat split; reflexivity. Qed.

Lemma ntype_facts : forall k, ntype_of_name (ntype_name k) = Some k.
Proof. destruct k; vm_compute; reflexivity. Qed.

Lemma name_start_not : forall c, is_name_start c = true ->
  N.eqb c ch_hyphen = false /\ N.eqb c ch_equals = false /\ N.eqb c ch_rparen = false /\ N.eqb c ch_comma = false /\
  N.eqb c ch_apos = false /\ N.eqb c ch_quote = false /\ N.eqb c ch_dollar = false /\ N.eqb c ch_lparen = false /\
  N.eqb c ch_fullstop = false /\ is_digit c = false /\ N.eqb c ch_asterisk = false /\ N.eqb c ch_solidus = false /\
  N.eqb c ch_at = false /\ N.eqb c ch_lbrack = false /\ N.eqb c ch_bar = false.
Proof.
  intros c H.
  assert (D : is_digit c = false).
  { unfold is_name_start, is_letter, is_digit in *.
    destruct (N.eqb (char_class c) gen_xpc_class_DI) eqn:E; [|reflexivity].
    apply N.eqb_eq in E. rewrite E in H. cbn in H.
    destruct (N.eqb c ch_lowline) eqn:E2; [|discriminate]. apply N.eqb_eq in E2. subst. vm_compute in E. discriminate. }
  repeat split; try assumption;
    match goal with |- N.eqb c ?k = false =>
      destruct (N.eqb c k) eqn:E; [apply N.eqb_eq in E; subst; vm_compute in H; discriminate|reflexivity] end.
Qed.

Lemma ascii_digit_cases : forall c, is_ascii_digit c = true ->
  (c = 48 \/ c = 49 \/ c = 50 \/ c = 51 \/ c = 52 \/ c = 53 \/ c = 54 \/ c = 55 \/ c = 56 \/ c = 57)%N.
Proof.
  intros c H. unfold is_ascii_digit in H. apply andb_prop in H. destruct H as [H1 H2].
  apply N.leb_le in H1. apply N.leb_le in H2. lia.
Qed.
Lemma digit_not : forall c, is_ascii_digit c = true ->
  N.eqb c ch_hyphen = false /\ N.eqb c ch_equals = false /\ N.eqb c ch_rparen = false /\ N.eqb c ch_comma = false /\
  N.eqb c ch_apos = false /\ N.eqb c ch_quote = false /\ N.eqb c ch_dollar = false /\ N.eqb c ch_lparen = false /\
  is_digit c = true /\ forall fl, num_digit fl c = true.
Proof.
  intros c H. pose proof (ascii_digit_cases c H) as K.
  repeat (destruct K as [K|K]; [subst c; repeat split; try reflexivity; intros [f1 f2 f3]; destruct f3; reflexivity|]).
  subst c; repeat split; try reflexivity; intros [f1 f2 f3]; destruct f3; reflexivity.
Qed.
Lemma not_digit_num : forall fl c, is_digit c = false -> num_digit fl c = false.
Proof.
  intros fl c H. unfold num_digit. destruct (fx_digit fl); [|exact H].
  destruct (is_ascii_digit c) eqn:E; [|reflexivity].
  destruct (digit_not c E) as (_ & _ & _ & _ & _ & _ & _ & _ & D & _). congruence.
Qed.

Lemma axis_facts2 : forall fl a, axis_ok a = true -> forall r,
  root_alone (axis_name a :: r) = false /\ N.eqb (tokc (axis_name a :: r)) ch_solidus = false /\
  primary_kind fl (axis_name a :: gen_xpc_kw_axis_sep :: r) = PkPath /\
  N.eqb (tokc (axis_name a :: r)) ch_lbrack = false.
Proof. intros [f1 f2 f3]. destruct f3; destruct a; intros H r; try discriminate; repeat split; reflexivity. Qed.

Lemma pk_root : forall fl r, look_c r ch_lparen 0 = false -> look_c r ch_colon 0 = false ->
  primary_kind fl ([ch_solidus] :: r) = PkPath.
Proof.
  intros [f1 f2 f3] r H1 H2. unfold primary_kind.
  change (look_c ([ch_solidus] :: r) ch_lparen 1) with (look_c r ch_lparen 0).
  change (look_c ([ch_solidus] :: r) ch_colon 1) with (look_c r ch_colon 0).
  rewrite H1, H2. destruct f3; reflexivity.
Qed.

Lemma match_op_optoks : forall o X, N.eqb (tokc X) ch_equals = false ->
  match_op (op_level o) (optoks o ++ X) = Some (o, X).
Proof.
  intros o X H. destruct o; cbn [op_level optoks app match_op]; try reflexivity.
  - (* BLt *) change (tokc ([ch_lt] :: X)) with ch_lt. cbn [tl]. rewrite H. reflexivity.
  - (* BGt *) change (tokc ([ch_gt] :: X)) with ch_gt. cbn [tl]. rewrite H. reflexivity.
Qed.

Fixpoint nops (L : nat) (e : expr) : nat :=
  match e with
  | EOr a _ | EAnd a _ | ENe a _ | EEq a _ | ELte a _ | ELt a _ | EGte a _ | EGt a _
  | EPlus a _ | EMinus a _ | EMult a _ | EDiv a _ | EMod a _ => if Nat.eqb (elvl e) L then S (nops L a) else 0
  | _ => 0
  end.
Lemma nops_mk : forall L o a b, nops L (mk o a b) = if Nat.eqb (op_level o) L then S (nops L a) else 0.
Proof. destruct o; reflexivity. Qed.
Lemma nops_nonbin : forall L e, as_bin e = None -> nops L e = 0.
Proof. destruct e; cbn; intros; try discriminate; reflexivity. Qed.
Lemma elvl_le6 : forall e, elvl e <= 6.
Proof. intros e. unfold elvl. destruct (as_bin e) as [[[o a] b]|]; [apply op_level_pos|lia]. Qed.
Lemma optoks_len : forall o, 1 <= length (optoks o).
Proof. destruct o; cbn; lia. Qed.
