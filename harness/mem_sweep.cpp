// mem_sweep: fault-enumeration oracle for property C19 (pluggable memory manager).
//
// Only public headers of xalan-c / xerces-c are used.  A counting / failing xercesc::MemoryManager
// is handed to XalanTransformer(MemoryManager&) and nothing else; Xerces and Xalan are initialised
// once with the default manager outside the measured region.
//
// Command line
//   mem_sweep [--throw=oom|bad_alloc] [--release] <scenario> <xsl> <xml> count
//   mem_sweep [--throw=oom|bad_alloc] [--release] <scenario> <xsl> <xml> sweep <single|persist> <k-list>
//     scenario : ctor | compile | parse | transform | transform_compiled | fail_message | fail_xpath | two | params
//                (params = transform with number / expression top-level parameters set and never cleared;
//                 lowlevel = XSLTEngineImpl + StylesheetConstructionContextDefault: processStylesheet, destroy(root))
//                (fail_message / fail_xpath run the same code as `transform`; the stylesheet decides)
//     k-list   : comma separated indices and a-b ranges (1-based allocation ordinals), e.g. 1-40,77,500-520
//     --throw  : what allocate() throws on the injected failure; default `oom` =
//                xercesc::OutOfMemoryException, which is what XalanMemoryManagerDefault and Xerces'
//                MemoryManagerImpl throw; `bad_alloc` = std::bad_alloc
//     --release: give freed blocks back to malloc at once (default: quarantine every freed block until
//                exit so that a second free of the same pointer is always recognised; under ASan the
//                quarantined block is poisoned, so a use after free is still reported)
//
// Output, mode count:
//   N=<allocs> outstanding=<n> foreign=<n> double=<n> handler_allocs=<n> status=<rc> nullfree=<n> bytes=<total>
//   HANDLER <sig>                         one per distinct signature of an allocation made while a catch
//                                         handler was active or the stack was being unwound
//   DTOR <sig> first_k=<k> count=<n>      one per distinct path  allocation < ... < innermost destructor frame
//   (N counts every allocation from the construction of the transformer to the end of its destructor.)
//   environment: MEMSWEEP_TRACE=1 prints `ALLOC <k> size=<n> <sig>` for every allocation before the N= line,
//   MEMSWEEP_LEAKS=1 prints `LEAK ordinal=<k> size=<n>` for every outstanding block, MEMSWEEP_STDERR=1 keeps
//   the library's stderr output (warnings, xsl:message) instead of sending it to /dev/null.
// Output, mode sweep: one line per k
//   k=<k> outcome=<clean|swallowed|terminate|signal:<n>|foreign|double|notreached|exit:<n>|asan> via=<status|oom|bad_alloc|
//     xalan-exception|other-exception|none|-> outstanding=<n|-> after=<ok|bad|-> size=<bytes|-> status=<rc|->
//     phase=<call|destroy|after|done> end=<clean|terminate|signal:<n>|...> hsig=<sig;sig;...|-> fsig=<sig|-> sig=<sig|->
//   persist mode: refused=<number of further refusals>, lsig/ldtor = signature / destructor path of the LAST
//   refused allocation (the one that ended the process when end=terminate).
//   `outcome` is foreign/double as soon as one such free was seen (end= tells how the child ended);
//   `swallowed` = the failure was injected but every API call reported success (out=same|diff compares the
//   transformation output with that of the run without injection).
//
// Signature = the 5 innermost symbolised frames above the manager, demangled, template arguments,
// parameter lists, return types and the versioned namespaces stripped, joined by '<'.
#include <xercesc/util/PlatformUtils.hpp>
#include <xercesc/util/OutOfMemoryException.hpp>
#include <xercesc/util/XMLException.hpp>
#include <xercesc/sax/SAXException.hpp>
#include <xercesc/framework/MemoryManager.hpp>
#include <xalanc/Include/PlatformDefinitions.hpp>
#include <xalanc/XalanTransformer/XalanTransformer.hpp>
#include <xalanc/XalanTransformer/XalanCompiledStylesheet.hpp>
#include <xalanc/XalanTransformer/XalanParsedSource.hpp>
#include <xalanc/XSLT/XSLTInputSource.hpp>
#include <xalanc/XSLT/XSLTResultTarget.hpp>
#include <xalanc/PlatformSupport/XSLException.hpp>
#include <xalanc/XalanDOM/XalanDOMException.hpp>
#include <xalanc/XalanSourceTree/XalanSourceTreeDOMSupport.hpp>
#include <xalanc/XalanSourceTree/XalanSourceTreeParserLiaison.hpp>
#include <xalanc/XSLT/XSLTProcessorEnvSupportDefault.hpp>
#include <xalanc/XPath/XObjectFactoryDefault.hpp>
#include <xalanc/XPath/XPathFactoryBlock.hpp>
#include <xalanc/XSLT/XSLTEngineImpl.hpp>
#include <xalanc/XSLT/StylesheetConstructionContextDefault.hpp>
#include <xalanc/XSLT/StylesheetRoot.hpp>

#include <cstdio>
#include <cstdlib>
#include <cstring>
#include <string>
#include <vector>
#include <map>
#include <set>
#include <unordered_map>
#include <unordered_set>
#include <sstream>
#include <iostream>
#include <new>
#include <exception>

#include <execinfo.h>
#include <dlfcn.h>
#include <cxxabi.h>
#include <unistd.h>
#include <fcntl.h>
#include <signal.h>
#include <sys/types.h>
#include <sys/wait.h>
#include <sys/personality.h>

#if defined(__SANITIZE_ADDRESS__)
#include <sanitizer/asan_interface.h>
#define MS_POISON(p, n) ASAN_POISON_MEMORY_REGION((p), (n))
#define MS_UNPOISON(p, n) ASAN_UNPOISON_MEMORY_REGION((p), (n))
#define MS_ASAN 1
#else
#define MS_POISON(p, n) ((void)0)
#define MS_UNPOISON(p, n) ((void)0)
#define MS_ASAN 0
#endif

using xalanc::XalanTransformer;
using xalanc::XalanCompiledStylesheet;
using xalanc::XalanParsedSource;
using xalanc::XSLTInputSource;
using xalanc::XSLTResultTarget;

// ------------------------------------------------------------------------------------------------
// exception-handling state of the current thread (Itanium C++ ABI: __cxa_eh_globals)
struct EhGlobalsMirror { void* caughtExceptions; unsigned int uncaughtExceptions; };

static inline bool handlerActive()
{
    const EhGlobalsMirror* g = reinterpret_cast<const EhGlobalsMirror*>(abi::__cxa_get_globals());
    return g != 0 && g->caughtExceptions != 0;
}
static inline bool unwinding()
{
    return std::uncaught_exception();
}

// ------------------------------------------------------------------------------------------------
// symbolisation
static std::unordered_map<void*, std::string>* g_symCache = 0;

static std::string stripName(const std::string& dem)
{
    std::string s = dem;
    // anonymous namespace
    for (;;) {
        std::string::size_type p = s.find("(anonymous namespace)");
        if (p == std::string::npos) break;
        s.replace(p, 21, "anon");
    }
    // 1. remove template argument lists (operator<, operator<<, operator>, operator->, operator<= ... kept)
    std::string t;
    int depth = 0;
    for (std::string::size_type i = 0; i < s.size(); ++i) {
        const char c = s[i];
        if (c == '<') {
            bool isOp = false;
            if (depth == 0) {
                const std::string::size_type n = t.size();
                if ((n >= 8 && t.compare(n - 8, 8, "operator") == 0) ||
                    (n >= 9 && t.compare(n - 9, 9, "operator<") == 0))
                    isOp = true;
            }
            if (isOp) t += c; else ++depth;
        }
        else if (c == '>') {
            if (depth > 0) {
                // "->" inside template args does not occur in practice; "operator>" handled below
                --depth;
            }
            else t += c;
        }
        else if (depth == 0) t += c;
    }
    s.swap(t);
    // 2. cut the parameter list: first '(' that is not the "()" of operator()
    {
        std::string::size_type i = 0;
        for (; i < s.size(); ++i) {
            if (s[i] == '(') {
                if (i >= 8 && s.compare(i - 8, 8, "operator") == 0) { ++i; continue; }
                break;
            }
        }
        s.erase(i);
    }
    while (!s.empty() && s[s.size() - 1] == ' ') s.erase(s.size() - 1);
    // 3. return type: keep what follows the last blank, unless it belongs to "operator xyz"
    {
        std::string::size_type op = s.find("operator");
        std::string::size_type lim = (op == std::string::npos) ? s.size() : op;
        std::string::size_type sp = s.rfind(' ', lim);
        if (sp != std::string::npos && sp < lim) s.erase(0, sp + 1);
    }
    // 4. versioned namespaces
    {
        std::string out;
        std::string::size_type i = 0;
        while (i < s.size()) {
            bool done = false;
            const char* const pre[2] = { "xalanc_", "xercesc_" };
            for (int w = 0; w < 2 && !done; ++w) {
                const std::string::size_type L = std::strlen(pre[w]);
                if (s.compare(i, L, pre[w]) == 0 && (i == 0 || !(isalnum((unsigned char)s[i - 1]) || s[i - 1] == '_'))) {
                    std::string::size_type j = i + L;
                    while (j < s.size() && (isdigit((unsigned char)s[j]) || s[j] == '_')) ++j;
                    if (s.compare(j, 2, "::") == 0) {
                        if (w == 1) out += "xercesc::";
                        i = j + 2;
                        done = true;
                    }
                }
            }
            if (!done) out += s[i++];
        }
        s.swap(out);
    }
    for (std::string::size_type i = 0; i < s.size(); ++i)
        if (s[i] == ' ' || s[i] == '\t' || s[i] == ';' || s[i] == '=') s[i] = '_';
    return s;
}

static const std::string& symbolOf(void* addr)
{
    if (g_symCache == 0) g_symCache = new std::unordered_map<void*, std::string>();
    std::unordered_map<void*, std::string>::iterator it = g_symCache->find(addr);
    if (it != g_symCache->end()) return it->second;
    std::string name;
    Dl_info info;
    // addr is a return address: look up addr-1 so that a call in the last instruction of a function
    // is not attributed to the next symbol
    if (dladdr(static_cast<char*>(addr) - 1, &info) != 0 && info.dli_sname != 0) {
        int st = 0;
        char* d = abi::__cxa_demangle(info.dli_sname, 0, 0, &st);
        name = stripName(st == 0 && d != 0 ? std::string(d) : std::string(info.dli_sname));
        std::free(d);
    }
    return (*g_symCache)[addr] = name;
}

enum { MAXFRAMES = 40, SIGFRAMES = 5, DTORWINDOW = 12 };

// frames above the manager: names of the symbolised ones, innermost first
static void stackNames(void* retAddr, std::vector<std::string>& names, unsigned limit)
{
    void* buf[MAXFRAMES];
    const int n = backtrace(buf, MAXFRAMES);
    int start = 0;
    for (int i = 0; i < n; ++i) if (buf[i] == retAddr) { start = i; break; }
    names.clear();
    for (int i = start; i < n && names.size() < limit; ++i) {
        const std::string& s = symbolOf(buf[i]);
        if (s.compare(0, 12, "__libc_start") == 0 || s == "_start" || s == "main") break;   // left the libraries
        if (!s.empty()) names.push_back(s);
    }
}

static std::string joinNames(const std::vector<std::string>& names, std::string::size_type count)
{
    std::string r;
    for (std::string::size_type i = 0; i < names.size() && i < count; ++i) {
        if (i) r += '<';
        r += names[i];
    }
    return r.empty() ? std::string("?") : r;
}

// ------------------------------------------------------------------------------------------------
// the manager
static int g_reportFd = -1;          // child -> parent pipe (sweep mode)

static void report(const std::string& line)
{
    if (g_reportFd < 0) return;
    std::string l = line + "\n";
    const char* p = l.data();
    size_t left = l.size();
    while (left > 0) {
        ssize_t w = ::write(g_reportFd, p, left);
        if (w <= 0) break;
        p += w; left -= size_t(w);
    }
}

enum ThrowKind { THROW_OOM, THROW_BAD_ALLOC };
enum InjectMode { INJ_NONE, INJ_SINGLE, INJ_PERSIST };

class CountingMM : public xercesc::MemoryManager
{
public:
    struct Block { size_t size; unsigned long ordinal; };
    struct DtorSite { unsigned long firstK; unsigned long count; };

    CountingMM() :
        m_count(0), m_bytes(0), m_foreign(0), m_double(0), m_nullFree(0), m_handlerAllocs(0),
        m_mode(INJ_NONE), m_failAt(0), m_refused(0), m_armed(false), m_fired(false), m_failing(false),
        m_throwKind(THROW_OOM), m_release(false), m_trace(false), m_log(0)
    {}

    virtual ~CountingMM() {}

    virtual void* allocate(XMLSize_t size)
    {
        void* const ret = __builtin_return_address(0);
        ++m_count;
        const bool inHandler = handlerActive();
        const bool inUnwind = unwinding();
        if (inHandler || inUnwind) {
            ++m_handlerAllocs;
            if (m_trace || m_fired) {
                std::vector<std::string> names;
                stackNames(ret, names, SIGFRAMES);
                m_handlerSigs.insert(std::string(inUnwind ? "unwind:" : "catch:") + joinNames(names, SIGFRAMES));
            }
        }
        if (m_trace) {
            std::vector<std::string> names;
            stackNames(ret, names, DTORWINDOW);
            if (m_log != 0) {
                std::ostringstream os;
                os << "ALLOC " << m_count << " size=" << size << " " << joinNames(names, SIGFRAMES);
                m_log->push_back(os.str());
            }
            for (std::string::size_type i = 0; i < names.size(); ++i) {
                if (names[i].find("::~") != std::string::npos) {
                    const std::string path = joinNames(names, i + 1);
                    std::map<std::string, DtorSite>::iterator it = m_dtorSites.find(path);
                    if (it == m_dtorSites.end()) { DtorSite d = { m_count, 1 }; m_dtorSites[path] = d; }
                    else ++it->second.count;
                    break;
                }
            }
        }
        if (m_armed) {
            bool fail = false;
            if (!m_fired && m_count == m_failAt) {
                m_fired = true;
                fail = true;
                if (m_mode == INJ_PERSIST) m_failing = true;
                std::vector<std::string> names;
                stackNames(ret, names, DTORWINDOW);
                std::ostringstream os;
                os << "size=" << size << "\nsig=" << joinNames(names, SIGFRAMES)
                   << "\nctx=" << (inUnwind ? "unwind" : (inHandler ? "catch" : "normal"));
                std::string dt = "-";
                for (std::string::size_type i = 0; i < names.size(); ++i)
                    if (names[i].find("::~") != std::string::npos) { dt = joinNames(names, i + 1); break; }
                os << "\ndtor=" << dt << "\nfired=1";
                report(os.str());
            }
            else if (m_failing) {
                fail = true;
                // persist mode: remember the most recent refused allocation (the one that kills, if any)
                std::vector<std::string> names;
                stackNames(ret, names, DTORWINDOW);
                std::string dt = "-";
                for (std::string::size_type i = 0; i < names.size(); ++i)
                    if (names[i].find("::~") != std::string::npos) { dt = joinNames(names, i + 1); break; }
                ++m_refused;
                std::ostringstream os;
                os << "lsig=" << joinNames(names, SIGFRAMES) << "\nldtor=" << dt << "\nrefused=" << m_refused;
                report(os.str());
            }
            if (fail) {
                if (m_throwKind == THROW_BAD_ALLOC) throw std::bad_alloc();
                throw xercesc::OutOfMemoryException();
            }
        }
        void* p = std::malloc(size == 0 ? 1 : size);
        if (p == 0) { report("harness=malloc-failed"); _exit(72); }
        m_freed.erase(p);
        Block b = { size_t(size), m_count };
        m_live[p] = b;
        m_bytes += size;
        return p;
    }

    virtual void deallocate(void* p)
    {
        if (p == 0) { ++m_nullFree; return; }
        std::unordered_map<void*, Block>::iterator it = m_live.find(p);
        if (it == m_live.end()) {
            void* const ret = __builtin_return_address(0);
            std::vector<std::string> names;
            stackNames(ret, names, SIGFRAMES);
            const bool dbl = m_freed.find(p) != m_freed.end();
            if (dbl) { if (m_double++ == 0) report("double=1\nfsig=" + joinNames(names, SIGFRAMES)); }
            else { if (m_foreign++ == 0) report("foreign=1\nfsig=" + joinNames(names, SIGFRAMES)); }
            if (m_firstBadFree.empty()) m_firstBadFree = joinNames(names, SIGFRAMES);
            return;                       // never pass it on to free()
        }
        const size_t sz = it->second.size;
        m_live.erase(it);
        if (m_release) std::free(p);
        else {
            m_freed.insert(p);
            // a quarantined block is never handed out again: any byte that changes afterwards is a write after release
            m_freedSize[p] = sz;
            if (sz != 0) std::memset(p, 0xDD, sz);
            MS_POISON(p, sz == 0 ? 1 : sz);
        }
        (void)sz;
    }

    virtual xercesc::MemoryManager* getExceptionMemoryManager() { return this; }

    // number of quarantined blocks written to after they were released (not under ASan: the poisoned block reports itself)
    unsigned long modifiedAfterRelease() const
    {
        unsigned long n = 0;
#if !MS_ASAN
        for (std::unordered_map<void*, size_t>::const_iterator i = m_freedSize.begin(); i != m_freedSize.end(); ++i) {
            const unsigned char* b = static_cast<const unsigned char*>(i->first);
            for (size_t k = 0; k < i->second; ++k) if (b[k] != 0xDD) { ++n; break; }
        }
#endif
        return n;
    }

    // --- control
    void arm(InjectMode mode, unsigned long k) { m_mode = mode; m_failAt = k; m_armed = true; m_fired = false; m_failing = false; }
    void disarm() { m_armed = false; m_failing = false; }
    void apiCallEnded() { m_failing = false; }          // persist mode: failures stop when the API call is over
    bool fired() const { return m_fired; }

    unsigned long   m_count;
    unsigned long   m_bytes;
    unsigned long   m_foreign, m_double, m_nullFree, m_handlerAllocs;
    InjectMode      m_mode;
    unsigned long   m_failAt;
    unsigned long   m_refused;              // persist mode: refusals after the first
    bool            m_armed, m_fired, m_failing;
    ThrowKind       m_throwKind;
    bool            m_release;
    bool            m_trace;                // count mode: symbolise every allocation
    std::vector<std::string>*   m_log;      // count mode with MEMSWEEP_TRACE=1: one line per allocation
    std::unordered_map<void*, Block>    m_live;
    std::unordered_set<void*>           m_freed;
    std::unordered_map<void*, size_t>   m_freedSize;
    std::set<std::string>               m_handlerSigs;
    std::map<std::string, DtorSite>     m_dtorSites;
    std::string                         m_firstBadFree;
};

struct ApiCall                      // marks the extent of one top-level API call
{
    explicit ApiCall(CountingMM& m) : mm(m) {}
    ~ApiCall() { mm.apiCallEnded(); }
    CountingMM& mm;
};

// ------------------------------------------------------------------------------------------------
// scenarios
enum Scenario { SC_CTOR, SC_COMPILE, SC_PARSE, SC_TRANSFORM, SC_TRANSFORM_COMPILED, SC_TWO, SC_PARAMS, SC_LOWLEVEL };

struct RunResult
{
    int         status;     // API return code of the last call made (0 = success)
    std::string via;        // none | status | oom | bad_alloc | xalan-exception | other-exception
    std::string output;
};

static const char* g_xsl = 0;
static const char* g_xml = 0;
static std::string g_refOutput;       // output of the warm-up run (no injection)
static int         g_refStatus = 0;

// the API calls of a scenario on an existing transformer; returns the first non-zero status
static int scenarioCalls(Scenario sc, XalanTransformer& xf, CountingMM& mm, std::string& out)
{
    int rc = 0;
    switch (sc) {
    case SC_CTOR:
        break;
    case SC_COMPILE: {
        const XalanCompiledStylesheet* cs = 0;
        XSLTInputSource xsl(g_xsl);
        { ApiCall a(mm); rc = xf.compileStylesheet(xsl, cs); }
        if (rc == 0) { ApiCall a(mm); rc = xf.destroyStylesheet(cs); }
        break; }
    case SC_PARSE: {
        const XalanParsedSource* ps = 0;
        XSLTInputSource xml(g_xml);
        { ApiCall a(mm); rc = xf.parseSource(xml, ps); }
        if (rc == 0) { ApiCall a(mm); rc = xf.destroyParsedSource(ps); }
        break; }
    case SC_LOWLEVEL: {
        // the engine-level API the transformer itself is built on: a stylesheet root created by a construction context
        // and given back through StylesheetConstructionContext::destroy(), a second one left to the context's destructor
        xalanc::XalanSourceTreeDOMSupport       dom;
        xalanc::XalanSourceTreeParserLiaison    liaison(dom, mm);
        dom.setParserLiaison(&liaison);
        xalanc::XSLTProcessorEnvSupportDefault  env(mm);
        xalanc::XObjectFactoryDefault           xof(mm);
        xalanc::XPathFactoryBlock               xpf(mm);
        xalanc::XSLTEngineImpl                  proc(mm, liaison, env, dom, xof, xpf);
        xalanc::XPathFactoryBlock               sxpf(mm);
        xalanc::StylesheetConstructionContextDefault    cc(mm, proc, sxpf);
        XSLTInputSource xsl(g_xsl);
        xalanc::StylesheetRoot* root = 0;
        { ApiCall a(mm); root = proc.processStylesheet(xsl, cc); }
        if (root == 0) { rc = 1; break; }
        { ApiCall a(mm); cc.destroy(root); }
        XSLTInputSource xsl2(g_xsl);
        { ApiCall a(mm); if (proc.processStylesheet(xsl2, cc) == 0) rc = 1; }
        break; }
    case SC_PARAMS:
        // top-level parameters held as XObjects (number) and as expressions, NOT cleared before the transformer
        // is destroyed: the holders refer into the transformer's own XObject factory
        { ApiCall a(mm); xf.setStylesheetParam(xalanc::XalanDOMString("pnum", mm), 42.5); }
        { ApiCall a(mm); xf.setStylesheetParam(xalanc::XalanDOMString("pexpr", mm), xalanc::XalanDOMString("'text'", mm)); }
        { ApiCall a(mm); xf.setStylesheetParam(xalanc::XalanDOMString("pnum2", mm), -1.0); }
        // fall through
    case SC_TRANSFORM:
    case SC_TWO: {
        const int rounds = sc == SC_TWO ? 2 : 1;
        for (int r = 0; r < rounds && rc == 0; ++r) {
            std::ostringstream os;
            XSLTInputSource xml(g_xml);
            XSLTInputSource xsl(g_xsl);
            XSLTResultTarget tgt(os);
            { ApiCall a(mm); rc = xf.transform(xml, xsl, tgt); }
            out += os.str();
        }
        break; }
    case SC_TRANSFORM_COMPILED: {
        const XalanCompiledStylesheet* cs = 0;
        const XalanParsedSource* ps = 0;
        XSLTInputSource xsl(g_xsl);
        XSLTInputSource xml(g_xml);
        { ApiCall a(mm); rc = xf.compileStylesheet(xsl, cs); }
        if (rc != 0) break;
        { ApiCall a(mm); rc = xf.parseSource(xml, ps); }
        if (rc != 0) break;
        {
            std::ostringstream os;
            XSLTResultTarget tgt(os);
            { ApiCall a(mm); rc = xf.transform(*ps, cs, tgt); }
            out += os.str();
        }
        if (rc != 0) break;
        { ApiCall a(mm); rc = xf.destroyParsedSource(ps); }
        if (rc != 0) break;
        { ApiCall a(mm); rc = xf.destroyStylesheet(cs); }
        break; }
    }
    return rc;
}

// Whole scenario: construct, calls, destroy.  Exceptions are caught here ("top level").
// phase markers are reported to the parent so that an abnormal end can be located.
static RunResult runScenario(Scenario sc, CountingMM& mm)
{
    RunResult r; r.status = 0; r.via = "none";
    XalanTransformer* xf = 0;
    report("phase=call");
    try {
        { ApiCall a(mm); xf = new XalanTransformer(mm); }
        r.status = scenarioCalls(sc, *xf, mm, r.output);
        if (r.status != 0) r.via = "status";
    }
    catch (const xercesc::OutOfMemoryException&) { r.via = "oom"; r.status = -1000; }
    catch (const std::bad_alloc&) { r.via = "bad_alloc"; r.status = -1001; }
    catch (const xalanc::XSLException&) { r.via = "xalan-exception"; r.status = -1002; }
    catch (const xalanc::XalanDOMException&) { r.via = "xalan-exception"; r.status = -1002; }
    catch (const xercesc::XMLException&) { r.via = "other-exception"; r.status = -1003; }
    catch (const xercesc::SAXException&) { r.via = "other-exception"; r.status = -1003; }
    catch (const std::exception&) { r.via = "other-exception"; r.status = -1003; }
    catch (...) { r.via = "other-exception"; r.status = -1003; }
    report("phase=destroy");
    if (xf != 0) {
        // ~XalanTransformer is an API call too: an injected failure may land in it
        try { ApiCall a(mm); delete xf; }
        catch (const xercesc::OutOfMemoryException&) { r.via = "oom"; r.status = -1000; }
        catch (const std::bad_alloc&) { r.via = "bad_alloc"; r.status = -1001; }
        catch (...) { r.via = "other-exception"; r.status = -1003; }
    }
    return r;
}

// tiny transformation on a NEW transformer on the same manager, in-memory input
static bool tinyTransformOk(xercesc::MemoryManager& mm)
{
    static const char* const xslText =
        "<xsl:stylesheet version='1.0' xmlns:xsl='http://www.w3.org/1999/XSL/Transform'>"
        "<xsl:output method='xml' omit-xml-declaration='yes'/>"
        "<xsl:key name='k' match='a' use='@i'/>"
        "<xsl:template match='/'><out n='{count(//a)}'><xsl:for-each select='r/a'><xsl:sort select='@i' order='descending'/>"
        "<xsl:value-of select='concat(@i,key(\"k\",@i)/@v)'/></xsl:for-each></out></xsl:template></xsl:stylesheet>";
    static const char* const xmlText = "<r><a i='1' v='x'/><a i='2' v='y'/></r>";
    try {
        XalanTransformer xf(mm);
        std::istringstream xs(xslText), ds(xmlText);
        std::ostringstream os;
        XSLTInputSource xsl(&xs), xml(&ds);
        XSLTResultTarget tgt(os);
        const int rc = xf.transform(xml, xsl, tgt);
        if (rc != 0) return false;
        return os.str().find("<out n=\"2\">2y1x</out>") != std::string::npos;
    }
    catch (...) { return false; }
}

// ------------------------------------------------------------------------------------------------
static void onTerminate()
{
    report("terminate=1");
    _exit(70);
}

static bool parseScenario(const char* s, Scenario& sc)
{
    const std::string n(s);
    if (n == "ctor") sc = SC_CTOR;
    else if (n == "compile") sc = SC_COMPILE;
    else if (n == "parse") sc = SC_PARSE;
    else if (n == "transform" || n == "fail_message" || n == "fail_xpath") sc = SC_TRANSFORM;
    else if (n == "transform_compiled") sc = SC_TRANSFORM_COMPILED;
    else if (n == "two") sc = SC_TWO;
    else if (n == "params") sc = SC_PARAMS;
    else if (n == "lowlevel") sc = SC_LOWLEVEL;
    else return false;
    return true;
}

static bool parseKs(const char* s, std::vector<unsigned long>& ks)
{
    const char* p = s;
    while (*p) {
        char* e = 0;
        unsigned long a = std::strtoul(p, &e, 10);
        if (e == p) return false;
        unsigned long b = a;
        p = e;
        if (*p == '-') { ++p; b = std::strtoul(p, &e, 10); if (e == p) return false; p = e; }
        for (unsigned long k = a; k <= b; ++k) ks.push_back(k);
        if (*p == ',') ++p; else if (*p) return false;
    }
    return true;
}

static void childMain(Scenario sc, InjectMode mode, unsigned long k, ThrowKind tk, bool release, int fd) __attribute__((noreturn));
static void childMain(Scenario sc, InjectMode mode, unsigned long k, ThrowKind tk, bool release, int fd)
{
    g_reportFd = fd;
    std::set_terminate(onTerminate);
    alarm(60);
    CountingMM mm;
    mm.m_throwKind = tk;
    mm.m_release = release;
    mm.arm(mode, k);
    RunResult r = runScenario(sc, mm);
    mm.disarm();
    {
        std::ostringstream os;
        os << "via=" << r.via << "\nstatus=" << r.status << "\noutstanding=" << mm.m_live.size()
           << "\nN=" << mm.m_count << "\nout=" << (r.status != g_refStatus ? "-" : (r.output == g_refOutput ? "same" : "diff"));
        report(os.str());
    }
    report("phase=after");
    const bool ok = tinyTransformOk(mm);
    report(std::string("after=") + (ok ? "ok" : "bad"));
    {
        std::string h;
        for (std::set<std::string>::const_iterator i = mm.m_handlerSigs.begin(); i != mm.m_handlerSigs.end(); ++i) {
            if (!h.empty()) h += ';';
            h += *i;
        }
        report("hsig=" + (h.empty() ? std::string("-") : h));
    }
    report("phase=done");
    _exit(0);
}

static std::string get(const std::map<std::string, std::string>& m, const char* k, const char* dflt = "-")
{
    std::map<std::string, std::string>::const_iterator i = m.find(k);
    return i == m.end() ? std::string(dflt) : i->second;
}

int main(int argc, char** argv)
{
    // Some XalanMaps are keyed by object addresses, so the number of allocations of a scenario can vary by
    // one or two with the address-space layout: re-exec once with randomisation switched off.
    if (std::getenv("MEMSWEEP_ASLR") == 0 && !MS_ASAN) {
        const int cur = ::personality(0xffffffff);
        if (cur != -1 && (cur & ADDR_NO_RANDOMIZE) == 0 && ::personality(cur | ADDR_NO_RANDOMIZE) != -1) {
            ::setenv("MEMSWEEP_ASLR", "off", 1);
            ::execv("/proc/self/exe", argv);
        }
    }
    ThrowKind tk = THROW_OOM;
    bool release = false;
    int ai = 1;
    while (ai < argc && std::strncmp(argv[ai], "--", 2) == 0) {
        const std::string o(argv[ai]);
        if (o == "--throw=oom") tk = THROW_OOM;
        else if (o == "--throw=bad_alloc") tk = THROW_BAD_ALLOC;
        else if (o == "--release") release = true;
        else { std::fprintf(stderr, "unknown option %s\n", argv[ai]); return 2; }
        ++ai;
    }
    if (argc - ai < 4) {
        std::fprintf(stderr, "usage: mem_sweep [--throw=oom|bad_alloc] [--release] <scenario> <xsl> <xml> count | sweep <single|persist> <k-list>\n");
        return 2;
    }
    Scenario sc;
    if (!parseScenario(argv[ai], sc)) { std::fprintf(stderr, "unknown scenario %s\n", argv[ai]); return 2; }
    g_xsl = argv[ai + 1];
    g_xml = argv[ai + 2];
    const std::string what(argv[ai + 3]);

    if (std::getenv("MEMSWEEP_STDERR") == 0) {       // xsl:message and warnings go to std::cerr by default
        int nul = ::open("/dev/null", O_WRONLY);
        if (nul >= 0) { ::dup2(nul, 2); ::close(nul); }
    }

    xercesc::XMLPlatformUtils::Initialize();
    XalanTransformer::initialize();

    // warm-up: one-time lazy initialisation inside the libraries, the unwinder and the symbol cache
    {
        CountingMM warm;
        warm.m_trace = true;
        RunResult w = runScenario(sc, warm);
        g_refOutput = w.output;
        g_refStatus = w.status;
        tinyTransformOk(warm);
    }

    if (what == "count") {
        CountingMM mm;
        mm.m_release = release;
        mm.m_trace = true;
        std::vector<std::string> allocLog;
        if (std::getenv("MEMSWEEP_TRACE") != 0) mm.m_log = &allocLog;
        RunResult r = runScenario(sc, mm);
        mm.m_log = 0;
        for (std::vector<std::string>::const_iterator i = allocLog.begin(); i != allocLog.end(); ++i)
            std::printf("%s\n", i->c_str());
        std::printf("N=%lu outstanding=%lu foreign=%lu double=%lu handler_allocs=%lu status=%d nullfree=%lu bytes=%lu via=%s outlen=%lu written_after_release=%lu\n",
                    mm.m_count, (unsigned long)mm.m_live.size(), mm.m_foreign, mm.m_double, mm.m_handlerAllocs,
                    r.status, mm.m_nullFree, mm.m_bytes, r.via.c_str(), (unsigned long)r.output.size(), mm.modifiedAfterRelease());
        for (std::set<std::string>::const_iterator i = mm.m_handlerSigs.begin(); i != mm.m_handlerSigs.end(); ++i)
            std::printf("HANDLER %s\n", i->c_str());
        for (std::map<std::string, CountingMM::DtorSite>::const_iterator i = mm.m_dtorSites.begin(); i != mm.m_dtorSites.end(); ++i)
            std::printf("DTOR %s first_k=%lu count=%lu\n", i->first.c_str(), i->second.firstK, i->second.count);
        if (!mm.m_firstBadFree.empty()) std::printf("BADFREE %s\n", mm.m_firstBadFree.c_str());
        if (std::getenv("MEMSWEEP_LEAKS") != 0) {
            for (std::unordered_map<void*, CountingMM::Block>::const_iterator i = mm.m_live.begin(); i != mm.m_live.end(); ++i)
                std::printf("LEAK ordinal=%lu size=%lu\n", i->second.ordinal, (unsigned long)i->second.size);
        }
        std::fflush(stdout);
        _exit(0);
    }
    if (what != "sweep" || argc - ai < 6) { std::fprintf(stderr, "bad mode\n"); return 2; }
    InjectMode mode;
    if (std::strcmp(argv[ai + 4], "single") == 0) mode = INJ_SINGLE;
    else if (std::strcmp(argv[ai + 4], "persist") == 0) mode = INJ_PERSIST;
    else { std::fprintf(stderr, "bad injection mode\n"); return 2; }
    std::vector<unsigned long> ks;
    if (!parseKs(argv[ai + 5], ks)) { std::fprintf(stderr, "bad k-list\n"); return 2; }

    for (std::vector<unsigned long>::const_iterator ki = ks.begin(); ki != ks.end(); ++ki) {
        int fds[2];
        if (::pipe(fds) != 0) { std::perror("pipe"); return 3; }
        std::fflush(stdout);
        const pid_t pid = ::fork();
        if (pid < 0) { std::perror("fork"); return 3; }
        if (pid == 0) {
            ::close(fds[0]);
            childMain(sc, mode, *ki, tk, release, fds[1]);
        }
        ::close(fds[1]);
        std::string text;
        char buf[4096];
        for (;;) {
            ssize_t n = ::read(fds[0], buf, sizeof buf);
            if (n <= 0) break;
            text.append(buf, size_t(n));
        }
        ::close(fds[0]);
        int st = 0;
        ::waitpid(pid, &st, 0);
        std::map<std::string, std::string> kv;
        {
            std::istringstream is(text);
            std::string line;
            while (std::getline(is, line)) {
                std::string::size_type eq = line.find('=');
                if (eq == std::string::npos) continue;
                const std::string key = line.substr(0, eq);
                if ((key == "fsig") && kv.count(key)) continue;       // keep the first
                kv[key] = line.substr(eq + 1);
            }
        }
        std::string end;
        if (WIFSIGNALED(st)) { std::ostringstream os; os << "signal:" << WTERMSIG(st); end = os.str(); }
        else if (WIFEXITED(st) && WEXITSTATUS(st) == 70 && kv.count("terminate")) end = "terminate";
        else if (WIFEXITED(st) && WEXITSTATUS(st) == 0 && get(kv, "phase") == "done") end = "clean";
        else if (WIFEXITED(st) && WEXITSTATUS(st) == 99) end = "asan";
        else { std::ostringstream os; os << "exit:" << (WIFEXITED(st) ? WEXITSTATUS(st) : -1); end = os.str(); }
        std::string outcome = end;
        const bool fired = kv.count("fired") != 0;
        if (kv.count("foreign")) outcome = "foreign";
        else if (kv.count("double")) outcome = "double";
        else if (end == "clean" && !fired) outcome = "notreached";
        else if (end == "clean" && get(kv, "via") == "none") outcome = "swallowed";   // failure injected, API reported success
        std::string phase = get(kv, "phase");
        std::printf("k=%lu outcome=%s via=%s outstanding=%s after=%s size=%s status=%s phase=%s end=%s ctx=%s N=%s out=%s refused=%s dtor=%s ldtor=%s lsig=%s hsig=%s fsig=%s sig=%s\n",
                    *ki, outcome.c_str(), get(kv, "via").c_str(), get(kv, "outstanding").c_str(), get(kv, "after").c_str(),
                    get(kv, "size").c_str(), get(kv, "status").c_str(), phase.c_str(), end.c_str(), get(kv, "ctx").c_str(),
                    get(kv, "N").c_str(), get(kv, "out").c_str(), get(kv, "refused", "0").c_str(), get(kv, "dtor").c_str(), get(kv, "ldtor").c_str(), get(kv, "lsig").c_str(), get(kv, "hsig").c_str(), get(kv, "fsig").c_str(), get(kv, "sig").c_str());
    }
    std::fflush(stdout);
    _exit(0);
}
