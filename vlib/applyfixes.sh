#!/bin/sh
# usage: vlib/applyfixes.sh <ID> <name1> <name2> ...   (files /verif/fixes/<ID>/<name>.diff and .msg, applied in that order)
# applies and commits each patch in /repo as its own "fix:" commit; prints "<name> <hash>" lines
set -e
ID=$1; shift
cd /repo
for n in "$@"; do
  git apply /verif/fixes/$ID/$n.diff
  git add -A src
  head -1 /verif/fixes/$ID/$n.msg | grep -q '^fix: ' || { echo "message of $n does not start with fix:"; exit 1; }
  git commit -q -F /verif/fixes/$ID/$n.msg
  echo "$n $(git log --format=%h -1)"
done
