"""C02 (part "compiler", family xpc) - facts of the XPath tokenizer / expression compiler consumed by B1's Coq model
(GenXpc.v).  Regenerated from /repo on every run; fail closed (AnchorError, never a default).

  XPathProcessorImpl.hpp    enum { eMaximumNestingDepth = N }; the guard `++m_nestingDepth > eMaximumNestingDepth`
                            is in Expr() (and in every other place that counts: all of them have this shape)
  XalanXMLChar.hpp/.cpp     enum eType (explicit values, XML_XX = 0), theUnicodeTable (65536 entries) as maximal runs;
                            isDigit / isWhitespace test XML_DI / XML_WS; isXMLWhitespace(XalanDOMChar) is isWhitespace
  XPathProcessorImpl::tokenize   the whole function body is compared (normalised text) with the text the model was
                            written from; the only free parts are the case labels of the white-space group and of the
                            single-character-token group, which are emitted.  Groups, in order: quote, apostrophe,
                            white space (4 labels), '-' (break inside a name, else falls through), delimiters, ':'
                            (falls through), default.  The three look-around guards are also matched one by one so
                            that the message names the guard that was edited.
  repairs under development (each site: exactly one of the two shapes, anything else AnchorError)
      gen_xpc_fix_name_chars   NodeTest() (whole body matched): `else if (XalanQName::isValidNCName(m_token) == false) error`
                               between the isNodeTest test and the final else pushing the token
      gen_xpc_fix_dot_token    tokenize() default case: a leading branch making '.' / '..' not followed by a digit tokens
      gen_xpc_fix_ascii_digit  the digit predicate of tokenize() and PrimaryExpr(): XalanXMLChar::isDigit at all sites, or the
                               file-static isNumberDigit ('0'..'9', body matched, defined before tokenize()) at all sites
  s_orString ... s_axisString   code units, and the place each is used by the parser
  XPathExpression::eOpCodes every enumerator has an explicit value (the trailing eOpCodeNextAvailable excepted)
  s_axisTable / s_nodeTypeTable / s_functionTable   rows, strictly ascending in the order of compare() = doCompare()
                            (shorter first, then by code unit; read from DOMStringHelper.cpp) -> no duplicates;
                            searchTable is the binary search over compare(c_str, m_string); getAxisToken /
                            getNodeTypeToken / getFunctionToken / isValidFunction search the table of their name
  XPathFunctionTable::s_functionNames   rows {name, XFTBL_SIZE(name)}, strictly ascending; getFunctionIndex is the
                            binary search with lengths; isInstalledFunction is getFunctionIndex(...) != Invalid
  XPathProcessorImpl::FunctionCall   funcTok = getFunctionToken(m_token); switch: the eNODETYPE_* group (the op codes
                            of s_nodeTypeTable) goes to LocationPath(); every other case calls one FunctionXxx whose
                            body appends the op code of the label and tests argCount (K,K) or (0,1)."""
import re
import srcfacts
from srcfacts import AnchorError, need, read, strip_comments, function_body, HEADER

PI_CPP = "XPath/XPathProcessorImpl.cpp"
PI_HPP = "XPath/XPathProcessorImpl.hpp"


def _squeeze(s):
    s = re.sub(r"\s+", " ", s).strip()
    return re.sub(r"(?<![A-Za-z0-9_]) | (?![A-Za-z0-9_])", "", s)


def _norm(s):
    return _squeeze(strip_comments(s))


def _lit(snippet):
    return re.escape(_squeeze(snippet))


def _unicode_table():
    txt = strip_comments(read("PlatformSupport/XalanUnicode.hpp"))
    tbl = {}
    for m in re.finditer(r"\b(char\w+)\s*=\s*(0x[0-9A-Fa-f]+|\d+)\s*;", txt):
        if m.group(1) in tbl and tbl[m.group(1)] != int(m.group(2), 0):
            raise AnchorError("XalanUnicode.hpp: %s defined twice with different values" % m.group(1))
        tbl[m.group(1)] = int(m.group(2), 0)
    if len(tbl) < 100:
        raise AnchorError("XalanUnicode.hpp: character constants not found")
    return tbl


def _char(tbl, name, what):
    m = re.fullmatch(r"XalanUnicode::(char\w+)", name)
    if m and m.group(1) in tbl:
        return tbl[m.group(1)]
    if re.fullmatch(r"0x[0-9A-Fa-f]+|\d+", name):
        return int(name, 0)
    raise AnchorError("%s: unrecognised character constant %r" % (what, name))


def _string_arrays(text, cls, tbl):
    """const XalanDOMChar <cls>::<name>[] = { c, c, ..., 0 };  ->  {name: [code units]}"""
    out = {}
    for m in re.finditer(r"const\s+XalanDOMChar\s+%s::(\w+)\s*\[\s*\]\s*=\s*\{([^{}]*)\}\s*;" % cls, text):
        name = m.group(1)
        what = "%s::%s" % (cls, name)
        items = [x.strip() for x in m.group(2).split(",")]
        if items and items[-1] == "":
            items.pop()
        units = [_char(tbl, x, what) for x in items]
        if not units or units[-1] != 0 or 0 in units[:-1]:
            raise AnchorError(what + " is not a 0-terminated array without embedded 0")
        if name in out:
            raise AnchorError(what + " is defined twice")
        out[name] = units[:-1]
    return out


def _order_key(units):
    # doCompare (checked in _check_compare): shorter < longer; same length: first differing code unit decides
    return (len(units), tuple(units))


def _check_sorted(rows, what):
    for a, b in zip(rows, rows[1:]):
        if not _order_key(a) < _order_key(b):
            raise AnchorError("%s is not strictly ascending w.r.t. compare(): %r then %r (the binary search would miss rows / duplicate name)"
                              % (what, "".join(map(chr, a)), "".join(map(chr, b))))


def _check_compare():
    t = strip_comments(read("PlatformSupport/DOMStringHelper.cpp"))
    body = _squeeze(function_body(t, r"\bdoCompare\s*\(\s*const\s+Type\s*\*\s*theLHS\s*,[^)]*\)\s*\{", "doCompare"))
    exp = _squeeze("""{ if (theLHSLength < theRHSLength) { return -1; } else if (theRHSLength < theLHSLength) { return 1; }
        else { Type theLHSChar = Type(0); Type theRHSChar = Type(0);
        for(SizeType i = 0; i < theLHSLength; i++) { theLHSChar = theTransformFunction(theLHS[i]); theRHSChar = theTransformFunction(theRHS[i]);
        if (theLHSChar != theRHSChar) { break; } } return int(theLHSChar - theRHSChar); } }""")
    if body != exp:
        raise AnchorError("DOMStringHelper.cpp doCompare: not the (length, then first differing code unit) order the table checks assume")
    n = _squeeze(t)
    need(_lit("""compare( const XalanDOMChar* theLHS, XalanDOMString::size_type theLHSLength, const XalanDOMChar* theRHS, XalanDOMString::size_type theRHSLength)
        { return doCompare( theLHS, theLHSLength, theRHS, theRHSLength, makeXalanDOMCharIdentityTransform()); }"""), n,
         "compare(const XalanDOMChar*, size_type, const XalanDOMChar*, size_type) = doCompare with the identity transform", 0)
    h = _norm(read("PlatformSupport/DOMStringHelper.hpp"))
    need(_lit("inline int compare( const XalanDOMChar* theLHS, const XalanDOMChar* theRHS) { return compare(theLHS, length(theLHS), theRHS, length(theRHS)); }"), h,
         "compare(const XalanDOMChar*, const XalanDOMChar*) = compare with the two lengths", 0)
    need(_lit("inline bool isXMLWhitespace(XalanDOMChar theChar) { return XalanXMLChar::isWhitespace(theChar); }"), h,
         "isXMLWhitespace(XalanDOMChar) = XalanXMLChar::isWhitespace", 0)


def _balanced(text, i, what):
    """text[i] == '{': the brace-balanced block starting there"""
    depth = 0
    for j in range(i, len(text)):
        if text[j] == "{":
            depth += 1
        elif text[j] == "}":
            depth -= 1
            if depth == 0:
                return text[i:j + 1]
    raise AnchorError("unbalanced braces: " + what)


_LABEL = re.compile(r"(?<![A-Za-z0-9_])(?:case ?((?:\w+::)*\w+):(?!:)|default:)")


def _switch_groups(sw, what):
    """sw: squeezed '{...}' of a switch.  Returns [(labels, text)]: maximal runs of labels that follow each other
    directly, with the statements up to the next label ('default' is the label None)."""
    depth, i, labs = 0, 0, []
    while i < len(sw):
        ch = sw[i]
        if ch in "{(":
            depth += 1
        elif ch in "})":
            depth -= 1
        elif depth == 1 and ch in "cd":
            m = _LABEL.match(sw, i)
            if m:
                labs.append((m.start(), m.end(), m.group(1)))
                i = m.end()
                continue
        i += 1
    if depth != 0 or not labs:
        raise AnchorError(what + ": switch not recognised")
    if sw[1:labs[0][0]] != "":
        raise AnchorError(what + ": statements before the first case label")
    groups, cur = [], []
    for k, (s, e, name) in enumerate(labs):
        cur.append(name)
        nxt = labs[k + 1][0] if k + 1 < len(labs) else len(sw) - 1
        seg = sw[e:nxt]
        if seg != "":
            groups.append((cur, seg))
            cur = []
    if cur:
        raise AnchorError(what + ": case labels without statements at the end of the switch")
    return groups


# ---------------------------------------------------------------------------------------------- tokenize()
_T_FLUSH_KEEP = """if(startSubstring != XalanDOMString::npos) { if(XalanDOMString::npos != posOfNSSep) { posOfNSSep = mapNSTokens(pat, startSubstring, posOfNSSep, i); }
    else { substring(pat, theToken, startSubstring, i); addToTokenQueue(theToken); } }"""
_T_FLUSH = """if(startSubstring != XalanDOMString::npos) { if(XalanDOMString::npos != posOfNSSep) { posOfNSSep = mapNSTokens(pat, startSubstring, posOfNSSep, i); }
    else { substring(pat, theToken, startSubstring, i); addToTokenQueue(theToken); } startSubstring = XalanDOMString::npos; }"""


def _t_literal(q):
    return _squeeze("{" + _T_FLUSH_KEEP + """ startSubstring = i; for(++i; i < nChars && (c = pat[i]) != XalanUnicode::%s; ++i);
        if(c == XalanUnicode::%s && i < nChars) { substring(pat, theToken, startSubstring, i + 1); addToTokenQueue(theToken); startSubstring = XalanDOMString::npos; }
        else { error(XalanMessages::UnterminatedStringLiteral); } } break;""" % (q, q))


_T_WS = "{" + _T_FLUSH + "} break;"
_T_MINUS = "{ if(!(startSubstring == XalanDOMString::npos)) { break; } }"
_G_LOOKBACK_IF = "if ((c == XalanUnicode::charEqualsSign || c == XalanUnicode::charSolidus) && i > 1 && isXMLWhitespace(pat[i - 1]) == true)"
_G_LOOKBACK_BODY = """{ t_size_type j = i - 1; while(j > 0 && isXMLWhitespace(pat[j]) == true) { --j; } const XalanDOMChar thePreviousChar = pat[j];
    if (c == XalanUnicode::charSolidus ? thePreviousChar == XalanUnicode::charSolidus :
        (thePreviousChar == XalanUnicode::charExclamationMark || thePreviousChar == XalanUnicode::charLessThanSign || thePreviousChar == XalanUnicode::charGreaterThanSign))
    { error( XalanMessages::UnexpectedTokenFound_1Param, theToken); } }"""
_G_DOLLAR = """if (c == XalanUnicode::charDollarSign && i + 1 < nChars && isXMLWhitespace(pat[i + 1]) == true) { error( XalanMessages::NotValidNCName_1Param, s_emptyString); }"""
_T_DELIM = "{" + _T_FLUSH + " substring(pat, theToken, i, i + 1); " + _G_LOOKBACK_IF + _G_LOOKBACK_BODY + " addToTokenQueue(theToken); " + _G_DOLLAR + "} break;"
_T_COLON = """{ if(posOfNSSep == i - 1 && i > 0) { if(startSubstring != XalanDOMString::npos) { if (startSubstring < i - 1) { substring(pat, theToken, startSubstring, i - 1);
    addToTokenQueue(theToken); } } startSubstring = XalanDOMString::npos; posOfNSSep = XalanDOMString::npos; substring(pat, theToken, i - 1, i + 1); addToTokenQueue(theToken); break; }
    else { posOfNSSep = i; } }"""
# @D@ stands for the digit predicate of the number scan (see _digit_predicate): XalanXMLChar::isDigit or isNumberDigit
_G_NUMBER = "if (@D@(c) == true || (c == XalanUnicode::charFullStop && i + 1 < nChars && @D@(pat[i + 1]) == true))"
_T_NAME_OR_NUMBER = "{ startSubstring = i; " + _G_NUMBER + """ { bool gotFullStop = c == XalanUnicode::charFullStop;
    while(i < nChars - 1) { ++i; const XalanDOMChar currentChar = pat[i];
        if (currentChar == XalanUnicode::charFullStop) { if (gotFullStop == false) { gotFullStop = true; } else { --i; break; } }
        else if (@D@(currentChar) == false) { --i; break; } }
    substring(pat, theToken, startSubstring, i + 1); addToTokenQueue(theToken); startSubstring = XalanDOMString::npos; } }"""
# the default case as it was / with the repair "dot-token" ('.' and '..' not followed by a digit are tokens of their own)
_T_DEFAULT = "{ if(XalanDOMString::npos == startSubstring) " + _T_NAME_OR_NUMBER + " }"
_G_DOT = "if(XalanDOMString::npos == startSubstring && c == XalanUnicode::charFullStop && (i + 1 >= nChars || @D@(pat[i + 1]) == false))"
_T_DEFAULT_DOT = "{ " + _G_DOT + """ { if (i + 1 < nChars && pat[i + 1] == XalanUnicode::charFullStop) { substring(pat, theToken, i, i + 2); ++i; }
    else { substring(pat, theToken, i, i + 1); } addToTokenQueue(theToken); }
    else if(XalanDOMString::npos == startSubstring) """ + _T_NAME_OR_NUMBER + " }"
_DIGIT_OLD = "XalanXMLChar::isDigit"
_DIGIT_NEW = "isNumberDigit"
_T_DIGIT_HELPER = "static inline bool isNumberDigit(XalanDOMChar c) { return c >= XalanUnicode::charDigit_0 && c <= XalanUnicode::charDigit_9; }"


def _digit_predicate(cpp, uni):
    """The digit test of the number scan in tokenize() and of the number branch of PrimaryExpr(): either
    XalanXMLChar::isDigit at ALL its sites (as it was) or, with the repair "ascii-digit", the file-static helper
    isNumberDigit (body matched exactly, '0'..'9') at ALL of them.  Returns (predicate, repaired)."""
    what = "XPathProcessorImpl.cpp digit predicate"
    cn = _squeeze(cpp)
    tok = _squeeze(function_body(cpp, r"\nXPathProcessorImpl::tokenize\s*\(\s*const\s+XalanDOMString\s*&\s*pat\s*\)\s*\{", "XPathProcessorImpl::tokenize"))
    pe = _squeeze(function_body(cpp, r"\nXPathProcessorImpl::PrimaryExpr\s*\(\s*\)\s*\{", "XPathProcessorImpl::PrimaryExpr"))
    rx_old = r"(?<![A-Za-z0-9_:])XalanXMLChar::isDigit\("
    rx_new = r"(?<![A-Za-z0-9_:])isNumberDigit\("
    old_sites = len(re.findall(rx_old, tok)) + len(re.findall(rx_old, pe))
    new_sites = len(re.findall(rx_new, tok)) + len(re.findall(rx_new, pe))
    mentions_new = len(re.findall(r"(?<![A-Za-z0-9_])isNumberDigit(?![A-Za-z0-9_])", cn))
    if len(re.findall(r"(?<![A-Za-z0-9_])isDigit(?![A-Za-z0-9_])", tok + pe)) != old_sites:
        raise AnchorError(what + ": an isDigit that is not XalanXMLChar::isDigit( in tokenize() / PrimaryExpr()")
    if mentions_new == 0:
        if old_sites == 0:
            raise AnchorError(what + ": neither XalanXMLChar::isDigit nor isNumberDigit is used by tokenize() / PrimaryExpr()")
        return _DIGIT_OLD, False
    if old_sites != 0:
        raise AnchorError(what + ": XalanXMLChar::isDigit and isNumberDigit are both used (%d / %d sites): the repair is partial" % (old_sites, new_sites))
    helper = _squeeze(_T_DIGIT_HELPER)
    if cn.count(helper) != 1 or len(re.findall(r"(?<![A-Za-z0-9_])isNumberDigit\(XalanDOMChar", cn)) != 1:
        raise AnchorError(what + ": isNumberDigit is not the file-static helper { return c >= XalanUnicode::charDigit_0 && c <= XalanUnicode::charDigit_9; }")
    if not cn.index(helper) < cn.index("XPathProcessorImpl::tokenize(const XalanDOMString&pat){"):
        raise AnchorError(what + ": isNumberDigit is not defined before tokenize()")
    if uni.get("charDigit_0") != 0x30 or uni.get("charDigit_9") != 0x39:
        raise AnchorError("XalanUnicode.hpp: charDigit_0 / charDigit_9 are not 0x30 / 0x39")
    if "isNumberDigit" in _squeeze(strip_comments(read(PI_HPP))):
        raise AnchorError(what + ": XPathProcessorImpl.hpp mentions isNumberDigit too")
    if new_sites == 0 or mentions_new != new_sites + 1:
        raise AnchorError(what + ": isNumberDigit is used outside tokenize() / PrimaryExpr() (or not at all)")
    return _DIGIT_NEW, True


def _primary_expr(cpp, D):
    what = "XPathProcessorImpl::PrimaryExpr"
    pe = _squeeze(function_body(cpp, r"\nXPathProcessorImpl::PrimaryExpr\s*\(\s*\)\s*\{", what))
    need(_lit("""else if((tokenIs(XalanUnicode::charFullStop) == true && m_token.length() > 1 && @D@(m_token[1]) == true) || @D@(m_tokenChar) == true)
        { m_expression->appendOpCode(XPathExpression::eOP_NUMBERLIT); Number(); m_expression->updateOpCodeLength( XPathExpression::eOP_NUMBERLIT, opPos); }""".replace("@D@", D)), pe,
         what + ": the number branch ('.' + digit, or a digit) with the digit predicate " + D, 0)
    if pe.count(D + "(") != 2:
        raise AnchorError(what + ": %s is used %d times, not 2" % (D, pe.count(D + "(")))


# NodeTest(): everything up to the tests of an unprefixed / local name, then the chain as it was / with the repair "name-chars"
_T_NODETEST_HEAD = """{ assert(m_xpath != 0); assert(m_expression != 0); int nodeTestPos = -1;
    if (lookahead(XalanUnicode::charLeftParenthesis, 1) == true) { const XPathExpression::eOpCodes theOpCode = getNodeTypeToken(m_token);
        if (theOpCode == XPathExpression::eENDOP) { error( XalanMessages::UnknownNodeType_1Param, m_token); }
        else { nextToken(); nodeTestPos = m_expression->appendOpCode(theOpCode); consumeExpected(XalanUnicode::charLeftParenthesis);
            if(XPathExpression::eNODETYPE_PI == theOpCode) { if(tokenIs(XalanUnicode::charRightParenthesis) == false) { Literal(); } }
            consumeExpected(XalanUnicode::charRightParenthesis); } }
    else { m_expression->appendOpCode(XPathExpression::eNODENAME);
        if(lookahead(XalanUnicode::charColon, 1) == true) {
            if(tokenIs(XalanUnicode::charAsterisk) == true) { m_expression->appendOpCode(XPathExpression::eELEMWILDCARD); }
            else { replaceTokenWithNamespaceToken(); m_expression->pushCurrentTokenOnOpCodeMap(); }
            nextToken(); consumeExpected(XalanUnicode::charColon); }
        else { m_expression->appendOpCode(XPathExpression::eEMPTY); }
        if (tokenIs(XalanUnicode::charAsterisk) == true) { m_expression->appendOpCode(XPathExpression::eELEMWILDCARD); }
        else if (isNodeTest(m_token) == false) { error(XalanMessages::ExpectedNodeTest); }"""
_T_NODETEST_NCNAME = " else if (XalanQName::isValidNCName(m_token) == false) { error( XalanMessages::NotValidNCName_1Param, m_token); }"
_T_NODETEST_TAIL = " else { m_expression->pushCurrentTokenOnOpCodeMap(); } nextToken(); } return nodeTestPos; }"


def _node_test(cpp):
    what = "XPathProcessorImpl::NodeTest"
    b = _squeeze(function_body(cpp, r"\nXPathProcessorImpl::NodeTest\s*\(\s*\)\s*\{", what))
    if b == _squeeze(_T_NODETEST_HEAD + _T_NODETEST_TAIL):
        return False
    if b == _squeeze(_T_NODETEST_HEAD + _T_NODETEST_NCNAME + _T_NODETEST_TAIL):
        return True
    raise AnchorError(what + ": neither the body the model was written from nor that body with the isValidNCName test of the name (repair name-chars)")
_T_PROLOGUE = """{ assert(m_xpath != 0); assert(m_expression != 0); assert(m_constructionContext != 0);
    m_expression->setCurrentPattern(m_constructionContext->getPooledString(pat)); const t_size_type nChars = pat.length();
    t_size_type startSubstring = XalanDOMString::npos; t_size_type posOfNSSep = XalanDOMString::npos;
    const XPathConstructionContext::GetCachedString theGuard(*m_constructionContext); XalanDOMString& theToken = theGuard.get();
    for(t_size_type i = 0; i < nChars; i++) { XalanDOMChar c = pat[i]; switch(c)"""
_T_EPILOGUE = """} if(startSubstring != XalanDOMString::npos) { if(XalanDOMString::npos != posOfNSSep) { posOfNSSep = mapNSTokens(pat, startSubstring, posOfNSSep, nChars); }
    else { substring(pat, theToken, startSubstring, nChars); addToTokenQueue(theToken); } }
    if (0 == m_expression->tokenQueueSize()) { error(XalanMessages::EmptyExpression); } m_expression->resetTokenPosition(); }"""


def _tokenize(cpp, uni, D):
    what = "XPathProcessorImpl::tokenize"
    body = _squeeze(function_body(cpp, r"\nXPathProcessorImpl::tokenize\s*\(\s*const\s+XalanDOMString\s*&\s*pat\s*\)\s*\{", what))
    pro = _squeeze(_T_PROLOGUE)
    if not body.startswith(pro):
        raise AnchorError(what + ": the statements before switch(c) are not the ones the model was written from")
    sw = _balanced(body, len(pro), what + " switch")
    if body[len(pro) + len(sw):] != _squeeze(_T_EPILOGUE):
        raise AnchorError(what + ": the statements after switch(c) (final flush, EmptyExpression) are not the ones the model was written from")
    # the three look-around guards, one by one (better message than the group comparison below)
    need(_lit(_G_LOOKBACK_IF + _G_LOOKBACK_BODY), sw, what + ": the '=' / '/' look-back over white space (\"< =\", \"/ /\" refused)", 0)
    need(_lit(_G_DOLLAR), sw, what + ": the guard refusing '$' followed by white space", 0)
    need(_lit(_G_NUMBER.replace("@D@", D)), sw, what + ": the number scan is entered for a digit or for '.' followed by a digit (digit predicate %s)" % D, 0)
    groups = _switch_groups(sw, what)
    shape = [len(g[0]) for g in groups]
    if len(groups) != 7:
        raise AnchorError(what + ": expected 7 case groups (quote, apostrophe, white space, '-', delimiters, ':', default), found %d %r" % (len(groups), shape))
    (lq, bq), (la, ba), (lw, bw), (lm, bm), (ld, bd), (lc, bc), (lz, bz) = groups
    if lq != ["XalanUnicode::charQuoteMark"] or bq != _t_literal("charQuoteMark"):
        raise AnchorError(what + ": the quotation-mark case is not the one the model was written from")
    if la != ["XalanUnicode::charApostrophe"] or ba != _t_literal("charApostrophe"):
        raise AnchorError(what + ": the apostrophe case is not the one the model was written from")
    if len(lw) != 4 or None in lw:
        raise AnchorError(what + ": the white-space group does not have 4 case labels: %r" % (lw,))
    if bw != _squeeze(_T_WS):
        raise AnchorError(what + ": the white-space group's statements are not the ones the model was written from")
    if lm != ["XalanUnicode::charHyphenMinus"] or bm != _squeeze(_T_MINUS):
        raise AnchorError(what + ": case '-' is not { if(!(startSubstring == npos)) { break; } } falling through into the delimiter group")
    if None in ld or "XalanUnicode::charHyphenMinus" in ld:
        raise AnchorError(what + ": unexpected label in the delimiter group")
    if bd != _squeeze(_T_DELIM):
        raise AnchorError(what + ": the delimiter group's statements are not the ones the model was written from")
    if lc != ["XalanUnicode::charColon"] or bc != _squeeze(_T_COLON):
        raise AnchorError(what + ": case ':' is not the one the model was written from")
    if lz != [None]:
        raise AnchorError(what + ": the last case group is not default alone")
    if bz == _squeeze(_T_DEFAULT.replace("@D@", D)):
        fix_dot = False
    elif bz == _squeeze(_T_DEFAULT_DOT.replace("@D@", D)):
        fix_dot = True
    else:
        raise AnchorError(what + ": the default case (name start / number scan) is neither the one the model was written from nor that one "
                          "with the leading '.' / '..' token branch (repair dot-token); digit predicate " + D)
    if sw.count(D + "(") != (4 if fix_dot else 3):
        raise AnchorError(what + ": unexpected number of calls of " + D)
    ws = [_char(uni, x, what + " white-space label") for x in lw]
    delims = [_char(uni, x, what + " delimiter label") for x in ld]
    alll = [uni["charQuoteMark"], uni["charApostrophe"]] + ws + [uni["charHyphenMinus"]] + delims + [uni["charColon"]]
    if len(set(alll)) != len(alll):
        raise AnchorError(what + ": a character is the label of two cases")
    # the characters the guards name must be delimiters (otherwise the guards are dead code and the model is wrong)
    for nm in ("charEqualsSign", "charSolidus", "charDollarSign", "charExclamationMark", "charLessThanSign", "charGreaterThanSign"):
        if uni[nm] not in delims:
            raise AnchorError(what + ": XalanUnicode::%s is not a label of the delimiter group" % nm)
    return ws, delims, srcfacts.fingerprint(body), fix_dot


# ---------------------------------------------------------------------------------------------- character classes
def _charclasses():
    hpp = strip_comments(read("PlatformSupport/XalanXMLChar.hpp"))
    m = need(r"enum\s+eType\s*\{([^{}]*)\}", hpp, "XalanXMLChar.hpp enum eType")
    cls = {}
    for it in [x.strip() for x in m.group(1).split(",") if x.strip()]:
        mm = re.fullmatch(r"(XML_\w+)\s*=\s*(\d+)", it)
        if not mm:
            raise AnchorError("XalanXMLChar.hpp enum eType: enumerator without explicit value: " + it)
        cls[mm.group(1)] = int(mm.group(2))
    names = ["XML_XX", "XML_BC", "XML_ID", "XML_EX", "XML_DI", "XML_CC", "XML_WS"]
    if sorted(cls) != sorted(names) or len(set(cls.values())) != len(names):
        raise AnchorError("XalanXMLChar.hpp enum eType: expected the 7 distinct classes %r, found %r" % (names, cls))
    if cls["XML_XX"] != 0:
        raise AnchorError("XalanXMLChar.hpp: XML_XX is not 0 (runs of that class are the ones omitted)")
    hn = _squeeze(hpp)
    need(_lit("isDigit(XalanDOMChar c) { return theUnicodeTable[c] == char(XML_DI); }"), hn, "XalanXMLChar::isDigit tests XML_DI", 0)
    need(_lit("isWhitespace(XalanDOMChar c) { return theUnicodeTable[c] == char(XML_WS); }"), hn, "XalanXMLChar::isWhitespace tests XML_WS", 0)
    cpp = strip_comments(read("PlatformSupport/XalanXMLChar.cpp"))
    for n in names:
        need(r"static\s+const\s+char\s+%s\s*=\s*XalanXMLChar::%s\s*;" % (n, n), cpp, "XalanXMLChar.cpp: static const char %s = XalanXMLChar::%s" % (n, n))
    if len(re.findall(r"\bXML_\w+\s*=", cpp)) != len(names):
        raise AnchorError("XalanXMLChar.cpp: unexpected further XML_* definitions")
    m = need(r"const\s+char\s+XalanXMLChar::theUnicodeTable\s*\[\s*\]\s*=\s*\{([^{}]*)\}\s*;", cpp, "XalanXMLChar::theUnicodeTable")
    items = [x.strip() for x in m.group(1).split(",")]
    if items and items[-1] == "":
        items.pop()
    if len(items) != 65536:
        raise AnchorError("XalanXMLChar::theUnicodeTable has %d entries, not 65536 (it is indexed with any XalanDOMChar)" % len(items))
    try:
        vals = [cls[x] for x in items]
    except KeyError as e:
        raise AnchorError("XalanXMLChar::theUnicodeTable: unknown entry %s" % e)
    runs, lo = [], 0
    for i in range(1, 65537):
        if i == 65536 or vals[i] != vals[lo]:
            if vals[lo] != 0:
                runs.append((lo, i - 1, vals[lo]))
            lo = i
    return cls, runs


# ---------------------------------------------------------------------------------------------- op codes
def _opcodes():
    t = strip_comments(read("XPath/XPathExpression.hpp"))
    m = need(r"enum\s+eOpCodes\s*\{([^{}]*)\}", t, "XPathExpression::eOpCodes")
    items = [x.strip() for x in m.group(1).split(",") if x.strip()]
    ops, order = {}, []
    for k, it in enumerate(items):
        mm = re.fullmatch(r"(e\w+)\s*=\s*(-?\d+)", it)
        if not mm:
            if k == len(items) - 1 and it == "eOpCodeNextAvailable":
                continue        # the end marker: not an op code, nothing refers to its value by name in the facts
            raise AnchorError("XPathExpression::eOpCodes: enumerator without an explicit integer value: " + it[:60])
        if mm.group(1) in ops:
            raise AnchorError("XPathExpression::eOpCodes: %s twice" % mm.group(1))
        ops[mm.group(1)] = int(mm.group(2))
        order.append(mm.group(1))
    pos = [n for n in order if ops[n] > 0]
    if len(set(ops[n] for n in pos)) != len(pos):
        raise AnchorError("XPathExpression::eOpCodes: two enumerators share a positive value")
    if ops.get("eENDOP") != -1:
        raise AnchorError("XPathExpression::eOpCodes: eENDOP is not -1")
    return ops, pos


# ---------------------------------------------------------------------------------------------- tables
def _entry_table(cpp, name, strings, ops):
    m = need(r"const\s+XPathProcessorImpl::TableEntry\s+XPathProcessorImpl::%s\s*\[\s*\]\s*=\s*\{(.*?)\}\s*;" % name, cpp, "XPathProcessorImpl::" + name)
    txt = m.group(1)
    rows = []
    rx = re.compile(r"\{\s*(XPathFunctionTable|XPathProcessorImpl)::(\w+)\s*,\s*XPathExpression::(e\w+)\s*\}")
    for r in rx.finditer(txt):
        key = (r.group(1), r.group(2))
        if key not in strings:
            raise AnchorError("%s: the string %s::%s was not found" % (name, r.group(1), r.group(2)))
        if r.group(3) not in ops or ops[r.group(3)] <= 0:
            raise AnchorError("%s: %s is not a positive op code" % (name, r.group(3)))
        rows.append((strings[key], r.group(3)))
    if re.sub(r"[\s,]", "", rx.sub("", txt)) != "" or not rows:
        raise AnchorError("%s: rows that are not { <string>, XPathExpression::<op code> }" % name)
    _check_sorted([r[0] for r in rows], "XPathProcessorImpl::" + name)
    need(r"XPathProcessorImpl::%sSize\s*=\s*sizeof\s*\(\s*%s\s*\)\s*/\s*sizeof\s*\(\s*%s\s*\[\s*0\s*\]\s*\)\s*;" % (name, name, name), cpp,
         "%sSize = sizeof(%s) / sizeof(%s[0])" % (name, name, name))
    return rows


_SEARCH = """{ const TableEntry* theFirst = theTable; const TableEntry* theLast = &theTable[theTableSize - 1];
    while(theFirst <= theLast) { const TableEntry* theCurrent = theFirst + (theLast - theFirst) / 2; assert(theCurrent->m_string[0] != 0);
    const int theResult = compare(theString.c_str(), theCurrent->m_string);
    if (theResult < 0) { theLast = theCurrent - 1; } else if (theResult > 0) { theFirst = theCurrent + 1; } else { return *theCurrent; } }
    return s_dummyEntry; }"""
_GETIDX = """{ assert(theName != 0); const FunctionNameTableEntry* theFirst = s_functionNames; const FunctionNameTableEntry* theLast = s_lastFunctionName;
    while(theFirst <= theLast) { const FunctionNameTableEntry* const theCurrent = theFirst + (theLast - theFirst) / 2; assert(theCurrent->m_size == length(theCurrent->m_name));
    const int theResult = compare( theName, theNameLength, theCurrent->m_name, theCurrent->m_size);
    if (theResult < 0) { theLast = theCurrent - 1; } else if (theResult > 0) { theFirst = theCurrent + 1; }
    else { assert(int(theCurrent - s_functionNames) == theCurrent - s_functionNames); return int(theCurrent - s_functionNames); } }
    return InvalidFunctionNumberID; }"""


def _installed(uni):
    t = strip_comments(read("XPath/XPathFunctionTable.cpp"))
    strings = _string_arrays(t, "XPathFunctionTable", uni)
    need(r"#\s*define\s+XFTBL_SIZE\s*\(\s*str\s*\)\s*\(\s*\(\s*sizeof\s*\(\s*str\s*\)\s*/\s*sizeof\s*\(\s*str\s*\[\s*0\s*\]\s*\)\s*-\s*1\s*\)\s*\)", t,
         "XFTBL_SIZE(str) = sizeof(str) / sizeof(str[0]) - 1")
    m = need(r"const\s+FunctionNameTableEntry\s+XPathFunctionTable::s_functionNames\s*\[\s*\]\s*=\s*\{(.*?)\}\s*;", t, "XPathFunctionTable::s_functionNames")
    rx = re.compile(r"\{\s*(\w+)\s*,\s*XFTBL_SIZE\s*\(\s*(\w+)\s*\)\s*\}")
    rows = []
    for r in rx.finditer(m.group(1)):
        if r.group(1) != r.group(2):
            raise AnchorError("s_functionNames: the size of row %s is the size of %s" % (r.group(1), r.group(2)))
        if r.group(1) not in strings:
            raise AnchorError("s_functionNames: the string XPathFunctionTable::%s was not found" % r.group(1))
        rows.append(strings[r.group(1)])
    if re.sub(r"[\s,]", "", rx.sub("", m.group(1))) != "" or not rows:
        raise AnchorError("s_functionNames: rows that are not { s_x, XFTBL_SIZE(s_x) }")
    _check_sorted(rows, "XPathFunctionTable::s_functionNames")
    need(r"XPathFunctionTable::s_lastFunctionName\s*=\s*&\s*s_functionNames\s*\[\s*sizeof\s*\(\s*s_functionNames\s*\)\s*/\s*sizeof\s*\(\s*s_functionNames\s*\[\s*0\s*\]\s*\)\s*-\s*1\s*\]\s*;",
         t, "s_lastFunctionName = &s_functionNames[size - 1]")
    body = _squeeze(function_body(t, r"\nXPathFunctionTable::getFunctionIndex\s*\(\s*const\s+XalanDOMChar\s*\*\s*theName\s*,\s*StringSizeType\s+theNameLength\s*\)\s*\{",
                                  "XPathFunctionTable::getFunctionIndex(name, length)"))
    if body != _squeeze(_GETIDX):
        raise AnchorError("XPathFunctionTable::getFunctionIndex is not the binary search over s_functionNames with compare(name, length, m_name, m_size)")
    h = _norm(read("XPath/XPathFunctionTable.hpp"))
    need(_lit("isInstalledFunction(const XalanDOMString& theFunctionName) const { return getFunctionIndex(theFunctionName) != InvalidFunctionNumberID ? true : false; }"), h,
         "XPathFunctionTable::isInstalledFunction = getFunctionIndex(name) != InvalidFunctionNumberID", 0)
    need(_lit("getFunctionIndex(const XalanDOMString& theName) { return getFunctionIndex( theName.c_str(), theName.length()); }"), h,
         "getFunctionIndex(const XalanDOMString&) = getFunctionIndex(c_str(), length())", 0)
    x = _norm(read("XPath/XPath.hpp"))
    need(_lit("isInstalledFunction(const XalanDOMString& theFunctionName) { return s_functions.isInstalledFunction(theFunctionName); }"), x,
         "XPath::isInstalledFunction = s_functions.isInstalledFunction", 0)
    return strings, rows


# ---------------------------------------------------------------------------------------------- FunctionCall
_ERR = r"(?:XalanDOMString theResult\(m_constructionContext->getMemoryManager\(\)\);)?error\(XalanMessages::\w+,XPathFunctionTable::\w+\);"
_POSFLAG = _squeeze("else { if (m_positionPredicateStack.empty() == false) { m_positionPredicateStack.back() = true; } }")


def _arity(cpp, fn, label, with_oppos):
    what = "XPathProcessorImpl::" + fn
    hdr = r"\nXPathProcessorImpl::%s\s*\(\s*%s\s*\)\s*\{" % (fn, r"int\s+opPos" if with_oppos else "")
    b = _squeeze(function_body(cpp, hdr, what))
    pro = _squeeze("{ m_expression->appendOpCode(XPathExpression::%s); nextToken(); const int argCount = FunctionCallArguments();" % label)
    if not b.startswith(pro):
        raise AnchorError(what + ": does not start with appendOpCode(%s); nextToken(); argCount = FunctionCallArguments()" % label)
    rest = b[len(pro):]
    m = re.fullmatch(r"if\(argCount!=(\d+)\)\{%s\}(%s)?\}" % (_ERR, re.escape(_POSFLAG)), rest)
    if m:
        if m.group(2) and not label in ("eOP_FUNCTION_POSITION", "eOP_FUNCTION_LAST"):
            raise AnchorError(what + ": sets the position-predicate flag")
        return int(m.group(1)), int(m.group(1))
    if with_oppos and label.endswith("_0"):
        l1 = label[:-2] + "_1"
        m = re.fullmatch(r"if\(argCount!=0\)\{if\(argCount==1\)\{m_expression->replaceOpCode\(opPos,XPathExpression::%s,XPathExpression::%s\);\}else\{%s\}\}\}" % (label, l1, _ERR), rest)
        if m:
            return 0, 1
    raise AnchorError(what + ": the argument-count test is neither `if (argCount != K) error` nor the 0-or-1 shape")


def _function_call(cpp, ops, nodetype_rows):
    what = "XPathProcessorImpl::FunctionCall"
    b = _squeeze(function_body(cpp, r"\nXPathProcessorImpl::FunctionCall\s*\(\s*\)\s*\{", what))
    pre = _squeeze("const XPathExpression::eOpCodes funcTok = getFunctionToken(m_token); switch(funcTok)")
    i = b.find(pre)
    if i < 0 or b.count("switch(") != 1:
        raise AnchorError(what + ": funcTok = getFunctionToken(m_token); switch(funcTok) not found (or a second switch)")
    need(_lit("if (isValidFunction(m_token) == false) { error( XalanMessages::CouldNotFindFunction_1Param, m_token); }") + re.escape(pre), b,
         what + ": isValidFunction(m_token) is tested just before the switch", 0)
    groups = _switch_groups(_balanced(b, i + len(pre), what + " switch"), what)
    if len(groups) < 3 or groups[-1][0] != [None]:
        raise AnchorError(what + ": the switch does not end with default")
    l0, b0 = groups[0]
    pfx = "XPathExpression::"
    if None in l0 or sorted(l0) != sorted(pfx + r[1] for r in nodetype_rows) or not all(x.startswith(pfx + "eNODETYPE_") for x in l0):
        raise AnchorError(what + ": the first case group is not the op codes of s_nodeTypeTable: %r" % (l0,))
    if b0 != "LocationPath();return;break;":
        raise AnchorError(what + ": the eNODETYPE_* cases do not go to LocationPath(); return")
    need(_lit("m_expression->appendOpCode( XPathExpression::eOP_FUNCTION, theArgs); nextToken(); const int argCount = FunctionCallArguments();"), groups[-1][1],
         what + ": default is the generic eOP_FUNCTION call", 0)
    out, seen = [], set()
    for labs, body in groups[1:-1]:
        if len(labs) != 1 or labs[0] is None or not labs[0].startswith(pfx):
            raise AnchorError(what + ": a case group with several labels: %r" % (labs,))
        lab = labs[0][len(pfx):]
        m = re.fullmatch(r"(Function\w+)\((opPos)?\);break;", body)
        if not m:
            raise AnchorError(what + ": case %s is not a call of one FunctionXxx followed by break" % lab)
        if lab not in ops or ops[lab] <= 0 or lab in seen or m.group(1) in seen:
            raise AnchorError(what + ": case %s / %s: unknown op code or used twice" % (lab, m.group(1)))
        seen.update((lab, m.group(1)))
        lo, hi = _arity(cpp, m.group(1), lab, m.group(2) is not None)
        out.append((lab, m.group(1), lo, hi))
    return out


# ---------------------------------------------------------------------------------------------- output
def _n(x):
    return "%d%%N" % x


def _b(v):
    return "true" if v else "false"


def _nl(xs):
    return "[" + "; ".join(_n(x) for x in xs) + "]"


def _wrapped(items, width=180):
    """items (strings) as a Coq list over several lines, every line shorter than `width`; one item never is split
    unless it is itself longer (then it is broken at '; ')"""
    lines, cur = [], "  "
    for k, it in enumerate(items):
        piece = it + ("; " if k + 1 < len(items) else "")
        while len(piece) > width - 2:
            cut = piece.rfind("; ", 0, width - 4)
            if cur.strip():
                lines.append(cur.rstrip())
                cur = "  "
            lines.append("  " + piece[:cut + 1])
            piece = "  " + piece[cut + 2:]
        if len(cur) + len(piece) > width:
            lines.append(cur.rstrip())
            cur = "  "
        cur += piece
    if cur.strip():
        lines.append(cur.rstrip())
    return "[\n" + "\n".join(lines) + "]"


def gen_xpc():
    uni = _unicode_table()
    _check_compare()
    hpp = strip_comments(read(PI_HPP))
    cpp = strip_comments(read(PI_CPP))
    # ---- nesting limit
    m = need(r"enum\s*\{\s*eMaximumNestingDepth\s*=\s*(\d+)\s*\}\s*;", hpp, "XPathProcessorImpl.hpp enum { eMaximumNestingDepth = N }")
    max_nesting = int(m.group(1))
    if len(re.findall(r"\beMaximumNestingDepth\b", hpp)) != 1:
        raise AnchorError("XPathProcessorImpl.hpp: eMaximumNestingDepth is mentioned more than once")
    expr = _squeeze(function_body(cpp, r"\nXPathProcessorImpl::Expr\s*\(\s*\)\s*\{", "XPathProcessorImpl::Expr"))
    if expr != _squeeze("{ if (++m_nestingDepth > eMaximumNestingDepth) { error(XalanMessages::ExpressionNestedTooDeeply); } OrExpr(); --m_nestingDepth; }"):
        raise AnchorError("XPathProcessorImpl::Expr is not { if (++m_nestingDepth > eMaximumNestingDepth) error; OrExpr(); --m_nestingDepth; }")
    cn = _squeeze(cpp)
    uses = len(re.findall(r"\beMaximumNestingDepth\b", cn))
    guards = len(re.findall(re.escape("if(++m_nestingDepth>eMaximumNestingDepth){error(XalanMessages::ExpressionNestedTooDeeply);}"), cn))
    if uses != guards or cn.count("++m_nestingDepth") != guards or cn.count("--m_nestingDepth") != guards:
        raise AnchorError("XPathProcessorImpl.cpp: a use of eMaximumNestingDepth / m_nestingDepth that is not `if (++m_nestingDepth > eMaximumNestingDepth) error` ... --m_nestingDepth")
    # ---- character classes
    cls, runs = _charclasses()
    # ---- tokenizer
    D, fix_digit = _digit_predicate(cpp, uni)
    tok_ws, tok_delims, tok_fp, fix_dot = _tokenize(cpp, uni, D)
    _primary_expr(cpp, D)
    fix_name = _node_test(cpp)
    # ---- strings
    fstrings, installed = _installed(uni)
    pstrings = _string_arrays(cpp, "XPathProcessorImpl", uni)
    strings = {("XPathProcessorImpl", k): v for k, v in pstrings.items()}
    strings.update({("XPathFunctionTable", k): v for k, v in fstrings.items()})
    kws = [("or", "s_orString", "tokenIs(s_orString)==true"), ("and", "s_andString", "tokenIs(s_andString)==true"),
           ("div", "s_divString", "tokenIs(s_divString)==true"), ("mod", "s_modString", "tokenIs(s_modString)==true"),
           ("dot", "s_dotString", "tokenIs(s_dotString)==true"), ("dotdot", "s_dotDotString", "tokenIs(s_dotDotString)==true"),
           ("axis_sep", "s_axisString", "lookahead(s_axisString,1)==true")]
    kwv = []
    for short, nm, use in kws:
        if nm not in pstrings:
            raise AnchorError("XPathProcessorImpl::%s not found" % nm)
        if use not in cn:
            raise AnchorError("XPathProcessorImpl.cpp: the parser does not test %s" % use)
        kwv.append((short, nm, pstrings[nm]))
    # ---- op codes and tables
    ops, pos_ops = _opcodes()
    axis = _entry_table(cpp, "s_axisTable", strings, ops)
    nodetype = _entry_table(cpp, "s_nodeTypeTable", strings, ops)
    function = _entry_table(cpp, "s_functionTable", strings, ops)
    if not all(r[1].startswith("eFROM_") for r in axis):
        raise AnchorError("s_axisTable: an op code that is not eFROM_*")
    if not all(r[1].startswith("eNODETYPE_") for r in nodetype):
        raise AnchorError("s_nodeTypeTable: an op code that is not eNODETYPE_*")
    if _squeeze(function_body(cpp, r"\nXPathProcessorImpl::searchTable\s*\([^)]*\)\s*\{", "XPathProcessorImpl::searchTable")) != _squeeze(_SEARCH):
        raise AnchorError("XPathProcessorImpl::searchTable is not the binary search with compare(theString.c_str(), m_string) ending in s_dummyEntry")
    need(_lit("XPathProcessorImpl::s_dummyEntry = { 0, XPathExpression::eENDOP };"), cn, "s_dummyEntry = { 0, eENDOP }", 0)
    hn = _squeeze(hpp)
    for fn, tb in (("getFunctionToken", "s_functionTable"), ("getNodeTypeToken", "s_nodeTypeTable"), ("getAxisToken", "s_axisTable")):
        need(_lit("static XPathExpression::eOpCodes %s(const XalanDOMString& key) { return searchTable(%s, %sSize, key).m_opCode; }" % (fn, tb, tb)), hn,
             "XPathProcessorImpl.hpp: %s searches %s" % (fn, tb), 0)
    need(_lit("struct TableEntry { const XalanDOMChar* m_string; XPathExpression::eOpCodes m_opCode; };"), hn, "XPathProcessorImpl::TableEntry { m_string, m_opCode }", 0)
    iv = _squeeze(function_body(cpp, r"\nXPathProcessorImpl::isValidFunction\s*\([^)]*\)\s*\{", "XPathProcessorImpl::isValidFunction"))
    if iv != _squeeze("""{ bool fResult = true; if(XPath::isInstalledFunction(key) == false) {
            if (searchTable(s_functionTable, s_functionTableSize, key).m_opCode == XPathExpression::eENDOP) { fResult = false; } } return fResult; }"""):
        raise AnchorError("XPathProcessorImpl::isValidFunction is not `installed or found in s_functionTable`")
    # ---- FunctionCall
    calls = _function_call(cpp, ops, nodetype)
    arity = [(ops[l], lo, hi) for l, _, lo, hi in calls]
    dispatched = set(l for l, _, _, _ in calls) | set(r[1] for r in nodetype)
    undispatched = sorted(set(r[1] for r in function) - dispatched)

    pair = lambda r: "(%s, %s)" % (_nl(r[0]), _n(ops[r[1]]))
    L = [HEADER.rstrip("\n"),
         "(* by translator/gen_xpc.py; XPath tokenizer / compiler facts (family xpc) *)",
         "From Coq Require Import List NArith.", "Import ListNotations.", "",
         "(* XPathProcessorImpl.hpp enum eMaximumNestingDepth; Expr() (and %d other place(s)) refuse(s) ++m_nestingDepth > this *)" % (guards - 1),
         "Definition gen_xpc_max_nesting : nat := %d." % max_nesting,
         "Definition gen_xpc_fix_name_chars : bool := %s.   (* NodeTest(): unprefixed name tests are checked with isValidNCName *)" % _b(fix_name),
         "Definition gen_xpc_fix_dot_token : bool := %s.    (* tokenize(): '.' / '..' not followed by a digit are tokens of their own *)" % _b(fix_dot),
         "Definition gen_xpc_fix_ascii_digit : bool := %s.  (* number scan / PrimaryExpr(): digits are '0'..'9' *)" % _b(fix_digit),
         "(* PlatformSupport/XalanXMLChar.cpp theUnicodeTable as maximal runs (lo, hi, class), ascending; class XML_XX (0) omitted *)",
         "Definition gen_xpc_charclass_ranges : list (N * N * N) := %s." % _wrapped(["(%s, %s, %s)" % (_n(a), _n(b), _n(c)) for a, b, c in runs])]
    for k in ("BC", "ID", "EX", "DI", "CC", "WS"):
        L.append("Definition gen_xpc_class_%s : N := %s." % (k, _n(cls["XML_" + k])))
    L += ["(* XPathProcessorImpl::tokenize: case labels of the white-space group / of the single-character-token group ('-' is a case of its own) *)",
          "Definition gen_xpc_tok_ws : list N := %s." % _nl(tok_ws),
          "Definition gen_xpc_tok_delims : list N := %s." % _nl(tok_delims)]
    for short, nm, v in kwv:
        L.append("Definition gen_xpc_kw_%s : list N := %s.  (* %s *)" % (short, _nl(v), nm))
    L.append("(* XPathExpression::eOpCodes, the enumerators with a positive value *)")
    for n in pos_ops:
        L.append("Definition gen_xop_%s : N := %s." % (n[1:], _n(ops[n])))
    L += ["(* s_axisTable / s_nodeTypeTable / s_functionTable rows (name, op code), source order = ascending in compare()'s order *)",
          "Definition gen_xpc_axis_table : list (list N * N) := %s." % _wrapped([pair(r) for r in axis]),
          "Definition gen_xpc_nodetype_table : list (list N * N) := %s." % _wrapped([pair(r) for r in nodetype]),
          "Definition gen_xpc_function_table : list (list N * N) := %s." % _wrapped([pair(r) for r in function]),
          "(* XPathFunctionTable::s_functionNames, source order *)",
          "Definition gen_xpc_installed : list (list N) := %s." % _wrapped([_nl(r) for r in installed]),
          "(* XPathProcessorImpl::FunctionCall switch: (op code, min args, max args) of every case calling a FunctionXxx(), switch order *)",
          "Definition gen_xpc_func_arity : list (N * nat * nat) := %s." % _wrapped(["(%s, %d, %d)" % (_n(o), lo, hi) for o, lo, hi in arity]),
          ""]
    text = "\n".join(L)
    too_long = [ln for ln in text.split("\n") if len(ln) >= 200]
    if too_long:
        raise AnchorError("gen_xpc: generated line of %d characters" % len(too_long[0]))
    facts = {"fix_name_chars": bool(fix_name), "fix_dot_token": bool(fix_dot), "fix_ascii_digit": bool(fix_digit), "max_nesting": max_nesting, "nesting_guards": guards, "charclass_runs": len(runs), "classes": cls,
             "tok_ws": tok_ws, "tok_delims": tok_delims, "tokenize_fingerprint": tok_fp,
             "opcodes_positive": len(pos_ops), "axis_rows": len(axis), "nodetype_rows": len(nodetype), "function_rows": len(function),
             "installed_rows": len(installed), "func_arity": [[l, f, lo, hi] for l, f, lo, hi in calls],
             "function_table_ops_without_case": undispatched}
    return text, facts


GENERATORS = {"GenXpc": gen_xpc}
