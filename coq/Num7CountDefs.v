(* C17, counting half: executable model of CountersTable::countNode / Counter::getPreviouslyCounted /
   appendBtoFList (generic over the node type) and of ElemNumber::getTargetNode / getPreviousNode /
   findAncestor / findPrecedingOrAncestorOrSelf / getMatchingAncestors / getCountString over a
   zipper (pointer navigation: parent, previous sibling, last child), as coded, and the
   declarative XSLT 1.0 section 7.7 counts.  Definitions only. *)
From Coq Require Import List NArith Bool Arith.
Import ListNotations.

(* =============================================================================================
   The counters table of one xsl:number instruction: a vector of Counters, each a vector of nodes
   (m_countNodes; m_countNodesStartCount is constantly 0, checked by the translator). *)
Section Cache.
  Variable X : Type.
  Variable eqb : X -> X -> bool.          (* pointer equality *)
  Variable after : X -> X -> bool.        (* after c n = isNodeAfter(n, c): the node n is later in the document than
                                             the counted node c, so n cannot be further down the vector *)
  Variable target_of : X -> option X.     (* ElemNumber::getTargetNode *)
  Variable prev : X -> option X.          (* ElemNumber::getPreviousNode *)

  Definition table := list (list X).

  (* Counter::getPreviouslyCounted: scan m_countNodes from the end; [rl] is the reversed vector,
     [i] the 1-based index of its head *)
  Fixpoint scan_counted (rl : list X) (i : nat) (node : X) : nat :=
    match rl with
    | [] => 0
    | c :: r => if eqb node c then i
                else if after c node then 0
                else scan_counted r (pred i) node
    end.
  Definition previously_counted (l : list X) (node : X) : nat :=
    scan_counted (rev l) (length l) node.

  (* first loop of countNode: the first counter with a positive answer *)
  Fixpoint lookup (tbl : table) (node : X) : nat :=
    match tbl with
    | [] => 0
    | l :: r => let c := previously_counted l node in if 0 <? c then c else lookup r node
    end.

  (* inner loop of the walk: the first counter whose last node is the target; appendBtoFList *)
  Fixpoint extend (tbl : table) (node : X) (newfound : list X) : option (table * nat) :=
    match tbl with
    | [] => None
    | l :: r =>
        match rev l with
        | c :: _ => if eqb c node then Some ((l ++ rev newfound) :: r, length l)
                    else match extend r node newfound with
                         | Some (r', n) => Some (l :: r', n)
                         | None => None
                         end
        | [] => match extend r node newfound with
                | Some (r', n) => Some (l :: r', n)
                | None => None
                end
        end
    end.

  (* the backwards walk; None = out of fuel *)
  Fixpoint walk (fuel : nat) (tbl : table) (t : X) (count : nat) (newfound : list X) : option (table * nat) :=
    match fuel with
    | O => None
    | S f =>
        match (if count =? 0 then None else extend tbl t newfound) with
        | Some (tbl', n) => Some (tbl', count + n)
        | None =>
            let nf := newfound ++ [t] in
            match prev t with
            | Some t' => walk f tbl t' (S count) nf
            | None => Some (tbl ++ [rev nf], S count)
            end
        end
    end.

  Definition count_node (fuel : nat) (tbl : table) (node : X) : option (table * nat) :=
    match target_of node with
    | None => Some (tbl, 0)
    | Some t =>
        let c := lookup tbl t in
        if 0 <? c then Some (tbl, c) else walk fuel tbl t 0 []
    end.

  (* cache-free reference: the length of the getPreviousNode chain from the target *)
  Fixpoint chain (fuel : nat) (x : X) : list X :=
    match fuel with
    | O => []
    | S f => x :: match prev x with Some y => chain f y | None => [] end
    end.
End Cache.

(* =============================================================================================
   Documents: rose trees with labels, nodes as zipper locations. *)
Section Tree.
  Variable A : Type.

  Inductive tree := Node (a : A) (kids : list tree).
  (* left siblings nearest first, label of the parent, context of the parent, right siblings *)
  Inductive ctx := Top | Ctx (left : list tree) (a : A) (up : ctx) (right : list tree).
  Definition loc := (tree * ctx)%type.

  Definition label (t : tree) : A := match t with Node a _ => a end.
  Definition kids_of (t : tree) : list tree := match t with Node _ k => k end.

  Definition parent (l : loc) : option loc :=
    match snd l with
    | Top => None
    | Ctx lf a up r => Some (Node a (rev lf ++ fst l :: r), up)
    end.
  Definition prev_sibling (l : loc) : option loc :=
    match snd l with
    | Ctx (s :: lf) a up r => Some (s, Ctx lf a up (fst l :: r))
    | _ => None
    end.
  Definition last_child (l : loc) : option loc :=
    match rev (kids_of (fst l)) with
    | k :: rl => Some (k, Ctx rl (label (fst l)) (snd l) [])
    | [] => None
    end.
  Definition is_document (l : loc) : bool := match snd l with Top => true | _ => false end.

  (* "while (lastChild != 0) pos = lastChild" *)
  Fixpoint dive (fuel : nat) (l : loc) : loc :=
    match fuel with
    | O => l
    | S f => match last_child l with Some k => dive f k | None => l end
    end.

  Fixpoint pre (t : tree) : list A :=
    match t with Node a kids => a :: flat_map pre kids end.
  Definition size (t : tree) : nat := length (pre t).
  Definition rpre (t : tree) : list A := rev (pre t).

  (* labels of the nodes before the focus (preceding and ancestor axes), nearest first *)
  Fixpoint before (c : ctx) : list A :=
    match c with
    | Top => []
    | Ctx lf a up _ => flat_map rpre lf ++ a :: before up
    end.
  Definition rdoc (l : loc) : list A := label (fst l) :: before (snd l).
  Definition pos (l : loc) : nat := length (before (snd l)).       (* document-order index *)

  (* labels of the ancestors, nearest first; of the preceding siblings, nearest first *)
  Fixpoint ancestors (c : ctx) : list A :=
    match c with Top => [] | Ctx _ a up _ => a :: ancestors up end.
  Definition left_siblings (c : ctx) : list A :=
    match c with Top => [] | Ctx lf _ _ _ => map label lf end.

  (* one step backwards in document order: previous sibling's last descendant, else the parent *)
  Definition step_back (l : loc) : option loc :=
    match prev_sibling l with
    | Some s => Some (dive (size (fst s)) s)
    | None => parent l
    end.

  (* all locations of a subtree in document order (used by the drivers and the examples) *)
  Fixpoint locs (t : tree) (c : ctx) : list loc :=
    (t, c) :: match t with
              | Node a kids =>
                  (fix go (lf : list tree) (ks : list tree) : list loc :=
                     match ks with
                     | [] => []
                     | k :: ks' => locs k (Ctx lf a c ks') ++ go (k :: lf) ks'
                     end) [] kids
              end.

  (* -------------------------------------------------------------------------------------------
     The instruction: pat s x = "the count pattern taken for source node s matches x" (an explicit
     count attribute ignores s; the default pattern is derived from s by getCountMatchPattern);
     frm = the from pattern (absent: constantly false). *)
  Variable pat : A -> A -> bool.
  Variable frm : A -> bool.

  Definition lab (l : loc) : A := label (fst l).

  (* findAncestor *)
  Fixpoint find_ancestor_c (src : A) (t : tree) (c : ctx) : option loc :=
    if frm (label t) || pat src (label t) then Some (t, c)
    else match c with
         | Top => None
         | Ctx lf a up r => find_ancestor_c src (Node a (rev lf ++ t :: r)) up
         end.
  Definition find_ancestor (l : loc) : option loc := find_ancestor_c (lab l) (fst l) (snd l).

  (* the common loop of findPrecedingOrAncestorOrSelf (after its first iteration) and of
     getPreviousNode for level="any": step backwards; a node matching from ends the walk with 0,
     a node matching count is the answer.  None also stands for "out of fuel", excluded by the
     theorems (pos l steps always suffice). *)
  Fixpoint find_back (fuel : nat) (src : A) (l : loc) : option loc :=
    match fuel with
    | O => None
    | S f =>
        match step_back l with
        | None => None
        | Some l' => if frm (lab l') then None
                     else if pat src (lab l') then Some l'
                     else find_back f src l'
        end
    end.

  (* getTargetNode: the context node itself is tested against count only *)
  Definition target_any (l : loc) : option loc :=
    if pat (lab l) (lab l) then Some l else find_back (S (pos l)) (lab l) l.
  Definition target_sib (l : loc) : option loc := find_ancestor l.

  (* getPreviousNode, level single / multiple: previous siblings until one matches *)
  Fixpoint prev_sib_c (src : A) (t : tree) (lf : list tree) (a : A) (up : ctx) (r : list tree) : option loc :=
    match lf with
    | [] => None
    | s :: lf' => if pat src (label s) then Some (s, Ctx lf' a up (t :: r))
                  else prev_sib_c src s lf' a up (t :: r)
    end.
  Definition prev_sib (l : loc) : option loc :=
    match snd l with
    | Top => None
    | Ctx lf a up r => prev_sib_c (lab l) (fst l) lf a up r
    end.

  (* getPreviousNode, level any: every node visited is tested against from, then count *)
  Definition prev_any (l : loc) : option loc := find_back (S (pos l)) (lab l) l.

  (* getMatchingAncestors: innermost first; the node itself is not tested against from; an
     ancestor matching from ends the search for level single and multiple alike *)
  Fixpoint ma_up (single : bool) (src : A) (t : tree) (c : ctx) : list loc :=
    match c with
    | Top => []
    | Ctx lf a up r =>
        let p := Node a (rev lf ++ t :: r) in
        if frm a then []
        else if pat src a then (p, up) :: (if single then [] else ma_up single src p up)
        else ma_up single src p up
    end.
  Definition matching_ancestors (single : bool) (l : loc) : list loc :=
    if pat (lab l) (lab l) then l :: (if single then [] else ma_up single (lab l) (fst l) (snd l))
    else ma_up single (lab l) (fst l) (snd l).

  (* -------------------------------------------------------------------------------------------
     getCountString with the counters table of the instruction.  Nodes are compared by [leqb]
     (pointer equality) and by document position (isNodeAfter). *)
  Variable leqb : loc -> loc -> bool.
  (* getPreviouslyCounted asks isNodeAfter(node, counted): the node comes after the counted node *)
  Definition lafter (c n : loc) : bool := pos c <? pos n.

  Definition cn_any (tbl : table loc) (l : loc) : option (table loc * nat) :=
    count_node loc leqb lafter target_any prev_any (S (pos l)) tbl l.
  Definition cn_sib (tbl : table loc) (l : loc) : option (table loc * nat) :=
    count_node loc leqb lafter target_sib prev_sib (S (pos l)) tbl l.

  Fixpoint count_list (tbl : table loc) (ls : list loc) : option (table loc * list nat) :=
    match ls with
    | [] => Some (tbl, [])
    | l :: r => match cn_sib tbl l with
                | None => None
                | Some (tbl1, n) => match count_list tbl1 r with
                                    | None => None
                                    | Some (tbl2, ns) => Some (tbl2, n :: ns)
                                    end
                end
    end.

  (* level: 0 = single, 1 = multiple, 2 = any *)
  Definition number_list (level : nat) (tbl : table loc) (l : loc) : option (table loc * list nat) :=
    match level with
    | 2 => match cn_any tbl l with
           | None => None
           | Some (tbl', n) => Some (tbl', if n =? 0 then [] else [n])
           end
    | _ => count_list tbl (rev (matching_ancestors (level =? 0) l))
    end.

  Fixpoint run_history (level : nat) (tbl : table loc) (h : list loc) : option (table loc * list (list nat)) :=
    match h with
    | [] => Some (tbl, [])
    | l :: r => match number_list level tbl l with
                | None => None
                | Some (tbl1, ns) => match run_history level tbl1 r with
                                     | None => None
                                     | Some (tbl2, out) => Some (tbl2, ns :: out)
                                     end
                end
    end.

  (* -------------------------------------------------------------------------------------------
     XSLT 1.0 section 7.7, declaratively, for an explicit count predicate cnt (labels only). *)
  Variable cnt : A -> bool.

  Definition count_matching (l : list A) : nat := length (filter cnt l).

  Fixpoint take_until_from (l : list A) : list A :=
    match l with [] => [] | x :: r => if frm x then [] else x :: take_until_from r end.

  (* level="any": matching nodes among self + preceding + ancestors, back to (excluding) the first
     node before the current node that matches from *)
  Definition spec_any (l : loc) : nat :=
    count_matching (lab l :: take_until_from (before (snd l))).

  (* level="single"/"multiple": ancestor-or-self chain innermost first as (label, preceding
     sibling labels), cut below the nearest proper ancestor matching from *)
  Fixpoint anc_chain (t : tree) (c : ctx) : list (A * list A) :=
    (label t, left_siblings c) ::
    match c with
    | Top => []
    | Ctx lf a up r => anc_chain (Node a (rev lf ++ t :: r)) up
    end.
  Fixpoint cut_at_from (l : list (A * list A)) : list (A * list A) :=
    match l with [] => [] | x :: r => if frm (fst x) then [] else x :: cut_at_from r end.
  Definition searched (l : loc) : list (A * list A) :=
    match anc_chain (fst l) (snd l) with
    | self :: ancs => self :: cut_at_from ancs
    | [] => []
    end.
  Definition number_of (x : A * list A) : nat := S (count_matching (snd x)).
  Definition spec_multiple (l : loc) : list nat :=
    rev (map number_of (filter (fun x => cnt (fst x)) (searched l))).
  Definition spec_single (l : loc) : list nat :=
    match filter (fun x => cnt (fst x)) (searched l) with
    | x :: _ => [number_of x]
    | [] => []
    end.
End Tree.

Arguments Node {A}. Arguments Top {A}. Arguments Ctx {A}.

(* ---------------------------------------------------------------------------------------------
   the label type used by the driver and the examples: (name class, count bit, from bit) *)
Definition lab3 := (N * bool * bool)%type.
Definition l3_name (x : lab3) : N := fst (fst x).
Definition l3_cnt (x : lab3) : bool := snd (fst x).
Definition l3_frm (x : lab3) : bool := snd x.
Definition lab3_eqb (x y : lab3) : bool :=
  N.eqb (l3_name x) (l3_name y) && Bool.eqb (l3_cnt x) (l3_cnt y) && Bool.eqb (l3_frm x) (l3_frm y).

(* explicit count attribute: the count bit; default: same name class as the source node *)
Definition pat3 (explicit : bool) (s x : lab3) : bool :=
  if explicit then l3_cnt x else N.eqb (l3_name s) (l3_name x).
Definition frm3 (has_from : bool) (x : lab3) : bool := has_from && l3_frm x.

Section Eqb.
  Variable A : Type.
  Variable aeqb : A -> A -> bool.
  Fixpoint tree_eqb (s t : tree A) : bool :=
    match s, t with
    | Node a ks, Node b ls =>
        aeqb a b && (fix go (ks ls : list (tree A)) : bool :=
                       match ks, ls with
                       | [], [] => true
                       | k :: ks', l :: ls' => tree_eqb k l && go ks' ls'
                       | _, _ => false
                       end) ks ls
    end.
  Fixpoint forest_eqb (ks ls : list (tree A)) : bool :=
    match ks, ls with
    | [], [] => true
    | k :: ks', l :: ls' => tree_eqb k l && forest_eqb ks' ls'
    | _, _ => false
    end.
  Fixpoint ctx_eqb (c d : ctx A) : bool :=
    match c, d with
    | Top, Top => true
    | Ctx l a u r, Ctx l' a' u' r' => forest_eqb l l' && aeqb a a' && ctx_eqb u u' && forest_eqb r r'
    | _, _ => false
    end.
  Definition loc_eqb (x y : loc A) : bool := tree_eqb (fst x) (fst y) && ctx_eqb (snd x) (snd y).
End Eqb.

(* the whole-document entry point of the driver: number the nodes with the given document-order
   indices, in that order, with one counters table *)
Definition run_doc (explicit has_from : bool) (level : nat) (doc : tree lab3) (order : list nat)
  : option (list (list nat)) :=
  let all := locs lab3 doc Top in
  let h := map (fun i => nth i all (doc, Top)) order in
  match run_history lab3 (pat3 explicit) (frm3 has_from) (loc_eqb lab3 lab3_eqb) level [] h with
  | Some (_, out) => Some out
  | None => None
  end.

Definition spec_doc (has_from : bool) (level : nat) (doc : tree lab3) (order : list nat) : list (list nat) :=
  let all := locs lab3 doc Top in
  map (fun i => let l := nth i all (doc, Top) in
                match level with
                | 2 => let n := spec_any lab3 (frm3 has_from) l3_cnt l in if n =? 0 then [] else [n]
                | 1 => spec_multiple lab3 (frm3 has_from) l3_cnt l
                | _ => spec_single lab3 (frm3 has_from) l3_cnt l
                end) order.
