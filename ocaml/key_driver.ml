(* model side of the C15 correspondence.  One case per line:
     <id> <world> <sheet> <probes>
   world  := tree (';' tree)*            tree := kind nat '(' tree* ')'     kind := d|e|t|c|p
   sheet  := '{' [decl ('|' decl)*] '}' '<' sheet* '>'
   decl   := str ':' [entry (',' entry)*]           entry := nat node '=' uval   (nat = document)
   node   := 'p' [nat ('.' nat)*] ['@' nat]          (child indices from the document node)
   uval   := 's' str | 'n' [str ('/' str)*]
   str    := 'u' [hex ('_' hex)*]                    (code points)
   probes := probe (';' probe)*          probe := nat ':' str ':' ('s' str | 'n' [str ('/' str)*])
   Output: <id> r;r;...   r := 'E' (unknown key) | 'F' (out of fuel) | 'N' [node (',' node)*] *)

exception Parse of string

let parse_case (s : string) =
  let pos = ref 0 in
  let len = String.length s in
  let peek () = if !pos < len then s.[!pos] else '\000' in
  let adv () = incr pos in
  let expect c = if peek () = c then adv () else raise (Parse (Printf.sprintf "expected %c at %d" c !pos)) in
  let is_digit c = c >= '0' && c <= '9' in
  let is_hex c = is_digit c || (c >= 'a' && c <= 'f') in
  let nat_int () =
    let st = !pos in
    while is_digit (peek ()) do adv () done;
    if !pos = st then raise (Parse (Printf.sprintf "number expected at %d" st));
    int_of_string (String.sub s st (!pos - st)) in
  let hex_int () =
    let st = !pos in
    while is_hex (peek ()) do adv () done;
    if !pos = st then raise (Parse (Printf.sprintf "hex expected at %d" st));
    int_of_string ("0x" ^ String.sub s st (!pos - st)) in
  let str () =
    expect 'u';
    if is_hex (peek ()) then begin
      let acc = ref [n_of_int (hex_int ())] in
      while peek () = '_' do adv (); acc := n_of_int (hex_int ()) :: !acc done;
      List.rev !acc
    end else [] in
  let strs () =            (* [str ('/' str)*] *)
    if peek () = 'u' then begin
      let acc = ref [str ()] in
      while peek () = '/' do adv (); acc := str () :: !acc done;
      List.rev !acc
    end else [] in
  let rec tree () =
    let k = match peek () with
      | 'd' -> KDoc | 'e' -> KElem | 't' -> KText | 'c' -> KComment | 'p' -> KPI
      | c -> raise (Parse (Printf.sprintf "kind expected at %d" !pos)) in
    adv ();
    let na = nat_int () in
    expect '(';
    let kids = ref [] in
    while peek () <> ')' do kids := tree () :: !kids done;
    expect ')';
    T (k, nat_of_int na, List.rev !kids) in
  let node () =
    expect 'p';
    let path = ref [] in
    if is_digit (peek ()) then begin
      path := [nat_int ()];
      while peek () = '.' do adv (); path := nat_int () :: !path done
    end;
    (* !path is innermost first already (we consed while reading root first) *)
    let rp = List.map nat_of_int !path in
    if peek () = '@' then begin adv (); let j = nat_int () in NAttr (rp, nat_of_int j) end
    else NSelf rp in
  let uval () =
    match peek () with
    | 's' -> adv (); UStr (str ())
    | 'n' -> adv (); UNodes (strs ())
    | _ -> raise (Parse (Printf.sprintf "uval expected at %d" !pos)) in
  let decl () =
    let name = str () in
    expect ':';
    let entries = ref [] in
    if is_digit (peek ()) then begin
      let e () = let d = nat_int () in let n = node () in expect '='; let u = uval () in ((nat_of_int d, n), u) in
      entries := [e ()];
      while peek () = ',' do adv (); entries := e () :: !entries done
    end;
    decl_of_table (name, List.rev !entries) in
  let rec sheet () =
    expect '{';
    let ds = ref [] in
    if peek () = 'u' then begin
      ds := [decl ()];
      while peek () = '|' do adv (); ds := decl () :: !ds done
    end;
    expect '}';
    expect '<';
    let imps = ref [] in
    while peek () = '{' do imps := sheet () :: !imps done;
    expect '>';
    Sheet (List.rev !ds, List.rev !imps) in
  let probe () =
    let d = nat_int () in
    expect ':';
    let name = str () in
    expect ':';
    let arg = match peek () with
      | 's' -> adv (); AStr (str ())
      | 'n' -> adv (); ANodes (strs ())
      | _ -> raise (Parse (Printf.sprintf "arg expected at %d" !pos)) in
    ((nat_of_int d, name), arg) in
  let world () =
    let acc = ref [tree ()] in
    while peek () = ';' do adv (); acc := tree () :: !acc done;
    List.rev !acc in
  let w = world () in
  expect ' ';
  let sh = sheet () in
  expect ' ';
  let ps = ref [probe ()] in
  while peek () = ';' do adv (); ps := probe () :: !ps done;
  (w, sh, List.rev !ps)

let show_node (n : node) : string =
  let path rp = String.concat "." (List.rev_map (fun i -> string_of_int (int_of_nat i)) rp) in
  match n with
  | NSelf rp -> "p" ^ path rp
  | NAttr (rp, j) -> "p" ^ path rp ^ "@" ^ string_of_int (int_of_nat j)

let show_result (r : result) : string =
  match r with
  | OutOfFuel -> "F"
  | UnknownKey -> "E"
  | Nodes l -> "N" ^ String.concat "," (List.map show_node l)

let () =
  let ic = if Array.length Sys.argv > 1 then open_in Sys.argv.(1) else stdin in
  iter_lines ic (fun line ->
    match String.index_opt line ' ' with
    | None -> ()
    | Some i ->
        let id = String.sub line 0 i in
        let rest = String.sub line (i + 1) (String.length line - i - 1) in
        (try
           let (w, sh, ps) = parse_case rest in
           let rs = run_case w sh ps in
           Printf.printf "%s %s\n" id (String.concat ";" (List.map show_result rs))
         with Parse m -> Printf.printf "%s PARSE-ERROR %s\n" id m))
