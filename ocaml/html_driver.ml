(* model side of the C08 "html" correspondence: the H and HN lines of harness/outopt.cpp (HN = a prefix resolver is set)
     H <id> <enc> <indent:-1> <escapeURLs:0|1> <omitMeta:0|1> <dtsys:-|u:..> <dtpub:-|u:..> <event>*
   Output: "<id> ok <u:units> <guard|noguard> <parse>"  (units = UTF-16 code units the serializer hands to the output
           stream; guard = html_ok holds; parse = the model reader applied to the units: "same" when it returns norm of
           the tree, "diff"/"none" otherwise)
         | "<id> err"       (the model says an exception is thrown)
         | "<id> badscript" *)
let ascii (s : string) : n list = List.init (String.length s) (fun i -> n_of_int (Char.code s.[i]))

(* event script -> forest *)
let forest (t : string list) : hnode list =
  let rec nodes (t : string list) (acc : hnode list) : hnode list * string list =
    match t with
    | [] -> (List.rev acc, [])
    | "E" :: _ :: _ -> (List.rev acc, t)
    | "S" :: name :: n :: r ->
        let n = int_of_string n in
        let rec attrs k r a =
          if k = 0 then (List.rev a, r) else
          match r with
          | x :: v :: r' -> attrs (k - 1) r' ((u16_of_token x, u16_of_token v) :: a)
          | _ -> failwith "bad script" in
        let (al, r') = attrs n r [] in
        let (kids, r'') = nodes r' [] in
        (match r'' with
         | "E" :: _ :: r3 -> nodes r3 (HEl (u16_of_token name, al, kids) :: acc)
         | _ -> failwith "bad script")
    | "T" :: s :: r -> nodes r (HText (u16_of_token s) :: acc)
    | "M" :: s :: r -> nodes r (HComment (u16_of_token s) :: acc)
    | "P" :: a :: b :: r -> nodes r (HPI (u16_of_token a, u16_of_token b) :: acc)
    | _ -> failwith "bad script" in
  match nodes t [] with
  | (l, []) -> l
  | _ -> failwith "bad script"

let opt (s : string) : n list =
  if s = "-" then [] else if String.length s >= 2 && String.sub s 0 2 = "u:" then u16_of_token s else ascii s

let maxc_of = function
  | "UTF-8" | "UTF-16" -> 0xFFFF | "ISO-8859-1" -> 0xFF | "US-ASCII" -> 0x7F
  | _ -> failwith "encoding"

let () =
  let ic = if Array.length Sys.argv > 1 then open_in Sys.argv.(1) else stdin in
  iter_lines ic (fun line ->
    match split_ws line with
    | (("H" | "HN") as mode) :: id :: enc :: ind :: esc :: ometa :: dsys :: dpub :: rest ->
        (try
          if int_of_string ind >= 0 then failwith "indent";
          let c = { maxc = n_of_int (maxc_of enc); esc_urls = (esc = "1"); omit_meta = (ometa = "1"); enc_name = ascii enc;
                    dt_sys = opt dsys; dt_pub = opt dpub } in
          let doc = forest rest in
          let res = (mode = "HN") in
          (* the model with the scratch string and the namespace bookkeeping; H = no prefix resolver, HN = resolver set *)
          (match serialize_html_b push_has_namespace_clears_buffer res c doc with
           | Some (l, buf) ->
               let plain = List.for_all no_decls doc in
               let g = html_ok c doc && plain in
               let p = (match parse_html l with
                        | Some f -> if f = List.map (norm c) doc then "same" else "diff"
                        | None -> "none") in
               (* without namespace declarations the buffer-free model of the theorems must give the same units *)
               let eq = (not plain) || (serialize_html c doc = Some l) in
               Printf.printf "%s ok %s %s %s%s%s\n" id (token_of_u16 l) (if g then "guard" else "noguard") p
                 (if buf = [] then "" else "+dirty") (if eq then "" else "+noteq")
           | None -> Printf.printf "%s err\n" id)
        with Failure m -> Printf.printf "%s badscript\n" id)
    | _ -> ())
