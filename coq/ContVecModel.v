(* ContVecModel.v — proofs about the XalanVector model: every operation's element shifting equals the
   list specification, the allocation always covers the size, in-capacity inserts keep the
   allocation (so iterators stay valid), and the refinement of whole op sequences. *)
From Coq Require Import List Arith Bool Lia.
Require Import XV.GenCont XV.ContVecDefs.
Import ListNotations.

(* ---------------------------------------------------------------------------------------------- *)
(* list toolkit *)
Lemma firstn_app_l : forall (n : nat) (a b : list nat), n <= length a -> firstn n (a ++ b) = firstn n a.
Proof. intros. rewrite firstn_app. replace (n - length a) with 0 by lia. simpl. apply app_nil_r. Qed.

Lemma firstn_app_r : forall (n : nat) (a b : list nat), length a <= n -> firstn n (a ++ b) = a ++ firstn (n - length a) b.
Proof. intros. rewrite firstn_app. rewrite firstn_all2 by lia. reflexivity. Qed.

Lemma skipn_app_l : forall (n : nat) (a b : list nat), n <= length a -> skipn n (a ++ b) = skipn n a ++ b.
Proof. intros. rewrite skipn_app. replace (n - length a) with 0 by lia. reflexivity. Qed.

Lemma skipn_app_r : forall (n : nat) (a b : list nat), length a <= n -> skipn n (a ++ b) = skipn (n - length a) b.
Proof. intros. rewrite skipn_app. rewrite skipn_all2 by lia. reflexivity. Qed.

Lemma skipn_skipn' : forall b a (l : list nat), skipn a (skipn b l) = skipn (a + b) l.
Proof.
  induction b; intros; simpl.
  - rewrite Nat.add_0_r. reflexivity.
  - rewrite Nat.add_succ_r. destruct l; simpl; [destruct a; reflexivity | apply IHb].
Qed.

Lemma sub_0 : forall p l, sub 0 p l = firstn p l.
Proof. intros. unfold sub. simpl. rewrite Nat.sub_0_r. reflexivity. Qed.

Lemma sub_to_end : forall p l, sub p (length l) l = skipn p l.
Proof. intros. unfold sub. apply firstn_all2. rewrite skipn_length. lia. Qed.

Lemma sub_length : forall a b l, a <= b -> b <= length l -> length (sub a b l) = b - a.
Proof. intros. unfold sub. rewrite firstn_length_le; [reflexivity | rewrite skipn_length; lia]. Qed.

Lemma blit_length : forall s o l, o + length s <= length l -> length (blit s o l) = length l.
Proof.
  intros. unfold blit. rewrite !app_length, skipn_length, firstn_length_le by lia. lia.
Qed.

Lemma removelast_firstn' : forall l : list nat, removelast l = firstn (length l - 1) l.
Proof. intros. rewrite removelast_firstn_len. f_equal. lia. Qed.

(* ---------------------------------------------------------------------------------------------- *)
(* data of the primitive steps *)
Lemma copy_with_data : forall v c, vdata (copy_with v c) = vdata v.
Proof.
  intros. unfold copy_with. destruct (0 <? vsize v) eqn:E; simpl; [reflexivity|].
  apply Nat.ltb_ge in E. unfold vsize in E. destruct (vdata v); simpl in *; [reflexivity | lia].
Qed.

Lemma push_data : forall v x, vdata (do_push_back v x) = vdata v ++ [x].
Proof.
  intros. unfold do_push_back. destruct (vsize v <? vcap v); simpl; [reflexivity|].
  destruct (vsize v =? 0) eqn:E; simpl.
  - apply Nat.eqb_eq in E. unfold vsize in E. destruct (vdata v); simpl in *; [reflexivity | lia].
  - rewrite copy_with_data. reflexivity.
Qed.

Lemma push_all_data : forall xs v, vdata (push_all v xs) = vdata v ++ xs.
Proof.
  induction xs; intros; simpl; [symmetry; apply app_nil_r|].
  unfold push_all in *. simpl. rewrite IHxs, push_data, <- app_assoc. reflexivity.
Qed.

Lemma pop_n_data : forall n v, vdata (pop_n n v) = firstn (length (vdata v) - n) (vdata v).
Proof.
  induction n; intros; simpl.
  - rewrite Nat.sub_0_r, firstn_all. reflexivity.
  - rewrite IHn. simpl. rewrite removelast_firstn', firstn_firstn, firstn_length.
    f_equal. lia.
Qed.

Lemma pop_n_cap : forall n v, vcap (pop_n n v) = vcap v.
Proof. induction n; intros; simpl; [reflexivity | rewrite IHn; reflexivity]. Qed.

Lemma reserve_data : forall v n, vdata (reserve v n) = vdata v.
Proof. intros. unfold reserve. destruct (vcap v <? n); [apply copy_with_data | reflexivity]. Qed.

Lemma clear_data : forall v, vdata (clear v) = [].
Proof.
  intros. unfold clear. destruct (0 <? vsize v) eqn:E.
  - rewrite pop_n_data. unfold vsize. rewrite Nat.sub_diag. reflexivity.
  - apply Nat.ltb_ge in E. unfold vsize in E. destruct (vdata v); simpl in *; [reflexivity | lia].
Qed.

Lemma clear_cap : forall v, vcap (clear v) = vcap v.
Proof. intros. unfold clear. destruct (0 <? vsize v); [apply pop_n_cap | reflexivity]. Qed.

(* ---------------------------------------------------------------------------------------------- *)
(* growth: the new allocation is strictly larger (constants from GenCont.v) *)
Lemma grow_cap_gt : forall s, 1 <= s -> s < grow_cap s.
Proof.
  intros. unfold grow_cap. apply Nat.div_le_lower_bound.
  - unfold vec_grow_den. lia.
  - unfold vec_grow_den, vec_grow_num, vec_grow_round. lia.
Qed.

Definition wf (v : vec) : Prop := vsize v <= vcap v.

Lemma copy_with_wf : forall v c, wf (copy_with v c).
Proof.
  intros. unfold wf, copy_with. destruct (0 <? vsize v) eqn:E; unfold vsize; simpl; lia.
Qed.

Lemma push_wf : forall v x, wf v -> wf (do_push_back v x).
Proof.
  unfold wf, do_push_back. intros. destruct (vsize v <? vcap v) eqn:E1.
  - apply Nat.ltb_lt in E1. unfold vsize in *. simpl. rewrite app_length. simpl. lia.
  - destruct (vsize v =? 0) eqn:E2; unfold vsize; simpl; [lia|].
    apply Nat.eqb_neq in E2. rewrite app_length, copy_with_data. simpl.
    unfold copy_with. assert (0 <? vsize v = true) as -> by (apply Nat.ltb_lt; lia). simpl.
    pose proof (grow_cap_gt (vsize v)). unfold vsize in *. lia.
Qed.

Lemma push_growth : forall v x, 1 <= vsize v -> vsize v = vcap v ->
  vcap (do_push_back v x) = grow_cap (vsize v) /\ vsize v < grow_cap (vsize v).
Proof.
  intros v x H E. pose proof (grow_cap_gt (vsize v) H) as G. split; [|assumption].
  unfold do_push_back. assert (vsize v <? vcap v = false) as -> by (apply Nat.ltb_ge; lia).
  assert (vsize v =? 0 = false) as -> by (apply Nat.eqb_neq; lia). simpl.
  unfold copy_with. assert (0 <? vsize v = true) as -> by (apply Nat.ltb_lt; lia). simpl. lia.
Qed.

Lemma push_all_wf : forall xs v, wf v -> wf (push_all v xs).
Proof. induction xs; intros; simpl; [assumption|]. apply IHxs, push_wf, H. Qed.

Lemma push_cap_within : forall v x, vsize v < vcap v -> vcap (do_push_back v x) = vcap v.
Proof. intros. unfold do_push_back. apply Nat.ltb_lt in H. rewrite H. reflexivity. Qed.

Lemma push_all_cap_within : forall xs v, vsize v + length xs <= vcap v -> vcap (push_all v xs) = vcap v.
Proof.
  induction xs; intros; simpl in *; [reflexivity|].
  unfold push_all in *. simpl. rewrite IHxs.
  - apply push_cap_within. lia.
  - rewrite push_cap_within by lia. unfold vsize in *. rewrite push_data, app_length. simpl. lia.
Qed.

Lemma pop_n_wf : forall n v, wf v -> wf (pop_n n v).
Proof.
  unfold wf, vsize. intros. rewrite pop_n_data, pop_n_cap, firstn_length. lia.
Qed.

Lemma reserve_wf : forall v n, wf v -> wf (reserve v n).
Proof. intros. unfold reserve. destruct (vcap v <? n); [apply copy_with_wf | assumption]. Qed.

Lemma reserve_cap : forall v n, wf v -> n <= vcap (reserve v n).
Proof.
  intros. unfold reserve. destruct (vcap v <? n) eqn:E.
  - unfold copy_with. destruct (0 <? vsize v); simpl; lia.
  - apply Nat.ltb_ge in E. lia.
Qed.

(* ---------------------------------------------------------------------------------------------- *)
(* insert: all three paths produce the list specification *)
Lemma insert_list_data : forall fill v pos src, pos <= vsize v ->
  vdata (insert_list fill v pos src) = ins_spec pos src (vdata v).
Proof.
  intros fill v pos src Hpos. unfold insert_list, ins_spec, vsize in *.
  set (l := vdata v) in *. set (n := length src). set (sz := length l) in *.
  destruct (negb fill && (n =? 0)) eqn:E0.
  { apply andb_prop in E0. destruct E0 as [_ E0]. apply Nat.eqb_eq in E0. subst n.
    destruct src; simpl in *; [|lia]. fold l. symmetry. apply firstn_skipn. }
  destruct (pos =? sz) eqn:E1.
  { apply Nat.eqb_eq in E1. simpl. rewrite reserve_data. fold l. subst pos. unfold sz.
    rewrite firstn_all, skipn_all. rewrite app_nil_r. reflexivity. }
  apply Nat.eqb_neq in E1.
  destruct (vcap v <? sz + n) eqn:E2.
  { simpl. rewrite sub_0. unfold sz. rewrite sub_to_end. reflexivity. }
  destruct (sz - pos <=? n) eqn:E3.
  - apply Nat.leb_le in E3. simpl.
    rewrite !push_all_data. fold l.
    assert (Hsub : sub pos sz (l ++ skipn (sz - pos) src) = skipn pos l).
    { unfold sub. rewrite skipn_app_l by (fold sz; lia).
      rewrite firstn_app_l by (rewrite skipn_length; fold sz; lia).
      apply firstn_all2. rewrite skipn_length. fold sz. lia. }
    rewrite Hsub. unfold blit. rewrite <- !app_assoc.
    rewrite firstn_length_le by (fold n; lia).
    rewrite firstn_app_l by (fold sz; lia).
    replace (pos + (sz - pos)) with (length l) by (fold sz; lia).
    rewrite skipn_app_r by lia. rewrite Nat.sub_diag. simpl.
    rewrite <- (firstn_skipn (sz - pos) src) at 3. rewrite <- !app_assoc. reflexivity.
  - apply Nat.leb_gt in E3. simpl. rewrite push_all_data. fold l.
    set (l1 := l ++ sub (sz - n) sz l).
    assert (Hl1 : length l1 = sz + n).
    { unfold l1. rewrite app_length, sub_length; fold sz; lia. }
    assert (Hs : length (sub pos (sz - n) l1) = sz - n - pos).
    { apply sub_length; lia. }
    unfold blit at 1. fold n.
    set (d2 := blit (sub pos (sz - n) l1) (pos + n) l1).
    assert (Hd2 : length d2 = sz + n) by (unfold d2; rewrite blit_length; lia).
    assert (F : firstn pos d2 = firstn pos l).
    { unfold d2, blit. rewrite firstn_app_l by (rewrite firstn_length_le; lia).
      rewrite firstn_firstn. replace (Nat.min pos (pos + n)) with pos by lia.
      unfold l1. apply firstn_app_l. fold sz. lia. }
    assert (S : skipn (pos + n) d2 = skipn pos l).
    { unfold d2, blit. rewrite skipn_app_r by (rewrite firstn_length_le; lia).
      rewrite firstn_length_le by lia. rewrite Nat.sub_diag. simpl.
      rewrite Hs. replace (pos + n + (sz - n - pos)) with (length l) by (fold sz; lia).
      unfold l1 at 2. rewrite skipn_app_r by lia. rewrite Nat.sub_diag. simpl.
      (* sub pos (sz-n) l1 ++ sub (sz-n) sz l = skipn pos l *)
      unfold sub, l1. rewrite skipn_app_l by (fold sz; lia).
      rewrite firstn_app_l by (rewrite skipn_length; fold sz; lia).
      rewrite (firstn_all2 (skipn (sz - n) l)) by (rewrite skipn_length; fold sz; lia).
      replace (skipn (sz - n) l) with (skipn (sz - n - pos) (skipn pos l))
        by (rewrite skipn_skipn'; f_equal; lia).
      apply firstn_skipn. }
    rewrite F, S. reflexivity.
Qed.

Lemma insert_list_wf : forall fill v pos src, wf v -> pos <= vsize v -> wf (insert_list fill v pos src).
Proof.
  intros fill v pos src Hwf Hpos.
  pose proof (insert_list_data fill v pos src Hpos) as D.
  unfold wf, vsize in *. rewrite D. unfold ins_spec.
  rewrite !app_length, firstn_length_le, skipn_length by lia.
  unfold insert_list, vsize in *.
  destruct (negb fill && (length src =? 0)) eqn:E0.
  { apply andb_prop in E0. destruct E0 as [_ E0]. apply Nat.eqb_eq in E0. lia. }
  destruct (pos =? length (vdata v)) eqn:E1.
  { simpl. pose proof (reserve_cap v (length (vdata v) + length src) Hwf). lia. }
  destruct (vcap v <? length (vdata v) + length src) eqn:E2; [simpl; lia|].
  apply Nat.ltb_ge in E2.
  destruct (length (vdata v) - pos <=? length src) eqn:E3; simpl.
  - apply Nat.leb_le in E3. rewrite !push_all_cap_within.
    + lia.
    + unfold vsize. rewrite skipn_length. lia.
    + rewrite push_all_cap_within by (unfold vsize; rewrite skipn_length; lia).
      unfold vsize. rewrite push_all_data, app_length, skipn_length, sub_length.
      * lia.
      * lia.
      * rewrite app_length, skipn_length. lia.
  - apply Nat.leb_gt in E3. rewrite push_all_cap_within; [lia|].
    unfold vsize. rewrite sub_length; lia.
Qed.

(* an insert that fits the allocation never reallocates: iterators (and the position returned by
   insert(pos, value)) stay valid *)
Lemma insert_in_capacity_keeps_cap : forall fill v pos src,
  pos <= vsize v -> vsize v + length src <= vcap v -> vcap (insert_list fill v pos src) = vcap v.
Proof.
  intros fill v pos src Hpos Hfit. unfold insert_list, vsize in *.
  destruct (negb fill && (length src =? 0)); [reflexivity|].
  destruct (pos =? length (vdata v)) eqn:E1.
  { simpl. unfold reserve. assert (vcap v <? length (vdata v) + length src = false) as -> by (apply Nat.ltb_ge; lia). reflexivity. }
  assert (vcap v <? length (vdata v) + length src = false) as -> by (apply Nat.ltb_ge; lia).
  apply Nat.eqb_neq in E1.
  destruct (length (vdata v) - pos <=? length src) eqn:E3; simpl.
  - apply Nat.leb_le in E3. rewrite !push_all_cap_within.
    + reflexivity.
    + unfold vsize. rewrite skipn_length. lia.
    + rewrite push_all_cap_within by (unfold vsize; rewrite skipn_length; lia).
      unfold vsize. rewrite push_all_data, app_length, skipn_length, sub_length.
      * lia.
      * lia.
      * rewrite app_length, skipn_length. lia.
  - apply Nat.leb_gt in E3. rewrite push_all_cap_within; [reflexivity|].
    unfold vsize. rewrite sub_length; lia.
Qed.

Lemma erase_range_data : forall v a b, a <= b -> b <= vsize v ->
  vdata (erase_range v a b) = erase_spec a b (vdata v).
Proof.
  intros v a b Hab Hb. unfold erase_range, erase_spec, vsize in *.
  destruct (a =? b) eqn:E.
  { apply Nat.eqb_eq in E. subst. symmetry. apply firstn_skipn. }
  apply Nat.eqb_neq in E. rewrite pop_n_data. simpl.
  set (l := vdata v) in *. rewrite sub_to_end.
  rewrite blit_length by (rewrite skipn_length; lia).
  unfold blit. rewrite firstn_app_r by (rewrite firstn_length_le; lia).
  rewrite firstn_length_le by lia.
  rewrite firstn_app_l by (rewrite skipn_length; lia).
  f_equal. apply firstn_all2. rewrite skipn_length. lia.
Qed.

Lemma erase_range_wf : forall v a b, wf v -> a <= b -> b <= vsize v -> wf (erase_range v a b).
Proof.
  intros v a b W Hab Hb. pose proof (erase_range_data v a b Hab Hb) as D.
  unfold wf, vsize in *. rewrite D. unfold erase_spec.
  rewrite app_length, firstn_length_le, skipn_length by lia.
  unfold erase_range. destruct (a =? b); [lia|]. rewrite pop_n_cap. simpl. lia.
Qed.

Lemma resize_data : forall v n x, vdata (resize v n x) = resize_spec n x (vdata v).
Proof.
  intros. unfold resize, resize_spec, vsize. destruct (n <? length (vdata v)) eqn:E1.
  - apply Nat.ltb_lt in E1. rewrite pop_n_data. replace (n - length (vdata v)) with 0 by lia.
    simpl. rewrite app_nil_r. f_equal. lia.
  - apply Nat.ltb_ge in E1. destruct (length (vdata v) <? n) eqn:E2; simpl.
    + rewrite reserve_data, firstn_all2 by lia. reflexivity.
    + apply Nat.ltb_ge in E2. replace (n - length (vdata v)) with 0 by lia. simpl.
      rewrite firstn_all2 by lia. symmetry. apply app_nil_r.
Qed.

Lemma resize_wf : forall v n x, wf v -> wf (resize v n x).
Proof.
  intros. unfold resize. destruct (n <? vsize v) eqn:E1; [apply pop_n_wf; assumption|].
  destruct (vsize v <? n) eqn:E2; [|assumption].
  apply Nat.ltb_lt in E2. unfold wf, vsize in *. simpl.
  rewrite app_length, repeat_length, reserve_data.
  pose proof (reserve_cap v n H). lia.
Qed.

Lemma clear_wf : forall v, wf v -> wf (clear v).
Proof. intros. unfold clear. destruct (0 <? vsize v); [apply pop_n_wf|]; assumption. Qed.

Lemma blit_all : forall (s l : list nat), length s = length l -> blit s 0 l = s.
Proof.
  intros. unfold blit. simpl. rewrite skipn_all2 by lia. apply app_nil_r.
Qed.

Lemma assign_from_data : forall v r, vdata (assign_from v r) = vdata r.
Proof.
  intros. unfold assign_from, vsize.
  destruct (vcap v <? length (vdata r)); [apply copy_with_data|].
  destruct (length (vdata r) <? length (vdata v)) eqn:E1.
  { apply Nat.ltb_lt in E1. simpl. apply blit_all. rewrite pop_n_data, firstn_length. lia. }
  apply Nat.ltb_ge in E1.
  destruct (length (vdata v) <? length (vdata r)) eqn:E2; simpl.
  - apply Nat.ltb_lt in E2. rewrite insert_list_data by (unfold vsize; lia).
    unfold ins_spec, blit. simpl. rewrite firstn_all, skipn_all, sub_to_end, sub_0. simpl.
    rewrite firstn_length_le by lia. rewrite skipn_app_r by lia. rewrite Nat.sub_diag. simpl.
    rewrite app_nil_r. apply firstn_skipn.
  - apply Nat.ltb_ge in E2. apply blit_all. lia.
Qed.

Lemma assign_from_wf : forall v r, wf v -> wf (assign_from v r).
Proof.
  intros v r H. pose proof (assign_from_data v r) as D. unfold wf, vsize in *. rewrite D.
  unfold assign_from, vsize.
  destruct (vcap v <? length (vdata r)) eqn:E0.
  { unfold copy_with, vsize. destruct (0 <? length (vdata r)) eqn:E; simpl; [lia|]. apply Nat.ltb_ge in E. lia. }
  apply Nat.ltb_ge in E0.
  destruct (length (vdata r) <? length (vdata v)) eqn:E1; simpl; [rewrite pop_n_cap; lia|].
  apply Nat.ltb_ge in E1.
  destruct (length (vdata v) <? length (vdata r)) eqn:E2; simpl; [|lia].
  apply Nat.ltb_lt in E2. rewrite insert_in_capacity_keeps_cap.
  - lia.
  - unfold vsize. lia.
  - unfold vsize. rewrite sub_length; lia.
Qed.

(* ---------------------------------------------------------------------------------------------- *)
(* refinement of op sequences *)
Definition vrel (s : vstate) (t : lstate) : Prop :=
  vdata (reg0 s) = l0 t /\ vdata (reg1 s) = l1 t /\ vcur s = lcur t.
Definition vinv (s : vstate) : Prop := wf (reg0 s) /\ wf (reg1 s).

Lemma cur_rel : forall s t, vrel s t -> vdata (cur_vec s) = cur_l t.
Proof. intros s t (A & B & C). unfold cur_vec, cur_l. rewrite C. destruct (lcur t); assumption. Qed.
Lemma oth_rel : forall s t, vrel s t -> vdata (oth_vec s) = oth_l t.
Proof. intros s t (A & B & C). unfold oth_vec, oth_l. rewrite C. destruct (lcur t); assumption. Qed.
Lemma set_cur_rel : forall s t v l, vrel s t -> vdata v = l -> vrel (set_cur s v) (set_cur_l t l).
Proof.
  intros s t v l (A & B & C) D. unfold set_cur, set_cur_l, vrel. rewrite C.
  destruct (lcur t); simpl; auto.
Qed.
Lemma set_oth_rel : forall s t v l, vrel s t -> vdata v = l -> vrel (set_oth s v) (set_oth_l t l).
Proof.
  intros s t v l (A & B & C) D. unfold set_oth, set_oth_l, vrel. rewrite C.
  destruct (lcur t); simpl; auto.
Qed.
Lemma cur_wf : forall s, vinv s -> wf (cur_vec s).
Proof. intros s (A & B). unfold cur_vec. destruct (vcur s); assumption. Qed.
Lemma oth_wf : forall s, vinv s -> wf (oth_vec s).
Proof. intros s (A & B). unfold oth_vec. destruct (vcur s); assumption. Qed.
Lemma set_cur_inv : forall s v, vinv s -> wf v -> vinv (set_cur s v).
Proof. intros s v (A & B) C. unfold set_cur, vinv. destruct (vcur s); simpl; auto. Qed.
Lemma set_oth_inv : forall s v, vinv s -> wf v -> vinv (set_oth s v).
Proof. intros s v (A & B) C. unfold set_oth, vinv. destruct (vcur s); simpl; auto. Qed.

Lemma set_nth_length : forall i x l, length (set_nth i x l) = length l.
Proof. induction i; destruct l; simpl; auto. Qed.

Ltac step_cur := 
  split; [reflexivity | split; [apply set_cur_rel; [assumption|] | apply set_cur_inv; [assumption|]]].

Lemma vstep_refines : forall s t o, vrel s t -> vinv s ->
  match vstep s o, lstep t o with
  | None, None => True
  | Some (s', r), Some (t', r') => r = r' /\ vrel s' t' /\ vinv s'
  | _, _ => False
  end.
Proof.
  intros s t o R I.
  pose proof (cur_rel s t R) as C. pose proof (oth_rel s t R) as O.
  pose proof (cur_wf s I) as W. pose proof (oth_wf s I) as WO.
  assert (N : vsize (cur_vec s) = length (cur_l t)) by (unfold vsize; rewrite C; reflexivity).
  destruct o; unfold vstep, lstep; rewrite ?N.
  - (* push *) step_cur. rewrite push_data, C; reflexivity. apply push_wf, W.
  - destruct (length (cur_l t) =? 0); [exact Logic.I|]. step_cur.
    simpl; rewrite C; reflexivity. apply (pop_n_wf 1), W.
  - destruct (length (cur_l t) <? p) eqn:E; [exact Logic.I|]. apply Nat.ltb_ge in E.
    step_cur. rewrite insert_list_data, C by lia; reflexivity. apply insert_list_wf; [assumption | lia].
  - destruct (length (cur_l t) <? p) eqn:E; [exact Logic.I|]. apply Nat.ltb_ge in E.
    step_cur. rewrite insert_list_data, C by lia; reflexivity. apply insert_list_wf; [assumption | lia].
  - destruct (length (cur_l t) <? p) eqn:E; [exact Logic.I|]. apply Nat.ltb_ge in E.
    step_cur. rewrite insert_list_data, C by lia; reflexivity. apply insert_list_wf; [assumption | lia].
  - destruct (p <? length (cur_l t)) eqn:E; [|exact Logic.I]. apply Nat.ltb_lt in E.
    step_cur. rewrite erase_range_data, C by lia; reflexivity. apply erase_range_wf; [exact W | lia | lia].
  - destruct ((a <=? b) && (b <=? length (cur_l t))) eqn:E; [|exact Logic.I].
    apply andb_prop in E. destruct E as [E1 E2]. apply Nat.leb_le in E1, E2.
    step_cur. rewrite erase_range_data, C by lia; reflexivity. apply erase_range_wf; [exact W | lia | lia].
  - step_cur. rewrite resize_data, C; reflexivity. apply resize_wf, W.
  - step_cur. rewrite reserve_data; exact C. apply reserve_wf, W.
  - step_cur. apply clear_data. apply clear_wf, W.
  - step_cur.
    + unfold assign_range. rewrite insert_list_data by lia. rewrite clear_data. unfold ins_spec. simpl. apply app_nil_r.
    + unfold assign_range. apply insert_list_wf; [apply clear_wf, W | lia].
  - rewrite C. auto.
  - rewrite C. destruct (i <? length (cur_l t)); auto.
  - destruct (i <? length (cur_l t)); [|exact Logic.I]. step_cur.
    simpl; rewrite C; reflexivity. unfold wf, vsize in *. simpl. rewrite set_nth_length. assumption.
  - rewrite C. destruct (length (cur_l t) =? 0); auto.
  - rewrite C. destruct (length (cur_l t) =? 0); auto.
  - rewrite C. auto.
  - split; [reflexivity|]. split; [apply set_oth_rel; [assumption | rewrite copy_with_data; exact C] | apply set_oth_inv; [assumption | apply copy_with_wf]].
  - step_cur. rewrite assign_from_data; exact O. apply assign_from_wf, W.
  - auto.
  - destruct R as (A & B & D). destruct I as (I0 & I1). unfold vrel, vinv. simpl. auto.
  - destruct R as (A & B & D). destruct I as (I0 & I1). unfold vrel, vinv. simpl. auto.
  - step_cur. reflexivity. unfold wf, vsize. simpl. lia.
  - step_cur.
    + unfold ctor_fill. rewrite insert_list_data by (unfold vsize; simpl; lia). unfold ins_spec. simpl. apply app_nil_r.
    + unfold ctor_fill. apply insert_list_wf; unfold wf, vsize; simpl; lia.
  - step_cur.
    + unfold ctor_range. rewrite insert_list_data by (unfold vsize; simpl; lia). unfold ins_spec. simpl. apply app_nil_r.
    + unfold ctor_range. apply insert_list_wf; unfold wf, vsize; simpl; lia.
  - destruct ((p <=? length (cur_l t)) && (i <? length (cur_l t))) eqn:E; [|exact Logic.I].
    apply andb_prop in E. destruct E as [E1 E2]. apply Nat.leb_le in E1.
    step_cur. unfold insert_alias. rewrite insert_list_data, C by lia; reflexivity.
    unfold insert_alias. apply insert_list_wf; [assumption | lia].
  - destruct (i <? length (cur_l t)); [|exact Logic.I]. step_cur. rewrite resize_data, C; reflexivity. apply resize_wf, W.
  - destruct (i <? length (cur_l t)); [|exact Logic.I]. step_cur. rewrite push_data, C; reflexivity. apply push_wf, W.
  - step_cur.
    + rewrite insert_list_data by lia. rewrite clear_data. unfold ins_spec. simpl. apply app_nil_r.
    + apply insert_list_wf; [apply clear_wf, W | lia].
Qed.

Lemma vrun_refines : forall ops s t, vrel s t -> vinv s ->
  map strip_cap (vrun s ops) = lrun t ops /\ vinv (vfinal s ops).
Proof.
  induction ops; intros s t R I; simpl; [auto|].
  pose proof (vstep_refines s t a R I) as H.
  destruct (vstep s a) as [[s' r]|]; destruct (lstep t a) as [[t' r']|]; try contradiction.
  - destruct H as (-> & R' & I'). destruct (IHops s' t' R' I') as (E & F).
    simpl. rewrite E. split; [|assumption].
    f_equal. f_equal. f_equal.
    + f_equal. unfold vsize. rewrite (cur_rel s' t' R'). reflexivity.
    + apply (cur_rel s' t' R').
  - destruct (IHops s t R I) as (E & F). simpl. rewrite E. auto.
Qed.

Theorem vector_refines_list_lemma : forall ops,
  map strip_cap (vrun vinit ops) = lrun linit ops /\
  vsize (reg0 (vfinal vinit ops)) <= vcap (reg0 (vfinal vinit ops)) /\
  vsize (reg1 (vfinal vinit ops)) <= vcap (reg1 (vfinal vinit ops)).
Proof.
  intros. apply vrun_refines.
  - unfold vrel. simpl. auto.
  - unfold vinv, wf, vsize. simpl. lia.
Qed.

