(* XpCpDefs.v -- the string functions of XPath 1.0 over CHARACTERS (part "codepoints" of C02,
   known finding K6 and its repair).

   XPath 1.0, sections 3.6 / 4.2: "a character in a string is a Unicode character", and a
   surrogate pair is ONE character.  Xalan-C stores strings as UTF-16 code units; before the
   repair string-length(), substring() and translate() counted, indexed and mapped code units
   (f_substring / f_translate / [length] of XpDefs.v).  The repaired code
   (XPath/XPathCharacters.hpp, FormatterStringLengthCounter::characters/getCharacterCount,
   FunctionSubstring::execute, FunctionTranslate::execute) works on characters: a well-formed
   pair (high surrogate followed by low surrogate) is one character, every other code unit --
   an unpaired surrogate included -- is a character of its own.

   This file has, definitions only:
     - the specification side: [decode] (UTF-16 units -> code points, total) and [encode];
     - the functions AS THE REPAIRED CODE COMPUTES THEM: [count_pairs] (countPairs),
       [units_of_first], [units_of] (unitsOf), [cp_length], [cp_substring], [cp_translate],
       the chunk-wise length counter [counter_characters] (one call per characters() event);
     - the functions of this tree: the repaired or the old ones according to the flags that
       translator/gen_xpcp.py regenerates from /repo (GenXpCp.v), and a wrapper of the whole
       expression evaluator of XpDefs.v that uses them. *)
From Coq Require Import ZArith NArith List Bool Arith SpecFloat.
Require Import XV.GenNum XV.NumDefs XV.XpAst XV.DomDefs XV.XpDefs.
Import ListNotations.

(** * surrogates *)
Definition is_high (u : N) : bool := (55296 <=? u)%N && (u <=? 56319)%N.      (* D800 .. DBFF *)
Definition is_low (u : N) : bool := (56320 <=? u)%N && (u <=? 57343)%N.       (* DC00 .. DFFF *)
Definition is_surrogate (u : N) : bool := is_high u || is_low u.
Definition is_pair (h l : N) : bool := is_high h && is_low l.
Definition is_u16 (u : N) : bool := (u <? 65536)%N.

(** * the specification side: code points *)
Definition pair_value (h l : N) : N := (65536 + (h - 55296) * 1024 + (l - 56320))%N.

(* UTF-16 code units -> code points, left to right; total: a surrogate that is not part of a
   pair decodes to itself *)
Fixpoint decode (s : list N) : list N :=
  match s with
  | [] => []
  | h :: r =>
      match r with
      | l :: r' => if is_pair h l then pair_value h l :: decode r' else h :: decode r
      | [] => [h]
      end
  end.

Definition encode1 (c : N) : list N :=
  if (c <? 65536)%N then [c]
  else [(55296 + (c - 65536) / 1024)%N; (56320 + (c - 65536) mod 1024)%N].
Definition encode (l : list N) : list N := flat_map encode1 l.

(* well-formed UTF-16: every surrogate is part of a pair *)
Fixpoint well_formed (s : list N) : bool :=
  match s with
  | [] => true
  | h :: r =>
      match r with
      | l :: r' => if is_pair h l then well_formed r' else negb (is_surrogate h) && well_formed r
      | [] => negb (is_surrogate h)
      end
  end.

(* the characters of a string, each as its code units: [h; l] or [u] *)
Fixpoint chars (s : list N) : list (list N) :=
  match s with
  | [] => []
  | h :: r =>
      match r with
      | l :: r' => if is_pair h l then [h; l] :: chars r' else [h] :: chars r
      | [] => [[h]]
      end
  end.

Definition group_value (g : list N) : N :=
  match g with
  | [h; l] => pair_value h l
  | u :: _ => u
  | [] => 0%N
  end.

(* a character as [chars] produces them *)
Definition valid_group (g : list N) : bool :=
  match g with
  | [u] => is_u16 u
  | [h; l] => is_pair h l
  | _ => false
  end.

(** * XPathCharacters.hpp *)

(* countPairs: for (i = 0; i + 1 < n; ++i) if (high(s[i]) && low(s[i+1])) { ++pairs; ++i; } *)
Fixpoint count_pairs (s : list N) : nat :=
  match s with
  | [] => 0
  | h :: r =>
      match r with
      | l :: r' => if is_pair h l then S (count_pairs r') else count_pairs r
      | [] => 0
      end
  end.

(* unitsOfFirst *)
Definition units_of_first (s : list N) : nat :=
  match s with
  | h :: l :: _ => if is_pair h l then 2 else 1
  | _ => 1
  end.

(* unitsOf: while (count > 0 && i < n) { i += unitsOfFirst(s + i, n - i); --count; } *)
Fixpoint units_of (s : list N) (count : nat) {struct s} : nat :=
  match count with
  | 0 => 0
  | S k =>
      match s with
      | [] => 0
      | h :: r =>
          match r with
          | l :: r' => if is_pair h l then 2 + units_of r' k else 1 + units_of r k
          | [] => 1
          end
      end
  end.

(** * string-length(): FormatterStringLengthCounter *)

(* getCharacterCount() of a counter that received the whole string in one event *)
Definition cp_length (s : list N) : nat := length s - count_pairs s.

(* the counter: m_count, m_pairCount, m_highSurrogatePending *)
Record counter := mkCounter { c_units : nat; c_pairs : nat; c_pending : bool }.
Definition counter_init : counter := mkCounter 0 0 false.

(* the while loop of characters(): (pairs found, a high surrogate is the last unit) *)
Fixpoint counter_scan (s : list N) : nat * bool :=
  match s with
  | [] => (0, false)
  | h :: r =>
      match r with
      | l :: r' =>
          if is_high h then
            if is_low l then let (p, e) := counter_scan r' in (S p, e) else counter_scan r
          else counter_scan r
      | [] => (0, is_high h)
      end
  end.

(* one characters() event *)
Definition counter_characters (st : counter) (chunk : list N) : counter :=
  match chunk with
  | [] => st
  | u0 :: rest =>
      let joined := c_pending st && is_low u0 in
      let (p, e) := counter_scan (if joined then rest else chunk) in
      mkCounter (c_units st + length chunk) ((if joined then S (c_pairs st) else c_pairs st) + p) e
  end.

Definition counter_count (st : counter) : nat := c_units st - c_pairs st.     (* getCharacterCount *)
Definition counter_run (chunks : list (list N)) : counter := fold_left counter_characters chunks counter_init.

(** * substring(): FunctionSubstring::execute *)

(* getStartIndex / getSubstringLength: unchanged by the repair (the same text as inside
   f_substring of XpDefs.v); [len] is now the number of characters *)
Definition cp_sub_start (second : dbl) (len : nat) : nat :=
  match second with
  | S754_nan | S754_infinity false => len
  | _ => if d_le second d_one then 0
         else let r := d_sub second d_one in
              if d_le (d_of_nat len) r then len else d_to_nat_trunc r
  end.

Definition cp_sub_len (second : dbl) (a3 : option dbl) (len start : nat) : nat :=
  let maxlen := len - start in
  match a3 with
  | None => maxlen
  | Some third =>
      match third with
      | S754_nan | S754_infinity true => 0
      | S754_infinity false => (match second with S754_infinity true => 0 | _ => maxlen end)
      | _ =>
          let total := d_add (d_round third) second in
          if d_le total (d_of_nat (S start)) then 0
          else let sl := d_sub total (d_of_nat (S start)) in
               if d_lt (d_of_nat maxlen) sl then maxlen else d_to_nat_trunc sl
      end
  end.

Definition cp_substring (s : str) (a2 : dbl) (a3 : option dbl) : str :=
  let units := length s in
  let pairs := count_pairs s in
  let len := units - pairs in
  if Nat.eqb len 0 then [] else
  let second := d_round a2 in
  let start := cp_sub_start second len in
  if Nat.leb len start then [] else
  let sublen := cp_sub_len second a3 len start in
  if Nat.eqb sublen 0 then [] else
  if Nat.eqb pairs 0 then firstn sublen (skipn start s)          (* every character is one unit *)
  else
    let first := units_of s start in
    let rest := skipn first s in
    firstn (units_of rest sublen) rest.

(** * translate(): FunctionTranslate::execute *)

Fixpoint group_eqb (a b : list N) : bool :=
  match a, b with
  | [], [] => true
  | x :: a', y :: b' => N.eqb x y && group_eqb a' b'
  | _, _ => false
  end.

(* the inner while loop: position, in characters, of the character g in the second string *)
Fixpoint index_of_group (l : list (list N)) (g : list N) : option nat :=
  match l with
  | [] => None
  | x :: r => if group_eqb x g then Some 0
              else match index_of_group r g with Some i => Some (S i) | None => None end
  end.

Definition cp_translate_chars (s from to : str) : str :=
  let fs := chars from in
  let ts := chars to in
  flat_map (fun g =>
    match index_of_group fs g with
    | None => g
    | Some k => match nth_error ts k with Some r => r | None => [] end
    end) (chars s).

Definition no_pairs (s : str) : bool := Nat.eqb (count_pairs s) 0.

Definition cp_translate (s from to : str) : str :=
  if no_pairs s && no_pairs from && no_pairs to
  then f_translate s from to                                      (* every character is one unit *)
  else cp_translate_chars s from to.

(** * the functions of a tree, by its flags (GenXpCp.v) *)
Definition tree_length (repaired : bool) (s : str) : nat := if repaired then cp_length s else length s.
Definition tree_substring (repaired : bool) (s : str) (a2 : dbl) (a3 : option dbl) : str :=
  if repaired then cp_substring s a2 a3 else f_substring s a2 a3.
Definition tree_translate (repaired : bool) (s from to : str) : str :=
  if repaired then cp_translate s from to else f_translate s from to.

(** * the expression evaluator of XpDefs.v with these three functions *)
Record cpflags := mkCpFlags { fl_length : bool; fl_substring : bool; fl_translate : bool }.

Definition s_string_length : str := [115;116;114;105;110;103;45;108;101;110;103;116;104]%N.
Definition s_substring : str := [115;117;98;115;116;114;105;110;103]%N.
Definition s_translate : str := [116;114;97;110;115;108;97;116;101]%N.

Section CpFuncs.
  Variable fl : cpflags.
  Variable ev : ctx -> expr -> res value.

  Definition cp_call_function (c : ctx) (name : str) (args : list expr) : res value :=
    let str_arg (x : expr) : res str := do v <- ev c x; Ok (to_string c v) in
    if fn_is name s_string_length then
      match args with
      | [] => Ok (VNum (d_of_nat (tree_length (fl_length fl) (node_string c (cx_node c)))))
      | [a] => do s <- str_arg a; Ok (VNum (d_of_nat (tree_length (fl_length fl) s)))
      | _ => Err EArgs
      end
    else if fn_is name s_substring then
      match args with
      | [a; b] => do s <- str_arg a; do v2 <- ev c b;
                  Ok (VStr (tree_substring (fl_substring fl) s (to_number c v2) None))
      | [a; b; d3] => do s <- str_arg a; do v2 <- ev c b; do v3 <- ev c d3;
                      Ok (VStr (tree_substring (fl_substring fl) s (to_number c v2) (Some (to_number c v3))))
      | _ => Err EArgs
      end
    else if fn_is name s_translate then
      match args with
      | [a; b; d3] => do s <- str_arg a; do x <- str_arg b; do y <- str_arg d3;
                      Ok (VStr (tree_translate (fl_translate fl) s x y))
      | _ => Err EArgs
      end
    else call_function ev c name args.
End CpFuncs.

(* [eval] of XpDefs.v, word for word, with [cp_call_function] in the place of [call_function] *)
Fixpoint cp_eval (fl : cpflags) (fuel : nat) (c : ctx) (e : expr) {struct fuel} : res value :=
  match fuel with
  | O => Err EFuel
  | S f =>
    let num := ev_num (cp_eval fl f) c in
    let boolean := ev_bool (cp_eval fl f) c in
    let arith (op : dbl -> dbl -> dbl) (a b : expr) : res value :=
      do x <- num a; do y <- num b; Ok (VNum (op x y)) in
    let cmp (op : cmpop) (a b : expr) : res value :=
      do x <- cp_eval fl f c a; do y <- cp_eval fl f c b; Ok (VBool (compare c op x y)) in
    let apply_preds := apply_preds (cp_eval fl f) c in
    let steps_from := steps_from (cp_eval fl f) c in
    match e with
    | EOr a b => do x <- boolean a; if x then Ok (VBool true) else do y <- boolean b; Ok (VBool y)
    | EAnd a b => do x <- boolean a; if x then do y <- boolean b; Ok (VBool y) else Ok (VBool false)
    | ENe a b => cmp CNe a b | EEq a b => cmp CEq a b
    | ELte a b => cmp CLe a b | ELt a b => cmp CLt a b
    | EGte a b => cmp CGe a b | EGt a b => cmp CGt a b
    | EPlus a b => arith d_add a b | EMinus a b => arith d_sub a b
    | EMult a b => arith d_mul a b | EDiv a b => arith d_div a b | EMod a b => arith d_mod a b
    | ENeg a => do x <- num a; Ok (VNum (if d_is_nan x then d_nan else d_neg x))
    | EUnion l =>
        do r <- fold_left (fun acc x => do q <- acc; do v <- cp_eval fl f c x; do ns <- as_nodes v; Ok (merge_doc_order q ns)) l (Ok []);
        Ok (VNodes r)
    | ELiteral s => Ok (VStr s)
    | EVar ns local =>
        match lookup_var (cx_vars c) ns local with Some v => Ok v | None => Err EUnknownVariable end
    | EGroup x => cp_eval fl f c x
    | ENumLit t => Ok (VNum (string_to_number t))
    | EExtFunc _ _ _ => Err EUnknownFunction
    | EPath None _ steps =>
        do r <- steps_from (S (length steps)) [cx_node c] false steps; Ok (VNodes r)
    | EPath (Some h) hps steps =>
        match h with
        | EVar _ _ | EFunc _ _ | EExtFunc _ _ _ | EGroup _ =>
            do v <- cp_eval fl f c h;
            do ns <- as_nodes v;
            do l1 <- apply_preds (merge_doc_order [] ns) hps;
            do r <- steps_from (S (length steps)) l1 false steps;
            Ok (VNodes r)
        | _ => Err EUnknownAxis
        end
    | EFunc name args => cp_call_function fl (cp_eval fl f) c name args
    end
  end.

Definition cp_eval_top (fl : cpflags) (c : ctx) (e : expr) : res value := cp_eval fl (S (expr_size e)) c e.
Definition flags_old : cpflags := mkCpFlags false false false.
Definition flags_repaired : cpflags := mkCpFlags true true true.
