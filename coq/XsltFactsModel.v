(* C01: the structural facts re-read from the source (GenXslt.v, translator/gen_xslt.py) are the ones
   XsltEventsDefs.v and XsltVarsDefs.v were written for. Each line names the definition that depends on it. *)
From Coq Require Import Bool.
Require Import XV.GenXslt XV.XsltVariantDefs.

Definition facts_as_modelled : bool :=
  negb src_start_clears_pending_attrs            (* eng_start keeps pattrs *)
  && src_start_flushes_first                     (* eng_start = flush, then set the name *)
  && src_flush_clears_attrs_and_name             (* eng_flush *)
  && src_flush_delivers_pending_attrs            (* eng_flush: SaxStart name pattrs *)
  && src_chars_flush_unconditionally             (* eng_chars *)
  && src_comment_flushes && src_pi_flushes && src_end_flushes
  && src_clone_attr_guarded                      (* step ICopyAttr *)
  && src_attribute_guarded                       (* step IAttr *)
  && src_pending_is_nonempty_name                (* pending *)
  && src_add_attribute_replaces_same_name        (* add_attr *)
  && src_find_entry_loops_stop_above_bottom      (* find_local / find_global: index 0 never examined *)
  && src_find_entry_local_from_current_frame_index
  && src_find_entry_global_needs_not_param
  && src_find_entry_activates_param              (* find_local: EParam -> EActive *)
  && src_push_tracks_frame_index                 (* push *)
  && src_with_params_pushed_as_param_entries     (* push_params: EParam, never EVar *)
  && src_pop_frame_throws_on_context_marker      (* pop_frame_n *)
  && negb src_params_deactivated_elsewhere       (* resetParams: nowhere (K-C01-1) or only where end_template has it *)
  && src_children_frame_iff_has_variables        (* exec_ins Block/Tmpl: has_decl *)
  && src_foreach_renews_frame_per_node           (* one Block per for-each iteration *)
  && src_apply_templates_marker_then_params && src_call_template_marker_then_params   (* exec_ins Invoke *)
  && src_param_default_only_when_not_passed      (* exec_param *)
  && src_execute_loop_as_modelled                (* XsltLoopDefs.step: Outer / Inner states of execute() *)
  && src_default_invoker_is_parent_next_is_sibling.   (* XsltLoopDefs.step: frames *)

Lemma facts_as_modelled_true : facts_as_modelled = true.
Proof. reflexivity. Qed.
