<?xml version="1.0"?>
<xsl:stylesheet version="1.0" xmlns:xsl="http://www.w3.org/1999/XSL/Transform" xmlns:a="urn:a" xmlns:b="urn:b" exclude-result-prefixes="a">
  <xsl:output method="xml" indent="yes"/>
  <xsl:template match="/">
    <xsl:element name="b:top" namespace="urn:b">
      <xsl:attribute name="q:at" namespace="urn:q">v</xsl:attribute>
      <xsl:apply-templates select="root/*"/>
    </xsl:element>
  </xsl:template>
  <xsl:template match="a:x">
    <xsl:element name="{local-name()}">
      <xsl:attribute name="id"><xsl:value-of select="@id * 2"/></xsl:attribute>
      <xsl:copy-of select="text()"/>
    </xsl:element>
  </xsl:template>
  <xsl:template match="y">
    <xsl:copy><xsl:copy-of select="@*|node()"/><xsl:comment>k=<xsl:value-of select="@a:k"/></xsl:comment>
      <xsl:processing-instruction name="out">z</xsl:processing-instruction></xsl:copy>
  </xsl:template>
</xsl:stylesheet>
