(* C02, extension part (family xpx): str:padding and str:align on CHARACTERS (the repair of K6x).

   XalanEXSLT/XalanEXSLTString.cpp, the repaired form: both functions compute every length as
   `length() - XPathCharacters::countPairs(...)` and cut with `unitsOfCharacters(string, pairs, count)`, which is
   `count` when the string has no surrogate pair and `XPathCharacters::unitsOf(c_str(), length(), count)` otherwise.
   The form as found (code units) is XpxDefs.padding / XpxDefs.align.  translator/gen_xpx.py recognises exactly these
   two forms and regenerates GenXpx.gen_exslt_padding_align_count_characters; `padding_tree` / `align_tree` are the
   functions of THIS tree.  countPairs / unitsOf are the models of coq/XpCpDefs.v (codepoints part), reused.
   Definitions only. *)
From Coq Require Import List NArith ZArith Bool Arith.
Require Import XV.GenXpx XV.XpxDefs XV.XpCpDefs.
Import ListNotations.

(* static unitsOfCharacters(theString, thePairs, theCount) *)
Definition units_of_characters (s : list N) (pairs count : nat) : nat :=
  if Nat.eqb pairs 0 then count else units_of s count.

(* the for(;;) loop of XalanEXSLTFunctionPadding::execute, repaired; fuel = remaining length *)
Fixpoint pad_loop_cp (fuel rem : nat) (pad acc : list N) : list N :=
  match fuel with
  | O => acc
  | S f => if Nat.ltb (cp_length pad) rem then pad_loop_cp f (rem - cp_length pad) pad (acc ++ pad)
           else acc ++ substr pad 0 (units_of_characters pad (count_pairs pad) rem)
  end.

(* the fast path is taken by a padding string of ONE CODE UNIT (thePaddingStringUnits == 1) *)
Definition padding_cp (n : nat) (pad : list N) : list N :=
  match n, pad with
  | O, _ => []
  | _, [] => []
  | _, [c] => repeat c n
  | _, _ => pad_loop_cp n n pad []
  end.

Definition align_cp (t p : list N) (m : align_mode) : list N :=
  let tp := count_pairs t in let pp := count_pairs p in
  let lt := cp_length t in let lp := cp_length p in      (* units - pairs *)
  if Nat.eqb lt lp then t
  else if Nat.ltb lp lt then substr t 0 (units_of_characters t tp lp)
  else match m with
       | ALeft => let off := units_of_characters p pp lt in t ++ substr p off (length p - off)
       | ARight => substr p 0 (units_of_characters p pp (lp - lt)) ++ t
       | ACenter => let st := Nat.div (lp - lt) 2 in
                    let off := units_of_characters p pp (lt + st) in
                    substr p 0 (units_of_characters p pp st) ++ t ++ substr p off (length p - off)
       end.

(* the two forms translator/gen_xpx.py recognises *)
Definition padding_gen (characters : bool) (n : nat) (pad : list N) : list N :=
  if characters then padding_cp n pad else padding n pad.
Definition align_gen (characters : bool) (t p : list N) (m : align_mode) : list N :=
  if characters then align_cp t p m else align t p m.

(* the functions of this tree *)
Definition padding_tree : nat -> list N -> list N := padding_gen gen_exslt_padding_align_count_characters.
Definition align_tree : list N -> list N -> align_mode -> list N := align_gen gen_exslt_padding_align_count_characters.

(* the K6x inputs: 'a' + U+1D4B3, U+1D4B3, 'abc' *)
Definition k6x_pad : list N := [97; 55349; 56499]%N.
Definition k6x_target : list N := [55349; 56499]%N.
Definition k6x_template : list N := [97; 98; 99]%N.
