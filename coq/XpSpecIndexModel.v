(* XpSpecIndexModel.v — floating-point facts behind the numeric-literal predicate
   shortcut [k] of the XPath interpreter model: [d_index] recognises exactly the
   doubles equal to an integer position, and positions are never zero / NaN. *)
From Coq Require Import ZArith NArith List Bool Arith Lia Reals SpecFloat.
From Flocq Require Import Core IEEE754.BinarySingleNaN.
From Coq Require Import Lra.
Require Import XV.GenNum XV.NumDefs XV.NumModel XV.NumFlocq XV.NumRoundTrip XV.XpAst XV.DomDefs XV.XpDefs.
Import ListNotations.
Local Open Scope Z_scope.

(** * what [long_to_double] of a positive integer is *)

Lemma binary_round_pos_rounds_to : forall p,
  rounds_to false (IZR (Zpos p)) (SpecFloat.binary_round prec emax false p 0).
Proof.
  intros p. rewrite long_to_double_nearest.
  generalize (nearest_double_spec false (Zpos p) 1 ltac:(lia) ltac:(lia)).
  cbn [cond_Zopp]. unfold Rdiv. rewrite Rinv_1, Rmult_1_r. intros H; exact H.
Qed.

Lemma rnd_pos_ge_1 : forall p, (1 <= rnd (IZR (Zpos p)))%R.
Proof.
  intros p.
  apply round_ge_generic.
  - apply fexp_correct, prec_gt_0_dbl.
  - apply valid_rnd_N.
  - replace 1%R with (bpow radix2 0) by reflexivity.
    apply generic_format_bpow. unfold SpecFloat.fexp, SpecFloat.emin, prec, emax. lia.
  - apply IZR_le. lia.
Qed.

Lemma d_of_nat_S_regular : forall i : nat,
  d_is_zero (d_of_nat (S i)) = false /\ d_is_nan (d_of_nat (S i)) = false.
Proof.
  intros i. unfold d_of_nat, long_to_double.
  destruct (Z.of_nat (S i)) as [|p|p] eqn:E; try lia.
  destruct (binary_round_pos_rounds_to p) as [_ H].
  pose proof (rnd_pos_ge_1 p) as Hge.
  destruct (Rlt_bool _ _).
  - destruct H as (HR & HF & _).
    destruct (SpecFloat.binary_round prec emax false p 0) as [s|s| |s m e];
      cbn in HF; try discriminate; cbn [d_is_zero d_is_nan]; auto.
    exfalso. cbn in HR. lra.
  - rewrite H. cbn. auto.
Qed.

Lemma d_eq_pos_truthy : forall (i : nat) (x : dbl),
  d_eq (d_of_nat (S i)) x = true -> negb (d_is_nan x || d_is_zero x) = true.
Proof.
  intros i x. destruct (d_of_nat_S_regular i) as [Hz Hn].
  unfold d_eq, SFeqb, SFcompare.
  destruct (d_of_nat (S i)) as [s|s| |s m e]; try discriminate;
    destruct x as [sx|sx| |sx mx ex]; cbn [d_is_nan d_is_zero orb negb]; try reflexivity;
    try discriminate; destruct s; discriminate.
Qed.

(** * [d_index] *)

Lemma SFeqb_finite_refl : forall s m e, SFeqb (S754_finite s m e) (S754_finite s m e) = true.
Proof.
  intros s m e. unfold SFeqb, SFcompare.
  destruct s; rewrite Z.compare_refl, Pos.compare_cont_refl; reflexivity.
Qed.

Lemma SFeqb_finite_l_eq : forall s m e x,
  SFeqb (S754_finite s m e) x = true -> x = S754_finite s m e.
Proof.
  intros s m e x. unfold SFeqb, SFcompare.
  destruct x as [sx|sx| |sx mx ex]; try (destruct s; discriminate);
    try (destruct sx; discriminate); try discriminate.
  destruct s, sx; try discriminate.
  - destruct (Z.compare_spec e ex); try discriminate. subst.
    intros H. destruct (Pos.compare_cont Eq m mx) eqn:Ec; try discriminate.
    apply Pos.compare_eq in Ec. subst. reflexivity.
  - destruct (Z.compare_spec e ex); try discriminate. subst.
    intros H. destruct (Pos.compare_cont Eq m mx) eqn:Ec; try discriminate.
    apply Pos.compare_eq in Ec. subst. reflexivity.
Qed.

(* a valid positive finite double whose value is the integer [Zpos p] is [long_to_double] of it *)
Lemma long_to_double_exact : forall m e p,
  SpecFloat.valid_binary prec emax (S754_finite false m e) = true ->
  (if 0 <=? e then Zpos p = Zpos m * 2 ^ e else Zpos p * 2 ^ (- e) = Zpos m) ->
  long_to_double (Zpos p) = S754_finite false m e.
Proof.
  intros m e p V H. cbn [long_to_double]. rewrite long_to_double_nearest.
  apply nearest_double_exact; [exact V|lia|].
  destruct (0 <=? e); lia.
Qed.

(* integers below 2^53 are representable *)
Lemma rnd_small_int : forall p, Zpos p < 2 ^ 53 -> rnd (IZR (Zpos p)) = IZR (Zpos p).
Proof.
  intros p Hp. apply round_generic; [apply valid_rnd_N|].
  apply (generic_format_FLT radix2 (SpecFloat.emin prec emax) prec).
  exists (Float radix2 (Zpos p) 0).
  - unfold F2R; cbn. lra.
  - cbn [Fnum]. rewrite Z.abs_eq by lia. exact Hp.
  - cbn [Fexp]. unfold SpecFloat.emin, prec, emax. lia.
Qed.

Lemma long_to_double_small : forall p, Zpos p < 2 ^ 53 ->
  exists m e, long_to_double (Zpos p) = S754_finite false m e /\
    SpecFloat.valid_binary prec emax (S754_finite false m e) = true /\
    (if 0 <=? e then Zpos p = Zpos m * 2 ^ e else Zpos p * 2 ^ (- e) = Zpos m).
Proof.
  intros p Hp. cbn [long_to_double].
  destruct (binary_round_pos_rounds_to p) as [V H].
  rewrite (rnd_small_int p Hp) in H.
  rewrite Rlt_bool_true in H.
  2:{ rewrite Rabs_pos_eq by (apply IZR_le; lia).
      apply Rlt_trans with (IZR (2 ^ 53)); [apply IZR_lt; exact Hp|].
      change 2 with (radix_val radix2). rewrite IZR_Zpower by lia.
      apply bpow_lt. unfold emax. lia. }
  destruct H as (HR & HF & HS).
  destruct (SpecFloat.binary_round prec emax false p 0) as [s|s| |s m e];
    cbn in HF; try discriminate.
  { exfalso. cbn in HR. apply eq_IZR in HR. discriminate. }
  cbn in HS. subst s. exists m, e. split; [reflexivity|]. split; [exact V|].
  unfold SF2R, F2R in HR; cbn [cond_Zopp Fnum Fexp] in HR.
  destruct (0 <=? e) eqn:He.
  - apply Z.leb_le in He. apply eq_IZR. rewrite mult_IZR.
    change 2 with (radix_val radix2). rewrite IZR_Zpower by exact He. symmetry; exact HR.
  - apply Z.leb_gt in He. apply eq_IZR. rewrite mult_IZR.
    change 2 with (radix_val radix2). rewrite IZR_Zpower by lia.
    rewrite <- HR, Rmult_assoc, <- bpow_plus.
    replace (e + - e) with 0 by lia. cbn [bpow]. ring.
Qed.

Theorem d_index_spec : forall (x : dbl) (bound k : nat),
  SpecFloat.valid_binary prec emax x = true -> (Z.of_nat bound < 2 ^ 53)%Z ->
  (d_index x bound = Some k <-> (1 <= k <= bound)%nat /\ d_eq (d_of_nat k) x = true).
Proof.
  intros x bound k V Hb. split.
  - (* what [d_index] answers is the value *)
    destruct x as [s|s| |s m e]; cbn [d_index]; try discriminate.
    destruct s; try discriminate.
    assert (Hlift : forall v, 1 <= v <= Z.of_nat bound ->
              (if 0 <=? e then v = Zpos m * 2 ^ e else v * 2 ^ (- e) = Zpos m) ->
              Some (Z.to_nat v) = Some k ->
              (1 <= k <= bound)%nat /\ d_eq (d_of_nat k) (S754_finite false m e) = true).
    { intros v Hv Hval Hk. injection Hk as Hk. subst k. split; [lia|].
      unfold d_eq, d_of_nat. rewrite Z2Nat.id by lia.
      destruct v as [|p|p]; try lia.
      rewrite (long_to_double_exact m e p V Hval). apply SFeqb_finite_refl. }
    destruct (0 <=? e) eqn:He.
    + cbv zeta. destruct (Zpos m * 2 ^ e <=? Z.of_nat bound) eqn:Hle; try discriminate.
      apply Z.leb_le in He, Hle.
      assert (0 < 2 ^ e) by (apply Z.pow_pos_nonneg; lia).
      apply Hlift; [nia|reflexivity].
    + destruct (Zpos m mod 2 ^ (- e) =? 0) eqn:Hmod; try discriminate.
      cbv zeta.
      destruct ((1 <=? Zpos m / 2 ^ (- e)) && (Zpos m / 2 ^ (- e) <=? Z.of_nat bound)) eqn:Hr;
        try discriminate.
      apply andb_true_iff in Hr. destruct Hr as [H1 H2].
      apply Z.leb_le in H1, H2. apply Z.eqb_eq in Hmod. apply Z.leb_gt in He.
      assert (0 < 2 ^ (- e)) by (apply Z.pow_pos_nonneg; lia).
      apply Hlift; [lia|].
      pose proof (Z.div_mod (Zpos m) (2 ^ (- e)) ltac:(lia)). lia.
  - (* a double equal to the position k is recognised *)
    intros [Hk Heq]. unfold d_eq, d_of_nat in Heq.
    destruct (Z.of_nat k) as [|p|p] eqn:Ek; try lia.
    destruct (long_to_double_small p ltac:(lia)) as (m & e & El & _ & Hval).
    rewrite El in Heq. apply SFeqb_finite_l_eq in Heq. subst x.
    cbn [d_index].
    destruct (0 <=? e) eqn:He.
    + cbv zeta. rewrite <- Hval.
      destruct (Zpos p <=? Z.of_nat bound) eqn:Hle; [|apply Z.leb_gt in Hle; lia].
      f_equal. lia.
    + apply Z.leb_gt in He.
      assert (0 < 2 ^ (- e)) by (apply Z.pow_pos_nonneg; lia).
      rewrite <- Hval, Z.mod_mul, Z.div_mul by lia.
      cbn [Z.eqb]. cbv zeta.
      destruct ((1 <=? Zpos p) && (Zpos p <=? Z.of_nat bound)) eqn:Hr.
      * f_equal. lia.
      * apply andb_false_iff in Hr. destruct Hr as [Hr|Hr]; apply Z.leb_gt in Hr; lia.
Qed.

(** * every answer of [string_to_number] is a well-formed double *)

Lemma nearest_double_valid : forall s num den, 0 <= num -> 0 < den ->
  SpecFloat.valid_binary prec emax (nearest_double s num den) = true.
Proof.
  intros s num den Hn Hd.
  destruct (Z.eq_dec num 0) as [->|Hnz]; [reflexivity|].
  destruct (nearest_double_spec s num den ltac:(lia) Hd) as [V _]. exact V.
Qed.

Lemma long_to_double_valid : forall v, SpecFloat.valid_binary prec emax (long_to_double v) = true.
Proof.
  intros [|p|p]; cbn [long_to_double]; [reflexivity| |];
    rewrite long_to_double_nearest; apply nearest_double_valid; lia.
Qed.

Lemma take_digits_all_digits : forall s, all_digits (fst (take_digits s)).
Proof.
  induction s as [|c r IH]; cbn [take_digits fst]; [constructor|].
  destruct (is_digit c) eqn:Hc; [|constructor].
  destruct (take_digits r) as [d t]. cbn [fst] in *. constructor; assumption.
Qed.

Lemma atof_valid : forall s, SpecFloat.valid_binary prec emax (atof s) = true.
Proof.
  intros s. unfold atof.
  destruct (match skip_ws s with
            | c :: r => if N.eqb c c_minus then (true, r) else (false, skip_ws s)
            | [] => (false, skip_ws s) end) as [neg s1].
  pose proof (take_digits_all_digits s1) as Hip.
  destruct (take_digits s1) as [ip s2]. cbn [fst] in Hip.
  set (fp := match s2 with c :: r => if N.eqb c c_dot then fst (take_digits r) else [] | [] => [] end).
  assert (Hfp : all_digits fp).
  { unfold fp. destruct s2 as [|c r]; [constructor|].
    destruct (N.eqb c c_dot); [apply take_digits_all_digits|constructor]. }
  assert (V : SpecFloat.valid_binary prec emax
                (nearest_double neg (value_of_digits 0 (ip ++ fp)) (10 ^ Z.of_nat (length fp))) = true).
  { apply nearest_double_valid.
    - apply value_of_digits_nonneg; [apply Forall_app; split; assumption|lia].
    - apply Z.pow_pos_nonneg; lia. }
  destruct ip, fp; first [reflexivity|exact V].
Qed.

Theorem string_to_number_valid : forall s,
  SpecFloat.valid_binary prec emax (string_to_number s) = true.
Proof.
  intros s. unfold string_to_number.
  destruct (c_str s) as [|c r]; [reflexivity|].
  destruct (do_validate (c :: r)) as [ok dot].
  destruct (negb ok); [reflexivity|].
  destruct (negb dot && (length (c :: r) <? long_hack_threshold)%nat).
  - cbv zeta. destruct (_ && _); [reflexivity|apply long_to_double_valid].
  - apply atof_valid.
Qed.

