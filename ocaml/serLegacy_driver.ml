(* model side of the correspondence of C04, part "legacy": the same line protocol as harness/ser.cpp.
   Output: "<id> <legacy>|<new>"; each "ok <u:units>" | "err <code>" | "-"  (legacy: UTF-16 code units handed to the
   Writer; new serializer, only for scripts with the raw marker: bytes for UTF-8, units otherwise).
   m_maxCharacter by encoding name as XalanTranscodingServices::getMaximumCharacterValue decides it
   (the set of values is in GenSerLegacy.lg_max_character_values). *)
let ascii (s : string) : n list = List.init (String.length s) (fun i -> n_of_int (Char.code s.[i]))

let rec events (t : string list) : lg_event list =
  match t with
  | [] -> []
  | "S" :: name :: n :: r ->
      let n = int_of_string n in
      let rec attrs k r acc =
        if k = 0 then (List.rev acc, r) else
        match r with
        | a :: v :: r' -> attrs (k - 1) r' ((u16_of_token a, u16_of_token v) :: acc)
        | _ -> failwith "bad script" in
      let (al, r') = attrs n r [] in
      LStart (u16_of_token name, al) :: events r'
  | "E" :: name :: r -> LEnd (u16_of_token name) :: events r
  | "T" :: s :: r -> LText (u16_of_token s) :: events r
  | "C" :: s :: r -> LCdata (u16_of_token s) :: events r
  | "M" :: s :: r -> LComment (u16_of_token s) :: events r
  | "P" :: a :: b :: r -> LPI (u16_of_token a, u16_of_token b) :: events r
  | _ -> failwith "bad script"

let () =
  let ic = if Array.length Sys.argv > 1 then open_in Sys.argv.(1) else stdin in
  iter_lines ic (fun line ->
    match split_ws line with
    | id :: enc :: ver :: rest when String.length id > 0 && id.[0] <> '#' ->
        (try
          let v11 = (ver = "1.1") in
          let rec flags r = match r with
            | f :: r' when String.length f >= 2 && f.[0] = '-' -> flags r'
            | _ -> r in
          let rest = flags rest in
          let maxc = match String.uppercase_ascii enc with
            | "UTF-8" | "UTF-16" | "UTF-16LE" | "UTF-16BE" | "UTF-32" | "SHIFT_JIS" -> 65535
            | "ISO-8859-1" -> 255
            | _ -> 127 in
          let show r = match r with
            | Ok l -> Printf.sprintf "ok %s" (token_of_u16 l)
            | Oob -> "oob"
            | Thrown c -> Printf.sprintf "err %d" (int_of_n c) in
          let evs = events rest in
          let leg = show (lg_document (lg_this_tree (n_of_int maxc) v11) lg_chk_this_tree (ascii ver) (ascii enc) evs) in
          (* the new serializer with the raw marker (SerLegacyRawDefs.v): only for scripts that contain it *)
          let has_marker = List.exists lg_is_marker evs in
          let uni =
            if not has_marker then "-" else begin
              let rec conv (l : lg_event list) : event list = match l with
                | [] -> []
                | LStart (n, a) :: r -> EStart (n, a) :: conv r
                | LEnd n :: r -> EEnd n :: conv r
                | LText s :: r -> EText s :: conv r
                | LCdata s :: r -> ECdata s :: conv r
                | LComment s :: r -> EComment s :: conv r
                | LPI (t, d) :: r -> EPI (t, d) :: conv r in
              let family = match enc with
                | "UTF-8" -> fam_of EncUtf8 | "UTF-16" -> fam_of EncUtf16
                | "ISO-8859-1" -> fam_of EncLatin1 | "US-ASCII" -> fam_of EncAscii
                | _ -> fam_other rep_all in
              show (u_serialize_raw family v11 (ascii ver) (ascii enc) (conv evs))
            end in
          Printf.printf "%s %s|%s\n" id leg uni
        with Failure m -> Printf.printf "%s badscript\n" id)
    | _ -> ())
