(* Exec2Step.v — C11, part "helpers": the induction step of ExecModel.v (one more level of recursion
   depth: the six arms of the node's op-code, run through the tables of GenExec.v and the helper model
   of ExecDefs.v over entry points that agree with the generic model, agree with it again) stated for
   ARBITRARY entry points E used for the sub-expressions instead of ExecDefs.execs f — the proofs are
   those of ExecModel.v sections Step and Step2 with [execs f] replaced by the variable (over Exec2Base.v).  Needed to
   carry the induction for the interpreter Exec2Run.execs2 that runs the regenerated bodies. *)
From Coq Require Import ZArith NArith List Bool Arith Lia SpecFloat.
Require Import XV.GenNum XV.NumDefs XV.XpAst XV.DomDefs XV.XpDefs XV.XpModel XV.ExecArms XV.GenExec XV.ExecDefs XV.Exec2Base.
Require Import XV.Exec2Defs XV.GenExec2 XV.Exec2Run.
Import ListNotations.
Local Open Scope list_scope.

Module GenStep.
Section Step.
  Variable f : nat.
  Variable E : evs.
  Let ev := eval f.
  Hypothesis IH : forall c e, vars_ordered c -> agrees E ev c e.

  Lemma operand_ok c x : vars_ordered c -> forget (numeric_operand E c x) = forget (ev_num ev c x).
  Proof.
    intros Hc. unfold numeric_operand, ev_num.
    destruct x; try reflexivity; rewrite forget_bind, (ag_n _ _ _ _ (IH c _ Hc)); destruct (forget (ev c _)); reflexivity.
  Qed.

  Lemma number_arg_ok c x : vars_ordered c -> forget (number_arg E c x) = forget (ev_num ev c x).
  Proof.
    intros Hc. unfold number_arg, ev_num.
    destruct x; try reflexivity; rewrite forget_bind, (ag_n _ _ _ _ (IH c _ Hc)); destruct (forget (ev c _)); reflexivity.
  Qed.

  Lemma bool_ok c x : vars_ordered c -> forget (ev_b E c x) = forget (ev_bool ev c x).
  Proof.
    intros Hc. unfold ev_bool. rewrite forget_bind, (ag_b _ _ _ _ (IH c x Hc)). destruct (forget (ev c x)); reflexivity.
  Qed.

  Lemma nl_facts c x r : vars_ordered c -> ev_l E c x = Ok r ->
    forget (ev c x) = Some (VNodes (nl_nodes r)) /\ ordered (nl_nodes r).
  Proof.
    intros Hc Hr. pose proof (ag_l _ _ _ _ (IH c x Hc)) as H. rewrite Hr in H. cbn in H.
    destruct (forget (ev c x)) as [v|] eqn:Ev; cbn in H; [|discriminate].
    destruct v; cbn in H; try discriminate. inversion H; subst. split; [reflexivity|].
    apply forget_ok in Ev. apply eval_nodes_ordered in Ev; [|exact Hc]. exact Ev.
  Qed.

  Lemma nl_none c x : vars_ordered c -> forget (ev_l E c x) = None ->
    obind (forget (ev c x)) (fun v => forget (as_nodes v)) = None.
  Proof.
    intros Hc Hr. pose proof (ag_l _ _ _ _ (IH c x Hc)) as H. rewrite Hr in H. cbn in H. auto.
  Qed.

  Lemma nl_merged_nodes c x r : vars_ordered c -> ev_l E c x = Ok r -> nl_merged r = nl_nodes r.
  Proof.
    intros Hc Hr. destruct (nl_facts c x r Hc Hr) as [_ Ho].
    destruct r; cbn in *; [apply merge_ordered_id; exact Ho | reflexivity].
  Qed.

  (* the node-list entry point against "evaluate generally, then require a node-set" *)
  Lemma nodes_ok {A} c x (k1 k2 : list nat -> res A) : vars_ordered c ->
    (forall l, ordered l -> forget (k1 l) = forget (k2 l)) ->
    forget (do r <- ev_l E c x; k1 (nl_nodes r)) = forget (do v <- ev c x; do ns <- as_nodes v; k2 ns).
  Proof.
    intros Hc K. rewrite !forget_bind.
    destruct (ev_l E c x) as [r|] eqn:Er; cbn.
    - destruct (nl_facts c x r Hc Er) as [Hv Ho]. rewrite Hv. cbn. apply K, Ho.
    - pose proof (nl_none c x Hc) as H. rewrite Er in H. specialize (H eq_refl).
      destruct (forget (ev c x)) as [v|]; cbn in *; [|reflexivity].
      rewrite forget_bind. rewrite H. reflexivity.
  Qed.

  Lemma merged_ok {A} c x (k1 k2 : list nat -> res A) : vars_ordered c ->
    (forall l, ordered l -> forget (k1 l) = forget (k2 l)) ->
    forget (do r <- ev_l E c x; k1 (nl_merged r)) =
    forget (do v <- ev c x; do ns <- as_nodes v; k2 (merge_doc_order [] ns)).
  Proof.
    intros Hc K. rewrite !forget_bind.
    destruct (ev_l E c x) as [r|] eqn:Er; cbn.
    - destruct (nl_facts c x r Hc Er) as [Hv Ho]. rewrite Hv. cbn.
      rewrite (nl_merged_nodes c x r Hc Er), (merge_ordered_id _ Ho). apply K, Ho.
    - pose proof (nl_none c x Hc) as H. rewrite Er in H. specialize (H eq_refl).
      destruct (forget (ev c x)) as [v|]; cbn in *; [|reflexivity].
      rewrite forget_bind. rewrite H. reflexivity.
  Qed.

  Lemma union_ok c l : vars_ordered c ->
    forget (union_nodes E c l) =
    forget (fold_left (fun acc x => do q <- acc; do v <- ev c x; do ns <- as_nodes v; Ok (merge_doc_order q ns)) l (Ok [])).
  Proof.
    intros Hc. unfold union_nodes. apply forget_fold; [|reflexivity].
    intros a1 a2 x Ha. apply forget_eq_bind; [exact Ha|]. intros q.
    apply (nodes_ok c x (fun l => Ok (merge_doc_order q l)) (fun l => Ok (merge_doc_order q l))); [exact Hc|]. reflexivity.
  Qed.

  Let evg_ok c x : vars_ordered c -> forget (ev_g E c x) = forget (ev c x) := fun Hc => ag_g _ _ _ _ (IH c x Hc).

  Lemma steps_ok c sfuel sub rv rest : vars_ordered c ->
    forget (steps_from (ev_g E) c sfuel sub rv rest) = forget (steps_from ev c sfuel sub rv rest).
  Proof.
    intros Hc. apply (steps_from_ext (ev_g E) ev vars_ordered); auto.
  Qed.

  Lemma preds_ok c l ps : vars_ordered c ->
    forget (apply_preds (ev_g E) c l ps) = forget (apply_preds ev c l ps).
  Proof.
    intros Hc. apply (apply_preds_ext (ev_g E) ev vars_ordered); auto.
  Qed.

  (* locationPath(.., MutableNodeRefList&) against the location-path case of XpDefs.eval *)
  Lemma path_ok c h hp st : vars_ordered c ->
    option_map VNodes (forget (path_nodes E c (EPath h hp st))) = forget (eval (S f) c (EPath h hp st)).
  Proof.
    intros Hc. cbn [eval path_nodes]. destruct h as [h|].
    - assert (G : forget (do r <- ev_l E c h; do l1 <- apply_preds (ev_g E) c (nl_merged r) hp;
                          steps_from (ev_g E) c (S (length st)) l1 false st) =
                  forget (do v <- ev c h; do ns <- as_nodes v;
                          do l1 <- apply_preds ev c (merge_doc_order [] ns) hp;
                          steps_from ev c (S (length st)) l1 false st)).
      { apply (merged_ok c h (fun l => do l1 <- apply_preds (ev_g E) c l hp; steps_from (ev_g E) c (S (length st)) l1 false st)
                            (fun l => do l1 <- apply_preds ev c l hp; steps_from ev c (S (length st)) l1 false st)); [exact Hc|].
        intros l _. apply forget_eq_bind; [apply preds_ok, Hc|]. intros l1. apply steps_ok, Hc. }
      destruct h; try reflexivity; rewrite G; change (eval f) with ev; crush.
    - rewrite steps_ok by exact Hc. change (eval f) with ev. crush.
  Qed.

  (** the six arms of one op-code against the generic model's value for the expression *)
  Definition arms_agree (ag ab an as_ af al : arm) (c : ctx) (e : expr) : Prop :=
    let v := forget (eval (S f) c e) in
    forget (run_g E ag c e) = v /\
    forget (run_b E ab c e) = option_map to_boolean v /\
    forget (run_n E an c e) = option_map (to_number c) v /\
    (forall buf, forget (run_s E as_ c e buf) = option_map (fun x => buf ++ to_string c x) v) /\
    (forall acc, forget (run_f E af c e acc) = option_map (fun x => acc ++ to_string c x) v) /\
    option_map nl_nodes (forget (run_l E al c e)) = obind v (fun x => forget (as_nodes x)).

  Lemma bool_arms h c e :
    forget (eval (S f) c e) = option_map VBool (forget (h_bool E h c e)) ->
    arms_agree (ACall h SgBool CvCreateBoolean) (ACall h SgBool CvDirect) (ACall h SgBool CvNumber)
               (ACall h SgBool CvString) (ACall h SgBool CvString) ANotNodeSet c e.
  Proof.
    intros H. unfold arms_agree. rewrite H. cbn [run_g run_b run_n run_s run_f run_l].
    repeat split; intros; rewrite ?forget_bind; destruct (forget (h_bool E h c e)) as [[|]|]; reflexivity.
  Qed.

  Lemma num_arms h c e af :
    forget (eval (S f) c e) = option_map VNum (forget (h_num E h c e)) ->
    (forall acc, forget (run_f E af c e acc) = option_map (fun x => acc ++ xo_string_num x) (forget (h_num E h c e))) ->
    arms_agree (ACall h SgNum CvCreateNumber) (ACall h SgNum CvBoolean) (ACall h SgNum CvDirect)
               (ACall h SgNum CvString) af ANotNodeSet c e.
  Proof.
    intros H F. unfold arms_agree. rewrite H. cbn [run_g run_b run_n run_s run_l].
    repeat split; intros; rewrite ?F, ?forget_bind; destruct (forget (h_num E h c e)) as [x|]; cbn;
      rewrite ?xo_boolean_num_spec; reflexivity.
  Qed.

  Lemma num_chars_string h c e acc :
    forget (run_f E (ACall h SgNum CvString) c e acc) = option_map (fun x => acc ++ xo_string_num x) (forget (h_num E h c e)).
  Proof. cbn [run_f]. rewrite forget_bind. destruct (forget (h_num E h c e)); reflexivity. Qed.

  Lemma num_chars_out h c e acc :
    match h with HPlus | HMinus | HMult | HDiv | HMod | HNeg => True | _ => False end ->
    forget (run_f E (ACall h SgOut CvDirect) c e acc) = option_map (fun x => acc ++ xo_string_num x) (forget (h_num E h c e)).
  Proof.
    intros Hh. cbn [run_f]. destruct h; try contradiction; cbn [h_out_f]; rewrite forget_bind;
      match goal with |- context [forget ?X] => destruct (forget X) end; reflexivity.
  Qed.

  Lemma str_arms h c e :
    forget (eval (S f) c e) = option_map VStr (forget (h_strref E h c e)) ->
    arms_agree (ACall h SgStrRef CvCreateStringReference) (ACall h SgStrRef CvBoolean) (ACall h SgStrRef CvNumber)
               (ACall h SgStrRef CvAppend) (ACall h SgStrRef CvStringToChars) ANotNodeSet c e.
  Proof.
    intros H. unfold arms_agree. rewrite H. cbn [run_g run_b run_n run_s run_f run_l].
    repeat split; intros; rewrite ?forget_bind; destruct (forget (h_strref E h c e)) as [x|]; reflexivity.
  Qed.

  Lemma const_arms b c e :
    forget (eval (S f) c e) = forget (arg0 e (Ok (VBool b))) ->
    arms_agree (AConst b CvCreateBoolean) (AConst b CvDirect) (AConst b CvNumber)
               (AConst b CvString) (AConst b CvString) ANotNodeSet c e.
  Proof.
    intros H. unfold arms_agree. rewrite H. cbn [run_g run_b run_n run_s run_f run_l]. unfold arg0.
    destruct e; try (repeat split; reflexivity).
    destruct args; repeat split; intros; destruct b; reflexivity.
  Qed.

  (* an XObjectPtr helper converted through the object's member functions *)
  Lemma obj_member_arms h c e :
    forget (eval (S f) c e) = forget (h_obj E h c e) ->
    let v := forget (eval (S f) c e) in
    forget (run_g E (ACall h SgObj CvDirect) c e) = v /\
    forget (run_b E (ACall h SgObj CvMemberBoolean) c e) = option_map to_boolean v /\
    forget (run_n E (ACall h SgObj CvMemberNum) c e) = option_map (to_number c) v /\
    (forall buf, forget (run_s E (ACall h SgObj CvMemberStr) c e buf) = option_map (fun x => buf ++ to_string c x) v) /\
    (forall acc, forget (run_f E (ACall h SgObj CvMemberStr) c e acc) = option_map (fun x => acc ++ to_string c x) v) /\
    option_map nl_nodes (forget (run_l E (ACall h SgObj CvKeep) c e)) = obind v (fun x => forget (as_nodes x)).
  Proof.
    intros H. cbn zeta. rewrite H. cbn [run_g run_b run_n run_s run_f run_l].
    repeat split; intros; rewrite ?forget_bind; destruct (forget (h_obj E h c e)) as [[]|]; reflexivity.
  Qed.
End Step.

Section Step2.
  Variable f : nat.
  Variable E : evs.
  Hypothesis IH : forall c e, vars_ordered c -> agrees E (eval f) c e.

  Lemma agrees_of_arms c e :
    arms_agree f E (arm_generic (opcode_of e)) (arm_bool (opcode_of e)) (arm_num (opcode_of e))
               (arm_str (opcode_of e)) (arm_chars (opcode_of e)) (arm_nodes (opcode_of e)) c e ->
    agrees (next1 E) (eval (S f)) c e.
  Proof. intros (Hg & Hb & Hn & Hs & Hf & Hl). constructor; assumption. Qed.

  Ltac use_bool Hc :=
    apply (bool_arms f E); cbn [eval h_bool]; unfold cmp2, arg1, arg0;
    rewrite ?forget_bind, ?(bool_ok f E IH _ _ Hc), ?(ag_g _ _ _ _ (IH _ _ Hc)).

  Lemma step_binary_bool c e : vars_ordered c ->
    match e with EOr _ _ | EAnd _ _ | ENe _ _ | EEq _ _ | ELte _ _ | ELt _ _ | EGte _ _ | EGt _ _ => True | _ => False end ->
    agrees (next1 E) (eval (S f)) c e.
  Proof.
    intros Hc He. apply agrees_of_arms. destruct e; try contradiction;
      cbn [opcode_of arm_generic arm_bool arm_num arm_str arm_chars arm_nodes]; use_bool Hc.
    1,2: destruct (forget (ev_bool (eval f) c e1)) as [[|]|]; cbn [obind option_map forget]; try reflexivity;
         rewrite ?forget_bind, ?(bool_ok f E IH _ _ Hc); destruct (forget (ev_bool (eval f) c e2)); reflexivity.
    all: destruct (forget (eval f c e1)); cbn [obind option_map forget]; try reflexivity;
         rewrite ?forget_bind, ?(ag_g _ _ _ _ (IH _ _ Hc)); destruct (forget (eval f c e2)); reflexivity.
  Qed.

  Lemma step_arith c e : vars_ordered c ->
    match e with EPlus _ _ | EMinus _ _ | EMult _ _ | EDiv _ _ | EMod _ _ | ENeg _ => True | _ => False end ->
    agrees (next1 E) (eval (S f)) c e.
  Proof.
    intros Hc He. apply agrees_of_arms. destruct e; try contradiction;
      cbn [opcode_of arm_generic arm_bool arm_num arm_str arm_chars arm_nodes];
      (apply (num_arms f E); [| intros acc; apply num_chars_out; exact I]);
      cbn [eval h_num]; unfold arith; rewrite ?forget_bind, ?(operand_ok f E IH _ _ Hc).
    1-5: destruct (forget (ev_num (eval f) c e1)); cbn [obind option_map forget]; try reflexivity;
         rewrite ?forget_bind, ?(operand_ok f E IH _ _ Hc); destruct (forget (ev_num (eval f) c e2)); reflexivity.
    destruct (forget (ev_num (eval f) c e)); reflexivity.
  Qed.

  Lemma to_number_nodes c r : to_number c (VNodes r) = xo_number_nodes c r.
  Proof. destruct r; reflexivity. Qed.
  Lemma to_string_nodes c r : to_string c (VNodes r) = xo_string_nodes c r.
  Proof. destruct r; reflexivity. Qed.

  (* Union / locationPath: the list is built once, every overload converts it *)
  Lemma nodes_arms h c e (X : res (list nat)) :
    option_map VNodes (forget X) = forget (eval (S f) c e) ->
    h_obj E h c e = (do r <- X; Ok (VNodes r)) ->
    h_out_b E h c e = (do r <- X; Ok (xo_boolean_nodes r)) ->
    h_out_n E h c e = (do r <- X; Ok (xo_number_nodes c r)) ->
    (forall buf, h_out_s E h c e buf = (do r <- X; Ok (buf ++ xo_string_nodes c r))) ->
    (forall acc, h_out_f E h c e acc = (do r <- X; Ok (acc ++ xo_string_nodes c r))) ->
    h_out_l E h c e = X ->
    arms_agree f E (ACall h SgObj CvDirect) (ACall h SgOut CvDirect) (ACall h SgOut CvDirect)
               (ACall h SgOut CvDirect) (ACall h SgOut CvDirect) (ACall h SgOut CvDirect) c e.
  Proof.
    intros H Hg Hb Hn Hs Hf Hl. unfold arms_agree. rewrite <- H. cbn [run_g run_b run_n run_s run_f run_l].
    rewrite Hg, Hb, Hn, Hl.
    repeat split; intros; rewrite ?Hs, ?Hf, ?forget_bind; destruct (forget X) as [r|]; cbn [obind option_map forget];
      rewrite ?to_number_nodes, ?to_string_nodes; reflexivity.
  Qed.

  Lemma step_union c l : vars_ordered c -> agrees (next1 E) (eval (S f)) c (EUnion l).
  Proof.
    intros Hc. apply agrees_of_arms. cbn [opcode_of arm_generic arm_bool arm_num arm_str arm_chars arm_nodes].
    apply (nodes_arms HUnion c (EUnion l) (union_nodes E c l)); try reflexivity.
    rewrite (union_ok f E IH c l Hc). cbn [eval]. rewrite forget_bind.
    match goal with |- context [obind (forget ?X) _] => destruct (forget X) end; reflexivity.
  Qed.

  Lemma step_path c h hp st : vars_ordered c -> agrees (next1 E) (eval (S f)) c (EPath h hp st).
  Proof.
    intros Hc. apply agrees_of_arms. cbn [opcode_of arm_generic arm_bool arm_num arm_str arm_chars arm_nodes].
    apply (nodes_arms HLocationPath c (EPath h hp st) (path_nodes E c (EPath h hp st))); try reflexivity.
    apply (path_ok f E IH), Hc.
  Qed.

  Lemma step_literal c s : agrees (next1 E) (eval (S f)) c (ELiteral s).
  Proof.
    apply agrees_of_arms. cbn [opcode_of arm_generic arm_bool arm_num arm_str arm_chars arm_nodes].
    unfold arms_agree. repeat split; reflexivity.
  Qed.

  Lemma step_numlit c t : agrees (next1 E) (eval (S f)) c (ENumLit t).
  Proof.
    apply agrees_of_arms. cbn [opcode_of arm_generic arm_bool arm_num arm_str arm_chars arm_nodes].
    unfold arms_agree. repeat split; try reflexivity.
    cbn [run_b h_out_b eval forget option_map]. unfold tk_boolean, num_token. cbn [tk_is_string tk_num].
    rewrite xo_boolean_num_spec. reflexivity.
  Qed.

  Lemma step_var c ns local : agrees (next1 E) (eval (S f)) c (EVar ns local).
  Proof.
    apply agrees_of_arms. cbn [opcode_of arm_generic arm_bool arm_num arm_str arm_chars arm_nodes].
    apply (obj_member_arms f E HVariable c (EVar ns local)). reflexivity.
  Qed.

  Lemma step_extfunc c ns name args : agrees (next1 E) (eval (S f)) c (EExtFunc ns name args).
  Proof.
    apply agrees_of_arms. cbn [opcode_of arm_generic arm_bool arm_num arm_str arm_chars arm_nodes].
    apply (obj_member_arms f E HRunExtFunction c (EExtFunc ns name args)). reflexivity.
  Qed.

  Lemma step_group c x : vars_ordered c -> agrees (next1 E) (eval (S f)) c (EGroup x).
  Proof.
    intros Hc. apply agrees_of_arms. cbn [opcode_of arm_generic arm_bool arm_num arm_str arm_chars arm_nodes].
    destruct (IH c x Hc) as [Hg Hb Hn Hs Hf Hl].
    unfold arms_agree. cbn [eval run_g run_b run_n run_s run_f run_l h_obj h_out_b h_out_n h_out_s h_out_f h_out_l].
    repeat split; auto.
    rewrite <- Hl. rewrite !forget_bind.
    destruct (ev_l E c x) as [r|] eqn:Er; cbn; [|reflexivity].
    rewrite (nl_merged_nodes f E IH c x r Hc Er). reflexivity.
  Qed.

  Lemma bind_assoc {A B C} (r : res A) (k1 : A -> res B) (k2 : B -> res C) :
    bind (bind r k1) k2 = bind r (fun a => bind (k1 a) k2).
  Proof. destruct r; reflexivity. Qed.

  (* count / sum / name(x) / local-name(x): the argument goes through the node-list entry point *)
  Lemma nodes_arg_ok {A} c a (k : list nat -> A) (g : A -> value) : vars_ordered c ->
    forget (do l <- (do v <- eval f c a; as_nodes v); Ok (g (k l))) =
    option_map g (forget (do r <- ev_l E c a; Ok (k (nl_nodes r)))).
  Proof.
    intros Hc. rewrite bind_assoc.
    rewrite <- (nodes_ok f E IH c a (fun l => Ok (g (k l))) (fun l => Ok (g (k l))) Hc (fun _ _ => eq_refl)).
    rewrite !forget_bind. destruct (forget (ev_l E c a)); reflexivity.
  Qed.

  Ltac fn_num Hc :=
    apply (num_arms f E); [| intros acc; apply num_chars_string];
    cbn [eval h_num]; unfold arg0, arg1.
  Ltac args01 args := destruct args as [|? [|? ?]]; try reflexivity.

  Lemma step_func c name args : vars_ordered c -> agrees (next1 E) (eval (S f)) c (EFunc name args).
  Proof.
    intros Hc. apply agrees_of_arms. cbn [opcode_of]. unfold fn_opcode, fn_is.
    destruct (str_eqb name s_position) eqn:T1;
      [apply str_eqb_eq in T1; subst name; cbn [arm_generic arm_bool arm_num arm_str arm_chars arm_nodes]|].
    { fn_num Hc. rewrite cf_position. args01 args. }
    destruct (str_eqb name s_last) eqn:T2;
      [apply str_eqb_eq in T2; subst name; cbn [arm_generic arm_bool arm_num arm_str arm_chars arm_nodes]|].
    { fn_num Hc. rewrite cf_last. args01 args. }
    destruct (str_eqb name s_count) eqn:T3;
      [apply str_eqb_eq in T3; subst name; cbn [arm_generic arm_bool arm_num arm_str arm_chars arm_nodes]|].
    { fn_num Hc. rewrite cf_count. args01 args.
      apply (nodes_arg_ok c e (fun l => d_of_nat (length l)) VNum Hc). }
    destruct (str_eqb name s_not) eqn:T4;
      [apply str_eqb_eq in T4; subst name; cbn [arm_generic arm_bool arm_num arm_str arm_chars arm_nodes]|].
    { apply (bool_arms f E). cbn [eval h_bool]. unfold arg1. rewrite cf_not. args01 args.
      rewrite !forget_bind, (bool_ok f E IH _ _ Hc). destruct (forget (ev_bool (eval f) c e)); reflexivity. }
    destruct (str_eqb name s_true_fn) eqn:T5;
      [apply str_eqb_eq in T5; subst name; cbn [arm_generic arm_bool arm_num arm_str arm_chars arm_nodes]|].
    { apply (const_arms f E). cbn [eval]. rewrite cf_true. unfold arg0. args01 args. }
    destruct (str_eqb name s_false_fn) eqn:T6;
      [apply str_eqb_eq in T6; subst name; cbn [arm_generic arm_bool arm_num arm_str arm_chars arm_nodes]|].
    { apply (const_arms f E). cbn [eval]. rewrite cf_false. unfold arg0. args01 args. }
    destruct (str_eqb name s_boolean) eqn:T7;
      [apply str_eqb_eq in T7; subst name; cbn [arm_generic arm_bool arm_num arm_str arm_chars arm_nodes]|].
    { apply (bool_arms f E). cbn [eval h_bool]. unfold arg1. rewrite cf_boolean. args01 args.
      rewrite !forget_bind, (bool_ok f E IH _ _ Hc). destruct (forget (ev_bool (eval f) c e)); reflexivity. }
    destruct (str_eqb name s_name) eqn:T8;
      [apply str_eqb_eq in T8; subst name|].
    { destruct args as [|a [|b rest]]; cbn [by_arity arm_generic arm_bool arm_num arm_str arm_chars arm_nodes];
        apply (str_arms f E); cbn [eval h_strref]; unfold arg0, arg1; rewrite cf_name; try reflexivity.
      apply (nodes_arg_ok c a (fun l => first_or_empty c name_of l) VStr Hc). }
    destruct (str_eqb name s_local_name) eqn:T9;
      [apply str_eqb_eq in T9; subst name|].
    { destruct args as [|a [|b rest]]; cbn [by_arity arm_generic arm_bool arm_num arm_str arm_chars arm_nodes];
        apply (str_arms f E); cbn [eval h_strref]; unfold arg0, arg1; rewrite cf_local_name; try reflexivity.
      apply (nodes_arg_ok c a (fun l => first_or_empty c local_name_of l) VStr Hc). }
    destruct (str_eqb name s_number) eqn:T10;
      [apply str_eqb_eq in T10; subst name|].
    { destruct args as [|a [|b rest]]; cbn [by_arity arm_generic arm_bool arm_num arm_str arm_chars arm_nodes];
        fn_num Hc; rewrite cf_number; try reflexivity.
      rewrite forget_bind, (number_arg_ok f E IH _ _ Hc). destruct (forget (ev_num (eval f) c a)); reflexivity. }
    destruct (str_eqb name s_floor) eqn:T11;
      [apply str_eqb_eq in T11; subst name; cbn [arm_generic arm_bool arm_num arm_str arm_chars arm_nodes]|].
    { fn_num Hc. rewrite cf_floor. args01 args. rewrite !forget_bind, (number_arg_ok f E IH _ _ Hc).
      destruct (forget (ev_num (eval f) c e)); reflexivity. }
    destruct (str_eqb name s_ceiling) eqn:T12;
      [apply str_eqb_eq in T12; subst name; cbn [arm_generic arm_bool arm_num arm_str arm_chars arm_nodes]|].
    { fn_num Hc. rewrite cf_ceiling. args01 args. rewrite !forget_bind, (number_arg_ok f E IH _ _ Hc).
      destruct (forget (ev_num (eval f) c e)); reflexivity. }
    destruct (str_eqb name s_round) eqn:T13;
      [apply str_eqb_eq in T13; subst name; cbn [arm_generic arm_bool arm_num arm_str arm_chars arm_nodes]|].
    { fn_num Hc. rewrite cf_round. args01 args. rewrite !forget_bind, (number_arg_ok f E IH _ _ Hc).
      destruct (forget (ev_num (eval f) c e)); reflexivity. }
    destruct (str_eqb name s_sum) eqn:T14;
      [apply str_eqb_eq in T14; subst name; cbn [arm_generic arm_bool arm_num arm_str arm_chars arm_nodes]|].
    { fn_num Hc. rewrite cf_sum. args01 args.
      apply (nodes_arg_ok c e (fun l => sum_nodes c l) VNum Hc). }
    destruct (str_eqb name s_string_length) eqn:T15;
      [apply str_eqb_eq in T15; subst name|].
    { destruct args as [|a [|b rest]]; cbn [by_arity arm_generic arm_bool arm_num arm_str arm_chars arm_nodes];
        fn_num Hc; rewrite cf_string_length; try reflexivity.
      rewrite !forget_bind, (ag_f _ _ _ _ (IH c a Hc)). destruct (forget (eval f c a)); reflexivity. }
    cbn [arm_generic arm_bool arm_num arm_str arm_chars arm_nodes].
    apply (obj_member_arms f E HRunFunction c (EFunc name args)). cbn [eval h_obj].
    apply call_function_ext. intros x. symmetry. apply (ag_g _ _ _ _ (IH c x Hc)).
  Qed.

  Theorem step_agrees c e : vars_ordered c -> agrees (next1 E) (eval (S f)) c e.
  Proof.
    intros Hc. destruct e.
    1-8: apply step_binary_bool; [exact Hc | exact I].
    1-6: apply step_arith; [exact Hc | exact I].
    - apply step_union, Hc.
    - apply step_literal.
    - apply step_var.
    - apply step_group, Hc.
    - apply step_numlit.
    - apply step_func, Hc.
    - apply step_extfunc.
    - apply step_path, Hc.
  Qed.
End Step2.
End GenStep.
