"""Generators of the C03 "errors" part (props/C03_errors.py): stylesheets that are well-formed XML but
erroneous XSLT, and run-time errors.  Every random choice comes from the rng passed in.

Three streams:
  graphs   dependency graphs rendered as stylesheets (top-level variables / params, attribute sets, named
           templates and modes), the stream the Coq guard models are compared with
  static   every XSLT instruction with a required attribute missing, an unknown attribute, attribute values
           of the wrong lexical class, instructions in forbidden places, duplicate declarations
  dynamic  run-time errors: wrong types, unknown functions, terminate, document() failures, encodings,
           unbounded recursion, long names around the buffer sizes of the census"""
import os

XSLNS = "http://www.w3.org/1999/XSL/Transform"
HEAD = ("<xsl:stylesheet version='1.0' xmlns:xsl='" + XSLNS + "' xmlns:str='http://exslt.org/strings' "
        "xmlns:x='http://xml.apache.org/xalan' xmlns:u='urn:unknown-extension' exclude-result-prefixes='str x u'>")
TAIL = "</xsl:stylesheet>"
DOC = "<?xml version='1.0'?><doc id='d'><a n='1'>one<b>1.5</b></a><a n='2'>two<b>-7</b></a><a n='10'>ten<b>1e3</b></a></doc>"


def sheet(body, out="text", extra=""):
    return HEAD + ("<xsl:output method='%s'%s/>" % (out, extra)) + body + TAIL


def tmpl(body, out="text", extra=""):
    return sheet("<xsl:template match='/'>" + body + "</xsl:template>", out, extra)


# ---------------------------------------------------------------------------------------------------
# dependency graphs

def random_graph(r, n, cyc_len=None, maxdeg=2):
    """deps[i] = ordered list of references of node i; cyc_len: plant a cycle of that length"""
    deps = []
    for i in range(n):
        k = r.choice([0, 1, 1, 2, maxdeg])
        # mostly forward edges (acyclic), sometimes any edge
        ds = []
        for _ in range(k):
            if r.random() < 0.75 and i + 1 < n:
                ds.append(r.randrange(i + 1, n))
            elif cyc_len is None and r.random() < 0.5:
                continue
            else:
                ds.append(r.randrange(n))
        deps.append(ds)
    if cyc_len:
        nodes = r.sample(range(n), min(cyc_len, n))
        for a, b in zip(nodes, nodes[1:] + nodes[:1]):
            pos = r.randrange(len(deps[a]) + 1)
            deps[a].insert(pos, b)
    return deps


def table(deps):
    return ";".join(",".join(str(d) for d in ds) if ds else "-" for ds in deps)


def well_founded(deps):
    """the set of nodes from which every path ends (least fixed point; independent of the Coq model)"""
    wf = set()
    changed = True
    while changed:
        changed = False
        for i, ds in enumerate(deps):
            if i not in wf and all(d in wf for d in ds):
                wf.add(i)
                changed = True
    return wf


def reachable(deps, s):
    seen, todo = {s}, [s]
    while todo:
        v = todo.pop()
        for d in deps[v]:
            if d not in seen:
                seen.add(d)
                todo.append(d)
    return seen


def longest_path(deps, s, wf):
    """number of nodes on the longest path from s (s in wf)"""
    memo = {}

    def go(v):
        if v not in memo:
            memo[v] = 1 + max([go(d) for d in deps[v]] or [0])
        return memo[v]
    import sys
    sys.setrecursionlimit(max(10000, 4 * len(deps) + 100))
    return go(s)


# (a variable reference inside xsl:key use/match is an error in XSLT 1.0, section 12.2, so a key cannot carry a dependency)
VAR_FORMS = ["select", "body", "call", "foreach", "sort", "param", "if", "avt", "withparam"]


def var_value(deps, forms, i, memo=None):
    """the string value of variable i for the rendering below (i must be well-founded)"""
    memo = {} if memo is None else memo
    if i in memo:
        return memo[i]
    inner = "".join(var_value(deps, forms, d, memo) for d in deps[i])
    f = forms[i]
    if f == "key":
        v = "v%d(0)" % i
    elif f == "sort":
        v = "v%d()" % i
    elif f == "avt":
        v = "v%d(%d)" % (i, len(inner))
    else:
        v = "v%d(%s)" % (i, inner)
    memo[i] = v
    return v


def render_variables(deps, forms, start, use="value-of"):
    """one variable per line: variable i stands on line i + 2 (line 1 = the xsl:stylesheet start tag and xsl:output)"""
    decl, extra = [], []
    for i, ds in enumerate(deps):
        f = forms[i]
        refs = ["$v%d" % d for d in ds]
        cat = "concat('v%d(', %s')')" % (i, "".join(x + ", " for x in refs))
        vals = "".join("<xsl:value-of select='%s'/>" % x for x in refs)
        el = "param" if f == "param" else "variable"
        if f in ("select", "param"):
            decl.append("<xsl:%s name='v%d' select=\"%s\"/>" % (el, i, cat))
        elif f == "body":
            decl.append("<xsl:variable name='v%d'>v%d(%s)</xsl:variable>" % (i, i, vals))
        elif f == "call":
            decl.append("<xsl:variable name='v%d'>v%d(<xsl:call-template name='tv%d'/>)</xsl:variable>" % (i, i, i))
            extra.append("<xsl:template name='tv%d'>%s</xsl:template>" % (i, vals))
        elif f == "withparam":
            decl.append("<xsl:variable name='v%d'><xsl:call-template name='tv%d'><xsl:with-param name='p' select=\"%s\"/></xsl:call-template></xsl:variable>" % (i, i, cat))
            extra.append("<xsl:template name='tv%d'><xsl:param name='p'/><xsl:value-of select='$p'/></xsl:template>" % i)
        elif f == "foreach":
            decl.append("<xsl:variable name='v%d'>v%d(<xsl:for-each select='/'>%s</xsl:for-each>)</xsl:variable>" % (i, i, vals))
        elif f == "if":
            decl.append("<xsl:variable name='v%d'>v%d(<xsl:if test='true()'><xsl:choose><xsl:when test='false()'>n</xsl:when><xsl:otherwise>%s</xsl:otherwise></xsl:choose></xsl:if>)</xsl:variable>" % (i, i, vals))
        elif f == "key":
            decl.append("<xsl:variable name='v%d' select=\"concat('v%d(', count(key('kv%d', 'no-such-value')), ')')\"/>" % (i, i, i))
            extra.append("<xsl:key name='kv%d' match='a' use=\"%s\"/>" % (i, cat))
        elif f == "sort":
            decl.append("<xsl:variable name='v%d'>v%d(<xsl:for-each select='/doc/a'><xsl:sort select=\"%s\"/><xsl:if test='false()'>n</xsl:if></xsl:for-each>)</xsl:variable>" % (i, i, cat))
        elif f == "avt":
            decl.append("<xsl:variable name='v%d'><xsl:variable name='e'><e q=\"%s\"/></xsl:variable>v%d(<xsl:value-of select=\"string-length(x:nodeset($e)/e/@q)\"/>)</xsl:variable>"
                        % (i, "".join("{%s}" % x for x in refs), i))
        else:
            raise ValueError(f)
    if use == "value-of":
        main = "<xsl:template match='/'><xsl:value-of select='$v%d'/></xsl:template>" % start
    elif use == "attribute":
        main = "<xsl:template match='/'><xsl:variable name='l'><e><xsl:attribute name='q'><xsl:value-of select='$v%d'/></xsl:attribute></e></xsl:variable><xsl:value-of select='x:nodeset($l)/e/@q'/></xsl:template>" % start
    else:      # predicate inside a match pattern is not allowed to use variables; use a sort key of the main template
        main = "<xsl:template match='/'><xsl:for-each select='/doc'><xsl:sort select='$v%d'/><xsl:value-of select='$v%d'/></xsl:for-each></xsl:template>" % (start, start)
    return sheet("".join("\n" + d for d in decl) + "\n" + "".join(extra) + main)


def render_attribute_sets(deps, start):
    body = ""
    for i, ds in enumerate(deps):
        use = (" use-attribute-sets='%s'" % " ".join("s%d" % d for d in ds)) if ds else ""
        body += "\n<xsl:attribute-set name='s%d'%s><xsl:attribute name='a%d'>%d</xsl:attribute></xsl:attribute-set>" % (i, use, i, i)
    return sheet(body + "\n<xsl:template match='/'><r xsl:use-attribute-sets='s%d'/></xsl:template>" % start, "xml", " omit-xml-declaration='yes'")


TMPL_FORMS = ["call", "apply", "foreach-call", "var-call"]


def render_templates(deps, forms, start):
    body = ""
    for i, ds in enumerate(deps):
        inner = ""
        for k, d in enumerate(ds):
            f = forms[d]
            if f == "call":
                inner += "<xsl:call-template name='t%d'/>" % d
            elif f == "apply":
                inner += "<xsl:apply-templates select='.' mode='m%d'/>" % d
            elif f == "foreach-call":
                inner += "<xsl:for-each select='.'><xsl:call-template name='t%d'/></xsl:for-each>" % d
            else:
                inner += "<xsl:variable name='w%d'><xsl:call-template name='t%d'/></xsl:variable><xsl:value-of select='$w%d'/>" % (k, d, k)
        body += "\n<xsl:template name='t%d' match='/' mode='m%d'>[%d%s]</xsl:template>" % (i, i, i, inner)
    return sheet(body + "\n<xsl:template match='/'><xsl:call-template name='t%d'/></xsl:template>" % start)


def template_value(deps, i, memo=None):
    memo = {} if memo is None else memo
    if i not in memo:
        memo[i] = "[%d%s]" % (i, "".join(template_value(deps, d, memo) for d in deps[i]))
    return memo[i]


# ---------------------------------------------------------------------------------------------------
# static errors: the XSLT 1.0 instruction table (element, required attributes, optional attributes, place)

TOP, INSTR, SPECIAL = "top", "instruction", "special"
ELEMENTS = {
    "apply-imports": ([], [], INSTR), "apply-templates": ([], ["select", "mode"], INSTR), "attribute": (["name"], ["namespace"], INSTR),
    "attribute-set": (["name"], ["use-attribute-sets"], TOP), "call-template": (["name"], [], INSTR), "choose": ([], [], INSTR),
    "comment": ([], [], INSTR), "copy": ([], ["use-attribute-sets"], INSTR), "copy-of": (["select"], [], INSTR),
    "decimal-format": ([], ["name", "decimal-separator", "grouping-separator", "infinity", "minus-sign", "NaN", "percent", "per-mille", "zero-digit", "digit", "pattern-separator"], TOP),
    "element": (["name"], ["namespace", "use-attribute-sets"], INSTR), "fallback": ([], [], INSTR), "for-each": (["select"], [], INSTR),
    "if": (["test"], [], INSTR), "import": (["href"], [], TOP), "include": (["href"], [], TOP), "key": (["name", "match", "use"], [], TOP),
    "message": ([], ["terminate"], INSTR), "namespace-alias": (["stylesheet-prefix", "result-prefix"], [], TOP),
    "number": ([], ["level", "count", "from", "value", "format", "lang", "letter-value", "grouping-separator", "grouping-size"], INSTR),
    "otherwise": ([], [], SPECIAL), "output": ([], ["method", "version", "encoding", "omit-xml-declaration", "standalone", "doctype-public", "doctype-system", "cdata-section-elements", "indent", "media-type"], TOP),
    "param": (["name"], ["select"], SPECIAL), "preserve-space": (["elements"], [], TOP), "processing-instruction": (["name"], [], INSTR),
    "sort": ([], ["select", "lang", "data-type", "order", "case-order"], SPECIAL), "strip-space": (["elements"], [], TOP),
    "template": ([], ["match", "name", "priority", "mode"], TOP), "text": ([], ["disable-output-escaping"], INSTR),
    "value-of": (["select"], ["disable-output-escaping"], INSTR), "variable": (["name"], ["select"], INSTR), "when": (["test"], [], SPECIAL),
    "with-param": (["name"], ["select"], SPECIAL),
}
GOOD = {"select": "//a", "mode": "m", "name": "nm", "namespace": "urn:n", "use-attribute-sets": "as1", "test": "1", "href": "file:///vmem/none.xsl", "match": "a", "use": "@n",
        "terminate": "no", "stylesheet-prefix": "str", "result-prefix": "x", "level": "single", "count": "a", "from": "doc", "value": "3", "format": "1", "lang": "en",
        "letter-value": "alphabetic", "grouping-separator": ",", "grouping-size": "3", "method": "xml", "version": "1.0", "encoding": "UTF-8", "omit-xml-declaration": "yes",
        "standalone": "yes", "doctype-public": "p", "doctype-system": "s", "cdata-section-elements": "c", "indent": "no", "media-type": "text/xml", "elements": "a",
        "priority": "1", "disable-output-escaping": "no", "data-type": "text", "order": "ascending", "case-order": "upper-first", "decimal-separator": ".", "infinity": "Inf",
        "minus-sign": "-", "NaN": "NaN", "percent": "%", "per-mille": "m", "zero-digit": "0", "digit": "#", "pattern-separator": ";"}
QNAME_ATTRS = {"name", "mode", "use-attribute-sets", "cdata-section-elements", "elements", "data-type", "method"}
EXPR_ATTRS = {"select", "test", "use", "value"}
PATTERN_ATTRS = {"match", "count", "from"}
YESNO_ATTRS = {"terminate", "omit-xml-declaration", "standalone", "indent", "disable-output-escaping"}
NUMBER_ATTRS = {"priority", "grouping-size"}
CHAR_ATTRS = {"decimal-separator", "grouping-separator", "minus-sign", "percent", "per-mille", "zero-digit", "digit", "pattern-separator"}
AVT_ATTRS = {("attribute", "name"), ("attribute", "namespace"), ("element", "name"), ("element", "namespace"), ("processing-instruction", "name"),
             ("number", "format"), ("number", "lang"), ("number", "letter-value"), ("number", "grouping-separator"), ("number", "grouping-size"),
             ("sort", "lang"), ("sort", "data-type"), ("sort", "order"), ("sort", "case-order")}
BAD_QNAME = ["zz:n", ":n", "n:", "1n", "a b c:", "", "xsl:n", "p:q:r", "#default", "{", "n{", "é:x"]
BAD_EXPR = ["", " ", "(", "1 +", "$", "$undefined", "//a[", "a b", "'", "zz:f()", "f(", "1 div", "@", "a::b", "child::", "..a", "!", "key(", "document(", "9" * 400, "/" * 3, "//", "a|", "-",
            "string(1,2)", "concat('a')", "substring()", "position(1)", "not()", "u:f(1)", "$a:b", "id()", "lang()", "1 = = 1", " "]
BAD_PATTERN = ["", "(", "a[", "1", "a/../b", "ancestor::a", "$v", "a|", "//", "/ /", "key('k')", "id(1)", "key('k', $v)", "f()", "a//", "@", "a b", ".", "..", "text(", "zz:a", "*:a"]
BAD_YESNO = ["Yes", "YES", "y", "true", "1", "", " yes", "yes no", "{'yes'}"]
BAD_NUMBER = ["x", "", "1e5", "--1", "1.2.3", "NaN", "Infinity", "-0", "9" * 40, "-" + "9" * 40, "0x10", "1 2", "0.5", "-3", "0", "{1}", "1e400", "١"]
BAD_CHAR = ["", "ab", "\U0001D7D8", "0", "#", ".", ",", "'", " "]
BAD_AVT = ["{", "}", "{{}", "{}}", "a{", "{1", "{'}'}}", "{$undefined}", "{(}", "{}", "{{{1}", "}{", "{1}{", "{'", "{zz:f()}", "{1}}"]
BAD_FORMAT = ["", "#", "0.0.0", ";;", "'", "0'", "#,##,0", "0;0;0", "%%", "‰‰", "0" * 400, "#" * 400 + "0", "E0", "0E", "00.00E00", "'unterminated", "-", ";", "0.#0", "#0#"]
BAD_ENCODING = ["bogus", "", "UTF-7", "utf_8", "UCS-4", "EBCDIC-CP-US", "x" * 300, "UTF-16LE", "ISO-8859-99", " UTF-8", "{1}"]
BAD_METHOD = ["bogus", "", "XML", "zz:m", "x:m", "html4", "text html", ":", "{1}"]


def esc(v):
    return v.replace("&", "&amp;").replace("<", "&lt;").replace('"', "&quot;")


def attrs_str(d):
    return "".join(' %s="%s"' % (k, esc(v)) for k, v in d.items())


def element_in_place(el, attrs, content=""):
    """a correct placement of the element with the given attributes; returns a whole stylesheet"""
    a = attrs_str(attrs)
    x = "<xsl:%s%s>%s</xsl:%s>" % (el, a, content, el)
    aux = ("<xsl:attribute-set name='as1'><xsl:attribute name='q'>1</xsl:attribute></xsl:attribute-set><xsl:template name='nm' mode='m' match='a'>t</xsl:template>"
           "<xsl:key name='kk' match='a' use='@n'/>")
    place = ELEMENTS[el][2]
    if el == "template":
        return sheet(aux.replace(" name='nm'", "") + x + "<xsl:template match='/'><xsl:apply-templates select='//a'/><xsl:apply-templates select='//a' mode='m'/></xsl:template>", "xml")
    if place == TOP:
        use = "<r xsl:use-attribute-sets='%s'>" % attrs.get("name", "as1") if el == "attribute-set" and attrs.get("name") and " " not in attrs["name"] and attrs["name"].isalnum() else "<r>"
        return sheet(aux + x + "<xsl:template match='/'>" + use + "<xsl:value-of select=\"format-number(1234.5, '#,##0.0')\"/><xsl:copy-of select=\"key('nm', '2')\"/><xsl:apply-templates select='//b'/></r></xsl:template>", "xml")
    if el == "otherwise":
        x = "<xsl:choose><xsl:when test='false()'>w</xsl:when>" + x + "</xsl:choose>"
    elif el == "when":
        x = "<xsl:choose>" + x + "<xsl:otherwise>o</xsl:otherwise></xsl:choose>"
    elif el == "sort":
        x = "<xsl:for-each select='//a'>" + x + "<xsl:value-of select='@n'/></xsl:for-each>"
    elif el == "with-param":
        x = "<xsl:call-template name='nm'>" + x + "</xsl:call-template>"
    elif el == "param":
        return sheet(aux + "<xsl:template match='/'><xsl:call-template name='tp'/></xsl:template><xsl:template name='tp'>" + x + "<r><xsl:value-of select='1'/></r></xsl:template>", "xml")
    elif el == "fallback":
        x = "<u:ext>" + x + "</u:ext>"
    elif el in ("attribute",):
        x = "<e>" + x + "</e>"
    return sheet(aux + "<xsl:template match='/'><r><xsl:for-each select='//a'>" + x + "</xsl:for-each></r></xsl:template>", "xml")


def good_attrs(el):
    req, opt, _ = ELEMENTS[el]
    d = {a: GOOD[a] for a in req}
    if el == "template":
        d["match"] = "b"
    return d


def bad_values(el, a, r):
    out = []
    if a in QNAME_ATTRS:
        out += BAD_QNAME
    if a in EXPR_ATTRS:
        out += BAD_EXPR
    if a in PATTERN_ATTRS:
        out += BAD_PATTERN
    if a in YESNO_ATTRS:
        out += BAD_YESNO
    if a in NUMBER_ATTRS:
        out += BAD_NUMBER
    if a in CHAR_ATTRS:
        out += BAD_CHAR
    if (el, a) in AVT_ATTRS:
        out += BAD_AVT
    if a == "encoding":
        out += BAD_ENCODING
    if a == "method":
        out += BAD_METHOD
    if a in ("level", "letter-value", "order", "case-order", "lang", "version", "format", "href", "result-prefix", "stylesheet-prefix", "infinity", "NaN", "media-type", "doctype-public", "doctype-system"):
        out += ["", "x", "single any", "{", "#default", "zz", " ", "é", "a" * 300]
    return out


def gen_static(r, per_class):
    """yields (class, stylesheet, source, must_fail) — must_fail is None when XSLT 1.0 lets the processor recover"""
    out = []
    for el in sorted(ELEMENTS):
        req, opt, place = ELEMENTS[el]
        base = good_attrs(el)
        content = {"choose": "<xsl:when test='1'>w</xsl:when>", "attribute-set": "<xsl:attribute name='q'>1</xsl:attribute>", "template": "T", "message": "msg",
                   "call-template": "", "apply-imports": "", "copy-of": "", "value-of": "", "sort": "", "with-param": "", "import": "", "include": "", "key": "", "output": "",
                   "strip-space": "", "preserve-space": "", "namespace-alias": "", "decimal-format": "", "number": "", "apply-templates": ""}.get(el, "c")
        out.append(("static:valid", element_in_place(el, base, content), DOC, None))
        for a in req:       # a required attribute missing
            d = dict(base)
            del d[a]
            out.append(("static:missing-required", element_in_place(el, d, content), DOC, None))
        for a in ["bogus", "xsl:select", "xml:lang", "u:ext", "Select", "select "[:6] if "select" not in req + opt else "slect"]:
            d = dict(base)
            d[a] = "1"
            out.append(("static:unknown-attribute", element_in_place(el, d, content), DOC, None))
        for a in req + opt:
            vals = bad_values(el, a, r)
            for v in (r.sample(vals, min(per_class, len(vals))) if vals else []):
                d = dict(base)
                d[a] = v
                out.append(("static:bad-value:" + ("avt" if (el, a) in AVT_ATTRS and v in BAD_AVT else a), element_in_place(el, d, content), DOC, None))
        # wrong place: a top-level element inside a template, an instruction at the top level, inside xsl:choose, nested in itself
        x = "<xsl:%s%s>%s</xsl:%s>" % (el, attrs_str(base), content, el)
        out.append(("static:misplaced:in-template", tmpl("<r>" + x + "</r>", "xml"), DOC, None))
        out.append(("static:misplaced:top-level", sheet(x + "<xsl:template match='/'>t</xsl:template>", "xml"), DOC, None))
        out.append(("static:misplaced:in-choose", tmpl("<xsl:choose>" + x + "<xsl:when test='1'>w</xsl:when></xsl:choose>", "xml"), DOC, None))
        out.append(("static:misplaced:in-itself", element_in_place(el, base, x), DOC, None))
        out.append(("static:misplaced:after-content", tmpl("<r>text<e/>" + x + "</r>", "xml"), DOC, None))
        out.append(("static:misplaced:in-text-only", tmpl("<xsl:comment>" + x + "</xsl:comment><xsl:attribute name='q'>" + x + "</xsl:attribute>", "xml"), DOC, None))
    fixed = [
        ("param-after-content", sheet("<xsl:template match='/'><xsl:call-template name='t'/></xsl:template><xsl:template name='t'>x<xsl:param name='p'/><xsl:value-of select='$p'/></xsl:template>")),
        ("otherwise-twice", tmpl("<xsl:choose><xsl:when test='0'>w</xsl:when><xsl:otherwise>a</xsl:otherwise><xsl:otherwise>b</xsl:otherwise></xsl:choose>")),
        ("otherwise-before-when", tmpl("<xsl:choose><xsl:otherwise>a</xsl:otherwise><xsl:when test='1'>w</xsl:when></xsl:choose>")),
        ("choose-empty", tmpl("<xsl:choose/>")),
        ("choose-only-otherwise", tmpl("<xsl:choose><xsl:otherwise>a</xsl:otherwise></xsl:choose>")),
        ("text-in-choose", tmpl("<xsl:choose>text<xsl:when test='1'>w</xsl:when></xsl:choose>")),
        ("literal-in-choose", tmpl("<xsl:choose><e/><xsl:when test='1'>w</xsl:when></xsl:choose>")),
        ("sort-not-first", tmpl("<xsl:for-each select='//a'><xsl:value-of select='@n'/><xsl:sort select='@n'/></xsl:for-each>")),
        ("sort-in-template", tmpl("<xsl:sort select='@n'/>")),
        ("sort-after-with-param", tmpl("<xsl:apply-templates select='//a'><xsl:with-param name='p' select='1'/><xsl:sort select='@n'/>text</xsl:apply-templates>")),
        ("text-in-apply-templates", tmpl("<xsl:apply-templates select='//a'>text</xsl:apply-templates>")),
        ("text-in-call-template", sheet("<xsl:template name='t'>t</xsl:template><xsl:template match='/'><xsl:call-template name='t'>text</xsl:call-template></xsl:template>")),
        ("with-param-duplicate", sheet("<xsl:template name='t'><xsl:param name='p'/><xsl:value-of select='$p'/></xsl:template><xsl:template match='/'><xsl:call-template name='t'><xsl:with-param name='p' select='1'/><xsl:with-param name='p' select='2'/></xsl:call-template></xsl:template>")),
        ("param-duplicate", sheet("<xsl:template name='t'><xsl:param name='p'/><xsl:param name='p'/><xsl:value-of select='$p'/></xsl:template><xsl:template match='/'><xsl:call-template name='t'/></xsl:template>")),
        ("variable-duplicate-local", tmpl("<xsl:variable name='v' select='1'/><xsl:variable name='v' select='2'/><xsl:value-of select='$v'/>")),
        ("variable-shadow-in-for-each", tmpl("<xsl:variable name='v' select='1'/><xsl:for-each select='//a'><xsl:variable name='v' select='2'/><xsl:value-of select='$v'/></xsl:for-each>")),
        ("variable-duplicate-global", sheet("<xsl:variable name='v' select='1'/><xsl:variable name='v' select='2'/><xsl:template match='/'><xsl:value-of select='$v'/></xsl:template>")),
        ("variable-param-same-name-global", sheet("<xsl:variable name='v' select='1'/><xsl:param name='v' select='2'/><xsl:template match='/'><xsl:value-of select='$v'/></xsl:template>")),
        ("variable-select-and-content", tmpl("<xsl:variable name='v' select='1'>content</xsl:variable><xsl:value-of select='$v'/>")),
        ("with-param-select-and-content", sheet("<xsl:template name='t'><xsl:param name='p' select='1'>c</xsl:param><xsl:value-of select='$p'/></xsl:template><xsl:template match='/'><xsl:call-template name='t'><xsl:with-param name='p' select='1'>c</xsl:with-param></xsl:call-template></xsl:template>")),
        ("template-name-duplicate", sheet("<xsl:template name='t'>1</xsl:template><xsl:template name='t'>2</xsl:template><xsl:template match='/'><xsl:call-template name='t'/></xsl:template>")),
        ("template-neither-match-nor-name", sheet("<xsl:template>x</xsl:template><xsl:template match='/'>t</xsl:template>")),
        ("template-mode-without-match", sheet("<xsl:template name='t' mode='m'>x</xsl:template><xsl:template match='/'><xsl:call-template name='t'/></xsl:template>")),
        ("template-in-template", tmpl("<xsl:template match='a'>x</xsl:template>")),
        ("stylesheet-in-stylesheet", sheet("<xsl:stylesheet version='1.0'><xsl:template match='/'>x</xsl:template></xsl:stylesheet>")),
        ("stylesheet-in-template", tmpl("<xsl:stylesheet version='1.0'><xsl:template match='/'>x</xsl:template></xsl:stylesheet>")),
        ("key-name-duplicate", sheet("<xsl:key name='k' match='a' use='@n'/><xsl:key name='k' match='b' use='.'/><xsl:template match='/'><xsl:value-of select=\"count(key('k', '1') | key('k', '-7'))\"/></xsl:template>")),
        ("key-undefined", tmpl("<xsl:value-of select=\"count(key('nokey', '1'))\"/>")),
        ("key-use-calls-key", sheet("<xsl:key name='k' match='a' use=\"key('k', @n)\"/><xsl:template match='/'><xsl:value-of select=\"count(key('k', '1'))\"/></xsl:template>")),
        ("key-match-calls-key", sheet("<xsl:key name='k' match=\"a[key('k', '1')]\" use='@n'/><xsl:template match='/'><xsl:value-of select=\"count(key('k', '1'))\"/></xsl:template>")),
        ("key-use-variable", sheet("<xsl:variable name='v' select='1'/><xsl:key name='k' match='a' use='$v'/><xsl:template match='/'><xsl:value-of select=\"count(key('k', '1'))\"/></xsl:template>")),
        ("key-match-variable", sheet("<xsl:variable name='v' select='1'/><xsl:key name='k' match='a[$v]' use='@n'/><xsl:template match='/'><xsl:value-of select=\"count(key('k', '1'))\"/></xsl:template>")),
        ("match-variable", sheet("<xsl:variable name='v' select='1'/><xsl:template match='a[$v]'>x</xsl:template>")),
        ("call-undefined-template", tmpl("<xsl:call-template name='undefined'/>")),
        ("call-undefined-in-dead-branch", tmpl("<xsl:if test='false()'><xsl:call-template name='undefined'/></xsl:if>ok")),
        ("apply-imports-without-import", tmpl("<xsl:apply-imports/>")),
        ("apply-imports-in-for-each", tmpl("<xsl:for-each select='//a'><xsl:apply-imports/></xsl:for-each>")),
        ("apply-imports-in-named-template", sheet("<xsl:template name='t'><xsl:apply-imports/></xsl:template><xsl:template match='/'><xsl:call-template name='t'/></xsl:template>")),
        ("attribute-set-undefined", tmpl("<r xsl:use-attribute-sets='undefined'/>", "xml")),
        ("attribute-set-duplicate", sheet("<xsl:attribute-set name='s'><xsl:attribute name='a'>1</xsl:attribute></xsl:attribute-set><xsl:attribute-set name='s'><xsl:attribute name='a'>2</xsl:attribute></xsl:attribute-set><xsl:template match='/'><r xsl:use-attribute-sets='s'/></xsl:template>", "xml")),
        ("attribute-set-with-non-attribute", sheet("<xsl:attribute-set name='s'><xsl:value-of select='1'/>text<e/></xsl:attribute-set><xsl:template match='/'><r xsl:use-attribute-sets='s'/></xsl:template>", "xml")),
        ("decimal-format-duplicate-same", sheet("<xsl:decimal-format name='f' decimal-separator=','/><xsl:decimal-format name='f' decimal-separator=','/><xsl:template match='/'><xsl:value-of select=\"format-number(1.5, '0,0', 'f')\"/></xsl:template>")),
        ("decimal-format-duplicate-conflict", sheet("<xsl:decimal-format name='f' decimal-separator=','/><xsl:decimal-format name='f' decimal-separator=';'/><xsl:template match='/'><xsl:value-of select=\"format-number(1.5, '0,0', 'f')\"/></xsl:template>")),
        ("decimal-format-default-conflict", sheet("<xsl:decimal-format decimal-separator=','/><xsl:decimal-format grouping-separator=','/><xsl:template match='/'><xsl:value-of select=\"format-number(1234.5, '#,##0,0')\"/></xsl:template>")),
        ("decimal-format-same-characters", sheet("<xsl:decimal-format name='f' decimal-separator='.' grouping-separator='.' digit='0' zero-digit='0' pattern-separator='.' percent='.' per-mille='.'/><xsl:template match='/'><xsl:value-of select=\"format-number(1234.5, '0.0', 'f')\"/></xsl:template>")),
        ("decimal-format-undefined", tmpl("<xsl:value-of select=\"format-number(1.5, '0.0', 'undefined')\"/>")),
        ("output-duplicate-conflict", sheet("<xsl:output method='html' encoding='ISO-8859-1'/><xsl:output method='text' encoding='UTF-16'/><xsl:template match='/'><r>&#233;</r></xsl:template>", "xml")),
        ("namespace-alias-undeclared", sheet("<xsl:namespace-alias stylesheet-prefix='zz' result-prefix='yy'/><xsl:template match='/'><r/></xsl:template>", "xml")),
        ("namespace-alias-cycle", sheet("<xsl:namespace-alias stylesheet-prefix='str' result-prefix='x'/><xsl:namespace-alias stylesheet-prefix='x' result-prefix='str'/><xsl:template match='/'><str:r x:a='1'><x:e/></str:r></xsl:template>", "xml")),
        ("strip-and-preserve-conflict", sheet("<xsl:strip-space elements='a *'/><xsl:preserve-space elements='a *'/><xsl:template match='/'><xsl:copy-of select='/'/></xsl:template>", "xml")),
        ("literal-result-element-as-stylesheet-without-version", "<r xmlns:xsl='" + XSLNS + "'><xsl:value-of select='1'/></r>"),
        ("literal-result-element-as-stylesheet-with-top-level", "<r xsl:version='1.0' xmlns:xsl='" + XSLNS + "'><xsl:template match='/'>x</xsl:template><xsl:variable name='v' select='1'/><xsl:value-of select='$v'/></r>"),
        ("stylesheet-without-version", "<xsl:stylesheet xmlns:xsl='" + XSLNS + "'><xsl:template match='/'>x</xsl:template></xsl:stylesheet>"),
        ("stylesheet-wrong-namespace", "<xsl:stylesheet version='1.0' xmlns:xsl='http://www.w3.org/TR/WD-xsl'><xsl:template match='/'>x</xsl:template></xsl:stylesheet>"),
        ("stylesheet-root-not-stylesheet", "<xsl:template match='/' xmlns:xsl='" + XSLNS + "'>x</xsl:template>"),
        ("forwards-compatible-unknown-instruction", "<xsl:stylesheet version='7.0' xmlns:xsl='" + XSLNS + "'><xsl:template match='/'><xsl:frobnicate select='1'><xsl:fallback>fb</xsl:fallback></xsl:frobnicate><xsl:value-of select='new-function(1)'/></xsl:template></xsl:stylesheet>"),
        ("forwards-compatible-unknown-top-level", "<xsl:stylesheet version='7.0' xmlns:xsl='" + XSLNS + "'><xsl:frobnicate select='('/><xsl:template match='/'>x</xsl:template></xsl:stylesheet>"),
        ("unknown-instruction-1.0", tmpl("<xsl:frobnicate select='1'><xsl:fallback>fb</xsl:fallback></xsl:frobnicate>")),
        ("unknown-top-level-1.0", sheet("<xsl:frobnicate/><xsl:template match='/'>x</xsl:template>")),
        ("extension-element-unknown-with-fallback", HEAD.replace("exclude-result-prefixes", "extension-element-prefixes='u' exclude-result-prefixes") + "<xsl:template match='/'><u:ext a='{'><xsl:fallback>fb</xsl:fallback></u:ext></xsl:template>" + TAIL),
        ("extension-element-unknown-without-fallback", HEAD.replace("exclude-result-prefixes", "extension-element-prefixes='u' exclude-result-prefixes") + "<xsl:template match='/'><u:ext/>after</xsl:template>" + TAIL),
        ("extension-element-prefix-undeclared", HEAD.replace("exclude-result-prefixes", "extension-element-prefixes='zz' exclude-result-prefixes") + "<xsl:template match='/'>x</xsl:template>" + TAIL),
        ("exclude-result-prefix-undeclared", HEAD.replace("exclude-result-prefixes='str x u'", "exclude-result-prefixes='zz'") + "<xsl:template match='/'>x</xsl:template>" + TAIL),
        ("xsl-attribute-on-literal-unknown", tmpl("<r xsl:bogus='1' xsl:version='9' xsl:use-attribute-sets='' xsl:exclude-result-prefixes='zz' xsl:extension-element-prefixes='zz'/>", "xml")),
        ("attribute-after-child", tmpl("<r><e/><xsl:attribute name='q'>1</xsl:attribute></r>", "xml")),
        ("attribute-outside-element", tmpl("<xsl:attribute name='q'>1</xsl:attribute>", "xml")),
        ("attribute-named-xmlns", tmpl("<r><xsl:attribute name='xmlns'>u</xsl:attribute><xsl:attribute name='xmlns:p'>u</xsl:attribute></r>", "xml")),
        ("element-in-attribute", tmpl("<r><xsl:attribute name='q'><e/><xsl:comment>c</xsl:comment></xsl:attribute></r>", "xml")),
        ("comment-with-dashes", tmpl("<xsl:comment>a--b-</xsl:comment>", "xml")),
        ("pi-named-xml", tmpl("<xsl:processing-instruction name='xml'>version='1.0'</xsl:processing-instruction><xsl:processing-instruction name='p'>a?>b</xsl:processing-instruction>", "xml")),
        ("element-name-invalid-at-run-time", tmpl("<xsl:element name='{//a[1]/text()} {1}'>x</xsl:element><xsl:element name='{\"\"}'/><xsl:element name='zz:e'/>", "xml")),
        ("number-value-nonsense", tmpl("<xsl:number value=\"'x'\"/><xsl:number value='-1'/><xsl:number value='0' format='i'/><xsl:number value='1 div 0'/><xsl:number value='0 div 0' format='a'/><xsl:number value='1e30' grouping-size='3' grouping-separator=','/>")),
    ]
    for name, s in fixed:
        out.append(("static:" + name, s, DOC, None))
    return out


# ---------------------------------------------------------------------------------------------------
# run-time errors

def nest(depth, inner, how):
    s = inner
    for k in range(depth):
        w = how[k % len(how)]
        if w == "foreach":
            s = "<xsl:for-each select='.'>" + s + "</xsl:for-each>"
        elif w == "if":
            s = "<xsl:if test='true()'>" + s + "</xsl:if>"
        elif w == "element":
            s = "<e>" + s + "</e>"
        elif w == "variable":
            s = "<xsl:variable name='w%d'>" % k + s + "</xsl:variable><xsl:copy-of select='$w%d'/>" % k
        elif w == "choose":
            s = "<xsl:choose><xsl:when test='false()'/><xsl:otherwise>" + s + "</xsl:otherwise></xsl:choose>"
        elif w == "attribute":
            s = "<e><xsl:attribute name='q'>" + s + "</xsl:attribute></e>"
        elif w == "comment":
            s = "<xsl:comment>" + s + "</xsl:comment>"
    return s


TERMINATE = "<xsl:message terminate='yes'>STOP<e>now</e></xsl:message>"


def gen_dynamic(r, sizes, tmpdir, n_random):
    """yields (class, stylesheet, source, must_fail)"""
    out = []
    # --- wrong-type conversions
    rtf = "<xsl:variable name='f'><e>1</e><e>2</e></xsl:variable>"
    for name, e in [("rtf-as-node-set-path", "$f/e"), ("rtf-in-union", "$f | //a"), ("rtf-in-count", "count($f)"), ("rtf-in-for-each", None), ("rtf-in-apply-templates", None),
                    ("rtf-predicate", "$f[1]"), ("rtf-sum", "sum($f)"), ("rtf-as-key-value", "key('kk', $f)"), ("rtf-in-id", "id($f)"), ("rtf-filter-step", "($f)//e"),
                    ("number-as-node-set", "count(1)"), ("string-as-node-set", "'a'/b"), ("boolean-as-node-set", "true() | //a"), ("string-in-path", "//a/'x'"), ("number-step", "//a/1"),
                    ("node-set-fn-on-string", "x:nodeset('s')/e"), ("name-of-number", "name(1)"), ("local-name-of-string", "local-name('s')"), ("sum-of-string", "sum('1')"),
                    ("last-with-argument", "last(1)"), ("too-many-arguments", "substring('a', 1, 2, 3)"), ("too-few-arguments", "contains('a')"), ("variable-as-function", "$f(1)")]:
        if name == "rtf-in-for-each":
            body = rtf + "<xsl:for-each select='$f'>x</xsl:for-each>"
        elif name == "rtf-in-apply-templates":
            body = rtf + "<xsl:apply-templates select='$f'/>"
        else:
            body = rtf + "<xsl:value-of select=\"%s\"/>" % esc(e)
        out.append(("dynamic:type:" + name, sheet("<xsl:key name='kk' match='a' use='@n'/><xsl:template match='/'>" + body + "</xsl:template>"), DOC, None))
    # --- computed names that are not legal: the node is not created, the content still is (repaired defect 00427ff:
    #     xsl:element with an illegal computed name AND use-attribute-sets read an empty stack of attribute-set indexes)
    asets = ("<xsl:attribute-set name='s'><xsl:attribute name='a'>1</xsl:attribute></xsl:attribute-set>"
             "<xsl:attribute-set name='t' use-attribute-sets='s'><xsl:attribute name='b'>2</xsl:attribute></xsl:attribute-set>")
    for bad in ["{'1bad'}", "p:x", "{concat('u', ':', 'x')}", "{''}", "a b", "xmlns:q", "{//a[1]/@n}", ":x", "x:", "{'ok'}"]:
        for uas in ("", " use-attribute-sets='s'", " use-attribute-sets='t s'"):
            for kids in ("x", "<xsl:attribute name='d'>4</xsl:attribute>y<xsl:element name='in'%s>z</xsl:element>" % uas,
                         "<xsl:element name=\"%s\"%s>deep</xsl:element>" % (bad, uas)):
                body = "<out><xsl:element name=\"%s\"%s>%s</xsl:element><xsl:copy%s>c</xsl:copy></out>" % (bad, uas, kids, uas)
                out.append(("dynamic:illegal-computed-name:element", sheet(asets + "<xsl:template match='/'>" + body + "</xsl:template>", "xml"), DOC, None))
        out.append(("dynamic:illegal-computed-name:attribute", tmpl("<out><xsl:attribute name=\"%s\">v</xsl:attribute>t</out>" % bad, "xml"), DOC, None))
        out.append(("dynamic:illegal-computed-name:pi", tmpl("<out><xsl:processing-instruction name=\"%s\">v</xsl:processing-instruction>t</out>" % bad, "xml"), DOC, None))
    # --- unknown functions / extension namespaces, with and without function-available guards
    for fn in ["u:f(1)", "str:nosuch(1)", "x:nosuch()", "nosuch()", "xsl:f()", "str:tokenize()", "x:nodeset()", "x:nodeset(1, 2)", "document()", "key('k')", "format-number(1)",
               "function-available()", "function-available(1, 2)", "function-available('zz:f')", "element-available('zz:e')", "system-property('zz:p')", "system-property()", "unparsed-entity-uri()",
               "generate-id(1)", "generate-id(//a, //b)", "current(1)", "x:evaluate('(')", "x:evaluate('$undefined')", "x:evaluate(\"u:f()\")", "x:difference(1, 2)", "x:distinct('a')",
               "str:align('a')", "str:padding()", "str:concat('a')", "x:hasSameNodes(1)", "x:intersection(//a)"]:
        out.append(("dynamic:function:unguarded", tmpl("<xsl:value-of select=\"%s\"/>" % esc(fn)), DOC, None))
        name = fn.split("(")[0]
        out.append(("dynamic:function:guarded", tmpl("<xsl:choose><xsl:when test=\"function-available('%s')\">y</xsl:when><xsl:otherwise>n</xsl:otherwise></xsl:choose>"
                                                     "<xsl:if test=\"false() and %s\">dead</xsl:if>" % (name, esc(fn))), DOC, None))
    # --- xsl:message terminate='yes' at every depth and in every kind of place
    hows = ["foreach", "if", "element", "variable", "choose", "attribute", "comment"]
    for d in list(range(0, 12)) + [30, 100, 300]:
        how = [r.choice(hows) for _ in range(max(1, d))]
        out.append(("dynamic:terminate:depth", tmpl("<r>before" + nest(d, TERMINATE, how) + "after</r>", r.choice(["xml", "html", "text"])), DOC, True))
    places = {
        "global-variable-body": sheet("<xsl:variable name='g'>" + TERMINATE + "</xsl:variable><xsl:template match='/'><xsl:value-of select='$g'/></xsl:template>"),
        "global-variable-unused": sheet("<xsl:variable name='g'>" + TERMINATE + "</xsl:variable><xsl:template match='/'>ok</xsl:template>"),
        "param-default": sheet("<xsl:template name='t'><xsl:param name='p'>" + TERMINATE + "</xsl:param>x</xsl:template><xsl:template match='/'><xsl:call-template name='t'/></xsl:template>"),
        "with-param-body": sheet("<xsl:template name='t'><xsl:param name='p'/>x</xsl:template><xsl:template match='/'><xsl:call-template name='t'><xsl:with-param name='p'>" + TERMINATE + "</xsl:with-param></xsl:call-template></xsl:template>"),
        "sort-key-via-variable": sheet("<xsl:variable name='g'>" + TERMINATE + "</xsl:variable><xsl:template match='/'><xsl:for-each select='//a'><xsl:sort select='$g'/>x</xsl:for-each></xsl:template>"),
        "avt-via-variable": sheet("<xsl:variable name='g'>" + TERMINATE + "</xsl:variable><xsl:template match='/'><r q='{$g}'/></xsl:template>", "xml"),
        "key-use-via-variable": sheet("<xsl:variable name='g'>" + TERMINATE + "</xsl:variable><xsl:key name='k' match='a' use='$g'/><xsl:template match='/'><xsl:value-of select=\"count(key('k', 1))\"/></xsl:template>"),
        "attribute-set": sheet("<xsl:attribute-set name='s'><xsl:attribute name='q'>" + TERMINATE + "</xsl:attribute></xsl:attribute-set><xsl:template match='/'><r xsl:use-attribute-sets='s'/></xsl:template>", "xml"),
        "inside-message": tmpl("<xsl:message>outer" + TERMINATE + "</xsl:message>"),
        "fallback": tmpl("<u:ext xsl:extension-element-prefixes='u'><xsl:fallback>" + TERMINATE + "</xsl:fallback></u:ext>"),
        "built-in-recursion": sheet("<xsl:template match='b'>" + TERMINATE + "</xsl:template>"),
        "second-of-many-nodes": sheet("<xsl:template match='/'><r><xsl:apply-templates select='//a'/></r></xsl:template><xsl:template match='a'><e><xsl:if test='@n = 2'>" + TERMINATE + "</xsl:if></e></xsl:template>", "xml", " indent='yes'"),
        "number-format-avt": sheet("<xsl:variable name='g'>" + TERMINATE + "</xsl:variable><xsl:template match='/'><xsl:number value='1' format='{$g}'/></xsl:template>"),
        "terminate-avt-not-allowed": tmpl("<xsl:message terminate=\"{'yes'}\">m</xsl:message>after"),
    }
    for k, s in sorted(places.items()):
        out.append(("dynamic:terminate:" + k, s, DOC, True if k not in ("global-variable-unused", "terminate-avt-not-allowed", "fallback") else None))
    # --- document() of missing / ill-formed documents, unknown encodings, unserialisable characters
    bad = os.path.join(tmpdir, "illformed.xml")
    with open(bad, "w") as f:
        f.write("<a><b></a>")
    good = os.path.join(tmpdir, "good.xml")
    with open(good, "w") as f:
        f.write("<g><h>7</h></g>")
    enc = os.path.join(tmpdir, "enc.xml")
    with open(enc, "wb") as f:
        f.write(b"<?xml version='1.0' encoding='bogus-enc'?><a/>")
    trunc = os.path.join(tmpdir, "trunc.xml")
    with open(trunc, "wb") as f:
        f.write(b"<?xml version='1.0' encoding='UTF-16'?><a/>")
    for name, href in [("missing", "file:///nonexistent/x.xml"), ("ill-formed", "file://" + bad), ("unknown-encoding", "file://" + enc), ("utf16-declared-utf8-bytes", "file://" + trunc),
                       ("empty-href-relative", "nonexistent.xml"), ("bad-scheme", "zz://x/y"), ("http-unreachable", "http://127.0.0.1:1/x.xml"), ("fragment", "file://" + good + "#frag"),
                       ("percent", "file:///%zz"), ("long", "file:///" + "d/" * 600 + "x.xml"), ("good", "file://" + good), ("nul-like", "file:///x%00y")]:
        for form in ("document('%s')", "document('%s', /)", "document(//a/@n, document('%s'))", "document('%s')//h | document('%s')//h"):
            e = form.replace("%s", href)
            out.append(("dynamic:document:" + name, tmpl("<xsl:value-of select=\"count(%s)\"/>[<xsl:copy-of select=\"%s\"/>]" % (e, e), "xml"), DOC,
                        False if name == "good" and form.count("%s") == 1 and "@n" not in form else None))
    # relative references whose '../' chain climbs to and ABOVE the root of the base URI's path (XalanParsedURI::resolve;
    # seed C03_e): resolved against the base of a document loaded by an absolute file: URL
    for k in (1, 2, 3, 4, 5, 6, 8, 12, 40):
        for tail in ("none.xml", "./x/../none.xml"):     # not "": a directory URL is the class of K-C03e-3 (leak inside Xerces-C)
            e = "document('%s%s', document('file://%s'))" % ("../" * k, tail, good)
            out.append(("dynamic:document:dotdot-above-root", tmpl("<xsl:value-of select=\"count(%s)\"/>" % e, "xml"), DOC, None))
    for encname in BAD_ENCODING + ["UTF-8", "UTF-16", "us-ascii", "ISO-8859-1", "windows-1252", "UTF-32", "Shift_JIS", "EUC-JP", "IBM037", "KOI8-R", "Big5"]:
        for meth in ("xml", "html", "text"):
            out.append(("dynamic:encoding", tmpl("<r q='&#233;&#x20AC;&#x10000;'>&#233;&#x20AC;&#x10000;&#xFFFD;<xsl:comment>&#x20AC;</xsl:comment><xsl:processing-instruction name='p'>&#x20AC;</xsl:processing-instruction></r>",
                                                 meth, " encoding=\"%s\"" % esc(encname)), DOC, None))
    for name, body in [("nul-by-translate", "<xsl:value-of select=\"translate('a', 'a', '&#x1;')\"/>"), ("c0-in-attribute", "<r q=\"{translate('a', 'a', '&#x1F;')}\"/>"),
                       ("fffe", "<r>&#xFFFE;&#xFFFF;</r>"), ("lone-surrogate-by-substring", "<r><xsl:value-of select=\"substring('&#x10000;', 1, 1)\"/><xsl:value-of select=\"substring('&#x10000;', 2, 1)\"/></r>"),
                       ("cdata-with-end-marker", "<c>a]]&gt;b&#x20AC;]]&gt;</c>"), ("pi-with-end", "<xsl:processing-instruction name='p'>?&gt;?</xsl:processing-instruction>"),
                       ("comment-ends-with-dash", "<xsl:comment>-</xsl:comment>"), ("doe-in-attribute", "<r><xsl:attribute name='q'><xsl:value-of disable-output-escaping='yes' select=\"'&lt;'\"/></xsl:attribute></r>"),
                       ("doe-in-comment", "<xsl:comment><xsl:text disable-output-escaping='yes'>&lt;&#x20AC;</xsl:text></xsl:comment>"), ("c1-controls", "<r>&#x80;&#x85;&#x9F;</r>")]:
        for encname in ("UTF-8", "us-ascii", "ISO-8859-1", "UTF-16"):
            for meth in ("xml", "html", "text"):
                out.append(("dynamic:unserialisable:" + name, tmpl(body, meth, " encoding='%s' cdata-section-elements='c'" % encname + r.choice(["", " version='1.1'", " indent='yes'"])), DOC, None))
    # --- recursion that never ends: must be a reported error (depth limit)
    inf = {
        "call-template": sheet("<xsl:template match='/'><xsl:call-template name='r'/></xsl:template><xsl:template name='r'>x<xsl:call-template name='r'/></xsl:template>"),
        "call-template-params": sheet("<xsl:template match='/'><xsl:call-template name='r'><xsl:with-param name='n' select='1'/></xsl:call-template></xsl:template>"
                                      "<xsl:template name='r'><xsl:param name='n'/><xsl:call-template name='r'><xsl:with-param name='n' select='$n + 1'/></xsl:call-template></xsl:template>"),
        "apply-templates-self": sheet("<xsl:template match='/'><xsl:apply-templates select='/'/></xsl:template>"),
        "apply-templates-parent": sheet("<xsl:template match='doc'><xsl:apply-templates select='..'/></xsl:template><xsl:template match='/'><xsl:apply-templates/></xsl:template>"),
        "apply-templates-modes": sheet("<xsl:template match='/'><xsl:apply-templates select='.' mode='a'/></xsl:template><xsl:template match='/' mode='a'><xsl:apply-templates select='.' mode='b'/></xsl:template>"
                                       "<xsl:template match='/' mode='b'><xsl:apply-templates select='.' mode='a'/></xsl:template>"),
        "for-each-call": sheet("<xsl:template match='/'><xsl:call-template name='r'/></xsl:template><xsl:template name='r'><xsl:for-each select='//a'><xsl:call-template name='r'/></xsl:for-each></xsl:template>"),
        "variable-body-call": sheet("<xsl:template match='/'><xsl:call-template name='r'/></xsl:template><xsl:template name='r'><xsl:variable name='v'><xsl:call-template name='r'/></xsl:variable><xsl:value-of select='$v'/></xsl:template>"),
        "global-variable-body-call": sheet("<xsl:variable name='g'><xsl:call-template name='r'/></xsl:variable><xsl:template match='/'><xsl:value-of select='$g'/></xsl:template><xsl:template name='r'><xsl:call-template name='r'/></xsl:template>"),
        "global-variable-via-template": sheet("<xsl:variable name='g'><xsl:call-template name='r'/></xsl:variable><xsl:template match='/'><xsl:value-of select='$g'/></xsl:template><xsl:template name='r'><xsl:value-of select='$g'/></xsl:template>"),
        "attribute-set-calls-template": sheet("<xsl:attribute-set name='s'><xsl:attribute name='q'><xsl:call-template name='r'/></xsl:attribute></xsl:attribute-set><xsl:template name='r'><e xsl:use-attribute-sets='s'/></xsl:template>"
                                              "<xsl:template match='/'><xsl:call-template name='r'/></xsl:template>", "xml"),
        "apply-imports-loop": sheet("<xsl:template match='/'><xsl:apply-templates select='/' mode='m'/></xsl:template><xsl:template match='/' mode='m'><xsl:apply-imports/><xsl:apply-templates select='/' mode='m'/></xsl:template>"),
        "sort-key-calls": sheet("<xsl:variable name='g'><xsl:for-each select='/doc/a'><xsl:sort select='$g'/>x</xsl:for-each></xsl:variable><xsl:template match='/'><xsl:value-of select='$g'/></xsl:template>"),
        "key-use-own-key": sheet("<xsl:key name='k' match='a' use=\"count(key('k', 'x'))\"/><xsl:template match='/'><xsl:value-of select=\"count(key('k', '0'))\"/></xsl:template>"),
    }
    for k, s in sorted(inf.items()):
        out.append(("dynamic:unbounded:" + k, s, DOC, True if k not in ("key-use-own-key",) else None))
    # --- long names / strings around every buffer size of the census, on error paths (messages quote them)
    for sz in sizes:
        for n in (sz - 1, sz, sz + 1):
            nm = "n" * n
            k = r.randrange(10)
            if k == 0:
                s = tmpl("<xsl:call-template name='%s'/>" % nm)
            elif k == 1:
                s = tmpl("<xsl:value-of select='$%s'/>" % nm)
            elif k == 2:
                s = tmpl("<xsl:value-of select='zz:%s()'/>" % nm)
            elif k == 3:
                s = tmpl("<xsl:message terminate='yes'>%s</xsl:message>" % nm)
            elif k == 4:
                s = tmpl("<xsl:element name='%s:e'/>" % nm, "xml")
            elif k == 5:
                s = tmpl("<xsl:value-of select=\"document('file:///%s')\"/>" % nm)
            elif k == 6:
                s = tmpl("<xsl:value-of select=\"format-number(1, '0', '%s')\"/>" % nm)
            elif k == 7:
                s = tmpl("<r xsl:use-attribute-sets='%s'/>" % nm, "xml")
            elif k == 8:
                s = sheet("<xsl:%s/><xsl:template match='/'><xsl:%s/></xsl:template>" % (nm, nm))
            else:
                s = tmpl("<xsl:value-of select=\"key('%s', 1)\"/>" % nm)
            out.append(("dynamic:long-name:%d" % sz, s, DOC, None))
    # --- random combinations: an error somewhere inside an otherwise valid transformation
    wraps = ["<xsl:for-each select='//a'>%s</xsl:for-each>", "<r>%s</r>", "<xsl:variable name='w'>%s</xsl:variable><xsl:copy-of select='$w'/>", "<xsl:if test='1'>%s</xsl:if>",
             "<e><xsl:attribute name='q'>%s</xsl:attribute></e>", "<xsl:apply-templates select='//b'/>%s", "<xsl:comment>%s</xsl:comment>", "<xsl:copy>%s</xsl:copy>",
             "<xsl:element name='e'>%s</xsl:element>", "<xsl:message>%s</xsl:message>"]
    faults = [TERMINATE, "<xsl:value-of select='$undefined'/>", "<xsl:call-template name='undefined'/>", "<xsl:value-of select='zz:f()'/>", "<xsl:value-of select=\"document('file:///nonexistent')/x\"/>",
              "<xsl:copy-of select=\"x:nodeset('s')\"/>", "<xsl:element name='1bad'/>", "<xsl:attribute name='xmlns'>u</xsl:attribute>", "<xsl:number value=\"'x'\" format='{('/>",
              "<xsl:value-of select=\"key('nokey', 1)\"/>", "<xsl:for-each select='1'>x</xsl:for-each>", "<xsl:apply-templates select=\"'s'\"/>", "<xsl:value-of select=\"format-number(1, '', 'nofmt')\"/>",
              "<xsl:processing-instruction name='{1}'>x</xsl:processing-instruction>", "<u:ext xsl:extension-element-prefixes='u'/>", "<xsl:value-of select='x:evaluate(\"(\")'/>",
              "<xsl:apply-imports/>", "<xsl:copy-of select='$w0'/>"]
    for _ in range(n_random):
        body = r.choice(faults)
        for _ in range(r.randrange(0, 4)):
            body = (r.choice(wraps) % body)
        if r.random() < 0.3:
            body = "<r>ok</r>" + body + "<r>after</r>"
        out.append(("dynamic:random-fault", tmpl(body, r.choice(["xml", "html", "text"]), r.choice(["", " indent='yes'", " encoding='UTF-16'"])), DOC, None))
    return out


def import_cycles(tmpdir):
    """stylesheets that import / include themselves or each other, as real files; returns (class, main stylesheet text, must_fail)"""
    out = []

    def put(name, text):
        p = os.path.join(tmpdir, name)
        with open(p, "w") as f:
            f.write(text)
        return "file://" + p
    for kind in ("import", "include"):
        u = "file://" + os.path.join(tmpdir, "self_%s.xsl" % kind)
        body = sheet("<xsl:%s href='%s'/><xsl:template match='/'>x</xsl:template>" % (kind, u)).replace("<xsl:output method='text'/>", "")
        put("self_%s.xsl" % kind, body)
        out.append(("graphs:%s-self" % kind, body, True))
        out.append(("graphs:%s-of-self-importing" % kind, sheet("<xsl:template match='/'>x</xsl:template>").replace("<xsl:output method='text'/>", "<xsl:%s href='%s'/>" % (kind, u)), True))
        ua = "file://" + os.path.join(tmpdir, "a_%s.xsl" % kind)
        ub = "file://" + os.path.join(tmpdir, "b_%s.xsl" % kind)
        a = HEAD + "<xsl:%s href='%s'/><xsl:template match='/'>a</xsl:template>" % (kind, ub) + TAIL
        b = HEAD + "<xsl:%s href='%s'/><xsl:template match='doc'>b</xsl:template>" % (kind, ua) + TAIL
        put("a_%s.xsl" % kind, a)
        put("b_%s.xsl" % kind, b)
        out.append(("graphs:%s-cycle-2" % kind, a, True))
        other = "include" if kind == "import" else "import"
        um = "file://" + os.path.join(tmpdir, "m_%s.xsl" % kind)
        un = "file://" + os.path.join(tmpdir, "n_%s.xsl" % kind)
        m = HEAD + "<xsl:%s href='%s'/><xsl:template match='/'>m</xsl:template>" % (kind, un) + TAIL
        n = HEAD + "<xsl:%s href='%s'/><xsl:template match='doc'>n</xsl:template>" % (other, um) + TAIL
        put("m_%s.xsl" % kind, m)
        put("n_%s.xsl" % kind, n)
        out.append(("graphs:%s-%s-cycle" % (kind, other), m, True))
        out.append(("graphs:%s-missing" % kind, HEAD + "<xsl:%s href='file:///nonexistent/x.xsl'/><xsl:template match='/'>x</xsl:template>" % kind + TAIL, True))
        ill = put("ill_%s.xsl" % kind, "<xsl:stylesheet")
        out.append(("graphs:%s-ill-formed" % kind, HEAD + "<xsl:%s href='%s'/><xsl:template match='/'>x</xsl:template>" % (kind, ill) + TAIL, True))
        notxsl = put("notxsl_%s.xsl" % kind, "<html><body/></html>")
        out.append(("graphs:%s-not-a-stylesheet" % kind, HEAD + "<xsl:%s href='%s'/><xsl:template match='/'>x</xsl:template>" % (kind, notxsl) + TAIL, None))
    for kind in ("import", "include"):
        for k in (2, 4, 8, 40):
            up = put("up%d_%s.xsl" % (k, kind), HEAD + "<xsl:%s href='%snone.xsl'/><xsl:template match='/'>x</xsl:template>" % (kind, "../" * k) + TAIL)
            out.append(("graphs:%s-dotdot-above-root" % kind, HEAD + "<xsl:%s href='%s'/><xsl:template match='doc'>y</xsl:template>" % (kind, up) + TAIL, True))
    out.append(("graphs:import-not-first", HEAD + "<xsl:template match='/'>x</xsl:template><xsl:import href='file:///nonexistent/x.xsl'/>" + TAIL, True))
    out.append(("graphs:document-of-self-as-stylesheet", tmpl("<xsl:value-of select=\"count(document('')//xsl:template)\"/>"), None))
    return out


# known findings of this part: replays run alone (never in the stream)
EVALUATE_SELF = sheet("<xsl:variable name='e' select=\"'x:evaluate($e)'\"/><xsl:template match='/'><xsl:value-of select='x:evaluate($e)'/></xsl:template>")


def document_of_directory(path):
    return tmpl("<xsl:value-of select=\"count(document('file://%s'))\"/>" % path, "xml")


# K-C03e-4 (a defect of the sort machinery, found here): the single NodeSorter of the execution context is re-entered when a
# sort key references a not yet evaluated top-level variable whose definition contains an xsl:sort
NESTED_SORT = sheet("<xsl:variable name='g'><xsl:for-each select='/doc/a'><xsl:sort select='@n' data-type='number' order='descending'/><xsl:value-of select='@n'/></xsl:for-each></xsl:variable>"
                    "<xsl:template match='/'><xsl:for-each select='/doc/a'><xsl:sort select='concat(@n, $g)'/><xsl:value-of select='@n'/>,</xsl:for-each></xsl:template>")
NESTED_SORT_OUT = "10,1,2,"


def no_nested_sort(deps, forms, use, start):
    """adjust forms/use so that no sort key is evaluated while another sort is running (guard of K-C03e-4)"""
    forms = list(forms)
    for i in range(len(deps)):
        if forms[i] == "sort":
            below = set()
            for d in deps[i]:
                below |= reachable(deps, d)
            if any(forms[j] == "sort" for j in below):
                forms[i] = "body"
    if use == "sort" and any(forms[j] == "sort" for j in reachable(deps, start)):
        use = "value-of"
    return forms, use
