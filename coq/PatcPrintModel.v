(* PatcPrintModel.v — C09 part "compile": compiling the printed tokens of a canonical pattern returns the pattern. *)
From Coq Require Import List NArith Bool Arith Lia.
Import ListNotations.
Require Import XV.XpAst XV.GenXpc XV.GenPatc XV.XpcLexDefs XV.XpcParseDefs XV.XpcPrintDefs XV.XpcPrintFacts XV.XpcPrintModel.
Require Import XV.PatcDefs XV.PatcPrintDefs.

(* what may follow an alternative / a step list: the end of the queue or '|' *)
Definition pstop (rest : list tok) : bool :=
  match rest with [] => true | t :: _ => str_eqb t [ch_bar] end.
Lemma pstop_facts : forall rest, pstop rest = true ->
  N.eqb (tokc rest) ch_solidus = false /\ N.eqb (tokc rest) ch_lbrack = false /\
  look_c rest ch_lparen 0 = false /\ look_c rest ch_colon 0 = false /\ is_dslash rest = false /\
  (isnil rest = true \/ N.eqb (tokc rest) ch_bar = true).
Proof.
  intros [|t r] H; [repeat split; auto|]. cbn [pstop] in H. apply str_eqb_eq in H. subst t.
  repeat split; auto.
Qed.

(* facts about the two axis keywords (computed from the generated strings) *)
Lemma kw_facts : forall k, 
  N.eqb (tokc [axis_kw k]) ch_at = false /\ N.eqb (tokc [axis_kw k]) ch_solidus = false /\
  str_eqb (axis_kw k) gen_xpc_kw_axis_sep = false /\ str_eqb (axis_kw k) sl = false /\
  str_eqb (axis_kw k) kw_attribute = is_attr_kind k /\ (is_attr_kind k = false -> str_eqb (axis_kw k) kw_child = true) /\
  (match axis_kw k with [c] => N.eqb c ch_solidus | _ => false end) = false /\
  (match axis_kw k with [c] => N.eqb c ch_at | _ => false end) = false /\
  N.eqb (tokc [axis_kw k]) ch_bar = false.
Proof. intros k. unfold axis_kw. destruct (is_attr_kind k); repeat split; try reflexivity; intros; discriminate. Qed.

Section PRT.
Variable fl : flags.
Variable pf : pflags.
Variable ns : str -> option str.
Variable n : nat.
Let pe := p_expr fl ns n.
Let lf := S n.

Lemma Hpe : forall K e, expr_size e < K -> canon e = true -> forall d rest,
  length (pr e ++ rest) < n -> S d + idepth e <= gen_xpc_max_nesting -> follow rest = true ->
  pe d (pr e ++ rest) = Ok (e, rest).
Proof. intros K e _ Hc d rest Hl Hd Hf. unfold pe. apply (p_expr_rt fl ns (S (expr_size e)) e); auto. Qed.

(* the axis part, with or without the second '/' of a '//' (or the single '/' behind an id()/key() head) in front *)
Lemma axis_rt : forall k pre r, step_kind_ok k = true -> (pre = [] \/ pre = [sl]) ->
  pp_axis (pre ++ axis_kw k :: gen_xpc_kw_axis_sep :: r) = Ok (negb (is_attr_kind k), r).
Proof.
  intros k pre r Hk Hpre.
  destruct (kw_facts k) as (A1 & A2 & A3 & A4 & A5 & A6 & A7 & A8 & A9).
  assert (T : forall q, tokc (axis_kw k :: q) = tokc [axis_kw k]) by (intros; apply tokc_cons2).
  destruct Hpre as [-> | ->]; cbn [app]; unfold pp_axis.
  - rewrite T, A1. cbn [look_s nth_error]. rewrite str_eqb_refl.
    unfold tok_is. rewrite A5. destruct (is_attr_kind k) eqn:E; [reflexivity|]. rewrite (A6 eq_refl). reflexivity.
  - unfold sl at 1 2 3. cbn [tokc]. replace (N.eqb ch_solidus ch_at) with false by reflexivity.
    cbn [look_s nth_error]. unfold tok, str in *. rewrite A3. rewrite N.eqb_refl. rewrite str_eqb_refl. cbn [negb andb].
    cbn [tl]. rewrite T, A1. unfold tok_is. rewrite A5.
    destruct (is_attr_kind k) eqn:E; [reflexivity|]. rewrite (A6 eq_refl). reflexivity.
Qed.

Lemma pstep_rt : forall k t ps pre rest, step_kind_ok k = true -> ntest_ok t = true -> canon_preds ps = true ->
  (pre = [] \/ pre = [sl]) ->
  length (pre ++ pr_pstep (k, t, ps) ++ rest) < n -> dep_preds ps <= gen_xpc_max_nesting ->
  N.eqb (tokc rest) ch_lbrack = false -> look_c rest ch_lparen 0 = false -> look_c rest ch_colon 0 = false ->
  (is_attr_kind k = false -> is_dslash rest = is_any k) ->
  pp_step fl ns pe lf (pre ++ pr_pstep (k, t, ps) ++ rest) = Ok ((k, t, ps), rest).
Proof.
  intros k t ps pre rest Hk Ht Hp Hpre Hl Hd R0 R1 R2 Hs.
  unfold pp_step, pr_pstep. cbn [app]. rewrite <- app_assoc.
  rewrite (axis_rt k pre _ Hk Hpre).
  assert (L : length (pr_ntest t ++ pr_preds ps ++ rest) < n).
  { unfold pr_pstep in Hl. rewrite !app_length in Hl. cbn [length] in Hl. rewrite !app_length in *. lia. }
  rewrite nodetest_rt; auto.
  2:{ destruct ps as [|[f p] r]; [exact R1|reflexivity]. }
  2:{ destruct ps as [|[f p] r]; [exact R2|reflexivity]. }
  rewrite (preds_rt pe lf n (size_preds ps)); auto; try (unfold lf; lia).
  - destruct k; try discriminate; cbn [is_attr_kind negb]; try reflexivity;
      rewrite (Hs eq_refl); reflexivity.
  - intros e He Hc d r0 Hl0 Hd0 Hf0. apply (Hpe (size_preds ps)); auto.
  - rewrite app_length in L. lia.
  - rewrite app_length in L. unfold lf. lia.
Qed.

Lemma ppr_steps_first : forall l rest, l <> [] -> canon_psteps l = true ->
  is_dslash (ppr_steps l ++ rest) = false /\ N.eqb (tokc (ppr_steps l ++ rest)) ch_lbrack = false /\
  look_c (ppr_steps l ++ rest) ch_lparen 0 = false /\ look_c (ppr_steps l ++ rest) ch_colon 0 = false /\
  look_c (sl :: ppr_steps l ++ rest) ch_solidus 1 = false.
Proof.
  intros [|[[k t] ps] r] rest NE Hc; [congruence|].
  destruct (kw_facts k) as (A1 & A2 & A3 & A4 & A5 & A6 & A7 & A8 & A9).
  assert (E : exists X, ppr_steps ((k, t, ps) :: r) ++ rest = axis_kw k :: gen_xpc_kw_axis_sep :: X).
  { cbn [ppr_steps pr_pstep]. rewrite <- !app_assoc. cbn [app]. eexists; reflexivity. }
  destruct E as [X E]. unfold tok, str, pstep in *. rewrite E.
  unfold is_dslash. rewrite tokc_cons2. unfold tok, str in *. rewrite A2. cbn [andb look_c nth_error].
  repeat split; try reflexivity.
  - clear E. unfold axis_kw. destruct (is_attr_kind k); reflexivity.
  - clear E. unfold axis_kw. destruct (is_attr_kind k); reflexivity.
  - clear E. unfold axis_kw. destruct (is_attr_kind k); reflexivity.
  - exact A7.
Qed.

Lemma psteps_rt : forall l, l <> [] -> canon_psteps l = true ->
  forall m pre rest, (pre = [] \/ pre = [sl]) ->
  length (pre ++ ppr_steps l ++ rest) < n -> length (pre ++ ppr_steps l ++ rest) < m ->
  dep_psteps l <= gen_xpc_max_nesting -> pstop rest = true ->
  pp_steps fl ns pe lf m (pre ++ ppr_steps l ++ rest) = Ok (l, rest).
Proof.
  induction l as [|[[k t] ps] r IH]; intros NE Hc m pre rest Hpre Hl Hm Hd Hr; [congruence|].
  cbn [canon_psteps] in Hc. andbs Hc. cbn [dep_psteps] in Hd.
  destruct (pstop_facts _ Hr) as (S1 & S2 & S3 & S4 & S5 & S6).
  destruct m; [lia|]. cbn [pp_steps]. cbn [ppr_steps] in *.
  destruct r as [|s2 r'].
  - rewrite app_nil_r in *.
    rewrite pstep_rt; auto; try lia.
    + rewrite S1. reflexivity.
    + intros _. rewrite S5. destruct k; try discriminate; reflexivity.
  - assert (NE2 : s2 :: r' <> []) by discriminate.
    destruct (ppr_steps_first (s2 :: r') rest NE2 Hc0) as (F1 & F2 & F3 & F4 & F5).
    rewrite <- !app_assoc in *.
    rewrite pstep_rt; auto; try lia.
    + unfold sep_after in *. cbn [fst] in *. destruct (is_any k) eqn:EA; cbn [app] in *.
      * unfold sl at 1. cbn [tokc]. rewrite N.eqb_refl. cbn [tl].
        change (sl :: ppr_steps (s2 :: r') ++ rest) with ([sl] ++ ppr_steps (s2 :: r') ++ rest).
        rewrite (IH NE2 Hc0 m [sl] rest); auto; try lia; len.
      * unfold sl at 1. cbn [tokc]. rewrite N.eqb_refl. cbn [tl].
        change (ppr_steps (s2 :: r') ++ rest) with ([] ++ ppr_steps (s2 :: r') ++ rest).
        rewrite (IH NE2 Hc0 m [] rest); auto; try lia; len.
    + unfold sep_after. cbn [fst]. destruct (is_any k); reflexivity.
    + unfold sep_after. cbn [fst]. destruct (is_any k); reflexivity.
    + unfold sep_after. cbn [fst]. destruct (is_any k); reflexivity.
    + intros _. unfold sep_after. cbn [fst]. destruct (is_any k); cbn [app]; [reflexivity|].
      unfold is_dslash. unfold sl at 1. cbn [tokc]. rewrite N.eqb_refl. cbn [andb]. exact F5.
Qed.

Lemma pk_idkey : forall name X, (name = kw_id \/ name = kw_key) -> primary_kind fl (name :: lp :: X) = PkCall.
Proof. intros name X [-> | ->]; destruct fl as [a b c]; destruct c; vm_compute; reflexivity. Qed.

Lemma elit_lit_ok : forall args, forallb is_elit args = true ->
  (fix args (l : list expr) : bool := match l with [] => true | x :: r => (starts_lit x && lit_ok x && args r)%bool end) args = true.
Proof.
  induction args as [|x r IH]; intros H; [reflexivity|]. cbn [forallb] in H. apply andb_prop in H. destruct H as [H1 H2].
  destruct x; try discriminate. cbn [starts_lit lit_ok andb]. apply IH. exact H2.
Qed.

Lemma idkey_name : forall name args, idkey_ok (EFunc name args) = true ->
  (name = kw_id \/ name = kw_key) /\ canon (EFunc name args) = true /\ lit_ok (EFunc name args) = true /\
  forall pf0 X, head_call_ok pf0 (tok_is (name :: X) kw_key) (EFunc name args) = true.
Proof.
  intros name args H. unfold idkey_ok in H. andbs H.
  assert (L : lit_ok (EFunc name args) = true) by (cbn [lit_ok]; apply elit_lit_ok; exact H0).
  apply orb_prop in H. repeat split; auto.
  - destruct H as [H|H]; apply andb_prop in H; destruct H as [H _]; apply str_eqb_eq in H; auto.
  - intros pf0 X. unfold head_call_ok. rewrite L, H0.
    destruct H as [H|H]; apply andb_prop in H; destruct H as [Hn Hl]; apply str_eqb_eq in Hn; subst name;
      apply Nat.eqb_eq in Hl; rewrite Hl; destruct (px_args pf0), (px_count pf0); reflexivity.
Qed.

Lemma funcall_rt : forall name args rest, idkey_ok (EFunc name args) = true ->
  length (pr (EFunc name args) ++ rest) < n -> idepth (EFunc name args) <= gen_xpc_max_nesting ->
  look_c rest ch_lparen 0 = false -> look_c rest ch_colon 0 = false ->
  p_funcall fl ns pe lf 0 (pr (EFunc name args) ++ rest) = Ok (EFunc name args, rest) /\
  is_idkey (pr (EFunc name args) ++ rest) = true.
Proof.
  intros name args rest H Hl Hd R1 R2. destruct (idkey_name _ _ H) as (Hn & Hc & Hlit & _).
  pose proof (prim_rt fl ns pe lf n (expr_size (EFunc name args)) ltac:(unfold lf; lia)
                (fun e He Hce => Hpe _ e He Hce) (EFunc name args) eq_refl Hc ltac:(lia) 0 rest ltac:(lia) ltac:(lia) R1 R2) as P.
  unfold p_primary in P. rewrite pr_func in *. cbn [app] in *.
  rewrite (pk_idkey name _ Hn) in P. split; [exact P|].
  unfold is_idkey. cbn [look_c nth_error lp]. rewrite N.eqb_refl. unfold tok_is.
  destruct Hn as [-> | ->]; reflexivity.
Qed.

Definition head_steps (h : phead) : list pstep :=
  match h with
  | HdRel => [] | HdRoot => [head_root] | HdAnyP => [head_anyp]
  | HdFn f => [head_fn f] | HdFnAny f => [head_fn f; head_anyf]
  end.
Lemma split_head_inv : forall a h r, split_head a = (h, r) -> a = head_steps h ++ r.
Proof.
  intros a h r H. unfold split_head in H.
  repeat match type of H with
  | (match ?x with _ => _ end) = _ => destruct x
  end; inversion H; subst; reflexivity.
Qed.

Lemma steps_first2 : forall l rest, l <> [] -> canon_psteps l = true ->
  isnil (ppr_steps l ++ rest) = false /\ N.eqb (tokc (ppr_steps l ++ rest)) ch_bar = false /\
  N.eqb (tokc (ppr_steps l ++ rest)) ch_solidus = false /\ is_idkey (ppr_steps l ++ rest) = false.
Proof.
  intros [|[[k t] ps] r] rest NE Hc; [congruence|].
  assert (E : exists X, ppr_steps ((k, t, ps) :: r) ++ rest = axis_kw k :: gen_xpc_kw_axis_sep :: X).
  { cbn [ppr_steps pr_pstep]. rewrite <- !app_assoc. cbn [app]. eexists; reflexivity. }
  destruct E as [X E]. unfold tok, str, pstep in *. rewrite E. clear E.
  unfold is_idkey, axis_kw. destruct (is_attr_kind k); repeat split; reflexivity.
Qed.

(* the part of LocationPathPattern() after its head, on the tokens of the steps (both shapes of the source) *)
Lemma tail_rt : forall hd r ab req pre rest, canon_psteps r = true -> (pre = [] \/ pre = [sl]) ->
  (r = [] -> pre = [] /\ hd <> [] /\ req = false) -> (pre = [sl] -> r <> [] /\ req = false) ->
  length (pre ++ ppr_steps r ++ rest) < n -> dep_psteps r <= gen_xpc_max_nesting -> pstop rest = true ->
  pp_tail fl pf ns pe lf ab hd req (pre ++ ppr_steps r ++ rest) = Ok (hd ++ r, rest).
Proof.
  intros hd r ab req pre rest Hc Hpre H0 H1 Hl Hd Hr. unfold pp_tail.
  destruct (pstop_facts _ Hr) as (S1 & S2 & S3 & S4 & S5 & S6).
  destruct r as [|s r'].
  - destruct (H0 eq_refl) as (-> & Hh & ->). cbn [ppr_steps app]. rewrite app_nil_r. cbn [andb orb].
    assert (Q : (negb (isnil rest) && negb (N.eqb (tokc rest) ch_bar))%bool = false).
    { destruct S6 as [S6|S6]; rewrite S6; [reflexivity|apply andb_false_r]. }
    rewrite Q. destruct hd as [|h0 hd']; [congruence|]. cbn [isnil].
    destruct (px_lpp pf); [reflexivity|].
    destruct S6 as [S6|S6].
    + rewrite S6. reflexivity.
    + destruct rest as [|t q]; [reflexivity|]. cbn [isnil]. rewrite S6. cbn [negb]. rewrite andb_false_r. reflexivity.
  - assert (NE : s :: r' <> []) by discriminate.
    destruct (steps_first2 (s :: r') rest NE Hc) as (G1 & G2 & G3 & G4).
    assert (Q : isnil (pre ++ ppr_steps (s :: r') ++ rest) = false /\
                N.eqb (tokc (pre ++ ppr_steps (s :: r') ++ rest)) ch_bar = false /\
                (req && N.eqb (tokc (pre ++ ppr_steps (s :: r') ++ rest)) ch_solidus)%bool = false).
    { destruct Hpre as [-> | ->]; cbn [app].
      - repeat split; try assumption. unfold tok, str, pstep in *. rewrite G3. apply andb_false_r.
      - destruct (H1 eq_refl) as [_ ->]. repeat split; reflexivity. }
    destruct Q as (Q1 & Q2 & Q3). rewrite Q1, Q2, Q3. cbn [negb andb orb].
    rewrite psteps_rt; auto; try (unfold lf; lia).
    destruct (px_lpp pf); [reflexivity|]. rewrite andb_false_r. reflexivity.
Qed.

Lemma idkey_sl : forall X, is_idkey (sl :: X) = false.
Proof. intros X. unfold is_idkey. replace (tok_is (sl :: X) kw_id) with false by reflexivity.
  replace (tok_is (sl :: X) kw_key) with false by reflexivity. apply andb_false_r. Qed.

Lemma lpp_rt : forall a ab rest, canon_lp a = true -> length (ppr_lp a ++ rest) < n ->
  dep_lp a <= gen_xpc_max_nesting -> pstop rest = true ->
  pp_lpp fl pf ns pe lf ab (ppr_lp a ++ rest) = Ok (a, rest).
Proof.
  intros a ab rest Hc Hl Hd Hr.
  destruct (pstop_facts _ Hr) as (S1 & S2 & S3 & S4 & S5 & S6).
  unfold canon_lp, ppr_lp, dep_lp in *. destruct (split_head a) as [h r] eqn:E.
  rewrite (split_head_inv _ _ _ E). clear E. andbs Hc.
  unfold pp_lpp. destruct h as [| | |f|f]; cbn [head_steps].
  - (* relative *)
    apply negb_true_iff in Hc0. assert (NE : r <> []) by (destruct r; [discriminate|discriminate]).
    destruct (steps_first2 r rest NE Hc) as (G1 & G2 & G3 & G4).
    unfold pp_head. rewrite G4, G3.
    change (ppr_steps r ++ rest) with ([] ++ ppr_steps r ++ rest).
    apply (tail_rt [] r ab false [] rest);
      [exact Hc|left; reflexivity|intros E0; exfalso; apply NE; exact E0|discriminate|cbn [app]; exact Hl|lia|exact Hr].
  - (* '/' *)
    unfold pp_head.
    assert (I : is_idkey (sl :: ppr_steps r ++ rest) = false /\ look_c (sl :: ppr_steps r ++ rest) ch_solidus 1 = false).
    { split; [apply idkey_sl|]. destruct r as [|s r'].
      - cbn [ppr_steps app]. destruct rest as [|t q]; [reflexivity|]. cbn [pstop] in Hr. apply str_eqb_eq in Hr. subst t. reflexivity.
      - assert (NE : s :: r' <> []) by discriminate.
        destruct (ppr_steps_first (s :: r') rest NE Hc) as (F1 & F2 & F3 & F4 & F5). exact F5. }
    cbn [app]. destruct I as [I1 I2]. unfold tok, str, pstep in *. rewrite I1, I2.
    replace (N.eqb (tokc (sl :: ppr_steps r ++ rest)) ch_solidus) with true by reflexivity. cbn [tl].
    change (ppr_steps r ++ rest) with ([] ++ ppr_steps r ++ rest).
    apply (tail_rt [head_root] r ab false [] rest);
      [exact Hc|left; reflexivity|intros _; repeat split; discriminate|discriminate|len|lia|exact Hr].
  - (* '//' *)
    apply negb_true_iff in Hc0. assert (NE : r <> []) by (destruct r; [discriminate|discriminate]).
    unfold pp_head. cbn [app].
    rewrite idkey_sl.
    replace (N.eqb (tokc (sl :: sl :: ppr_steps r ++ rest)) ch_solidus) with true by reflexivity.
    replace (look_c (sl :: sl :: ppr_steps r ++ rest) ch_solidus 1) with true by reflexivity. cbn [tl].
    change (ppr_steps r ++ rest) with ([] ++ ppr_steps r ++ rest).
    apply (tail_rt [head_anyp] r ab true [] rest);
      [exact Hc|left; reflexivity|intros E0; exfalso; apply NE; exact E0|discriminate|len|lia|exact Hr].
  - (* id() / key() alone or followed by '/' *)
    destruct f as [| | | | | | | | | | | | | | | | | | |name args| |]; try discriminate Hc0.
    set (tailtoks := match r with [] => [] | _ => sl :: ppr_steps r end) in *.
    assert (T : tailtoks ++ rest = (match r with [] => [] | _ => [sl] end) ++ ppr_steps r ++ rest).
    { unfold tailtoks. destruct r; reflexivity. }
    assert (R : look_c (tailtoks ++ rest) ch_lparen 0 = false /\ look_c (tailtoks ++ rest) ch_colon 0 = false /\
                is_dslash (tailtoks ++ rest) = false /\
                (px_lpp pf && negb (isnil (tailtoks ++ rest)) && negb (N.eqb (tokc (tailtoks ++ rest)) ch_solidus) && negb (N.eqb (tokc (tailtoks ++ rest)) ch_bar))%bool = false).
    { unfold tailtoks. destruct r as [|s r'].
      - cbn [app]. repeat split; auto. destruct S6 as [S6|S6]; rewrite S6; cbn [negb]; rewrite ?andb_false_r; reflexivity.
      - assert (NE : s :: r' <> []) by discriminate.
        destruct (ppr_steps_first (s :: r') rest NE Hc) as (F1 & F2 & F3 & F4 & F5).
        repeat split; try reflexivity.
        + unfold is_dslash. cbn [app]. unfold sl at 1. cbn [tokc]. rewrite N.eqb_refl. exact F5.
        + cbn [app]. replace (N.eqb (tokc (sl :: ppr_steps (s :: r') ++ rest)) ch_solidus) with true by reflexivity. cbn [negb]. rewrite andb_false_r. reflexivity. }
    destruct R as (R1 & R2 & R3 & R4).
    rewrite <- app_assoc in *.
    destruct (funcall_rt name args (tailtoks ++ rest) Hc0 Hl ltac:(lia) R1 R2) as [P I].
    destruct (idkey_name _ _ Hc0) as (_ & _ & _ & Hok).
    unfold pp_head. rewrite pr_func in *. cbn [app] in *. unfold tok, str, pstep in *. rewrite I, P.
    rewrite Hok. cbn [negb]. rewrite R4. rewrite R3.
    unfold tailtoks in *. clear T.
    destruct r as [|s r'].
    + cbn [app]. change rest with ([] ++ ppr_steps [] ++ rest) at 1.
      apply (tail_rt [head_fn (EFunc name args)] [] ab false [] rest);
        [reflexivity|left; reflexivity|intros _; repeat split; discriminate|discriminate|cbn [app ppr_steps]; clear P I; len|cbn; lia|exact Hr].
    + cbn [app]. change (sl :: ppr_steps (s :: r') ++ rest) with ([sl] ++ ppr_steps (s :: r') ++ rest).
      apply (tail_rt [head_fn (EFunc name args)] (s :: r') ab false [sl] rest);
        [exact Hc|right; reflexivity|discriminate|intros _; split; [discriminate|reflexivity]|clear P I; cbn [app] in *; len|lia|exact Hr].
  - (* id() / key() followed by '//' *)
    destruct f as [| | | | | | | | | | | | | | | | | | |name args| |]; try discriminate Hc0.
    apply andb_prop in Hc0. destruct Hc0 as [Hf Hne].
    apply negb_true_iff in Hne. assert (NE : r <> []) by (destruct r; [discriminate|discriminate]).
    rewrite <- app_assoc in *. cbn [app] in *.
    destruct (funcall_rt name args (sl :: sl :: ppr_steps r ++ rest) Hf Hl ltac:(lia) eq_refl eq_refl) as [P I].
    destruct (idkey_name _ _ Hf) as (_ & _ & _ & Hok).
    unfold pp_head. rewrite pr_func in *. cbn [app] in *. unfold tok, str, pstep in *. rewrite I, P.
    rewrite Hok. cbn [negb].
    assert (TS : forall X : list (list N), N.eqb (tokc (sl :: X)) ch_solidus = true) by reflexivity.
    assert (DS : forall X : list (list N), is_dslash (sl :: sl :: X) = true) by reflexivity.
    rewrite TS, DS. cbn [negb andb tl]. rewrite !andb_false_r. rewrite ?andb_false_l. cbv iota beta.
    change (sl :: ppr_steps r ++ rest) with ([sl] ++ ppr_steps r ++ rest).
    apply (tail_rt [head_fn (EFunc name args); head_anyf] r ab false [sl] rest);
      [exact Hc|right; reflexivity|intros E0; exfalso; apply NE; exact E0|intros _; split; [exact NE|reflexivity]|clear P I; cbn [app] in *; len|lia|exact Hr].
Qed.

Lemma pattern_rt : forall P, P <> [] -> forallb canon_lp P = true ->
  forall m ab, length (ppr P) < n -> length (ppr P) < m -> dep_pattern P <= gen_xpc_max_nesting ->
  pp_pattern fl pf ns pe lf m ab (ppr P) = Ok (P, []).
Proof.
  induction P as [|a r IH]; intros NE Hc m ab Hl Hm Hd; [congruence|].
  cbn [forallb] in Hc. apply andb_prop in Hc. destruct Hc as [Ha Hr]. cbn [dep_pattern] in Hd.
  destruct m; [lia|]. cbn [pp_pattern].
  destruct r as [|a2 r'].
  - cbn [ppr] in *. rewrite <- (app_nil_r (ppr_lp a)) in *.
    rewrite lpp_rt; auto; try lia.
  - assert (E : ppr (a :: a2 :: r') = ppr_lp a ++ [ch_bar] :: ppr (a2 :: r')) by reflexivity.
    rewrite E in *.
    rewrite lpp_rt; auto; try lia.
    change (N.eqb (tokc ([ch_bar] :: ppr (a2 :: r'))) ch_bar) with true. cbv iota. cbn [tl].
    rewrite IH; auto; try discriminate; try lia; len.
Qed.

End PRT.

Theorem pattern_parse_print_m : forall fl pf ns P, pcanon P = true -> dep_pattern P <= gen_xpc_max_nesting ->
  pparse fl pf ns (ppr P) = Ok P.
Proof.
  intros fl pf ns P Hc Hd. unfold pcanon in Hc. apply andb_prop in Hc. destruct Hc as [H1 H2].
  apply negb_true_iff in H1. assert (NE : P <> []) by (destruct P; [discriminate|discriminate]).
  unfold pparse.
  rewrite (pattern_rt fl pf ns (S (length (ppr P))) P NE H2 (S (S (length (ppr P)))) false); auto; lia.
Qed.
