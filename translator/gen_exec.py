"""gen_exec — regenerates coq/GenExec.v from the six `switch` statements of XPath::executeMore
(src/xalanc/XPath/XPath.cpp) as clang resolves them (JSON AST dump, overloads resolved by the
compiler): for each entry point (generic XObjectPtr, bool&, double&, XalanDOMString&,
FormatterListener + member function, MutableNodeRefList&) and each op-code the arm that runs:
the helper called, which of its overloads (by result type / out-parameter), the conversion wrapped
around it — or `default` when the switch has no case for the op-code.
Also: the shape (sequence of calls / operators / literals, local names ignored) of the bodies of
the overloaded helpers the hand model of ExecDefs.v mirrors.
Fail closed: AnchorError whenever a switch, an arm or a call is not of a recognised form."""
import os, re, json, subprocess, hashlib
import srcfacts
from srcfacts import AnchorError, HEADER

REPO = srcfacts.REPO
VERIF = os.path.dirname(os.path.dirname(os.path.abspath(__file__)))

# op-codes known to ExecDefs.v (constructor = "OP_" + name without the "eOP_" prefix)
OPCODES = ["XPATH", "OR", "AND", "NOTEQUALS", "EQUALS", "LTE", "LT", "GTE", "GT", "PLUS", "MINUS", "MULT", "DIV", "MOD",
           "NEG", "UNION", "LITERAL", "VARIABLE", "GROUP", "NUMBERLIT", "EXTFUNCTION", "FUNCTION", "LOCATIONPATH",
           "FUNCTION_POSITION", "FUNCTION_LAST", "FUNCTION_COUNT", "FUNCTION_NOT", "FUNCTION_TRUE", "FUNCTION_FALSE",
           "FUNCTION_BOOLEAN", "FUNCTION_NAME_0", "FUNCTION_NAME_1", "FUNCTION_LOCALNAME_0", "FUNCTION_LOCALNAME_1",
           "FUNCTION_FLOOR", "FUNCTION_CEILING", "FUNCTION_ROUND", "FUNCTION_NUMBER_0", "FUNCTION_NUMBER_1",
           "FUNCTION_STRING_0", "FUNCTION_STRING_1", "FUNCTION_STRINGLENGTH_0", "FUNCTION_STRINGLENGTH_1",
           "FUNCTION_NAMESPACEURI_0", "FUNCTION_NAMESPACEURI_1", "FUNCTION_SUM"]

# helper member functions of XPath: (name, takes opPos?) -> constructor of ExecDefs.helper
HELPERS = {
    ("Or", True): "HOr", ("And", True): "HAnd", ("notequals", True): "HNotEquals", ("equals", True): "HEquals",
    ("lte", True): "HLte", ("lt", True): "HLt", ("gte", True): "HGte", ("gt", True): "HGt",
    ("plus", True): "HPlus", ("minus", True): "HMinus", ("mult", True): "HMult", ("div", True): "HDiv",
    ("mod", True): "HMod", ("neg", True): "HNeg", ("Union", True): "HUnion", ("literal", True): "HLiteral",
    ("variable", True): "HVariable", ("group", True): "HGroup", ("numberlit", True): "HNumberLit",
    ("runExtFunction", True): "HRunExtFunction", ("runFunction", True): "HRunFunction",
    ("locationPath", True): "HLocationPath",
    ("functionPosition", False): "HFnPosition", ("functionLast", False): "HFnLast", ("functionCount", True): "HFnCount",
    ("functionNot", True): "HFnNot", ("functionBoolean", True): "HFnBoolean",
    ("functionName", False): "HFnName0", ("functionName", True): "HFnName1",
    ("functionLocalName", False): "HFnLocalName0", ("functionLocalName", True): "HFnLocalName1",
    ("functionFloor", True): "HFnFloor", ("functionCeiling", True): "HFnCeiling", ("functionRound", True): "HFnRound",
    ("functionNumber", False): "HFnNumber0", ("functionNumber", True): "HFnNumber1",
    ("functionStringLength", False): "HFnStringLength0", ("functionStringLength", True): "HFnStringLength1",
    ("functionSum", True): "HFnSum",
}

ENTRIES = ["generic", "bool", "num", "str", "chars", "nodes"]
NS = r"xalanc_\d+_\d+::"


def clean_ty(t):
    return re.sub(NS, "", t or "").strip()


def clang_cmd(src):
    b = os.path.join(VERIF, ".build", "plain")
    inc = ["-I" + os.path.join(REPO, "src"), "-I" + os.path.join(b, "src"),
           "-I" + os.path.join(b, "src", "xalanc", "PlatformSupport"),
           "-I" + os.path.join(b, "src", "xalanc", "NLS", "include")]
    return ["clang++", "-fsyntax-only", "-std=gnu++14", "-w", "-DXALAN_BUILD_DLL=1", "-DXALAN_INMEM_MSG_LOADER=1",
            "-DXALAN_USE_ICU=1", "-D_THREAD_SAFE=1", "-DNDEBUG", "-DAPACHE_XALAN_C_VERIF"] + inc + \
           ["-Xclang", "-ast-dump=json", "-Xclang", "-ast-dump-filter=XPath::", src]


_cache = {}


def load_ast():
    src = os.path.join(REPO, "src", "xalanc", "XPath", "XPath.cpp")
    hdr = os.path.join(REPO, "src", "xalanc", "XPath", "XPath.hpp")
    try:
        key = (os.path.getmtime(src), os.path.getmtime(hdr), os.path.getsize(src), os.path.getsize(hdr))
    except OSError as e:
        raise AnchorError("cannot stat XPath.cpp/XPath.hpp: %s" % e)
    if _cache.get("key") == key:
        return _cache["objs"]
    try:
        p = subprocess.run(clang_cmd(src), stdout=subprocess.PIPE, stderr=subprocess.PIPE, timeout=300,
                           universal_newlines=True, errors="replace")
    except (OSError, subprocess.TimeoutExpired) as e:
        raise AnchorError("clang++ could not be run on XPath.cpp: %s" % e)
    if p.returncode != 0:
        raise AnchorError("clang++ -fsyntax-only failed on XPath.cpp: " + p.stderr[-400:])
    s, dec, i, objs = p.stdout, json.JSONDecoder(), 0, []
    n = len(s)
    while True:
        while i < n and s[i].isspace():
            i += 1
        if i >= n:
            break
        try:
            o, i = dec.raw_decode(s, i)
        except ValueError as e:
            raise AnchorError("clang AST dump is not JSON: %s" % e)
        objs.append(o)
    _cache["key"], _cache["objs"] = key, objs
    return objs


# ------------------------------------------------------------------------------------------------
# expression normalisation

WRAPPERS = {"ExprWithCleanups", "MaterializeTemporaryExpr", "CXXBindTemporaryExpr", "ImplicitCastExpr", "ParenExpr",
            "ConstantExpr", "CXXFunctionalCastExpr"}


def strip(n):
    while True:
        k = n.get("kind")
        inner = n.get("inner", [])
        if k in WRAPPERS and len(inner) == 1:
            n = inner[0]
        elif k == "CXXConstructExpr" and len(inner) == 1:
            n = inner[0]
        else:
            return n


def ty(n):
    return clean_ty(n.get("type", {}).get("qualType"))


def term(n):
    n = strip(n)
    k = n.get("kind")
    inner = n.get("inner", [])
    if k == "DeclRefExpr":
        return ("ref", n["referencedDecl"].get("name"))
    if k == "CXXBoolLiteralExpr":
        return ("bool", bool(n.get("value")))
    if k == "IntegerLiteral":
        return ("int", str(n.get("value")))
    if k == "FloatingLiteral":
        return ("float", str(n.get("value")))
    if k == "CXXThisExpr":
        return ("this",)
    if k == "CXXMemberCallExpr":
        me = strip(inner[0])
        if me.get("kind") != "MemberExpr":
            raise AnchorError("member call without MemberExpr")
        obj = term(me["inner"][0]) if me.get("inner") else ("this",)
        return ("mcall", me.get("name"), ty(n), obj, [term(a) for a in inner[1:]], [ty(strip(a)) for a in inner[1:]])
    if k == "CXXOperatorCallExpr":
        cal = strip(inner[0])
        op = cal.get("referencedDecl", {}).get("name", "?")
        return ("opcall", op, [term(a) for a in inner[1:]])
    if k == "CallExpr":
        cal = strip(inner[0])
        if cal.get("kind") != "DeclRefExpr":
            raise AnchorError("call through something that is not a function name")
        rd = cal["referencedDecl"]
        return ("call", rd.get("name"), clean_ty(rd.get("type", {}).get("qualType")), ty(n), [term(a) for a in inner[1:]])
    if k == "BinaryOperator":
        return ("bin", n.get("opcode"), term(inner[0]), term(inner[1]))
    if k == "UnaryOperator":
        return ("un", n.get("opcode"), term(inner[0]))
    if k == "CXXTemporaryObjectExpr" or (k == "CXXConstructExpr" and not inner):
        return ("construct", ty(n))
    if k == "MemberExpr":
        return ("member", n.get("name"), term(inner[0]) if inner else ("this",))
    return ("other", k)


PARAMS = {"context", "opPos", "executionContext", "result", "formatterListener", "function"}


def helper_call(t, what):
    """t = ('mcall', name, ret, ('this',), args, argtypes) on `this` with plain parameter arguments.
       returns (helper constructor, return type, [argument names])"""
    if t[0] != "mcall" or t[3] != ("this",):
        raise AnchorError("%s: expected a call of an XPath member function, found %r" % (what, t[:2]))
    names = []
    for a in t[4]:
        if a[0] != "ref" or a[1] not in PARAMS:
            raise AnchorError("%s: argument of %s is not a plain parameter: %r" % (what, t[1], a))
        names.append(a[1])
    key = (t[1], "opPos" in names)
    if key not in HELPERS:
        raise AnchorError("%s: unknown helper %s" % (what, t[1]))
    lead = [x for x in names if x in ("context", "opPos", "executionContext")]
    if lead != [x for x in ("context", "opPos", "executionContext") if x in lead] or names[:len(lead)] != lead:
        raise AnchorError("%s: unexpected argument order in call of %s" % (what, t[1]))
    return HELPERS[key], t[2], names


SG_OF_RET = {"bool": "SgBool", "double": "SgNum", "const XalanDOMString &": "SgStrRef", "const XalanDOMString": "SgStrRef",
             "const XObjectPtr": "SgObj"}
OUT_ARGS = {"bool": (["result"], ["bool"]), "num": (["result"], ["double"]), "str": (["result"], ["XalanDOMString"]),
            "chars": (["formatterListener", "function"], None), "nodes": (["result"], ["MutableNodeRefList"])}


def native(t, what):
    """a helper call returning a value, or a bool literal: -> ('call', h, sg) | ('const', b)"""
    if t[0] == "bool":
        return ("const", t[1])
    h, ret, names = helper_call(t, what)
    if ret not in SG_OF_RET:
        raise AnchorError("%s: helper %s returns %s" % (what, t[1], ret))
    if [x for x in names if x not in ("context", "opPos", "executionContext")]:
        raise AnchorError("%s: value-returning helper %s takes an out parameter" % (what, t[1]))
    return ("call", h, SG_OF_RET[ret])


def mk(nat, cv):
    if nat[0] == "const":
        return "AConst %s %s" % ("true" if nat[1] else "false", cv)
    return "ACall %s %s %s" % (nat[1], nat[2], cv)


def out_call(t, entry, what):
    """helper(..., <result parameters of this entry point>) with void result"""
    h, ret, names = helper_call(t, what)
    want, tys = OUT_ARGS[entry]
    tail = [x for x in names if x not in ("context", "opPos", "executionContext")]
    if ret != "void" or tail != want:
        raise AnchorError("%s: call of %s is not the overload writing to the result parameter" % (what, t[1]))
    if tys is not None:
        got = [re.sub(r"\s*&$", "", x) for x in t[5][-len(want):]]
        if got != tys:
            raise AnchorError("%s: %s writes to a %s" % (what, t[1], got))
    return "ACall %s SgOut CvDirect" % h


def static_conv(t, fname, extra, what):
    """call of the static conversion XObject::<fname>(value, extra...) -> native value term"""
    if t[0] != "call" or t[1] != fname:
        return None
    args = t[4]
    if len(args) < 1:
        return None
    rest = args[1:]
    ok = all(a[0] == "ref" or (a[0] == "mcall" and a[1] == "getMemoryManager") for a in rest)
    if not ok or [a[1] for a in rest if a[0] == "ref"] != extra:
        raise AnchorError("%s: unexpected arguments of %s()" % (what, fname))
    return args[0]


def member_conv(t, mname, extra, what):
    """<helper returning XObjectPtr>-><mname>(executionContext, extra...)"""
    if t[0] != "mcall" or t[1] != mname:
        return None
    obj = t[3]
    if obj[0] != "opcall" or obj[1] != "operator->" or len(obj[2]) != 1:
        return None
    if [a[1] if a[0] == "ref" else None for a in t[4]] != ["executionContext"] + extra:
        raise AnchorError("%s: unexpected arguments of ->%s()" % (what, mname))
    return obj[2][0]


def classify(entry, stmts, what):
    """stmts: the statements of one arm without the trailing break"""
    if len(stmts) != 1:
        raise AnchorError("%s: arm has %d statements" % (what, len(stmts)))
    st = stmts[0]
    if st.get("kind") == "ReturnStmt":
        if entry != "generic" or not st.get("inner"):
            raise AnchorError("%s: return statement" % what)
        t = term(st["inner"][0])
        if t[0] == "mcall" and t[1] in ("createBoolean", "createNumber", "createStringReference"):
            fac = t[3]
            if not (fac[0] == "mcall" and fac[1] == "getXObjectFactory" and fac[3] == ("ref", "executionContext")) or len(t[4]) != 1:
                raise AnchorError("%s: factory call not on executionContext.getXObjectFactory()" % what)
            nat = native(t[4][0], what)
            return mk(nat, {"createBoolean": "CvCreateBoolean", "createNumber": "CvCreateNumber",
                            "createStringReference": "CvCreateStringReference"}[t[1]])
        nat = native(t, what)
        return mk(nat, "CvDirect")
    t = term(st)
    if t[0] == "mcall" and t[3] == ("this",) and t[1] == "unknownOpCodeError":
        return "ADefault"
    if t[0] == "mcall" and t[3] == ("this",) and t[1] == "notNodeSetError":
        if entry != "nodes":
            raise AnchorError("%s: notNodeSetError outside the node-list entry point" % what)
        return "ANotNodeSet"
    if entry == "generic":
        raise AnchorError("%s: arm of the generic switch does not return" % what)
    if entry in ("bool", "num"):
        fname, mname = ("boolean", "boolean") if entry == "bool" else ("number", "num")
        cvs, cvm = ("CvBoolean", "CvMemberBoolean") if entry == "bool" else ("CvNumber", "CvMemberNum")
        if t[0] == "bin" and t[1] == "=" and t[2] == ("ref", "result"):
            r = t[3]
            a = static_conv(r, fname, [], what)
            if a is not None:
                return mk(native(a, what), cvs)
            a = member_conv(r, mname, [], what)
            if a is not None:
                return mk(native(a, what), cvm)
            return mk(native(r, what), "CvDirect")
        return out_call(t, entry, what)
    if entry in ("str", "chars"):
        extra = ["result"] if entry == "str" else ["formatterListener", "function"]
        a = static_conv(t, "string", extra, what)
        if a is not None:
            return mk(native(a, what), "CvString")
        a = member_conv(t, "str", extra, what)
        if a is not None:
            return mk(native(a, what), "CvMemberStr")
        if entry == "str" and t[0] == "mcall" and t[1] == "append" and t[3] == ("ref", "result") and len(t[4]) == 1:
            return mk(native(t[4][0], what), "CvAppend")
        if entry == "chars":
            a = static_conv(t, "stringToCharacters", extra, what)
            if a is not None:
                return mk(native(a, what), "CvStringToChars")
        return out_call(t, entry, what)
    # nodes
    if t[0] == "opcall" and t[1] == "operator=" and t[2][0] == ("ref", "theXObject"):
        r = t[2][1]
        if r[0] == "mcall" and r[1] == "executeMore" and r[3] == ("this",):
            if r[4] != [("ref", "context"), ("bin", "+", ("ref", "opPos"), ("int", "2")), ("ref", "executionContext"), ("ref", "result")]:
                raise AnchorError("%s: unexpected recursive executeMore call" % what)
            return "ARecurse"
        return mk(native(r, what), "CvKeep")
    return out_call(t, entry, what)


def switch_arms(entry, fn):
    body = [c for c in fn.get("inner", []) if c.get("kind") == "CompoundStmt"]
    if len(body) != 1:
        raise AnchorError("executeMore(%s): no body" % entry)
    sws = [c for c in body[0].get("inner", []) if c.get("kind") == "SwitchStmt"]
    if len(sws) != 1:
        raise AnchorError("executeMore(%s): expected exactly one switch, found %d" % (entry, len(sws)))
    sw = sws[0]
    cond = term(sw["inner"][0])
    if not (cond[0] == "mcall" and cond[1] == "getOpCodeMapValue" and cond[4] == [("ref", "opPos")]):
        raise AnchorError("executeMore(%s): switch is not over getOpCodeMapValue(opPos)" % entry)
    comp = sw["inner"][-1]
    if comp.get("kind") != "CompoundStmt":
        raise AnchorError("executeMore(%s): switch body is not a block" % entry)
    arms, default = {}, None
    cur_labels, cur_stmts, open_arm = None, None, False

    def close(terminated):
        nonlocal cur_labels, cur_stmts, open_arm, default
        if not open_arm:
            return
        what = "executeMore(%s) case %s" % (entry, "/".join(cur_labels))
        if not terminated:
            raise AnchorError(what + ": falls through")
        arm = classify(entry, cur_stmts, what)
        for l in cur_labels:
            if l == "default":
                default = arm
            else:
                if l in arms:
                    raise AnchorError(what + ": duplicate label")
                arms[l] = arm
        open_arm = False

    for st in comp.get("inner", []):
        k = st.get("kind")
        if k in ("CaseStmt", "DefaultStmt"):
            if open_arm:
                raise AnchorError("executeMore(%s) case %s: falls through into the next label" % (entry, "/".join(cur_labels)))
            labels = []
            n = st
            while n.get("kind") in ("CaseStmt", "DefaultStmt"):
                if n["kind"] == "DefaultStmt":
                    labels.append("default")
                    n = n["inner"][0]
                else:
                    lab = strip(n["inner"][0])
                    if lab.get("kind") != "DeclRefExpr":
                        raise AnchorError("executeMore(%s): case label is not an enumerator" % entry)
                    name = lab["referencedDecl"].get("name", "")
                    if not name.startswith("eOP_") or name[4:] not in OPCODES:
                        raise AnchorError("executeMore(%s): op-code %s is unknown to the model" % (entry, name))
                    labels.append(name[4:])
                    n = n["inner"][-1]
            cur_labels, cur_stmts, open_arm = labels, [n], True
            if n.get("kind") in ("BreakStmt",):
                raise AnchorError("executeMore(%s) case %s: empty arm" % (entry, "/".join(labels)))
            if n.get("kind") == "ReturnStmt":
                close(True)
        elif k == "BreakStmt":
            if open_arm:
                close(True)
        elif k == "ReturnStmt":
            if not open_arm:
                continue
            cur_stmts.append(st)
            close(True)
        else:
            if not open_arm:
                raise AnchorError("executeMore(%s): statement outside any case" % entry)
            cur_stmts.append(st)
    if open_arm:
        close(False)
    if default is None:
        raise AnchorError("executeMore(%s): no default label" % entry)
    return arms, default, body[0]


def entry_of(fn):
    t = clean_ty(fn.get("type", {}).get("qualType"))
    m = re.match(r"(.*?)\s*\((.*)\)\s*const$", t)
    if not m:
        return None
    ret, ps = m.group(1).strip(), [p.strip() for p in m.group(2).split(",")]
    if ps[:3] != ["XalanNode *", "XPath::OpCodeMapPositionType", "XPathExecutionContext &"]:
        return None
    rest = ps[3:]
    if rest == [] and ret == "const XObjectPtr":
        return "generic"
    if rest == ["bool &"] and ret == "void":
        return "bool"
    if rest == ["double &"] and ret == "void":
        return "num"
    if rest == ["XalanDOMString &"] and ret == "void":
        return "str"
    if rest == ["FormatterListener &", "XPath::MemberFunctionPtr"] and ret == "void":
        return "chars"
    if rest == ["MutableNodeRefList &"] and ret == "const XObjectPtr":
        return "nodes"
    return None


# ------------------------------------------------------------------------------------------------
# shapes of the overloaded helper bodies

def shape(n, out):
    """pre-order sequence of the calls, operators, literals and control statements of a body;
       names of locals and parameters are not part of it"""
    k = n.get("kind")
    inner = n.get("inner", [])
    if k in ("CXXMemberCallExpr",):
        me = strip(inner[0])
        out.append("m:" + str(me.get("name")) + ":" + ty(n))
        for c in me.get("inner", []):
            shape(c, out)
        for a in inner[1:]:
            shape(a, out)
        return
    if k == "CallExpr":
        cal = strip(inner[0])
        rd = cal.get("referencedDecl", {})
        out.append("c:" + str(rd.get("name")) + ":" + clean_ty(rd.get("type", {}).get("qualType")))
        for a in inner[1:]:
            shape(a, out)
        return
    if k == "CXXOperatorCallExpr":
        cal = strip(inner[0])
        out.append("o:" + str(cal.get("referencedDecl", {}).get("name")))
        for a in inner[1:]:
            shape(a, out)
        return
    if k in ("BinaryOperator", "UnaryOperator", "CompoundAssignOperator"):
        out.append("op:" + str(n.get("opcode")))
    elif k in ("IntegerLiteral", "FloatingLiteral", "CXXBoolLiteralExpr"):
        out.append("lit:" + str(n.get("value")))
    elif k in ("IfStmt", "WhileStmt", "ForStmt", "DoStmt", "ReturnStmt", "ConditionalOperator", "SwitchStmt", "BreakStmt", "ContinueStmt"):
        out.append("s:" + k)
    elif k == "VarDecl":
        out.append("v:" + ty(n))
    elif k == "CXXConstructExpr" or k == "CXXTemporaryObjectExpr":
        if len(inner) != 1:
            out.append("new:" + ty(n))
    elif k == "DeclRefExpr":
        rd = n.get("referencedDecl", {})
        if rd.get("kind") == "EnumConstantDecl":
            out.append("e:" + str(rd.get("name")))
    for c in inner:
        shape(c, out)


# the helper overloads whose bodies ExecDefs.v mirrors by hand: name -> [parameter type lists]
MODELLED = ["Or", "And", "notequals", "equals", "lte", "lt", "gte", "gt", "getNumericOperand", "plus", "minus", "mult",
            "div", "mod", "neg", "Union", "literal", "numberlit", "locationPath", "group", "functionPosition",
            "functionLast", "functionCount", "functionNot", "functionBoolean", "functionName", "functionLocalName",
            "functionNumber", "functionFloor", "functionCeiling", "functionRound", "functionStringLength",
            "functionSum", "variable", "findNodeSet"]


def body_shapes(objs):
    res = {}
    for o in objs:
        if o.get("kind") != "CXXMethodDecl" or o.get("name") not in MODELLED:
            continue
        body = [c for c in o.get("inner", []) if c.get("kind") == "CompoundStmt"]
        if not body:
            continue
        sig = clean_ty(o.get("type", {}).get("qualType"))
        out = []
        shape(body[0], out)
        key = "%s :: %s" % (o["name"], sig)
        if key in res:
            raise AnchorError("two definitions of " + key)
        res[key] = out
    for name in MODELLED:
        if not any(k.startswith(name + " :: ") for k in res):
            raise AnchorError("no definition of XPath::%s found" % name)
    return res


def shape_digest(seq):
    return hashlib.sha256("\n".join(seq).encode()).hexdigest()[:16]


def coq_string(s):
    return '"' + s.replace('"', '""') + '"'


# ------------------------------------------------------------------------------------------------
# which function names the compiler gives an op-code of their own (XPathProcessorImpl.cpp)

CHAR_NAMES = {"HyphenMinus": "-", "FullStop": ".", "LowLine": "_", "Colon": ":"}


def char_array(cls, name):
    fn = {"XPathFunctionTable": "XPath/XPathFunctionTable.cpp", "XPathProcessorImpl": "XPath/XPathProcessorImpl.cpp"}.get(cls)
    if fn is None:
        raise AnchorError("function name constant in an unexpected class: %s::%s" % (cls, name))
    t = srcfacts.strip_comments(srcfacts.read(fn))
    m = srcfacts.need(r"const\s+XalanDOMChar\s+%s::%s\s*\[\s*\]\s*=\s*\{(.*?)\}\s*;" % (cls, name), t, "%s::%s[]" % (cls, name))
    items = [x.strip() for x in m.group(1).split(",") if x.strip()]
    if not items or items[-1] != "0":
        raise AnchorError("%s::%s is not 0-terminated" % (cls, name))
    out = ""
    for it in items[:-1]:
        mm = re.fullmatch(r"XalanUnicode::char(\w+)", it)
        if not mm:
            raise AnchorError("%s::%s: unexpected element %s" % (cls, name, it))
        k = mm.group(1)
        if k.startswith("Letter_") and len(k) == 8:
            out += k[7]
        elif k in CHAR_NAMES:
            out += CHAR_NAMES[k]
        else:
            raise AnchorError("%s::%s: unknown character constant %s" % (cls, name, k))
    return out


def compiler_fn_table():
    t = srcfacts.strip_comments(srcfacts.read("XPath/XPathProcessorImpl.cpp"))
    m = srcfacts.need(r"XPathProcessorImpl::s_functionTable\s*\[\s*\]\s*=\s*\{(.*?)\}\s*;", t, "XPathProcessorImpl::s_functionTable")
    entries = re.findall(r"\{\s*(\w+)::(\w+)\s*,\s*XPathExpression::(\w+)\s*\}", m.group(1))
    if len(entries) < 10:
        raise AnchorError("s_functionTable: entries not recognised")
    body = srcfacts.function_body(t, r"XPathProcessorImpl::FunctionCall\s*\(\s*\)\s*\{", "XPathProcessorImpl::FunctionCall")
    cases = dict(re.findall(r"case\s+XPathExpression::(eOP_FUNCTION_\w+)\s*:\s*(Function\w+)\s*\(", body))
    if "eOP_FUNCTION" not in body or "nameToID" not in body:
        raise AnchorError("FunctionCall: the general eOP_FUNCTION path was not recognised")
    rows = []
    for cls, cname, op in entries:
        if not op.startswith("eOP_FUNCTION_"):
            continue            # node type tests
        if op[4:] not in OPCODES:
            raise AnchorError("s_functionTable: op-code %s is unknown to the model" % op)
        name = char_array(cls, cname)
        if op not in cases:
            continue            # no case in FunctionCall: compiled through the general eOP_FUNCTION path
        fb = srcfacts.function_body(t, r"XPathProcessorImpl::%s\s*\([^)]*\)\s*\{" % cases[op], "XPathProcessorImpl::" + cases[op])
        if not re.search(r"appendOpCode\s*\(\s*XPathExpression::%s\s*\)" % op, fb):
            raise AnchorError("%s does not append %s" % (cases[op], op))
        rep = re.findall(r"replaceOpCode\s*\(\s*opPos\s*,\s*XPathExpression::(\w+)\s*,\s*XPathExpression::(\w+)\s*\)", fb)
        alt = None
        if rep:
            if len(rep) != 1 or rep[0][0] != op or rep[0][1][4:] not in OPCODES or not re.search(r"if\s*\(\s*argCount\s*==\s*1\s*\)", fb):
                raise AnchorError("%s: unexpected replaceOpCode" % cases[op])
            alt = rep[0][1]
        rows.append((name, op[4:], alt[4:] if alt else None))
    for op in cases:
        if op not in [e[2] for e in entries]:
            raise AnchorError("FunctionCall has a case for %s that s_functionTable never produces" % op)
    return rows


def gen_exec():
    objs = load_ast()
    fns = {}
    for o in objs:
        if o.get("kind") == "CXXMethodDecl" and o.get("name") == "executeMore" and \
                any(c.get("kind") == "CompoundStmt" for c in o.get("inner", [])):
            e = entry_of(o)
            if e is None:
                raise AnchorError("executeMore overload with an unknown signature: " + clean_ty(o.get("type", {}).get("qualType")))
            if e in fns:
                raise AnchorError("two definitions of executeMore(%s)" % e)
            fns[e] = o
    missing = [e for e in ENTRIES if e not in fns]
    if missing:
        raise AnchorError("executeMore overloads not found: " + ", ".join(missing))
    tables, defaults, facts = {}, {}, {}
    post_check = False
    for e in ENTRIES:
        arms, default, body = switch_arms(e, fns[e])
        if default != "ADefault":
            raise AnchorError("executeMore(%s): default arm is not unknownOpCodeError" % e)
        tables[e], defaults[e] = arms, default
        if e == "nodes":
            # the check after the switch: a returned object that is not a node-set is an error
            ifs = [c for c in body.get("inner", []) if c.get("kind") == "IfStmt"]
            for i in ifs:
                sh = []
                shape(i, sh)
                if any(x.startswith("m:notNodeSetError") for x in sh) and any(x == "e:eTypeNodeSet" for x in sh) and \
                        any(x.startswith("m:getType") for x in sh) and "op:!=" in sh:
                    post_check = True
        facts[e] = {"cases": len(arms)}
    shapes = body_shapes(objs)
    out = HEADER
    out += "(* from the clang AST of src/xalanc/XPath/XPath.cpp: the six switch statements of XPath::executeMore *)\n"
    out += "From Coq Require Import NArith List String.\nRequire Import XV.ExecArms.\nImport ListNotations.\nLocal Open Scope string_scope.\n\n"
    for e in ENTRIES:
        out += "(* executeMore(%s): %d case labels *)\n" % (e, len(tables[e]))
        out += "Definition arm_%s (op : opcode) : arm :=\n  match op with\n" % e
        for name in OPCODES:
            out += "  | OP_%s => %s\n" % (name, tables[e].get(name, defaults[e]))
        out += "  end.\n"
        out += "Definition cases_%s : list opcode := [%s].\n\n" % (e, "; ".join("OP_" + n for n in OPCODES if n in tables[e]))
    out += "(* executeMore(nodes): after the switch, a returned object whose type is not eTypeNodeSet raises notNodeSetError *)\n"
    out += "Definition nodes_post_check : bool := %s.\n\n" % ("true" if post_check else "false")
    out += "(* bodies of the helper overloads mirrored by hand in ExecDefs.v: (name :: signature, digest of the\n   sequence of calls / operators / literals / control statements) *)\n"
    out += "Definition helper_shapes : list (string * string) := [\n"
    out += ";\n".join("  (%s, %s)" % (coq_string(k), coq_string(shape_digest(v))) for k, v in sorted(shapes.items()))
    out += "\n].\n"
    rows = compiler_fn_table()
    out += "\n(* XPathProcessorImpl::s_functionTable + FunctionCall(): function names that are compiled to an op-code of\n   their own: (name as UTF-16 code units, op-code appended, op-code it is replaced by when the call has one argument) *)\n"
    out += "Definition compiler_fn_table : list (list N * opcode * option opcode) := [\n"
    out += ";\n".join("  ([%s]%%N, OP_%s, %s)  (* %s *)" % ("; ".join(str(ord(ch)) for ch in n), a, ("Some OP_" + b) if b else "None", n) for n, a, b in rows)
    out += "\n].\n"
    facts["compiler_fn_table"] = rows
    facts["nodes_post_check"] = post_check
    facts["shapes"] = {k: shape_digest(v) for k, v in shapes.items()}
    return out, facts


GENERATORS = {"GenExec": gen_exec}

if __name__ == "__main__":
    import sys
    text, facts = gen_exec()
    if len(sys.argv) > 1 and sys.argv[1] == "shapes":
        for k, v in sorted(body_shapes(load_ast()).items()):
            print(k, shape_digest(v))
            print("   ", " ".join(v)[:600])
    else:
        print(text)
