(* C06 — a reused transformer behaves like a new one: no state leaks between calls.
   Statements only; proofs are in ApiModel.v.  The member universe, the reset chain, the statement
   list of doTransform, the catch tables and the three switches
     objstack_reset_rewinds / set_value_drops_expr / errclear_*
   are regenerated from /repo on every run (GenApi.v).  Where the code as it is violates the full
   statement, the full theorem is stated under the switch value of the repaired code, next to a
   _refuted theorem (witness history) and a _partial theorem (exact guard) for the code as it is. *)
From Coq Require Import List ZArith Bool Arith.
Require Import XV.ApiName XV.GenApi XV.ApiDefs XV.ApiModel.
Import ListNotations.
Close Scope name_scope.
Open Scope list_scope.

(* ---- the translator tie ------------------------------------------------------------------- *)

(* every generated data member is classified, and every member classified as per-transformation
   state is assigned/cleared/reset by the reset chain ~EnsureReset -> reset() -> cleanUpTransients()
   / XPathExecutionContextDefault::reset() / XalanTransformer::reset() as generated *)
Theorem reset_complete :
  forall c n k, In (c, n, k) members ->
    classify (c, n) <> None /\ (classify (c, n) = Some PerTransformation -> cleared (c, n) = true).
Proof.
  intros c n k Hin.
  assert (Hm : In (c, n) member_ids).
  { unfold member_ids. apply in_map_iff. exists (c, n, k). split; [reflexivity|assumption]. }
  split; [apply every_member_classified; assumption|].
  intro Hc. apply reset_complete_members; [assumption|].
  unfold is_per_transformation. rewrite Hc. reflexivity.
Qed.
Print Assumptions reset_complete.

(* whichever statement of doTransform's try block throws (or none), if the long-lived execution
   context has been touched then the EnsureReset guard object is alive, so its destructor runs *)
Theorem ensure_reset_on_all_paths :
  forall abort, ctx_touched abort = true -> guard_alive abort = true.
Proof. exact ensure_reset_all_paths. Qed.
Print Assumptions ensure_reset_on_all_paths.

Example ensure_reset_hypothesis_satisfiable :
  exists k, ctx_touched (Some k) = true /\ guard_alive (Some k) = true.
Proof. exists (List.length dotransform_try_stmts - 1). vm_compute. split; reflexivity. Qed.

(* ---- residue ------------------------------------------------------------------------------ *)

(* after every operation of every finite history, whatever subset of members each transformation
   dirtied and wherever it aborted, the only members that may differ from a new transformer are
   object-stack caches, and only if their reset() does not rewind the count *)
Theorem residue_confined :
  forall h m, In m (st_residue (run h)) -> is_objstack m = true /\ objstack_reset_rewinds = false.
Proof. exact residue_confined_run. Qed.
Print Assumptions residue_confined.

Theorem residue_always_clean :
  objstack_reset_rewinds = true -> forall h, st_residue (run h) = [].
Proof. exact residue_clean_when_rewinds. Qed.
Print Assumptions residue_always_clean.

Theorem residue_always_clean_refuted :
  objstack_reset_rewinds = false -> exists h, st_residue (run h) <> [].
Proof.
  intro H. exists [OTransSS 0 0 Ok Ok 0 [(CSecd, "m_stringStack"%name)]].
  rewrite residue_single_success. rewrite objstack_member_kept; [discriminate| | |exact H]; vm_compute; reflexivity.
Qed.
Print Assumptions residue_always_clean_refuted.

(* the count left behind is invisible: after reset() as coded, every balanced use of the cache
   returns exactly what a newly constructed cache returns *)
Theorem objstack_count_invisible :
  forall a l, os_depth a <= List.length (os_pool a) -> os_balanced 0 l = true ->
    snd (os_run (os_reset a) l) = snd (os_run {| os_pool := []; os_depth := 0 |} l).
Proof. exact os_reset_invisible. Qed.
Print Assumptions objstack_count_invisible.

Example objstack_example :
  snd (os_run (os_reset {| os_pool := [5; 6; 7]; os_depth := 2 |}) [OsGet; OsWrite 9; OsGet; OsRelease; OsRelease; OsGet]) =
  [Some 0; Some 9; Some 0; Some 0; Some 9; Some 9].
Proof. vm_compute. reflexivity. Qed.

Example residue_example :
  forallb is_objstack
    (st_residue (run [OTransSS 0 0 Ok (Fail EXSL [1]) 25 (filter is_per_transformation member_ids);
                      OTransSS 1 0 Ok Ok 0 (filter is_per_transformation member_ids)])) = true.
Proof. vm_compute. reflexivity. Qed.

(* ---- parameters --------------------------------------------------------------------------- *)

Theorem params_sticky_until_cleared :
  clear_params_clears_map = true -> set_value_drops_expr = true ->
  forall h n, visible_param (st_params (run h)) n = last_set (rev h) n.
Proof. exact params_last_set_when_value_drops_expr. Qed.
Print Assumptions params_sticky_until_cleared.

Theorem params_sticky_until_cleared_partial :
  clear_params_clears_map = true -> set_expr_drops_value = false -> set_value_drops_expr = false ->
  forall h n, no_form_switch (rev h) n = true ->
    visible_param (st_params (run h)) n = last_set (rev h) n.
Proof.
  intros Hc He Hv h n Hg. rewrite visible_param_faithful by assumption.
  apply code_visible_is_last_set. exact Hg.
Qed.
Print Assumptions params_sticky_until_cleared_partial.

Theorem params_sticky_until_cleared_refuted :
  clear_params_clears_map = true -> set_expr_drops_value = false -> set_value_drops_expr = false ->
  exists h n, visible_param (st_params (run h)) n <> last_set (rev h) n.
Proof.
  intros Hc He Hv. exists [OSetParamE 0 1; OSetParamV 0 7], 0.
  rewrite visible_param_faithful by assumption. vm_compute. discriminate.
Qed.
Print Assumptions params_sticky_until_cleared_refuted.

(* the documented behaviour of the two entry points the other theorems take as hypotheses *)
Example clear_params_really_clears : clear_params_clears_map = true.
Proof. vm_compute. reflexivity. Qed.

Example parse_source_empties_the_message : errclear_parse = ErrClearPush.
Proof. vm_compute. reflexivity. Qed.

Example reset_chain_is_reached : chain_runs = true.
Proof. vm_compute. reflexivity. Qed.

(* the members of the long-lived NodeSorter (classified scratch, not touched by reset()) are emptied by
   guard objects declared before the sort-key evaluation that can throw: empty again on every exit *)
Example nodesorter_caches_emptied_on_every_exit :
  forallb (fun p => snd p) nodesorter_guarded = true /\ List.length nodesorter_guarded = 3.
Proof. vm_compute. split; reflexivity. Qed.

Example params_guard_satisfiable :
  let h := [OSetParamE 0 1; OSetParamV 1 4; OClearParams; OSetParamV 0 2; OSetParamE 0 3; OSetParamE 2 5] in
  no_form_switch (rev h) 0 = true /\ last_set (rev h) 0 = Some (true, 3) /\ last_set (rev h) 1 = None.
Proof. vm_compute. repeat split; reflexivity. Qed.

Theorem functions_follow_install_uninstall :
  forall h k, existsb (Nat.eqb k) (st_funcs (run h)) = installed_spec (rev h) k.
Proof. exact funcs_spec_ok. Qed.
Print Assumptions functions_follow_install_uninstall.

(* ---- history independence ----------------------------------------------------------------- *)

(* the library call made by a transformation operation is given key_in and nothing else *)
Theorem transformation_sees_only_its_key :
  forall s o k z e, is_transform o = true -> snd (step s o) = OutTrans (Some k) z e -> key_in s o = Some k.
Proof. exact trans_out_key. Qed.
Print Assumptions transformation_sees_only_its_key.

(* after ANY finite history h (under the parameter hypothesis: repaired code, or code as it is and
   no value-form set after an expression-form set of the same name since the last clear), a
   transformation is handed the same stylesheet, source, visible parameters, installed functions
   and indent as on a NEW transformer that was only given the documented current settings of h *)
Theorem history_independence :
  forall h, params_hyp h ->
  forall sh d x,
    let k1 := key_of (run h) sh d x in
    let k2 := key_of (run (fresh_setup h)) sh d x in
    k_sheet k1 = k_sheet k2 /\ k_src k1 = k_src k2 /\ k_xerces k1 = k_xerces k2 /\
    (forall n, key_params_lookup k1 n = key_params_lookup k2 n) /\
    (forall f, existsb (Nat.eqb f) (k_funcs k1) = existsb (Nat.eqb f) (k_funcs k2)) /\
    k_indent k1 = k_indent k2.
Proof. exact history_independence_keys. Qed.
Print Assumptions history_independence.

Theorem history_independence_refuted :
  clear_params_clears_map = true -> set_expr_drops_value = false -> set_value_drops_expr = false ->
  exists h sh d x n,
    key_params_lookup (key_of (run h) sh d x) n <> key_params_lookup (key_of (run (fresh_setup h)) sh d x) n.
Proof.
  intros Hc He Hv. exists [OSetParamE 0 1; OSetParamV 0 7], 0, 0, false, 0.
  rewrite !key_params_lookup_visible by apply run_params_nodup.
  rewrite fresh_visible by (split; auto).
  rewrite visible_param_faithful by assumption. vm_compute. discriminate.
Qed.
Print Assumptions history_independence_refuted.

Example history_example :
  let h := [OInstall 1; OSetParamE 0 1; OCompile 3 Ok; OTransSS 16 0 Ok (Fail EXSL [7]) 33 [];
            OClearParams; OSetParamV 2 9; OUninstall 1; OInstall 2; OSetIndent 3%Z] in
  fresh_setup h = [OSetParamV 2 9; OInstall 2; OSetIndent 3%Z] /\
  key_of (run h) 5 6 false = key_of (run (fresh_setup h)) 5 6 false.
Proof. vm_compute. split; reflexivity. Qed.

(* ---- owned objects ------------------------------------------------------------------------ *)

Theorem compiled_stylesheet_valid_until_destroyed :
  forall h s i sh, live (st_cs s) i = Some sh ->
    forallb (fun o => negb (destroys_cs i o)) h = true ->
    live (st_cs (fst (run_from s h))) i = Some sh.
Proof. exact handle_stable_cs. Qed.
Print Assumptions compiled_stylesheet_valid_until_destroyed.

Theorem parsed_source_valid_until_destroyed :
  forall h s j v, live (st_ps s) j = Some v ->
    forallb (fun o => negb (destroys_ps j o)) h = true ->
    live (st_ps (fst (run_from s h))) j = Some v.
Proof. exact handle_stable_ps. Qed.
Print Assumptions parsed_source_valid_until_destroyed.

Theorem destroy_invalidates_only_its_object :
  forall s i sh, live (st_cs s) i = Some sh ->
    let s' := fst (step s (ODestroyCS i)) in
    live (st_cs s') i = None /\ (forall j, j <> i -> nth_error (st_cs s') j = nth_error (st_cs s) j) /\
    st_ps s' = st_ps s /\ st_params s' = st_params s /\ st_funcs s' = st_funcs s /\
    st_residue s' = st_residue s /\ st_indent s' = st_indent s.
Proof. exact destroy_cs_frame. Qed.
Print Assumptions destroy_invalidates_only_its_object.

Theorem destroy_source_invalidates_only_its_object :
  forall s j v, live (st_ps s) j = Some v ->
    let s' := fst (step s (ODestroyPS j)) in
    live (st_ps s') j = None /\ (forall i, i <> j -> nth_error (st_ps s') i = nth_error (st_ps s) i) /\
    st_cs s' = st_cs s /\ st_params s' = st_params s /\ st_funcs s' = st_funcs s /\
    st_residue s' = st_residue s /\ st_indent s' = st_indent s.
Proof. exact destroy_ps_frame. Qed.
Print Assumptions destroy_source_invalidates_only_its_object.

(* ---- the error message -------------------------------------------------------------------- *)

(* what getLastError() reads after a SUCCESSFUL transform(parsed source, compiled stylesheet) *)
Theorem error_message_after_success :
  forall s i j sh d x ab dirt,
    eb_wf (st_err s) -> live (st_cs s) i = Some sh -> live (st_ps s) j = Some (d, x) ->
    exists k, snd (step s (OTransHH i j Ok ab dirt)) =
      OutTrans (Some k) (Some 0%Z)
        (match errclear_dotransform with ErrClearPush => [] | _ => last_error (st_err s) end).
Proof. exact success_message_transHH. Qed.
Print Assumptions error_message_after_success.

Theorem error_message_wf_invariant :
  forall h, Forall op_msgs_ok h -> eb_wf (st_err (run h)).
Proof. exact run_err_wf. Qed.
Print Assumptions error_message_wf_invariant.

Theorem error_message_fresh_after_success :
  errclear_dotransform = ErrClearPush ->
  forall s i j sh d x ab dirt,
    eb_wf (st_err s) -> live (st_cs s) i = Some sh -> live (st_ps s) j = Some (d, x) ->
    exists k, snd (step s (OTransHH i j Ok ab dirt)) = OutTrans (Some k) (Some 0%Z) [].
Proof.
  intros Hi s i j sh d x ab dirt Hw Hc Hp.
  destruct (success_message_transHH s i j sh d x ab dirt Hw Hc Hp) as [k Hk].
  exists k. rewrite Hk, Hi. reflexivity.
Qed.
Print Assumptions error_message_fresh_after_success.

(* partial: the entry points that go through parseSource first are always fresh *)
Theorem error_message_fresh_after_success_partial :
  errclear_parse = ErrClearPush ->
  forall s sh d ab dirt, eb_wf (st_err s) ->
    exists k, snd (step s (OTransSS sh d Ok Ok ab dirt)) = OutTrans (Some k) (Some 0%Z) [].
Proof. intros Hp s sh d ab dirt Hw. apply success_message_transSS; assumption. Qed.
Print Assumptions error_message_fresh_after_success_partial.

Theorem error_message_fresh_after_success_refuted :
  errclear_dotransform = ErrResize1 ->
  exists h o k msg, Forall op_msgs_ok h /\ is_transform o = true /\
    snd (step (run h) o) = OutTrans (Some k) (Some 0%Z) msg /\ msg <> [].
Proof.
  intro Hi.
  set (h := [OCompile 0 Ok; OParse 0 false Ok; OCompile 16 Ok; OTransHH 1 0 (Fail EXSL [88]) 33 []]).
  assert (Hok : Forall op_msgs_ok h).
  { unfold h. repeat constructor; intro; discriminate. }
  assert (Hc : live (st_cs (run h)) 0 = Some 0) by (vm_compute; reflexivity).
  assert (Hp : live (st_ps (run h)) 0 = Some (0, false)) by (vm_compute; reflexivity).
  assert (Hl : last_error (st_err (run h)) = [88]) by (vm_compute; reflexivity).
  destruct (success_message_transHH (run h) 0 0 0 0 false 0 [] (run_err_wf h Hok) Hc Hp) as [k Hk].
  exists h, (OTransHH 0 0 Ok 0 []), k, [88].
  split; [exact Hok|]. split; [reflexivity|].
  split; [rewrite Hk, Hi, Hl; reflexivity|discriminate].
Qed.
Print Assumptions error_message_fresh_after_success_refuted.

Example status_examples :
  status_of dotransform_catches ESAXParse = Some (-2)%Z /\ status_of dotransform_catches EXSL = Some (-1)%Z /\
  status_of parse_catches ESAXParse = Some (-2)%Z /\ status_of compile_catches EXML = Some (-3)%Z.
Proof. vm_compute. repeat split; reflexivity. Qed.
