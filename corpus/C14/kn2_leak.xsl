# KN2 repaired by a fix: commit - regression case, must pass (apply to <doc/>)
<xsl:stylesheet version="1.0" xmlns:xsl="http://www.w3.org/1999/XSL/Transform"><xsl:template match="/"><e>t<xsl:attribute name="a" namespace="u4">u4</xsl:attribute><f></f></e></xsl:template></xsl:stylesheet>
