(* C14 — the decision tree of xsl:attribute with a namespace attribute, one step, every state:
   if the step raises no hazard (only K17 is left), the attribute it adds carries a prefix that the
   result-namespace stack resolves to the requested URI. *)
From Coq Require Import List NArith Bool Lia ZifyBool ZifyNat ZifyN.
Require Import XV.GenNsfix XV.NsfixDefs XV.NsfixModel.
Import ListNotations.
Local Open Scope N_scope.

Lemma add_attribute_in : forall l a, In a (add_attribute l a).
Proof.
  induction l as [|b r IH]; simpl; intros a; auto.
  destruct (qname_eqb (a_name b) (a_name a)); simpl; auto.
Qed.

Lemma cons_neq_self : forall {A} (x : A) l, x :: l <> l.
Proof. intros A x l H. apply (f_equal (@length A)) in H. simpl in H. lia. Qed.

Lemma app_cons_neq_self : forall {A} (l1 : list A) x l, l1 ++ x :: l <> l.
Proof. intros A l1 x l H. apply (f_equal (@length A)) in H. rewrite app_length in H. simpl in H. lia. Qed.

Lemma add_result_attr_hz : forall s n v r, hz (add_result_attr s n v r) = hz s.
Proof.
  intros s [[[]|] l] v r; unfold add_result_attr; cbn [fst snd];
    repeat match goal with
           | |- context [match ?x with _ => _ end] => destruct x
           | |- context [if ?x then _ else _] => destruct x
           end; reflexivity.
Qed.

Lemma add_result_attr_pend : forall s n v r, pend (add_result_attr s n v r) = pend s.
Proof.
  intros s [[[]|] l] v r; unfold add_result_attr; cbn [fst snd];
    repeat match goal with
           | |- context [match ?x with _ => _ end] => destruct x
           | |- context [if ?x then _ else _] => destruct x
           end; reflexivity.
Qed.

Lemma add_result_attr_plain : forall s n v r, decl_prefix n = None ->
  add_result_attr s n v r = set_pattrs s (add_attribute (pattrs s) (mkAttr n v r)).
Proof.
  intros s [[[]|] []] v r H; simpl in H; try discriminate; reflexivity.
Qed.

(* emit_attr only ever adds hazards *)
Lemma emit_attr_hz_mono : forall s n v r, exists l, hz (emit_attr s n v r) = l ++ hz s.
Proof.
  intros. unfold emit_attr. rewrite add_result_attr_hz. unfold add_hz_if, add_hz.
  repeat match goal with |- context [if ?x then _ else _] => destruct x end; cbn [hz];
    [exists [HDeclAttr; HK17] | exists [HDeclAttr] | exists [HK17] | exists []]; reflexivity.
Qed.

Lemma emit_attr_plain_spec : forall s n v r, decl_prefix n = None ->
  hz (emit_attr s n v r) = hz s ->
  In (mkAttr n v r) (pattrs (emit_attr s n v r)) /\ stk (emit_attr s n v r) = stk s.
Proof.
  intros s n v r Hn H. unfold emit_attr in *. rewrite Hn in *.
  rewrite add_result_attr_hz in H. rewrite add_result_attr_plain by assumption.
  unfold add_hz_if, add_hz in *.
  destruct (existsb _ (pattrs s)); cbn [hz stk pattrs set_pattrs] in *.
  - exfalso. eapply cons_neq_self. exact H.
  - split; [apply add_attribute_in | reflexivity].
Qed.

Lemma decl_prefix_prefixed : forall q L, q <> AXmlns -> decl_prefix (Some q, L) = None.
Proof. intros [] L H; try reflexivity. contradiction. Qed.

Lemma declare_prefix_hz : forall s a u, hz (declare_prefix s a u) = hz s.
Proof. intros. apply add_result_attr_hz. Qed.

Lemma plain_not_xmlns : forall a, plain_atom a = true -> a <> AXmlns.
Proof. intros a H E. subst. discriminate. Qed.

Lemma keep_case : forall s p L u v, stk s <> [] -> plain_atom p = true ->
  hz (emit_attr (declare_prefix s p u) (Some p, L) v (u, L)) = hz s ->
  exists q, In (mkAttr (Some q, L) v (u, L)) (pattrs (emit_attr (declare_prefix s p u) (Some p, L) v (u, L)))
            /\ ns_for_prefix (stk (emit_attr (declare_prefix s p u) (Some p, L) v (u, L))) (Some q) = Some u.
Proof.
  intros s p L u v Hk Hp H.
  rewrite <- (declare_prefix_hz s p u) in H.
  apply emit_attr_plain_spec in H; [|apply decl_prefix_prefixed, plain_not_xmlns; assumption].
  destruct H as [Hin Hst]. exists p. split; [exact Hin|]. rewrite Hst.
  apply declare_prefix_resolves; assumption.
Qed.

Lemma gen_case : forall s L u v, stk s <> [] ->
  hz (let (g, s1) := gen_unique s in emit_attr (declare_prefix s1 g u) (Some g, L) v (u, L)) = hz s ->
  exists q, In (mkAttr (Some q, L) v (u, L))
               (pattrs (let (g, s1) := gen_unique s in emit_attr (declare_prefix s1 g u) (Some g, L) v (u, L)))
            /\ ns_for_prefix (stk (let (g, s1) := gen_unique s in emit_attr (declare_prefix s1 g u) (Some g, L) v (u, L)))
                 (Some q) = Some u.
Proof.
  intros s L u v Hk. destruct (gen_unique s) as [g s1] eqn:G. apply gen_unique_spec in G.
  destruct G as (_ & Hs1 & _ & _ & _ & Hh1 & n & -> & _ & _). intro H.
  rewrite <- Hh1 in H. apply keep_case in H; auto. rewrite Hs1. assumption.
Qed.

Lemma attr_new_decl_step : forall s P L u v,
  stk s <> [] ->
  match P with None => True | Some a => plain_atom a = true end ->
  hz (attr_new_decl s P L u v (u, L)) = hz s ->
  exists q, In (mkAttr (Some q, L) v (u, L)) (pattrs (attr_new_decl s P L u v (u, L)))
            /\ ns_for_prefix (stk (attr_new_decl s P L u v (u, L))) (Some q) = Some u.
Proof.
  intros s P L u v Hk HP. unfold attr_new_decl.
  destruct P as [a|]; [|apply gen_case; assumption].
  destruct a; simpl in HP; try discriminate; cbn [atom_eqb andb];
    (destruct (ns_for_prefix (stk s) (Some _)) as [w|];
     [destruct (negb (N.eqb w u) && is_pending_prefix s _)|];
     cbv zeta; first [apply gen_case; assumption | apply keep_case; [assumption | reflexivity]]).
Qed.

(* the attribute clause of the property for one xsl:attribute with a namespace attribute: in any
   state with a pending element, unless the instruction raises the duplicate-expanded-name hazard
   (K17), the attribute it adds has a prefix that the stack resolves to the requested URI *)
Lemma attr_namespace_step : forall s P L u sns v,
  pend s <> None -> stk s <> [] -> u <> 0 -> u <> uXMLNS ->
  match P with None => True | Some a => plain_atom a = true end ->
  hz (exec_attr s (P, L) (Some u) sns v) = hz s ->
  exists q, In (mkAttr (Some q, L) v (u, L)) (pattrs (exec_attr s (P, L) (Some u) sns v))
            /\ ns_for_prefix (stk (exec_attr s (P, L) (Some u) sns v)) (Some q) = Some u.
Proof.
  intros s P L u sns v Hp Hk Hu Hx HP.
  unfold exec_attr. cbv beta zeta iota delta [fst snd].
  assert (Hreq : req_attr (P, L) (Some u) sns = (u, L)) by reflexivity. rewrite Hreq.
  destruct (pend s) as [pe|] eqn:Epend; [|contradiction].
  assert (Hu0 : N.eqb u 0 = false) by (apply N.eqb_neq; assumption). rewrite Hu0.
  destruct (prefix_for_ns (stk s) u) as [[q|]|] eqn:Efound; try (apply attr_new_decl_step; assumption).
  destruct (match P with None => true | Some p => atom_eqb p q end) eqn:Euse;
    [|apply attr_new_decl_step; assumption].
  apply prefix_for_ns_sound in Efound. intro H.
  assert (Hq : q <> AXmlns).
  { intro E. subst q. simpl in Efound. inversion Efound. congruence. }
  apply emit_attr_plain_spec in H; [|apply decl_prefix_prefixed; assumption].
  destruct H as [Hin Hst]. exists q. split; [exact Hin|]. rewrite Hst. exact Efound.
Qed.
