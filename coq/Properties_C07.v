(* C07 — compiled stylesheets and parsed sources can be shared by concurrent threads.  PARTIAL:
   Coq carries (A) the audited census of direct shared-write capabilities in the library sources
   (GenThr.v is regenerated from /repo on every run), and (B) non-interference of an abstract
   interpreter at step granularity UNDER the frame condition that (A) justifies syntactically;
   (C) the string-pool protocol of the Xerces wrapper document.  Data races at the C++ memory-model
   level, writes through aliases, and real schedules are sampled by ThreadSanitizer (props/C07.py). *)
From Coq Require Import String List Bool Arith ZArith.
Require Import XV.GenThr XV.ThrDefs XV.ThrModel.
Import ListNotations.
Open Scope string_scope.

(* ---- A. census = audit ---- *)

(* the generated census, minus the entries covered by a class-level / init-family rule, is EXACTLY the
   audited list (so a new mutable member, const_cast, static or mention of a static anywhere in the
   library sources - outside the audited per-thread classes - breaks this until it is audited) *)
Theorem census_equals_audit :
  mutable_residue = map (fun a => fst (fst a)) mutable_audit /\
  constcast_residue = map (fun a => fst (fst a)) constcast_audit /\
  static_residue = map (fun a => fst (fst a)) static_audit /\
  census_localstatic = map (fun a => fst (fst a)) localstatic_audit /\
  census_owner = map facility_home all_facilities /\
  census_constlookup = map (fun a => fst (fst a)) constlookup_audit.
Proof. exact census_equals_audit_l. Qed.
Print Assumptions census_equals_audit.

(* FULL statement (after the repairs 4d62aaf / 24f879b): every census entry carries a verdict other than
   SharedWrite; known_shared_writes is empty *)
Theorem shared_writes_allowlisted :
  (forall e, In e census_mutable -> mutable_justified e) /\
  (forall e, In e census_constcast -> constcast_justified e) /\
  (forall e, In e census_static -> static_justified e) /\
  (forall e, In e census_localstatic -> exists v j, In (e, v, j) localstatic_audit /\ v <> SharedWrite) /\
  (forall e, In e census_constlookup -> exists v j, In (e, v, j) constlookup_audit /\ v <> SharedWrite) /\
  known_shared_writes = [].
Proof.
  repeat split; [exact mutable_allowlisted | exact constcast_allowlisted | exact static_allowlisted
                | exact localstatic_allowlisted | exact constlookup_allowlisted].
Qed.
Print Assumptions shared_writes_allowlisted.

(* no audited const_cast site is a shared write any more *)
Theorem constcast_sites_no_shared_write : forall k v j, In (k, v, j) constcast_audit -> v <> SharedWrite.
Proof. exact constcast_no_shared_write. Qed.
Print Assumptions constcast_sites_no_shared_write.

(* the lazy head allocation behind XalanList::getListHead() const (verdict LazyGuarded): every const lookup
   on a XalanMap/XalanSet/XalanList data member found by the census is per-thread, compile/initialisation
   time only, a configuration API, or read-only because guarded by empty() / primed before sharing *)
Theorem lazy_head_call_sites_covered : forall e v j, In (e, v, j) constlookup_audit ->
  v = PerThread \/ v = ConstructionOnly \/ v = InitOnly \/ v = ConfigAPI \/ v = ReadOnly.
Proof. exact lazy_head_sites_covered. Qed.
Print Assumptions lazy_head_call_sites_covered.

(* the two repaired callers carry their empty() guard in the current source (translator fact) *)
Theorem repaired_callers_are_guarded :
  In ("XalanSourceTreeDocument", "m_elementsByID", "Map", "XalanSourceTreeDocument::getElementById const", "end,find", "guarded", "FunctionID::execute;XercesDocumentWrapper::getElementById;getDoc") census_constlookup /\
  In ("XalanSourceTreeDocument", "m_unparsedEntityURIs", "Map", "XalanSourceTreeDocument::getUnparsedEntityURI const", "end,find", "guarded", "many(5)") census_constlookup.
Proof. exact lazy_guard_facts. Qed.
Print Assumptions repaired_callers_are_guarded.

(* the state of every lazily built facility lives in a class audited as per-thread, and the census
   found the member exactly there *)
Theorem facility_state_is_per_thread : forall f, In (facility_home f) census_owner /\
  ((exists j, In (snd (facility_home f), PerThread, j) class_audit) \/ In (snd (facility_home f)) (map fst extra_perthread_classes)).
Proof. exact facility_state_per_thread. Qed.
Print Assumptions facility_state_is_per_thread.

(* ---- B. non-interference ---- *)

(* frame: a step that reads shared + own and writes only own; by construction for the interpreter *)
Theorem frame_step : frame (lift step).
Proof. exact (frame_lift step). Qed.
Print Assumptions frame_step.

(* under the frame condition the shared part never changes, along every interleaving *)
Theorem shared_unchanged : forall {Sh Lo} (g : gstep_t Sh Lo), frame g ->
  forall s c tr s' c', gsteps g s c tr s' c' -> s' = s.
Proof. intros Sh Lo g H. exact (gsteps_shared_unchanged g H). Qed.
Print Assumptions shared_unchanged.

(* for ALL interleavings (any number of threads, any trace): each thread's context and output are
   those of running its steps alone *)
Theorem interleaving_independent : forall {Sh Lo} (g : gstep_t Sh Lo), frame g ->
  forall s c tr s' c', gsteps g s c tr s' c' ->
  forall t, c' t = seq_local g s (steps_of t tr) (c t) /\ out_of t tr = seq_out g s (steps_of t tr) (c t).
Proof. intros Sh Lo g H. exact (interleaving_independent_gen g H). Qed.
Print Assumptions interleaving_independent.

(* the interpreter: a thread that has finished in some interleaving produced exactly the output of
   its complete single-threaded run (any fuel beyond its length) *)
Theorem interleaving_complete : forall s c tr s' c', gsteps (lift step) s c tr s' c' ->
  forall t, finished s (c' t) -> forall n, steps_of t tr <= n ->
  seq_out (lift step) s n (c t) = out_of t tr /\ seq_local (lift step) s n (c t) = c' t.
Proof. exact interleaving_complete_l. Qed.
Print Assumptions interleaving_complete.

(* every schedule (list of thread ids) is an interleaving: the relation is inhabited at will *)
Theorem every_schedule_is_an_interleaving : forall {Sh Lo} (g : gstep_t Sh Lo) sched s c,
  gsteps g s c (snd (run_sched g s c sched)) (fst (fst (run_sched g s c sched))) (snd (fst (run_sched g s c sched))).
Proof. intros. apply gsteps_run_sched. Qed.
Print Assumptions every_schedule_is_an_interleaving.

(* the frame hypothesis is necessary: with a counter in the SHARED object two interleavings give
   thread 0 different outputs for the same number of its own steps *)
Theorem interleaving_independent_without_frame_refuted :
  ~ frame racy /\
  exists tr1 tr2 s1 c1 s2 c2,
    gsteps racy 0 (fun _ => 0) tr1 s1 c1 /\ gsteps racy 0 (fun _ => 0) tr2 s2 c2 /\
    steps_of 0 tr1 = steps_of 0 tr2 /\ out_of 0 tr1 <> out_of 0 tr2.
Proof. split; [exact racy_not_frame | exact racy_interleaving_dependent]. Qed.
Print Assumptions interleaving_independent_without_frame_refuted.

(* hypotheses are satisfiable / the interpreter does something: three threads with different
   parameters sharing one stylesheet that uses keys, counters, document(), collators, formats,
   variables and the function table; two different schedules, same per-thread outputs *)
Definition ex_shared : shared :=
  {| sh_prog := [(1,7,0); (2,3,0); (3,1,42); (4,1,0); (5,2,0); (6,5,0); (6,5,0); (6,9,0); (7,4,0); (8,0,0); (9,0,0); (1,7,0); (2,3,0)];
     sh_doc := [(1,7,10%Z); (2,8,20%Z); (3,7,30%Z); (4,7,40%Z)];
     sh_files := fun u => [(100 + u, 0, 0%Z); (200 + u, 0, 0%Z)];
     sh_fun := fun f x => (x * 2 + Z.of_nat f)%Z |}.
Definition ex_init : tid -> local := fun t => init_local (Z.of_nat (10 * t)).
Definition ex_sched1 := [0;1;2;0;1;2;0;1;2;0;1;2;0;1;2;0;1;2;0;1;2;0;1;2;0;1;2;0;1;2;0;1;2;0;1;2;0;1;2;0;1;2].
Definition ex_sched2 := [2;2;2;2;2;2;2;2;2;2;2;2;2;2;1;0;1;0;1;0;1;0;1;0;1;0;1;0;1;0;1;0;1;0;1;0;1;0;1;0;1;0].
Example ex_thread1_output :
  out_of 1 (snd (run_sched (lift step) ex_shared ex_init ex_sched1)) = [3; 3; 42; 2; 1; 1; 2; 4; 20; 10; 3; 3]%Z /\
  out_of 1 (snd (run_sched (lift step) ex_shared ex_init ex_sched2)) = [3; 3; 42; 2; 1; 1; 2; 4; 20; 10; 3; 3]%Z /\
  out_of 2 (snd (run_sched (lift step) ex_shared ex_init ex_sched2)) = [3; 3; 42; 2; 1; 1; 2; 4; 40; 20; 3; 3]%Z /\
  finished ex_shared (snd (fst (run_sched (lift step) ex_shared ex_init ex_sched1)) 1).
Proof. vm_compute. repeat split; reflexivity. Qed.

(* ---- C. the wrapper document's string pool ---- *)

(* thread-safe mode (XercesLiaisonXalanDOMStringPool: get() under m_mutex): for every sequence of
   get() calls - i.e. every interleaving of the threads' calls - the pool stays duplicate-free and
   contains every requested string *)
Theorem pool_locked_nodup : forall reqs p, NoDup p -> NoDup (run_locked reqs p).
Proof. exact pool_locked_nodup_l. Qed.
Print Assumptions pool_locked_nodup.

Theorem pool_locked_complete : forall reqs p s, In s reqs -> In s (run_locked reqs p).
Proof. exact pool_locked_complete_l. Qed.
Print Assumptions pool_locked_complete.

(* unsynchronised pool (threadSafe=false: XercesParserLiaison's default; XercesDOMParsedSource now asks for
   the thread-safe wrapper, fix 4d62aaf): two threads' get() of the same string can interleave find/insert
   so that the pool invariant breaks - why a wrapper built with threadSafe=false must not be shared *)
Theorem pool_unlocked_nodup_refuted :
  exists sched, wf_thread 0 (acts_of 0 sched) = true /\ wf_thread 1 (acts_of 1 sched) = true /\
                ~ NoDup (run_unlocked sched []).
Proof. exact pool_unlocked_nodup_refuted_l. Qed.
Print Assumptions pool_unlocked_nodup_refuted.
