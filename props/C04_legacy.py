"""C04, part "legacy" — the second XML serializer of the library, FormatterToXML, inside the model.

proof          coq/Properties_C04l.v over coq/SerLegacyDefs.v (the legacy serializer's character handling as coded),
               tables / strings / the two variant flags regenerated from /repo by translator/gen_serlegacy.py
               (coq/GenSerLegacy.v); read back by the model parser coq/XmlParseDefs.v; agreement with the model of
               FormatterToXMLUnicode (coq/SerEscDefs.v)
correspondence extracted model (.build/serLegacy_model) vs the real FormatterToXML (third field of harness/ser.cpp's
               output), byte for byte, on the script generator of props/C04.py plus a character-class generator
oracle         the legacy serializer's own bytes re-parsed by Xerces (fourth field) compared with the script; an
               unrepresentable tree must be an error; both serializers must succeed / fail together (no model involved)
"""
import os, re
from vlib import core
import props.C04 as base

FAMILY = "serLegacy"
FLAGS = {"legacy_cdata_cr_referenced": False, "legacy_detects_lone_low_surrogate": False, "legacy_checks_comment_pi_names": False}
LEGACY_ENCODINGS = ["UTF-8", "UTF-16", "ISO-8859-1", "US-ASCII", "UTF-32"]


def load_flags():
    try:
        txt = open(os.path.join(core.COQ, "GenSerLegacy.v")).read()
    except OSError:
        return False
    ok = True
    for k in FLAGS:
        m = re.search(r"Definition\s+%s\s*:\s*bool\s*:=\s*(true|false)\s*\." % k, txt)
        if m:
            FLAGS[k] = m.group(1) == "true"
        else:
            ok = False
    return ok


def legacy_bytes(enc, units):
    """bytes the Writer / XalanOutputStream makes of the units the legacy formatter hands over; None = not decided
    here (an unpaired surrogate reaching a transcoder)"""
    if enc == "UTF-16":
        b = bytearray(b"\xff\xfe")
        for u in units:
            b += bytes((u & 0xFF, (u >> 8) & 0xFF))
        return bytes(b)
    if enc in ("UTF-8", "UTF-32"):
        cps = base.code_points(units)
        if cps is None:
            return None
        if enc == "UTF-8":
            return "".join(chr(c) for c in cps).encode("utf-8")
        b = bytearray()
        for c in cps:
            b += c.to_bytes(4, "little")
        return bytes(b)
    if any(u > 0xFF for u in units):
        return None
    return bytes(units)


# ---------------------------------------------------------------------------------------------
# the oracle's own reading of the property for one script (no model): where is the tree unrepresentable?

def cdata_reference_only(v11, u):
    """a character that a CDATA section cannot hold literally (it must leave the section as a reference)"""
    return u == 13 or (v11 and (u in (0x85, 0x2028) or base.restricted(True, u)))


def reasons(enc, ver, evs):
    """set of (kind, why) making the tree unrepresentable; kind in text attr cdata comment pi name"""
    v11 = base.split_ver(ver)[0] == "1.1"
    out = set()
    for e in evs:
        strs = []
        if e[0] == "S":
            strs.append(("name", e[1]))
            for an, av in e[2]:
                strs.append(("name", an))
                strs.append(("attr", av))
        elif e[0] == "E":
            strs.append(("name", e[1]))
        elif e[0] == "T":
            strs.append(("text", e[1]))
        elif e[0] == "C":
            strs.append(("cdata", e[1]))
        elif e[0] == "M":
            strs.append(("comment", e[1]))
        elif e[0] == "P":
            strs.append(("name", e[1]))
            strs.append(("pi", e[2]))
        for kind, s in strs:
            cps = base.code_points(s)
            if cps is None:
                out.add((kind, "surrogate"))
                continue
            for cp in cps:
                if not base.xml_char(v11, cp):
                    out.add((kind, "nochar"))
                elif kind in ("name", "comment", "pi"):
                    if not base.enc_can(enc, cp):
                        out.add((kind, "encoding"))
                    if base.restricted(v11, cp):
                        out.add((kind, "restricted"))
                    if kind != "name" and base.eol_sensitive(v11, cp):
                        out.add((kind, "eol"))
    return out


def known_class(enc, ver, evs, why):
    """the known-finding class of a failure of the legacy serializer on this script, decided from the script and the
    regenerated flags alone; None = not a known class"""
    v11 = base.split_ver(ver)[0] == "1.1"
    kinds = set(k for k, _ in why)
    if kinds & {"comment", "pi", "name"}:
        # no check at all in comments, PIs and names -- unless the source has fixes/C04/12-K-new-8
        return None if FLAGS["legacy_checks_comment_pi_names"] else "K-new-8"
    if any(w == "surrogate" for _, w in why):
        return None if FLAGS["legacy_detects_lone_low_surrogate"] else "K-new-4"
    cdata_units = [u for e in evs if e[0] == "C" for u in e[1]]
    if not FLAGS["legacy_cdata_cr_referenced"]:
        if any(cdata_reference_only(v11, u) for u in cdata_units):
            return "K-new-7"
        if ("cdata", "nochar") in why and not v11 and any(u < 0x20 and u not in (9, 10, 13) for u in cdata_units):
            return "K-new-7"      # XML 1.0: the control character is written literally inside the section
    return None


# ---------------------------------------------------------------------------------------------
# generator aimed at the case splits of the model: one representative per character class, at the start, in the
# middle and at the end of a text node / attribute value / CDATA section / comment / PI

CLASS_ALPHABET = [[9], [10], [13], [13, 10], [1], [0x1F], [0x20], [0x3C], [0x3E], [0x26], [0x22], [0x27], [0x5D], [0x5D, 0x5D], [0x5D, 0x5D, 0x3E],
                  [0x61], [0x7E], [0x7F], [0x80], [0x85], [0x9F], [0xA0], [0xFF], [0x100], [0x2028], [0x2029], [0xD7FF], [0xE000], [0xFFFD],
                  [0xD83D, 0xDE00], [0xD800, 0xDC00], [0xDBFF, 0xDFFF], [0xD83D], [0xDE00], [0x2D], [0x3F]]


def wrap(kind, s):
    u16 = base.u16
    if kind == "attr":
        return [("S", u16("r"), [(u16("a"), s)]), ("E", u16("r"))]
    if kind == "P":
        return [("S", u16("r"), []), ("P", u16("p"), base.clean_pi(s)), ("E", u16("r"))]
    if kind == "M":
        return [("S", u16("r"), []), ("M", base.clean_comment(s)), ("E", u16("r"))]
    return [("S", u16("r"), []), (kind, s), ("E", u16("r"))]


def gen_class_cases(ctx, n_random):
    r = ctx.rng
    cases = []
    for enc in LEGACY_ENCODINGS:
        for ver in base.VERSIONS:
            for kind in ("T", "C", "attr"):
                for a in CLASS_ALPHABET:
                    cases.append(("lclass1:" + kind, enc, ver, wrap(kind, list(a))))
            for kind in ("M", "P"):
                for a in CLASS_ALPHABET:
                    cases.append(("lclass1:" + kind, enc, ver, wrap(kind, [0x78] + list(a) + [0x79])))
    for i in range(n_random):
        enc, ver = r.choice(LEGACY_ENCODINGS), r.choice(base.VERSIONS)
        kind = r.choice(["T", "C", "C", "C", "attr", "attr", "M", "P"])
        s = []
        for _ in range(r.choice([2, 2, 3, 3, 4, 6])):
            s += r.choice(CLASS_ALPHABET)
        cases.append(("lclassN:" + kind, enc, ver, wrap(kind, s)))
    return cases


# ---------------------------------------------------------------------------------------------
# the raw marker: processingInstruction("Xalan", "raw") (FormatterListener::s_piTarget / s_piData) makes the NEXT
# characters() / cdata() call write its text unescaped -- that one call only.  Scripts: marker, a raw event whose
# text is a well-formed fragment with a known expansion, then ordinary text / CDATA events containing '<' and '&'
# (inside the same element and in the next one), which must be escaped as if no marker had ever been seen.

MARKER = ("P", base.u16("Xalan"), base.u16("raw"))
RAW_FRAGMENTS = [   # (raw text, the events a parser reports for it)
    (base.u16("plain"), [("T", base.u16("plain"))]),
    (base.u16("a&amp;b&lt;c"), [("T", base.u16("a&b<c"))]),
    (base.u16("<i/>"), [("S", base.u16("i"), []), ("E", base.u16("i"))]),
    (base.u16("x<b k=\"1\">y</b>z"), [("T", base.u16("x")), ("S", base.u16("b"), [(base.u16("k"), base.u16("1"))]), ("T", base.u16("y")), ("E", base.u16("b")), ("T", base.u16("z"))]),
    (base.u16("<!--c-->"), [("M", base.u16("c"))]),
]
AFTER_TEXTS = [base.u16("1<2&3"), base.u16("<&>"), base.u16("a]]>b&"), base.u16("&amp;"), base.u16("t"), [0x3C, 0xE9, 0x26], base.u16("x\ny<")]


def has_marker(evs):
    return any(e[0] == "P" and e[1] == MARKER[1] and e[2] == MARKER[2] for e in evs)


def gen_marker_cases(ctx, n_random):
    """returns (cls, enc, ver, evs, expected events)"""
    r = ctx.rng
    u16 = base.u16
    out = []

    def build(raw_kind, frag, afters, n_markers=1, gap=None):
        evs = [("S", u16("r"), [])]
        exp = [("S", u16("r"), [])]
        evs += [MARKER] * n_markers
        if gap == "comment":
            evs.append(("M", u16("g")))
            exp.append(("M", u16("g")))
        elif gap == "element":
            evs += [("S", u16("e"), []), ("E", u16("e"))]
            exp += [("S", u16("e"), []), ("E", u16("e"))]
        elif gap == "empty-text":
            evs.append(("T", []))      # characters() with length 0 does not look at the flag
        evs.append((raw_kind, frag[0]))
        exp += frag[1]
        for k, (kind, txt, wrap_el) in enumerate(afters):
            if wrap_el:
                evs += [("S", u16("c"), []), (kind, txt), ("E", u16("c"))]
                exp += [("S", u16("c"), []), ("T", txt), ("E", u16("c"))]
            else:
                evs.append((kind, txt))
                exp.append(("T", txt))
        evs.append(("E", u16("r")))
        exp.append(("E", u16("r")))
        return evs, exp
    encs = LEGACY_ENCODINGS
    # systematic core: every raw kind x fragment x what follows (CDATA first: the seeded change C04_e lives there)
    for enc in encs:
        for ver in base.VERSIONS:
            for raw_kind in ("T", "C"):
                for fi, frag in enumerate(RAW_FRAGMENTS):
                    a1 = AFTER_TEXTS[(fi + len(enc)) % len(AFTER_TEXTS)]
                    a2 = AFTER_TEXTS[(fi + 3) % len(AFTER_TEXTS)]
                    for afters in ([("C", a1, True), ("T", a2, False)], [("T", a1, True), ("C", a2, True)], [("C", a1, False)], [("T", a1, False)]):
                        evs, exp = build(raw_kind, frag, afters)
                        out.append(("marker:%s" % raw_kind, enc, ver, evs, exp))
    for i in range(n_random):
        enc, ver = r.choice(encs), r.choice(base.VERSIONS)
        afters = [(r.choice("TC"), r.choice(AFTER_TEXTS), r.random() < 0.6) for _ in range(r.choice([1, 2, 3]))]
        evs, exp = build(r.choice("TC"), r.choice(RAW_FRAGMENTS), afters, n_markers=r.choice([1, 1, 2]),
                         gap=r.choice([None, None, "comment", "element", "empty-text"]))
        if r.random() < 0.3:      # a second marker later in the document
            evs2, exp2 = build(r.choice("TC"), r.choice(RAW_FRAGMENTS), [(r.choice("TC"), r.choice(AFTER_TEXTS), True)])
            evs = evs[:-1] + [("S", u16("d"), [])] + evs2[1:-1] + [("E", u16("d"))] + evs[-1:]
            exp = exp[:-1] + [("S", u16("d"), [])] + exp2[1:-1] + [("E", u16("d"))] + exp[-1:]
        out.append(("markerN", enc, ver, evs, exp))
    return out


def evaluate_marker(ctx, cases, impl, model, stats):
    """marker scripts: correspondence of BOTH serializers with their models, byte-exact; oracle: both outputs parse to
    the expected tree (the raw fragment's expansion, everything after it escaped as usual) and agree"""
    lines, meta = [], {}
    for i, (cls, enc, ver, evs, exp) in enumerate(cases):
        cid = "m%d" % (stats["n"] + i)
        lines.append(base.script_line(cid, enc, ver, evs))
        meta[cid] = (cls, enc, ver, evs, exp, lines[-1])
    stats["n"] += len(cases)
    rc_i, res_i, raw_i = core.run_lines_parallel(impl, lines)
    rc_m, res_m, raw_m = core.run_lines_parallel(model, lines) if model else (0, {}, "")
    corr, orc = [], []
    if model and rc_m != 0:
        corr.append({"case": "(process)", "impl": "", "model": "model driver exited with status %d: %s" % (rc_m, raw_m[-300:])})
    for cid, (cls, enc, ver, evs, exp, line) in meta.items():
        ctx.cov["evaluations"] += 1
        ctx.count("legacy:" + cls.split(":")[0] + ":" + enc + ":" + ver)
        ctx.count("class:" + cls)
        ri = res_i.get(cid)
        if ri is None or ri.count("|") < 3:
            orc.append({"case": line, "what": "the driver died on this script (raw marker): %r" % (ri,), "known": None})
            continue
        new, newp, old, oldp = ri.split("|", 3)
        expected = base.expected_tree(exp)
        if model:
            rm = res_m.get(cid)
            ctx.cov["traces_validated_against_impl"] += 1
            stats["corr"] += 1
            stats["corr_marker"] = stats.get("corr_marker", 0) + 1
            if rm is None or "|" not in rm:
                corr.append({"case": line, "impl": old[:80], "model": "no result: %r" % (rm,)})
            else:
                ml, mu = rm.split("|", 1)
                for which, mres, lib, tobytes in (("legacy", ml, old, lambda u: legacy_bytes(enc, u)), ("new", mu, new, lambda u: base.model_bytes(enc, u))):
                    if mres.startswith("ok "):
                        mb = tobytes(base.untok(mres[3:]))
                        if mb is None or not lib.startswith("ok:") or bytes.fromhex(lib[3:]) != mb:
                            corr.append({"case": line, "serializer": which, "impl": lib[:200], "model": "ok:" + (mb.hex()[:200] if mb is not None else "?")})
                    else:
                        corr.append({"case": line, "serializer": which, "impl": lib[:160], "model": mres[:160]})
        for which, st, parsed in (("legacy FormatterToXML", old, oldp), ("new serializer", new, newp)):
            what = None
            if not st.startswith("ok:"):
                what = "%s failed with %s on a script with the raw marker" % (which, st)
            elif parsed.startswith("PARSEERR"):
                what = "%s: the raw marker leaked: output is not well-formed (%s)" % (which, parsed[:160])
            elif parsed != expected:
                what = "%s: output with the raw marker parses to a different tree (only the event directly after the marker may be written raw):\n#     parsed   %s\n#     expected %s" % (
                    which, parsed[:400], expected[:400])
            if what:
                orc.append({"case": line, "what": what, "known": None})
        if old.startswith("ok:") and new.startswith("ok:") and oldp != newp:
            orc.append({"case": line, "what": "the two serializers disagree on a script with the raw marker:\n#     legacy %s\n#     new    %s" % (oldp[:300], newp[:300]), "known": None})
    return corr, orc


ERRMAP = {"1": "SAXException", "3": "SAXException", "4": "XSLException"}


def evaluate(ctx, cases, impl, model, stats):
    lines, meta = [], {}
    for i, (cls, enc, ver, evs) in enumerate(cases):
        cid = "l%d" % (stats["n"] + i)
        lines.append(base.script_line(cid, enc, ver, evs))
        meta[cid] = (cls, enc, ver, evs, lines[-1])
    stats["n"] += len(cases)
    rc_i, res_i, raw_i = core.run_lines_parallel(impl, lines)
    rc_m, res_m, raw_m = core.run_lines_parallel(model, lines) if model else (0, {}, "")
    corr, orc = [], []
    if model and rc_m != 0:
        corr.append({"case": "(process)", "impl": "", "model": "model driver exited with status %d: %s" % (rc_m, raw_m[-300:])})
    for cid, (cls, enc, ver, evs, line) in meta.items():
        ctx.cov["evaluations"] += 1
        ctx.count("legacy:" + cls.split(":")[0] + ":" + enc + ":" + ver)
        ctx.count("class:" + cls)
        ri = res_i.get(cid)
        if ri is None or ri.count("|") < 3:
            orc.append({"case": line, "what": "the driver died on this script (legacy part): %r" % (ri,), "known": None})
            continue
        new, newp, old, oldp = ri.split("|", 3)
        why = reasons(enc, ver, evs)
        expected = base.expected_tree(evs)
        kcls = known_class(enc, ver, evs, why)
        # ---- correspondence: model vs FormatterToXML, byte for byte ----
        if model:
            rm = res_m.get(cid)
            if rm is not None:
                rm = rm.split("|", 1)[0]      # second field: the new serializer's model, marker scripts only
            ctx.cov["traces_validated_against_impl"] += 1
            stats["corr"] += 1
            if rm is None:
                corr.append({"case": line, "impl": old[:80], "model": "no result"})
            elif rm.startswith("ok "):
                mb = legacy_bytes(enc, base.untok(rm[3:]))
                if mb is None:
                    stats["corr_undecided"] += 1      # an unpaired surrogate reaches the transcoder: status only
                    if not (old.startswith("ok:") or old == "err:XSLException"):
                        corr.append({"case": line, "impl": old[:160], "model": rm[:160]})
                elif not old.startswith("ok:") or bytes.fromhex(old[3:]) != mb:
                    corr.append({"case": line, "impl": old[:200], "model": "ok:" + mb.hex()[:200]})
            elif rm.startswith("err "):
                if not old.startswith("err:") or ERRMAP.get(rm[4:].strip()) != old[4:]:
                    corr.append({"case": line, "impl": old[:160], "model": rm})
            else:
                corr.append({"case": line, "impl": old[:160], "model": rm})
        # ---- oracle on the legacy serializer's own output (no model) ----
        what = None
        if not why:
            if not old.startswith("ok:"):
                what = "representable tree, but the legacy serializer failed with %s" % old
            elif oldp.startswith("PARSEERR"):
                what = "legacy output is not well-formed: %s" % oldp[:200]
            elif oldp != expected:
                what = "legacy output parses to a different tree:\n#     parsed   %s\n#     expected %s" % (oldp[:400], expected[:400])
        else:
            if old.startswith("ok:"):
                if oldp.startswith("PARSEERR"):
                    what = "unrepresentable tree (%s): no error from the legacy serializer, output not well-formed (%s)" % (sorted(why)[0][1], oldp[:160])
                elif oldp != expected:
                    what = "unrepresentable tree (%s): no error from the legacy serializer, output parses to a different tree:\n#     parsed   %s\n#     expected %s" % (
                        sorted(why)[0][1], oldp[:300], expected[:300])
        if what:
            orc.append({"case": line, "what": what, "known": kcls})
        # ---- the two serializers succeed / fail together and agree after parsing ----
        if not what:
            lw = None
            if new.startswith("ok:") and old.startswith("ok:"):
                if not newp.startswith("PARSEERR") and oldp != newp:
                    lw = "the two serializers' outputs parse to different trees:\n#     legacy %s\n#     new    %s" % (oldp[:300], newp[:300])
            elif new.startswith("ok:") and not old.startswith("ok:") and newp == expected:
                lw = "the legacy serializer fails (%s) where the new one writes a document that parses back to the tree" % old[:40]
            elif old.startswith("ok:") and not new.startswith("ok:") and why:
                lw = "the new serializer fails (%s) where the legacy one writes a document that parses back to the tree" % new[:40]
            if lw:
                orc.append({"case": line, "what": lw, "known": kcls})
    return corr, orc


def marker_corpus():
    """corpus/C04/raw/*.txt: '<id> <enc> <ver> <script> => <expected script>' (not under corpus/C04/*.txt: the model of
    the new serializer used by props/C04.py has no raw marker)"""
    out = []
    d = os.path.join(core.VERIF, "corpus", "C04", "raw")
    for fn in sorted(os.listdir(d)) if os.path.isdir(d) else []:
        for l in open(os.path.join(d, fn)):
            if l.startswith("#") or "=>" not in l:
                continue
            a, b = l.split("=>", 1)
            t = a.split()
            out.append(("corpus:raw/" + fn, t[1], t[2], base.parse_script(t[3:]), base.parse_script(b.split())))
    return out


def run_part(ctx):
    ctx.assumptions += [
        "legacy: FormatterToXML's 512-unit staging buffer m_charBuf and the Writer below it are not modelled (flushes do not depend on "
        "the characters; UTF-8 / UTF-32 bytes = the units' code points, UTF-16 = BOM + little-endian units, ISO-8859-1 / US-ASCII = unit n "
        "-> byte n: checked byte for byte by the correspondence)",
        "legacy: input strings are NUL-terminated (the look-ahead 'i < end - 2' of writeNormalizedChars is unsigned and reads ch[i + 1], "
        "ch[i + 2] past a one-unit string) and contain no U+0000",
        "legacy: no indentation, no DOCTYPE, m_stripCData / m_escapeCData false; m_newlineString = LF; the raw marker m_nextIsRaw is "
        "modelled on both serializers (the new one through the wrapper coq/SerLegacyRawDefs.v around C04's event model)",
    ]
    proved = ctx.prove(["Properties_C04l.v"], ["GenSerLegacy"])
    if not load_flags():
        ctx.broken.append("legacy: the variant flags are missing from coq/GenSerLegacy.v")
    ctx.notes["legacy_variant"] = dict(FLAGS)
    base.VARIANT.update(FLAGS)     # the differential oracle of props/C04.py uses the same flags
    model, ok_m, mlog = core.build_model(FAMILY)
    if not ok_m:
        ctx.broken.append("legacy: model extraction/build failed: " + mlog[-500:])
        model = None
    impl, ok_h, hlog = core.build_harness("ser", "plain")
    if not ok_h:
        ctx.broken.append("legacy: harness does not compile against the working tree: " + hlog[-500:])
        return
    known = {k["key"]: k for k in ctx.known.for_property("C04")}
    corpus = []
    cdir = os.path.join(core.VERIF, "corpus", "C04")
    for fn in sorted(os.listdir(cdir)) if os.path.isdir(cdir) else []:
        if not fn.endswith(".txt"):
            continue
        for l in open(os.path.join(cdir, fn)):
            t = l.split()
            if len(t) >= 3 and not l.startswith("#") and not any(f.startswith("-I") or f == "-L" for f in t[3:5]) and t[1] in LEGACY_ENCODINGS:
                corpus.append(("corpus:" + fn, t[1], t[2], base.parse_script(t[3:])))
    n_gen, n_cls = (250, 1500) if not ctx.thorough else (8000, 40000)

    def usable(c):
        return c[1] in LEGACY_ENCODINGS and base.split_ver(c[2])[1] is None
    gen = [c for c in base.gen_cases(ctx, n_gen, 0.02 if not ctx.thorough else 0.3, always_core=False) if usable(c)]
    cases = corpus + gen_class_cases(ctx, n_cls) + gen
    stats = {"n": 0, "corr": 0, "corr_undecided": 0}
    corr, orc = evaluate(ctx, cases, impl, model, stats)
    mcases = marker_corpus() + gen_marker_cases(ctx, 300 if not ctx.thorough else 6000)
    c1, o1 = evaluate_marker(ctx, mcases, impl, model, stats)
    corr += c1
    orc += o1
    new = [o for o in orc if not (o["known"] and o["known"] in known)]
    if (corr or not proved or not model) and not new and not ctx.thorough:
        ctx.escalated = True
        more = gen_class_cases(ctx, 30000) + [c for c in base.gen_cases(ctx, 6000, 0.3, always_core=False) if usable(c)]
        c2, o2 = evaluate(ctx, more, impl, model, stats)
        corr += c2
        orc += o2
        c3, o3 = evaluate_marker(ctx, gen_marker_cases(ctx, 6000), impl, model, stats)
        corr += c3
        orc += o3
        new = [o for o in orc if not (o["known"] and o["known"] in known)]
    hits = {}
    for o in orc:
        if o["known"] and o["known"] in known:
            hits[o["known"]] = hits.get(o["known"], 0) + 1
    for k in sorted(hits):
        ctx.known_finding("%s %s" % (k, known[k]["what"]))
    ctx.notes["legacy_known_class_hits"] = hits
    ctx.notes["legacy_correspondence"] = dict(stats)
    if corr:
        ctx.broken.append("correspondence serLegacy: %d of %d scripts differ between the extracted model of FormatterToXML and the library, e.g. %s" % (
            len(corr), stats["corr"], str(corr[0])[:700]))
        ctx.notes["legacy_correspondence_mismatches"] = [dict(c, case=c["case"][:400]) for c in corr[:10]]
    if new:
        new.sort(key=lambda o: len(o["case"]))
        txt = "\n".join("%s\n#   %s" % (o["case"], o["what"]) for o in new[:40])
        ctx.violation("legacy-oracle", "# C04 (legacy FormatterToXML) oracle failures. Feed the case lines to .build/ser_plain;\n"
                      "# output = new serializer|its re-parse|legacy serializer|its re-parse\n" + txt)
    ctx.notes["legacy_oracle_failures"] = len(new)
