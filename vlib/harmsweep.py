#!/usr/bin/env python3
"""False-alarm sweep: every harmless/<PROP>_h<k>.diff is a behaviour-preserving refactoring of code the property is
about (written by independent agents, confirmed to compile and pass the 21 tests).  Run the property's quick check on a
scratch worktree with the diff applied (vlib/mutrig.sh slots).  Verdicts:
   quiet                   exit 0, no VIOLATION                          (what we want)
   no-failing-input-found  a proof obligation / translator anchor / correspondence broke, no failing input was found
                           (allowed by the brief for a harmless rewrite, but each one is looked at: an anchor that is
                           over-syntactic is loosened)
   FALSE-ALARM             a VIOLATION with a concrete replay on code where the property holds: a defect of the check
   python3 vlib/harmsweep.py [--slots 3] [--only C02_h1,C09_h2]"""
import os, sys, json, glob, argparse, subprocess, time, queue
from concurrent.futures import ThreadPoolExecutor

VERIF = os.path.dirname(os.path.dirname(os.path.abspath(__file__)))


def one(name, slots):
    prop = name[:3]
    t0 = time.time()
    chk = subprocess.run(["git", "-C", os.environ.get("VERIF_REPO", "/repo"), "apply", "--check", os.path.join(VERIF, "harmless", name + ".diff")],
                         stdout=subprocess.PIPE, stderr=subprocess.STDOUT)
    if chk.returncode != 0:
        # the code the rewrite touched was changed by a later repair in /repo
        return {"name": name, "property": prop, "verdict": "does-not-apply", "wall_s": 0, "tail": ""}
    slot = slots.get()
    try:
        env = dict(os.environ, MUTSLOT=str(slot), TAILN="60", VERIF_ESCALATE="0")
        p = subprocess.run([os.path.join(VERIF, "vlib", "mutrig.sh"), prop, os.path.join(VERIF, "harmless", name + ".diff"), "quick"],
                           env=env, stdout=subprocess.PIPE, stderr=subprocess.STDOUT, universal_newlines=True, timeout=3600)
        out = p.stdout
    except subprocess.TimeoutExpired:
        out = "TIMEOUT"
    finally:
        slots.put(slot)
    viol = [l for l in out.split("\n") if l.startswith("VIOLATION")]
    if not viol:
        verdict = "quiet" if "TIMEOUT" not in out and "[verif]" in out else "ERROR"
    elif all(l.rstrip().endswith("no-failing-input-found") for l in viol):
        verdict = "no-failing-input-found"
    else:
        verdict = "FALSE-ALARM"
    return {"name": name, "property": prop, "verdict": verdict, "wall_s": round(time.time() - t0), "tail": out[-1500:] if verdict != "quiet" else ""}


def main():
    ap = argparse.ArgumentParser()
    ap.add_argument("--slots", type=int, default=3)
    ap.add_argument("--only", default="")
    a = ap.parse_args()
    names = sorted(os.path.basename(p)[:-5] for p in glob.glob(os.path.join(VERIF, "harmless", "C*_h*.diff")))
    if a.only:
        names = [n for n in names if n in a.only.split(",")]
    slots = queue.Queue()
    for k in range(1, a.slots + 1):
        slots.put(k)
    res = []
    with ThreadPoolExecutor(max_workers=a.slots) as ex:
        for r in ex.map(lambda n: one(n, slots), names):
            res.append(r)
            print("%-8s %-24s %4ds" % (r["name"], r["verdict"], r["wall_s"]), flush=True)
    os.makedirs(os.path.join(VERIF, "out"), exist_ok=True)
    json.dump(res, open(os.path.join(VERIF, "out", "harmsweep.json"), "w"), indent=1)
    print("%d rewrites: %d quiet, %d proof/tie only, %d FALSE ALARMS" % (len(res), sum(r["verdict"] == "quiet" for r in res),
          sum(r["verdict"] == "no-failing-input-found" for r in res), sum(r["verdict"] in ("FALSE-ALARM", "ERROR") for r in res)))
    print("(%d no longer apply: the code was changed by a later repair)" % sum(r["verdict"] == "does-not-apply" for r in res))


if __name__ == "__main__":
    sys.exit(main())
