<?xml version="1.0"?>
<xsl:stylesheet version="1.0" xmlns:xsl="http://www.w3.org/1999/XSL/Transform">
  <xsl:output method="html"/>
  <xsl:variable name="toc">
    <xsl:for-each select="//sec"><e d="{count(ancestor::sec)}"><xsl:value-of select="@t"/></e></xsl:for-each>
  </xsl:variable>
  <xsl:template match="/">
    <html><body>
      <xsl:copy-of select="$toc"/>
      <xsl:apply-templates select="doc/sec"/>
    </body></html>
  </xsl:template>
  <xsl:template match="sec">
    <div><h2><xsl:number level="multiple" count="sec" format="1.a"/><xsl:text> </xsl:text><xsl:value-of select="@t"/></h2>
      <xsl:apply-templates/></div>
  </xsl:template>
  <xsl:template match="p"><p><xsl:number level="any" count="p" format="i"/>. <xsl:value-of select="string($toc)"/>-<xsl:apply-templates/></p></xsl:template>
</xsl:stylesheet>
