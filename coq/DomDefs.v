(* DomDefs.v — the XPath data model as Xalan's source tree presents it: a table of nodes indexed
   by pre-order number (document node 0; an element, then its attribute nodes in source order —
   xmlns declarations are attribute nodes in Xalan's DOM, and the document element carries an
   implicit xmlns:xml — then its children), with the structural links the C++ code navigates
   (parent, attributes, children; first child / next / previous sibling are derived). *)
From Coq Require Import NArith List Bool Arith.
Require Import XV.XpAst.
Import ListNotations.

(** * strings *)
Fixpoint str_eqb (a b : str) : bool :=
  match a, b with
  | [], [] => true
  | x :: a', y :: b' => N.eqb x y && str_eqb a' b'
  | _, _ => false
  end.

Fixpoint starts_with (s p : str) : bool :=
  match p, s with
  | [], _ => true
  | y :: p', x :: s' => N.eqb x y && starts_with s' p'
  | _ :: _, [] => false
  end.

Definition s_xmlns : str := [120; 109; 108; 110; 115]%N.                 (* "xmlns" *)
Definition s_xmlns_colon : str := s_xmlns ++ [58%N].                       (* "xmlns:" *)
Definition s_xml : str := [120; 109; 108]%N.
Definition s_xml_uri : str :=                                              (* http://www.w3.org/XML/1998/namespace *)
  [104;116;116;112;58;47;47;119;119;119;46;119;51;46;111;114;103;47;88;77;76;47;49;57;57;56;47;110;97;109;101;115;112;97;99;101]%N.
Definition s_xmlns_uri : str :=                                            (* http://www.w3.org/2000/xmlns/ *)
  [104;116;116;112;58;47;47;119;119;119;46;119;51;46;111;114;103;47;50;48;48;48;47;120;109;108;110;115;47]%N.

(* split a QName at its first colon *)
Fixpoint split_colon (s : str) : option (str * str) :=
  match s with
  | [] => None
  | c :: r => if N.eqb c 58 then Some ([], r)
              else match split_colon r with Some (p, l) => Some (c :: p, l) | None => None end
  end.

(** * input trees (what the generator prints; both sides build their document from it) *)
Inductive tree :=
  | TElem (qname : str) (attrs : list (str * str)) (children : list tree)
  | TTextN (s : str)
  | TCommentN (s : str)
  | TPiN (target data : str).

(** * node table *)
Inductive nkind := KDoc | KElem | KAttr | KNsDecl | KText | KComment | KPi.

Definition nkind_eqb (a b : nkind) : bool :=
  match a, b with
  | KDoc, KDoc | KElem, KElem | KAttr, KAttr | KNsDecl, KNsDecl | KText, KText
  | KComment, KComment | KPi, KPi => true
  | _, _ => false
  end.

Record node := mkNode {
  n_kind : nkind;
  n_qname : str;         (* getNodeName *)
  n_local : str;         (* getLocalName *)
  n_uri : str;           (* getNamespaceURI *)
  n_value : str;         (* getNodeValue / data *)
  n_parent : option nat;
  n_attrs : list nat;    (* attribute nodes incl. namespace declarations, in order *)
  n_children : list nat
}.

Definition doc := list node.

Definition dummy_node := mkNode KText [] [] [] [] None [] [].
Definition get (d : doc) (i : nat) : node := nth i d dummy_node.

Definition is_nsdecl_name (q : str) : bool := str_eqb q s_xmlns || starts_with q s_xmlns_colon.

(* namespace environment: prefix -> uri, innermost first; the default namespace has prefix "" *)
Definition nsenv := list (str * str).
Fixpoint ns_lookup (e : nsenv) (p : str) : str :=
  match e with
  | [] => []
  | (q, u) :: r => if str_eqb p q then u else ns_lookup r p
  end.

Definition decls_of (attrs : list (str * str)) : nsenv :=
  flat_map (fun a : str * str =>
    let (q, v) := a in
    if str_eqb q s_xmlns then [([], v)]
    else if starts_with q s_xmlns_colon then [(skipn 6 q, v)] else []) attrs.

Definition elem_names (env : nsenv) (q : str) : str * str :=   (* (local, uri) *)
  match split_colon q with
  | Some (p, l) => (l, ns_lookup env p)
  | None => (q, ns_lookup env [])
  end.

Definition attr_node (env : nsenv) (parent : nat) (a : str * str) : node :=
  let (q, v) := a in
  if is_nsdecl_name q then
    mkNode KNsDecl q (match split_colon q with Some (_, l) => l | None => q end) s_xmlns_uri v (Some parent) [] []
  else
    match split_colon q with
    | Some (p, l) => mkNode KAttr q l (ns_lookup env p) v (Some parent) [] []
    | None => mkNode KAttr q q [] v (Some parent) [] []
    end.

(* build the nodes of one subtree: returns (nodes in pre-order, next free id) *)
Fixpoint build_tree (env : nsenv) (parent : nat) (id : nat) (implicit : list (str * str)) (t : tree)
  : list node * nat :=
  match t with
  | TTextN s => ([mkNode KText [35;116;101;120;116]%N [] [] s (Some parent) [] []], S id)
  | TCommentN s => ([mkNode KComment [35;99;111;109;109;101;110;116]%N [] [] s (Some parent) [] []], S id)
  | TPiN tg dt => ([mkNode KPi tg tg [] dt (Some parent) [] []], S id)
  | TElem q attrs0 ch =>
      let attrs := implicit ++ attrs0 in
      let env' := decls_of attrs ++ env in
      let (l, u) := elem_names env' q in
      let nattr := length attrs in
      let attr_ids := seq (S id) nattr in
      let attr_nodes := map (attr_node env' id) attrs in
      let '(child_nodes, child_ids, next) :=
        (fix go (l : list tree) (cid : nat) : list node * list nat * nat :=
           match l with
           | [] => ([], [], cid)
           | c :: r =>
               let (ns, nx) := build_tree env' id cid [] c in
               let '(ns', ids', nx') := go r nx in
               (ns ++ ns', cid :: ids', nx')
           end) ch (S id + nattr) in
      (mkNode KElem q l u [] (Some parent) attr_ids child_ids :: attr_nodes ++ child_nodes, next)
  end.

(* a document: the document node (id 0) with top-level children (comments, PIs and one element);
   the first element child gets the implicit xmlns:xml declaration Xalan's source tree adds *)
Definition build_doc (top : list tree) : doc :=
  let '(nodes, ids, _, _) :=
    fold_left (fun (acc : list node * list nat * nat * bool) (t : tree) =>
      let '(ns, ids, nx, seen) := acc in
      let is_el := match t with TElem _ _ _ => true | _ => false end in
      let impl := if is_el && negb seen then [(s_xmlns_colon ++ s_xml, s_xml_uri)] else [] in
      let (tn, nx') := build_tree [(s_xml, s_xml_uri)] 0 nx impl t in
      (ns ++ tn, ids ++ [nx], nx', seen || is_el)) top ([], [], 1, false) in
  mkNode KDoc [35;100;111;99;117;109;101;110;116]%N [] [] [] None [] ids :: nodes.

(** * navigation as the C++ code does it *)
Definition parent_of (d : doc) (i : nat) : option nat := n_parent (get d i).   (* DOMServices::getParentOfNode: owner element for attributes *)

Definition first_child (d : doc) (i : nat) : option nat := hd_error (n_children (get d i)).
Definition last_child (d : doc) (i : nat) : option nat := hd_error (rev (n_children (get d i))).

Fixpoint next_in (l : list nat) (i : nat) : option nat :=
  match l with
  | a :: ((b :: _) as r) => if Nat.eqb a i then Some b else next_in r i
  | _ => None
  end.

Definition is_attr_kind (k : nkind) : bool := match k with KAttr | KNsDecl => true | _ => false end.

(* attributes have no siblings in the DOM *)
Definition next_sibling (d : doc) (i : nat) : option nat :=
  if is_attr_kind (n_kind (get d i)) then None else
  match n_parent (get d i) with
  | Some p => next_in (n_children (get d p)) i
  | None => None
  end.

Definition prev_sibling (d : doc) (i : nat) : option nat :=
  if is_attr_kind (n_kind (get d i)) then None else
  match n_parent (get d i) with
  | Some p => next_in (rev (n_children (get d p))) i
  | None => None
  end.

(** * string-value (DOMServices::getNodeData), with the whitespace-stripping hook *)
Definition is_ws_char (c : N) : bool := N.eqb c 32 || N.eqb c 9 || N.eqb c 10 || N.eqb c 13.

(* [strip d i] : should text node i be ignored (xsl:strip-space)?  (fun _ _ => false) for plain XPath *)
Fixpoint text_of (fuel : nat) (strip : doc -> nat -> bool) (d : doc) (i : nat) : str :=
  match fuel with
  | O => []
  | S f =>
      let n := get d i in
      match n_kind n with
      | KText => if strip d i then [] else n_value n
      | KElem | KDoc => flat_map (text_of f strip d) (n_children n)
      | _ => []
      end
  end.

Definition string_value (strip : doc -> nat -> bool) (d : doc) (i : nat) : str :=
  let n := get d i in
  match n_kind n with
  | KElem | KDoc => text_of (S (length d)) strip d i
  | _ => n_value n        (* attribute, namespace declaration, text, comment, PI: the node's data *)
  end.
