(* Extraction of the C01 mechanism models for the correspondence driver. ExtrOcamlBasic only. *)
Require Import ExtrOcamlBasic.
Require Import XV.XsltEventsDefs XV.XsltVarsDefs XV.XsltVariantDefs.
Extraction "extracted/xslt_model.ml"
  BinNums.positive BinNums.N BinNums.Z
  machine_tree canon_list spec_tree ops_of
  impl_run spec_run ok_root reset_variant.
