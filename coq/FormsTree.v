(* FormsTree.v - C05: building the SAX serialisation of an XPath-normal tree, under any chunking of
   its text, gives that tree numbered in pre-order; the wrapper walk numbers a DOM in pre-order and
   presents the same nodes in the same order as the native tree of the DOM's serialisation. *)
From Coq Require Import NArith List Bool Lia ZifyBool ZifyNat ZifyN.
Import ListNotations.
Require Import XV.GenForms XV.FormsDefs XV.FormsModel.

Section tree_ind2.
  Variable P : tree -> Prop.
  Hypothesis HE : forall q a kids, Forall P kids -> P (TElem q a kids).
  Hypothesis HT : forall s, P (TText s).
  Hypothesis HC : forall s, P (TComment s).
  Hypothesis HP : forall t d, P (TPi t d).
  Fixpoint tree_ind2 (t : tree) : P t :=
    match t with
    | TElem q a kids => HE q a kids ((fix go (l : list tree) : Forall P l :=
                                        match l with [] => Forall_nil P | x :: r => Forall_cons x (tree_ind2 x) (go r) end) kids)
    | TText s => HT s
    | TComment s => HC s
    | TPi t d => HP t d
    end.
End tree_ind2.

Lemma number_list_cons : forall first n t r,
  number_list first n (t :: r) =
  (fst (number first n t) :: fst (number_list first (snd (number first n t)) r),
   snd (number_list first (snd (number first n t)) r)).
Proof. intros; cbn [number_list]. destruct (number first n t) as [k' n']. cbn [fst snd]. destruct (number_list first n' r); reflexivity. Qed.

Lemma number_elem : forall first n q a kids,
  number first n (TElem q a kids) =
  (IElem n q (fst (number_attrs (N.succ n) (order_attrs first a)))
           (fst (number_list false (snd (number_attrs (N.succ n) (order_attrs first a))) kids)),
   snd (number_list false (snd (number_attrs (N.succ n) (order_attrs first a))) kids)).
Proof.
  intros. cbn [number]. destruct (number_attrs (N.succ n) (order_attrs first a)) as [l n1]. cbn [fst snd].
  assert (E : forall kids m,
    (fix go (n0 : N) (l0 : list tree) {struct l0} : list inode * N :=
       match l0 with
       | [] => ([], n0)
       | k :: r => let (k', n') := number false n0 k in let (r', n'') := go n' r in (k' :: r', n'')
       end) m kids = number_list false m kids).
  { induction kids0 as [|k r IH]; intro m; [reflexivity|]. cbn [number_list]. destruct (number false m k). rewrite IH. reflexivity. }
  rewrite E. destruct (number_list false n1 kids); reflexivity.
Qed.

Lemma events_cons : forall t r, events_of_list (t :: r) = events_of t ++ events_of_list r.
Proof. reflexivity. Qed.

(* the state reached at the end tag of an open element whose remaining children are ts *)
Definition close (st : hstate) (ts : list tree) : option hstate :=
  let st0 := flush st in
  match h_stack st0 with
  | [] => None
  | f0 :: stk =>
      Some (append_node (mkH stk (h_top st0) [] (snd (number_list false (h_next st0) ts)))
                        (IElem (f_idx f0) (f_q f0) (f_attrs f0) (rev (f_kids f0) ++ fst (number_list false (h_next st0) ts))))
  end.

Definition head_not_text (ts : list tree) : Prop := match ts with TText _ :: _ => False | _ => True end.

Definition K (ts : list tree) : Prop :=
  forall st rest, h_stack st <> [] -> forallb tnormal ts = true -> no_adjacent ts = true ->
    (h_buf st <> [] -> head_not_text ts) ->
    run st (events_of_list ts ++ EEnd :: rest) = match close st ts with Some st' => run st' rest | None => None end.

Definition P (t : tree) : Prop := match t with TElem _ _ kids => K kids | _ => True end.

Lemma no_adjacent_tail : forall t ts, no_adjacent (t :: ts) = true -> no_adjacent ts = true.
Proof. intros t [|b r] H; [reflexivity|]. cbn [no_adjacent] in H. apply andb_prop in H. tauto. Qed.

Lemma run_app_EEnd : forall a b (c : list sax_event), (a ++ [EEnd]) ++ b ++ c = a ++ EEnd :: b ++ c.
Proof. intros. rewrite <- app_assoc. reflexivity. Qed.

Lemma K_of_Forall : forall ts, Forall P ts -> K ts.
Proof.
  induction 1 as [|t ts Pt _ IH]; intros st rest Hs Hn Ha Hb.
  - (* no more children: the end tag *)
    cbn [events_of_list flat_map app run]. unfold step, flush_at_end, flush_if, close.
    destruct (h_stack (flush st)) as [|f0 stk]; [reflexivity|].
    cbn [number_list fst snd]. rewrite app_nil_r.
    replace (h_buf (flush st)) with (@nil N); [reflexivity|].
    destruct st as [s t [|c b] n]; unfold flush, text_node, append_node; cbn [h_buf h_stack]; [reflexivity|]. destruct s; reflexivity.
  - cbn [forallb] in Hn. apply andb_prop in Hn; destruct Hn as [Hn1 Hn2].
    pose proof (no_adjacent_tail _ _ Ha) as Ha2.
    rewrite events_cons, <- app_assoc.
    destruct st as [stk top buf nxt]. cbn [h_stack h_buf] in Hs, Hb. destruct stk as [|f stk]; [congruence|]. clear Hs.
    destruct t as [q a kids|s|s|tg dt].
    + (* element child *)
      cbn [events_of]. cbn [app]. rewrite run_app_EEnd. cbn [run]. unfold step at 1, flush_at_start, flush_if.
      assert (Hf : exists kids0 n0, flush (mkH (f :: stk) top buf nxt) = mkH (mkFrame (f_idx f) (f_q f) (f_attrs f) kids0 :: stk) top [] n0).
      { destruct buf; unfold flush, text_node, append_node; cbn [h_buf h_stack h_top h_next]; destruct f; eauto. }
      destruct Hf as [kids0 [n0 Hf]].
      unfold close. rewrite Hf. cbn [h_stack h_top h_buf h_next is_nil andb].
      unfold number_element, element_before_attrs.
      destruct (number_attrs (N.succ n0) (order_attrs false a)) as [l n1] eqn:En.
      (* children of the new element *)
      change (flat_map events_of kids) with (events_of_list kids).
      rewrite (Pt (mkH (mkFrame n0 q l [] :: mkFrame (f_idx f) (f_q f) (f_attrs f) kids0 :: stk) top [] n1)
                  (events_of_list ts ++ EEnd :: rest)); cbn [h_stack h_buf]; try congruence.
      2:{ cbn [tnormal] in Hn1. apply andb_prop in Hn1. tauto. }
      2:{ cbn [tnormal] in Hn1. apply andb_prop in Hn1. tauto. }
      unfold close at 1. cbn [flush h_buf h_stack h_top h_next f_idx f_q f_attrs f_kids rev app append_node].
      (* the following siblings *)
      rewrite IH; cbn [h_stack h_buf]; try congruence; try assumption.
      unfold close. cbn [flush h_buf h_stack h_top h_next f_idx f_q f_attrs f_kids rev].
      rewrite number_list_cons, number_elem, En. cbn [fst snd]. rewrite <- app_assoc. reflexivity.
    + (* text child *)
      cbn [tnormal] in Hn1. destruct s as [|c s]; [discriminate|].
      destruct buf as [|b0 buf]; [|exfalso; apply Hb; discriminate].
      cbn [events_of app run]. unfold step at 1, accumulate_text. cbn [h_stack h_top h_buf h_next app].
      rewrite IH; cbn [h_stack h_buf]; try congruence; try assumption.
      2:{ intros _. destruct ts as [|[] ?]; try exact I. cbn in Ha. discriminate. }
      unfold close. unfold flush, text_node, append_node. cbn [h_buf h_stack h_top h_next f_idx f_q f_attrs f_kids rev].
      rewrite number_list_cons. cbn [number fst snd]. rewrite <- app_assoc. reflexivity.
    + (* comment child *)
      cbn [events_of app run]. unfold step at 1, flush_at_comment, flush_if.
      assert (Hf : exists kids0 n0, flush (mkH (f :: stk) top buf nxt) = mkH (mkFrame (f_idx f) (f_q f) (f_attrs f) kids0 :: stk) top [] n0).
      { destruct buf; unfold flush, text_node, append_node; cbn [h_buf h_stack h_top h_next]; destruct f; eauto. }
      destruct Hf as [kids0 [n0 Hf]].
      unfold close. rewrite Hf. cbn [h_stack h_top h_buf h_next append_node].
      rewrite IH; cbn [h_stack h_buf]; try congruence; try assumption.
      unfold close. cbn [flush h_buf h_stack h_top h_next f_idx f_q f_attrs f_kids rev].
      rewrite number_list_cons. cbn [number fst snd]. rewrite <- app_assoc. reflexivity.
    + (* processing instruction child *)
      cbn [events_of app run]. unfold step at 1, flush_at_pi, flush_if.
      assert (Hf : exists kids0 n0, flush (mkH (f :: stk) top buf nxt) = mkH (mkFrame (f_idx f) (f_q f) (f_attrs f) kids0 :: stk) top [] n0).
      { destruct buf; unfold flush, text_node, append_node; cbn [h_buf h_stack h_top h_next]; destruct f; eauto. }
      destruct Hf as [kids0 [n0 Hf]].
      unfold close. rewrite Hf. cbn [h_stack h_top h_buf h_next append_node].
      rewrite IH; cbn [h_stack h_buf]; try congruence; try assumption.
      unfold close. cbn [flush h_buf h_stack h_top h_next f_idx f_q f_attrs f_kids rev].
      rewrite number_list_cons. cbn [number fst snd]. rewrite <- app_assoc. reflexivity.
Qed.

Lemma P_all : forall t, P t.
Proof. apply tree_ind2; cbn [P]; auto. intros q a kids H. apply K_of_Forall, H. Qed.

Lemma K_all : forall ts, K ts.
Proof. intro ts. apply K_of_Forall. apply Forall_forall. intros; apply P_all. Qed.

Lemma top_level : forall ts st rest, h_stack st = [] -> h_buf st = [] ->
  forallb (fun t => negb (is_text t)) ts = true -> forallb tnormal ts = true ->
  elems_ok (existsb is_ielem (h_top st)) ts = true ->
  run st (events_of_list ts ++ rest) =
  run (mkH [] (rev (fst (number_list true (h_next st) ts)) ++ h_top st) [] (snd (number_list true (h_next st) ts))) rest.
Proof.
  induction ts as [|t ts IH]; intros [stk top buf nxt] rest Hs Hb Ht Hn He; cbn [h_stack h_buf h_top h_next] in *; subst.
  - reflexivity.
  - cbn [forallb] in Ht, Hn. apply andb_prop in Ht; destruct Ht as [Ht1 Ht2]. apply andb_prop in Hn; destruct Hn as [Hn1 Hn2].
    rewrite events_cons, <- app_assoc, number_list_cons. cbn [fst snd].
    destruct t as [q a kids|s|s|tg dt]; [| discriminate | |].
    + cbn [elems_ok] in He. apply andb_prop in He; destruct He as [He1 He2].
      destruct (existsb is_ielem top) eqn:Ex; [discriminate|].
      cbn [events_of app]. rewrite <- app_assoc. cbn [app run]. unfold step at 1, flush_at_start, flush_if, flush. cbn [h_buf h_stack h_top h_next is_nil].
      rewrite Ex. cbn [andb].
      unfold number_element, element_before_attrs. destruct (number_attrs (N.succ nxt) (order_attrs true a)) as [l n1] eqn:En.
      change (flat_map events_of kids) with (events_of_list kids).
      rewrite (K_all kids); cbn [h_stack h_buf]; try congruence.
      2:{ cbn [tnormal] in Hn1. apply andb_prop in Hn1. tauto. }
      2:{ cbn [tnormal] in Hn1. apply andb_prop in Hn1. tauto. }
      unfold close. cbn [flush h_buf h_stack h_top h_next f_idx f_q f_attrs f_kids rev app append_node].
      rewrite IH; cbn [h_stack h_buf h_top h_next existsb is_ielem orb]; try reflexivity; try assumption.
      rewrite number_elem, En. cbn [fst snd rev]. rewrite <- app_assoc. reflexivity.
    + cbn [elems_ok] in He. cbn [events_of app run]. unfold step at 1, flush_at_comment, flush_if, flush. cbn [h_buf h_stack h_top h_next append_node].
      rewrite IH; cbn [h_stack h_buf h_top h_next existsb is_ielem orb]; try reflexivity; try assumption.
      cbn [number fst snd rev]. rewrite <- app_assoc. reflexivity.
    + cbn [elems_ok] in He. cbn [events_of app run]. unfold step at 1, flush_at_pi, flush_if, flush. cbn [h_buf h_stack h_top h_next append_node].
      rewrite IH; cbn [h_stack h_buf h_top h_next existsb is_ielem orb]; try reflexivity; try assumption.
      cbn [number fst snd rev]. rewrite <- app_assoc. reflexivity.
Qed.

Lemma build_canonical : forall ts, top_ok ts = true ->
  build_sax (events_of_list ts) = Some (fst (number_list true first_index ts)).
Proof.
  intros ts H. unfold top_ok in H. apply andb_prop in H; destruct H as [H H3]. apply andb_prop in H; destruct H as [H1 H2].
  unfold build_sax. rewrite <- (app_nil_r (events_of_list ts)), (top_level ts h_init []); try reflexivity; try assumption.
  cbn [run h_stack h_buf h_top is_nil andb h_init]. rewrite app_nil_r, rev_involutive. reflexivity.
Qed.

Lemma build_roundtrip : forall ts evs, top_ok ts = true -> rechunk evs (events_of_list ts) ->
  build_sax evs = Some (fst (number_list true first_index ts)).
Proof. intros ts evs H Hr. rewrite (build_rechunk _ _ Hr). apply build_canonical, H. Qed.
