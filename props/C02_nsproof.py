"""C02, part "nsproof" - the proof leg for the namespace axis as the library has it (known finding K21).

coq/Properties_C02n.v (definitions coq/XpNsDefs.v, lemmas coq/XpNsModel.v) relates XpDefs.namespaces - the model
of XPath::findNamespace: bottom-up walk, attributes last to first, defaultNSFound flag, duplicate-name scan of the
result list, final reverse - to a declarative top-down in-scope environment, for all documents / elements / node
tests of the model:
  namespaces_is_in_scope_environment        the returned list = the declaration nodes the environment holds (same order)
  namespaces_nearest_declaration_wins       a declaration is returned iff it is the nearest visible one of its name and not xmlns=""
  namespaces_undeclared_default_has_no_node nearest default declaration xmlns="" => no default node (what seed C02_i breaks)
  namespaces_no_duplicate_prefix            no two returned nodes declare the same name
XpDefs.namespaces is hand-written, not regenerated from /repo: the tie of these theorems to the C++ is the
correspondence run of the namespace-axis stream (props/C02.py ns_part: extracted model vs library on every case).
run_part(ctx) -> True when every obligation is discharged; props/C02.py widens the stream when it is not."""
import os
from vlib import core


def run_part(ctx):
    f = "Properties_C02n.v"
    if not os.path.exists(os.path.join(core.COQ, f)):
        ctx.broken.append("coq/%s is missing (proof leg of the namespace axis)" % f)
        return False
    return bool(ctx.prove([f], ["GenNum"]))
