(* XpNsDefs.v — a DECLARATIVE reading of "the namespace declarations in scope on an element"
   (known finding K21 as worded: the namespace axis returns, per prefix in scope, the nearest xmlns
   declaration attribute; xmlns="" undeclares the default namespace and contributes no node), to
   which coq/XpDefs.v [namespaces] — the model of XPath::findNamespace: a bottom-up walk with the
   defaultNSFound flag and a duplicate-name scan of the result list — is related in XpNsModel.v.

   The specification is a TOP-DOWN environment: starting at the outermost element of the
   ancestor-or-self chain and going down to the element itself, each element's declarations (in
   source order) are bound one after the other; binding a declaration first removes what the
   environment held for the same declared name (an inner declaration overrides the inherited one),
   and xmlns="" only removes.  The declarations in scope are the nodes the environment holds.

   Shared with the model: the ancestor-or-self chain ([ancestors_from], structure of the document)
   and the node test of the step ([test_node] on the axis AxNamespace, applied to the declaration
   attributes before anything else, as NodeTester is in findNamespace).  NOT shared: any of
   findNamespace's bookkeeping (walk direction, attribute order last-to-first, defaultNSFound,
   the scan of the result list, the final reverse).
   Definitions only. *)
From Coq Require Import NArith List Bool Arith.
Require Import XV.XpAst XV.DomDefs XV.XpDefs.
Import ListNotations.

(** the name a declaration attribute declares: its qualified name ("xmlns" = the default
    namespace, "xmlns:p" = the prefix p; two declarations are for the same prefix iff these agree) *)
Definition decl_key (d : doc) (a : nat) : str := n_qname (get d a).

Definition is_default_decl (d : doc) (a : nat) : bool := str_eqb (decl_key d a) s_xmlns.

(** xmlns="" : undeclares the default namespace (Namespaces in XML 1.0, section 6.2; XPath 5.4: an
    element has a namespace node for the default namespace only if one is in scope) *)
Definition undeclares (d : doc) (a : nat) : bool :=
  is_default_decl d a && (match n_value (get d a) with [] => true | _ => false end).

(** environment: declared name -> declaration node, in the order the bindings were made *)
Definition denv := list (str * nat).

Definition env_remove (k : str) (e : denv) : denv :=
  filter (fun kv : str * nat => negb (str_eqb (fst kv) k)) e.

Definition env_bind (d : doc) (e : denv) (a : nat) : denv :=
  let e' := env_remove (decl_key d a) e in
  if undeclares d a then e' else e' ++ [(decl_key d a, a)].

(** the elements from the outermost one down to n (the document node is not an element) *)
Definition chain_from_root (d : doc) (n : nat) : list nat :=
  rev (filter (fun a => negb (nkind_eqb (n_kind (get d a)) KDoc))
              (ancestors_from d (S (length d)) (Some n))).

(** the declaration attributes the step's node test lets through *)
Definition visible_decl (d : doc) (c : ctx) (t : ntest) (a : nat) : bool :=
  nkind_eqb (n_kind (get d a)) KNsDecl && test_node c AxNamespace t a.

(** all visible declarations on the chain, top-down: outermost element first, source order inside *)
Definition decls_top_down (d : doc) (c : ctx) (t : ntest) (n : nat) : list nat :=
  filter (visible_decl d c t) (flat_map (fun e => n_attrs (get d e)) (chain_from_root d n)).

(** the same declarations seen from the element: nearest element first, and inside one start tag
    the later attribute first (only used to SAY "nearest"; it is [rev] of the above) *)
Definition decls_nearest_first (d : doc) (c : ctx) (t : ntest) (n : nat) : list nat :=
  rev (decls_top_down d c t n).

Definition in_scope_env (d : doc) (c : ctx) (t : ntest) (n : nat) : denv :=
  fold_left (env_bind d) (decls_top_down d c t n) [].

(** the specification of the namespace axis under K21 *)
Definition ns_in_scope (d : doc) (c : ctx) (t : ntest) (n : nat) : list nat :=
  if nkind_eqb (n_kind (get d n)) KElem then map snd (in_scope_env d c t n) else [].
