(* C13 — the xml:space lookup as coded after fix K-C13-1 (definitions only).
   XSLT/StylesheetRoot.cpp: isXMLSpacePreserved walks from the parent element of the text node upwards; the
   first xml:space attribute whose value is "preserve" / "default" decides (any other value is skipped); no
   such attribute: not preserved.  internalShouldStripSourceNode: the first matching tester decides, and a
   strip decision is overridden when isXMLSpacePreserved(parent).
   (StripDefs.v threads the same information DOWN the tree as the inherited state of a `key`;
   StripXsModel.v proves that the upward search and the inherited state agree.) *)
From Coq Require Import String List NArith Bool.
Require Import XV.StripDefs.
Open Scope list_scope.
Import ListNotations.

Definition attrs := list (qname * str).

(* what one element's attributes say: Some true = preserve, Some false = default, None = nothing usable *)
Definition xml_space_attr (a : attrs) : option bool :=
  match find (fun x => N.eqb (fst (fst x)) xml_ns && N.eqb (snd (fst x)) space_local) a with
  | Some (_, v) => if str_eqb v preserve_value then Some true else if str_eqb v default_value then Some false else None
  | None => None
  end.

(* isXMLSpacePreserved: chain = the attribute lists of the parent, grandparent, ... (nearest first) *)
Fixpoint xml_space_walk (chain : list attrs) : bool :=
  match chain with
  | [] => false
  | a :: r => match xml_space_attr a with Some b => b | None => xml_space_walk r end
  end.

(* StylesheetRoot::shouldStripSourceNode after the fix *)
Definition should_strip_fixed (testers : list tester) (parent : qname) (chain : list attrs) (is_ws : bool) : bool :=
  match testers with
  | [] => false
  | _ => is_ws && match find (matches parent) testers with
                  | Some t => t_strip t && negb (xml_space_walk chain)
                  | None => false
                  end
  end.

(* is child k of an element named n, whose ancestor-or-self attribute lists are chain, ignored *)
Definition code_stripped (st : pred) (n : qname) (chain : list attrs) (k : node) : bool :=
  match k with
  | Text d => text_ws d && (st n && negb (xml_space_walk chain))
  | _ => false
  end.

(* physical removal with the decision taken as the code takes it (upward search from every text node) *)
Fixpoint code_remove (st : pred) (chain : list attrs) (x : node) : node :=
  match x with
  | Elem n a ks => Elem n a (filter (fun k => negb (code_stripped st n (a :: chain) k)) (map (code_remove st (a :: chain)) ks))
  | _ => x
  end.

(* the inherited state of StripDefs.v for a chain given nearest first *)
Definition inherited (chain : list attrs) : bool := fold_right (fun a xs => xml_space_of xs a) false chain.
