(* Exec2Base.v — C11, part "helpers": the vocabulary and the auxiliary lemmas of ExecModel.v that the
   proofs about the regenerated helper bodies use ([forget], [agrees], extensionality of the step /
   predicate / function machinery of XpDefs in the evaluator, the cases of XpDefs.call_function),
   copied here so that Exec2Step.v / Exec2Model.v / Properties_C11h.v do not depend on ExecModel.v —
   which also holds the digest fact helper_bodies_as_modelled, and stops compiling when a helper body
   is edited.  Nothing in this part of the development has that digest as a premise. *)
From Coq Require Import ZArith NArith List Bool Arith Lia SpecFloat.
Require Import XV.GenNum XV.NumDefs XV.XpAst XV.DomDefs XV.XpDefs XV.XpModel XV.ExecArms XV.GenExec XV.ExecDefs.
Import ListNotations.
Local Open Scope list_scope.

Lemma all_opcodes_complete : forall op, In op all_opcodes.
Proof. destruct op; unfold all_opcodes; repeat (try (left; reflexivity); right). Qed.

Lemma forall_opcodes (P : opcode -> bool) : forallb P all_opcodes = true -> forall op, P op = true.
Proof. intros H op. eapply forallb_forall in H; [exact H | apply all_opcodes_complete]. Qed.

(** * Part 2: one value *)
Definition forget {A} (r : res A) : option A := match r with Ok a => Some a | Err _ => None end.
Definition obind {A B} (o : option A) (f : A -> option B) : option B :=
  match o with Some a => f a | None => None end.

Lemma forget_bind {A B} (r : res A) (k : A -> res B) :
  forget (bind r k) = obind (forget r) (fun a => forget (k a)).
Proof. destruct r; reflexivity. Qed.

Lemma forget_ok {A} (r : res A) a : forget r = Some a -> r = Ok a.
Proof. destruct r; cbn; congruence. Qed.

Lemma forget_eq_bind {A B} (r1 r2 : res A) (k1 k2 : A -> res B) :
  forget r1 = forget r2 -> (forall a, forget (k1 a) = forget (k2 a)) ->
  forget (bind r1 k1) = forget (bind r2 k2).
Proof. intros H K. rewrite !forget_bind, H. destruct (forget r2); cbn; auto. Qed.

(* folds in the error monad *)
Lemma forget_fold {A B} (F1 F2 : res A -> B -> res A) :
  (forall a1 a2 b, forget a1 = forget a2 -> forget (F1 a1 b) = forget (F2 a2 b)) ->
  forall l a1 a2, forget a1 = forget a2 -> forget (fold_left F1 l a1) = forget (fold_left F2 l a2).
Proof. intros H. induction l as [|b l IH]; intros a1 a2 Ha; cbn [fold_left]; auto. Qed.

Lemma merge_ordered_id l : ordered l -> merge_doc_order [] l = l.
Proof.
  intros H. apply ordered_ext; [apply merge_ordered, ordered_nil | exact H |].
  intros x. rewrite merge_In. cbn. tauto.
Qed.

(** extensionality of the step / predicate / function machinery of XpDefs in the evaluator it is
    given, up to the kind of error, over the contexts that share the variable bindings *)
Section Ext.
  Variables ev1 ev2 : ctx -> expr -> res value.
  Variable P : ctx -> Prop.
  Hypothesis Pnode : forall c n l, P c -> P (with_node c n l).
  Hypothesis H12 : forall c e, P c -> forget (ev1 c e) = forget (ev2 c e).

  Lemma pred_filter_ext c l pe rest i : P c ->
    forget (pred_filter ev1 c l pe rest i) = forget (pred_filter ev2 c l pe rest i).
  Proof.
    intros Pc. revert i. induction rest as [|n r IH]; intros i; cbn [pred_filter]; [reflexivity|].
    apply forget_eq_bind; [apply H12, Pnode, Pc|]. intros v.
    apply forget_eq_bind; [apply IH|]. reflexivity.
  Qed.

  Lemma apply_pred_ext c l p : P c -> forget (apply_pred ev1 c l p) = forget (apply_pred ev2 c l p).
  Proof.
    intros Pc. unfold apply_pred. destruct l as [|a l']; [reflexivity|].
    destruct (snd p); try apply pred_filter_ext; auto.
  Qed.

  Lemma apply_preds_ext c ps : P c -> forall l, forget (apply_preds ev1 c l ps) = forget (apply_preds ev2 c l ps).
  Proof.
    intros Pc l. unfold apply_preds. apply forget_fold; [|reflexivity].
    intros a1 a2 p Ha. apply forget_eq_bind; [exact Ha|]. intros l'. apply apply_pred_ext, Pc.
  Qed.

  Lemma steps_from_ext c : P c -> forall sfuel sub rv rest,
    forget (steps_from ev1 c sfuel sub rv rest) = forget (steps_from ev2 c sfuel sub rv rest).
  Proof.
    intros Pc. induction sfuel as [|sf IH]; intros sub rv rest; cbn [steps_from]; [reflexivity|].
    destruct rest as [|[[ax t] ps] rest']; [reflexivity|].
    apply forget_fold; [|reflexivity].
    intros a1 a2 n Ha. apply forget_eq_bind; [exact Ha|]. intros q.
    apply forget_eq_bind; [reflexivity|]. intros [l0 rv0].
    apply forget_eq_bind; [apply apply_preds_ext, Pc|]. intros l1.
    apply forget_eq_bind; [apply IH|]. reflexivity.
  Qed.
End Ext.

Section FnExt.
  Variables ev1 ev2 : ctx -> expr -> res value.
  Variable c : ctx.
  Hypothesis H12 : forall e, forget (ev1 c e) = forget (ev2 c e).

  Lemma ev_num_ext x : forget (ev_num ev1 c x) = forget (ev_num ev2 c x).
  Proof. unfold ev_num. destruct x; try reflexivity; (apply forget_eq_bind; [apply H12 | reflexivity]). Qed.

  Lemma ev_bool_ext x : forget (ev_bool ev1 c x) = forget (ev_bool ev2 c x).
  Proof. unfold ev_bool. apply forget_eq_bind; [apply H12 | reflexivity]. Qed.

  Ltac ext1 :=
    first [ reflexivity | apply H12 | apply ev_num_ext | apply ev_bool_ext
          | apply forget_eq_bind; [|intro] ].

  Lemma call_function_ext name args :
    forget (call_function ev1 c name args) = forget (call_function ev2 c name args).
  Proof.
    unfold call_function.
    repeat match goal with
           | |- forget (if ?b then _ else _) = forget (if ?b then _ else _) => destruct b
           end;
    try (destruct args as [|a1 [|a2 [|a3 [|a4 rest]]]]; repeat ext1; fail).
    all: try reflexivity.
    destruct args as [|a1 [|a2 rest]]; try reflexivity.
    set (l := a1 :: a2 :: rest). clearbody l.
    apply forget_eq_bind; [|reflexivity].
    apply forget_fold; [|reflexivity].
    intros q1 q2 x Hq. apply forget_eq_bind; [exact Hq|]. intros q. repeat ext1.
  Qed.
End FnExt.

Record agrees (E : evs) (ev : ctx -> expr -> res value) (c : ctx) (e : expr) : Prop := mkAgrees {
  ag_g : forget (ev_g E c e) = forget (ev c e);
  ag_b : forget (ev_b E c e) = option_map to_boolean (forget (ev c e));
  ag_n : forget (ev_n E c e) = option_map (to_number c) (forget (ev c e));
  ag_s : forall buf, forget (ev_s E c e buf) = option_map (fun v => buf ++ to_string c v) (forget (ev c e));
  ag_f : forall acc, forget (ev_f E c e acc) = option_map (fun v => acc ++ to_string c v) (forget (ev c e));
  ag_l : option_map nl_nodes (forget (ev_l E c e)) = obind (forget (ev c e)) (fun v => forget (as_nodes v))
}.

Lemma vars_ordered_with_node c n l : vars_ordered c -> vars_ordered (with_node c n l).
Proof. intros H. exact H. Qed.

Lemma option_map_map {A B C} (g : B -> C) (h : A -> B) o : option_map g (option_map h o) = option_map (fun a => g (h a)) o.
Proof. destruct o; reflexivity. Qed.

Lemma xo_boolean_num_spec x : xo_boolean_num x = to_boolean (VNum x).
Proof. unfold xo_boolean_num; cbn. destruct (d_is_nan x), (d_is_zero x); reflexivity. Qed.

Ltac crush :=
  repeat (rewrite ?forget_bind;
          match goal with
          | |- context [obind (forget ?X) _] => destruct (forget X); cbn [obind option_map forget]
          end);
  try reflexivity.

(* the cases of XpDefs.call_function for the functions that have an op-code of their own *)
Section CallFn.
  Variable ev : ctx -> expr -> res value.
  Variable c : ctx.
  Let nodes_arg (x : expr) : res (list nat) := do v <- ev c x; as_nodes v.
  Let ctx_or_first (k : ctx -> nat -> str) (args : list expr) : res value :=
    match args with
    | [] => Ok (VStr (k c (cx_node c)))
    | [a] => do l <- nodes_arg a; Ok (VStr (match l with [] => [] | n :: _ => k c n end))
    | _ => Err EArgs
    end.
  Lemma cf_position args : call_function ev c s_position args =
    match args with [] => Ok (VNum (d_of_nat (position_of c))) | _ => Err EArgs end.
  Proof. reflexivity. Qed.
  Lemma cf_last args : call_function ev c s_last args =
    match args with [] => Ok (VNum (d_of_nat (length (cx_list c)))) | _ => Err EArgs end.
  Proof. reflexivity. Qed.
  Lemma cf_count args : call_function ev c s_count args =
    match args with [a] => do l <- nodes_arg a; Ok (VNum (d_of_nat (length l))) | _ => Err EArgs end.
  Proof. reflexivity. Qed.
  Lemma cf_not args : call_function ev c s_not args =
    match args with [a] => do b <- ev_bool ev c a; Ok (VBool (negb b)) | _ => Err EArgs end.
  Proof. reflexivity. Qed.
  Lemma cf_true args : call_function ev c s_true_fn args =
    match args with [] => Ok (VBool true) | _ => Err EArgs end.
  Proof. reflexivity. Qed.
  Lemma cf_false args : call_function ev c s_false_fn args =
    match args with [] => Ok (VBool false) | _ => Err EArgs end.
  Proof. reflexivity. Qed.
  Lemma cf_boolean args : call_function ev c s_boolean args =
    match args with [a] => do b <- ev_bool ev c a; Ok (VBool b) | _ => Err EArgs end.
  Proof. reflexivity. Qed.
  Lemma cf_name args : call_function ev c s_name args = ctx_or_first name_of args.
  Proof. reflexivity. Qed.
  Lemma cf_local_name args : call_function ev c s_local_name args = ctx_or_first local_name_of args.
  Proof. reflexivity. Qed.
  Lemma cf_number args : call_function ev c s_number args =
    match args with
    | [] => Ok (VNum (string_to_number (node_string c (cx_node c))))
    | [a] => do x <- ev_num ev c a; Ok (VNum x)
    | _ => Err EArgs
    end.
  Proof. reflexivity. Qed.
  Lemma cf_floor args : call_function ev c s_floor args =
    match args with [a] => do x <- ev_num ev c a; Ok (VNum (d_floor x)) | _ => Err EArgs end.
  Proof. reflexivity. Qed.
  Lemma cf_ceiling args : call_function ev c s_ceiling args =
    match args with [a] => do x <- ev_num ev c a; Ok (VNum (d_ceiling x)) | _ => Err EArgs end.
  Proof. reflexivity. Qed.
  Lemma cf_round args : call_function ev c s_round args =
    match args with [a] => do x <- ev_num ev c a; Ok (VNum (d_round x)) | _ => Err EArgs end.
  Proof. reflexivity. Qed.
  Lemma cf_sum args : call_function ev c s_sum args =
    match args with [a] => do l <- nodes_arg a; Ok (VNum (sum_nodes c l)) | _ => Err EArgs end.
  Proof. reflexivity. Qed.
  Lemma cf_string_length args : call_function ev c s_string_length args =
    match args with
    | [] => Ok (VNum (d_of_nat (length (node_string c (cx_node c)))))
    | [a] => do s <- (do v <- ev c a; Ok (to_string c v)); Ok (VNum (d_of_nat (length s)))
    | _ => Err EArgs
    end.
  Proof. reflexivity. Qed.
End CallFn.
